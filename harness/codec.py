"""Codec between the JSON form of the TLA+ terms of spec/Values.tla and real objects / pyanalyze Values."""
from __future__ import annotations

from typing import Any

from . import universe as U
from .core import MachineryError


# --------------------------------------------------------------------------- objects
# WIDE (off by default; switched on by the C01 driver only, inside its own worker processes): int / str / float objects
# outside the universe are encoded with their exact payload instead of the payload "other".
WIDE = False


def obj_to_py(o: dict) -> Any:
    c, v, items = o["c"], o["v"], o.get("items", [])
    if c == "type":
        return U.CLASSES[v]
    if c == "odd":  # C12: odd objects (add-only)
        return U.ODD[v]
    if c in ("list", "tuple", "set"):
        elts = [obj_to_py(x) for x in items]
        return {"list": list, "tuple": tuple, "set": set}[c](elts)
    if c == "dict":
        return {obj_to_py(kv["key"]): obj_to_py(kv["val"]) for kv in items}
    try:
        return U.SCALARS[(c, v)]
    except KeyError:
        raise MachineryError(f"object {o} is not in the universe")


def py_to_obj(x: Any) -> dict:
    """Inverse of obj_to_py; objects outside the universe get payload 'other' (equal to no literal)."""
    if isinstance(x, type):
        name = U.CLASS_NAME.get(x)
        return {"c": "type", "v": name if name is not None else "other", "items": []}
    t = type(x)
    if t in (list, tuple, set):
        return {"c": t.__name__, "v": "", "items": [py_to_obj(e) for e in (sorted(x, key=repr) if t is set else x)]}
    if t is dict:
        return {"c": "dict", "v": "", "items": [{"key": py_to_obj(k), "val": py_to_obj(v)} for k, v in x.items()]}
    for (c, v), val in U.SCALARS.items():
        if type(val) is t and val == x:
            return {"c": c, "v": v, "items": []}
    if WIDE and t in (int, str, float) and (t is not float or x - x == 0):
        # C01: scalars outside the universe keep their identity (payload = the text the universe uses for its own
        # scalars: str(int), repr(float), the string itself), so that Literal types of computed values are judged exactly
        return {"c": t.__name__, "v": x if t is str else (str(x) if t is int else repr(x)), "items": []}
    cname = U.CLASS_NAME.get(t, "other")
    return {"c": cname, "v": "other", "items": []}


def obj_literal(o: dict) -> str:
    """Python source text that evaluates to the object (inside a module that imports the universe)."""
    c, v, items = o["c"], o["v"], o.get("items", [])
    if c == "type":
        return {"NoneType": "type(None)"}.get(v, v)
    if c == "list":
        return "[" + ", ".join(obj_literal(x) for x in items) + "]"
    if c == "tuple":
        return "(" + "".join(obj_literal(x) + ", " for x in items) + ")"
    if c == "set":
        return "set()" if not items else "{" + ", ".join(obj_literal(x) for x in items) + "}"
    if c == "dict":
        return "{" + ", ".join(f"{obj_literal(kv['key'])}: {obj_literal(kv['val'])}" for kv in items) + "}"
    if c == "Color":
        return f"Color.{v}"
    if c == "A":
        return "A()"
    if c == "B":
        return "B()"
    return repr(U.SCALARS[(c, v)])


# --------------------------------------------------------------------------- type terms -> pyanalyze Values
def term_to_value(t: dict):
    from pyanalyze import value as V

    k = t["k"]
    if k == "any":
        src = {
            "explicit": V.AnySource.explicit,
            "unreachable": V.AnySource.unreachable,
            "generic_argument": V.AnySource.generic_argument,
        }[t.get("src", "explicit")]
        return V.AnyValue(src)
    if k == "known":
        return V.KnownValue(obj_to_py(t["o"]))
    if k == "typed":
        return V.TypedValue(U.CLASSES[t["c"]])
    if k == "newtype":
        return V.NewTypeValue(U.NEWTYPES[t["n"]])
    if k == "generic":
        return V.GenericValue(U.CLASSES[t["c"]], [term_to_value(a) for a in t["args"]])
    if k == "seq":
        return V.SequenceValue(U.CLASSES[t["c"]], [(bool(m["many"]), term_to_value(m["t"])) for m in t["ms"]])
    if k == "subclass":
        return V.SubclassValue(term_to_value(t["t"]))
    if k == "typevar":
        return V.TypeVarValue(U.TYPEVARS[t["n"]])
    if k == "typeddict":
        return V.TypedDictValue({e["key"]: V.TypedDictEntry(term_to_value(e["t"]), required=bool(e["req"]),
                                                             readonly=bool(e.get("ro", False))) for e in t["items"]})
    if k == "dictinc":
        return V.DictIncompleteValue(dict, [V.KVPair(term_to_value(p["key"]), term_to_value(p["val"]), bool(p["many"]),
                                                     bool(p["req"])) for p in t["kvs"]])
    if k == "union":
        if not t["ms"]:
            return V.NO_RETURN_VALUE
        return V.MultiValuedValue([term_to_value(m) for m in t["ms"]])
    # ---- C12 wide term space (spec/Values.tla OddTerms); add-only
    if k == "tvar":
        tv = {"TB": U.TB, "TC": U.TC, "PSPEC": U.PSPEC, "TVT": U.TVT, "T": U.T, "S": U.S}[t["n"]]
        return V.TypeVarValue(tv, bound=term_to_value(t["bound"][0]) if t.get("bound") else None,
                              constraints=tuple(term_to_value(c) for c in t.get("cons", [])),
                              is_paramspec=t["n"] == "PSPEC", is_typevartuple=t["n"] == "TVT")
    if k == "callable":
        from pyanalyze import signature as S

        kinds = {"pos": S.ParameterKind.POSITIONAL_ONLY, "pk": S.ParameterKind.POSITIONAL_OR_KEYWORD,
                 "kw": S.ParameterKind.KEYWORD_ONLY, "var": S.ParameterKind.VAR_POSITIONAL,
                 "varkw": S.ParameterKind.VAR_KEYWORD, "pspec": S.ParameterKind.PARAM_SPEC,
                 "ellipsis": S.ParameterKind.ELLIPSIS}
        params = []
        for prm in t["ps"]:
            kwargs = {}
            if prm.get("t"):
                kwargs["annotation"] = term_to_value(prm["t"][0])
            if prm.get("d"):
                kwargs["default"] = V.KnownValue(None)
            params.append(S.SigParameter(prm["n"], kinds[prm["kind"]], **kwargs))
        return V.CallableValue(S.Signature.make(params, term_to_value(t["ret"]), is_asynq=bool(t.get("asynq", False))))
    if k == "annotated":
        md = []
        for m in t["md"]:
            md.append(_extension(m))
        return V.AnnotatedValue(term_to_value(t["t"]), md)
    if k == "unpacked":
        return V.UnpackedValue(term_to_value(t["t"]))
    if k == "psargs":
        return V.ParamSpecArgsValue(U.PSPEC)
    if k == "pskwargs":
        return V.ParamSpecKwargsValue(U.PSPEC)
    if k == "special":
        from pyanalyze.stacked_scopes import Composite

        return {"void": V.VoidValue(), "uninitialized": V.UNINITIALIZED_VALUE, "synthmodule": V.SyntheticModuleValue(("_typeshed",)),
                "unboundmethod": V.UnboundMethodValue("append", Composite(V.TypedValue(list))),
                "varname": V.VariableNameValue(["uid"]), "synthtyped": V.TypedValue("_typeshed.SupportsWrite"),
                "synthgeneric": V.GenericValue("_typeshed.SupportsWrite", [V.TypedValue(int)]),
                "asynctask": V.AsyncTaskIncompleteValue(list, V.TypedValue(int)),
                "knowntv": V.KnownValueWithTypeVars(U.odd_function, {U.T: V.TypedValue(int)}),
                # bound methods as the visitor infers them for an attribute of a receiver of known type
                **{"um_" + m: V.UnboundMethodValue(m, Composite(V.TypedValue(U.OddMethods)))
                   for m in ("plain", "noparams", "kwonly", "kwargs_only", "varargs", "selfann", "defaults", "cm", "sm", "__call__")},
                "um_known_receiver": V.UnboundMethodValue("noparams", Composite(V.KnownValue(U.ODD["callable_obj"]))),
                "um_missing": V.UnboundMethodValue("no_such_method", Composite(V.TypedValue(U.OddMethods))),
                "typedcallable": V.TypedValue(__import__("collections").abc.Callable),
                "callbackproto": V.TypedValue(U.CallbackProto)}[t["n"]]
    # ---- C14 substitution contexts (spec/SubstContexts.tla); add-only
    if k == "tdx":  # TypedDictValue with extra_keys
        return V.TypedDictValue({e["key"]: V.TypedDictEntry(term_to_value(e["t"]), required=bool(e["req"]),
                                                             readonly=bool(e.get("ro", False))) for e in t["items"]},
                                extra_keys=term_to_value(t["extra"][0]) if t["extra"] else None,
                                extra_keys_readonly=bool(t["xro"]))
    if k == "asynctask":
        return V.AsyncTaskIncompleteValue(list, term_to_value(t["t"]))
    if k == "exactly":  # SubclassValue(typ, exactly=True)
        return V.SubclassValue(term_to_value(t["t"]), exactly=True)
    if k == "knowntv":  # KnownValueWithTypeVars (only ever a result of substitute_typevars)
        return V.KnownValueWithTypeVars(obj_to_py(t["o"]), {U.T: V.TypedValue(int)})
    raise MachineryError(f"cannot decode term {t}")


def _extension(m: dict):
    """metadata of an AnnotatedValue term: a Value term or one of pyanalyze's Extension objects"""
    from pyanalyze import extensions as E
    from pyanalyze import value as V

    kind = m["x"]
    if kind == "value":
        return term_to_value(m["t"])
    if kind == "literalonly":
        return V.CustomCheckExtension(E.LiteralOnly())
    if kind == "noany":
        return V.CustomCheckExtension(E.NoAny(deep=True))
    if kind == "hasattr":
        return V.HasAttrExtension(V.KnownValue("x"), term_to_value(m["t"]))
    if kind == "typeguard":
        return V.TypeGuardExtension(term_to_value(m["t"]))
    if kind == "typeis":
        return V.TypeIsExtension(term_to_value(m["t"]))
    if kind == "paramguard":
        return V.ParameterTypeGuardExtension("x", term_to_value(m["t"]))
    if kind == "alwayspresent":
        return V.AlwaysPresentExtension()
    if kind == "definite":
        return V.DefiniteValueExtension(True)
    if kind == "sysplatform":
        return V.SysPlatformExtension()
    if kind == "deprecated":
        return V.DeprecatedExtension("old")
    # C14 (add-only): the remaining Extension classes that carry Values
    if kind == "noreturnguard":
        return V.NoReturnGuardExtension("x", term_to_value(m["t"]))
    if kind == "hasattrguard":
        return V.HasAttrGuardExtension("x", V.KnownValue("y"), term_to_value(m["t"]))
    raise MachineryError(f"cannot decode extension {m}")


def value_to_term(v, dictinc: bool = False) -> dict:
    """pyanalyze Value -> term (raises MachineryError for values outside the modelled algebra).
    dictinc: keep the key-value pairs of a DictIncompleteValue (otherwise it is read as the dict[K, V] it also is)."""
    from pyanalyze import value as V

    if dictinc:
        return _value_to_term_dictinc(v)
    if isinstance(v, V.AnnotatedValue):
        return value_to_term(v.value)
    if isinstance(v, V.AnyValue):
        src = {
            V.AnySource.unreachable: "unreachable",
            V.AnySource.generic_argument: "generic_argument",
        }.get(v.source, "explicit")
        return {"k": "any", "src": src}
    if isinstance(v, V.TypeVarValue):
        return {"k": "typevar", "n": getattr(v.typevar, "__name__", "other")}
    if isinstance(v, V.KnownValue):
        return {"k": "known", "o": py_to_obj(v.val)}
    if isinstance(v, V.MultiValuedValue):
        return {"k": "union", "ms": [value_to_term(m) for m in v.vals]}
    if isinstance(v, V.SubclassValue):
        return {"k": "subclass", "t": value_to_term(v.typ)}
    if isinstance(v, V.NewTypeValue):
        return {"k": "newtype", "n": v.name, "c": U.CLASS_NAME.get(v.typ, "other")}
    if isinstance(v, V.TypedDictValue):
        if v.extra_keys is not None:
            raise MachineryError("TypedDict with extra keys is outside the modelled algebra")
        return {"k": "typeddict", "c": "dict", "items": [{"key": k, "req": bool(e.required), "ro": bool(e.readonly),
                                                            "t": value_to_term(e.typ)} for k, e in v.items.items()]}
    if isinstance(v, V.SequenceValue):
        return {
            "k": "seq",
            "c": U.CLASS_NAME.get(v.typ, "other"),
            "ms": [{"many": bool(m), "t": value_to_term(t)} for m, t in v.members],
        }
    if isinstance(v, V.DictIncompleteValue):
        return {"k": "generic", "c": U.CLASS_NAME.get(v.typ, "other"), "args": [value_to_term(a) for a in v.args]}
    if isinstance(v, V.GenericValue):
        return {"k": "generic", "c": U.CLASS_NAME.get(v.typ, "other"), "args": [value_to_term(a) for a in v.args]}
    if isinstance(v, V.TypedValue):
        return {"k": "typed", "c": U.CLASS_NAME.get(v.typ, "other")}
    raise MachineryError(f"value {v!r} is outside the modelled algebra")


def _value_to_term_dictinc(v) -> dict:
    from pyanalyze import value as V

    rec = _value_to_term_dictinc
    if isinstance(v, V.DictIncompleteValue) and v.typ is dict:
        return {"k": "dictinc", "c": "dict", "kvs": [{"key": rec(p.key), "val": rec(p.value), "many": bool(p.is_many),
                                                      "req": bool(p.is_required)} for p in v.kv_pairs]}
    if isinstance(v, V.MultiValuedValue):
        return {"k": "union", "ms": [rec(m) for m in v.vals]}
    if isinstance(v, V.SubclassValue):
        return {"k": "subclass", "t": rec(v.typ)}
    if isinstance(v, V.TypedDictValue):
        if v.extra_keys is not None:
            raise MachineryError("TypedDict with extra keys is outside the modelled algebra")
        return {"k": "typeddict", "c": "dict", "items": [{"key": k, "req": bool(e.required), "ro": bool(e.readonly),
                                                            "t": rec(e.typ)} for k, e in v.items.items()]}
    if isinstance(v, V.SequenceValue):
        return {"k": "seq", "c": U.CLASS_NAME.get(v.typ, "other"), "ms": [{"many": bool(m), "t": rec(t)} for m, t in v.members]}
    if type(v) is V.GenericValue:
        return {"k": "generic", "c": U.CLASS_NAME.get(v.typ, "other"), "args": [rec(a) for a in v.args]}
    return value_to_term(v)


# --------------------------------------------------------------------------- C14: wide encoder (add-only)
def _obj_wide(x: Any) -> dict:
    """py_to_obj that also recognises the odd objects of the universe (by identity)."""
    for name, obj in U.ODD.items():
        if obj is x:
            return {"c": "odd", "v": name, "items": []}
    return py_to_obj(x)


def _ext_to_term(e) -> dict:
    """Inverse of _extension.  Attributes of an Extension that are fixed by the decoder (variable / attribute names) are
    checked: if the real code changed one of them the kind is suffixed with '!' so that TLC sees a different term."""
    from pyanalyze import extensions as E
    from pyanalyze import value as V

    w = value_to_term_wide
    anyt = {"k": "any", "src": "explicit"}
    if isinstance(e, V.Value):
        return {"x": "value", "t": w(e)}
    if isinstance(e, V.CustomCheckExtension):
        if isinstance(e.custom_check, E.LiteralOnly):
            return {"x": "literalonly", "t": anyt}
        if isinstance(e.custom_check, E.NoAny):
            return {"x": "noany" if e.custom_check.deep else "noany!", "t": anyt}
        return {"x": "customcheck!", "t": anyt}
    if isinstance(e, V.HasAttrExtension):
        return {"x": "hasattr" if e.attribute_name == V.KnownValue("x") else "hasattr!", "t": w(e.attribute_type)}
    if isinstance(e, V.HasAttrGuardExtension):
        ok = e.varname == "x" and e.attribute_name == V.KnownValue("y")
        return {"x": "hasattrguard" if ok else "hasattrguard!", "t": w(e.attribute_type)}
    if isinstance(e, V.TypeGuardExtension):
        return {"x": "typeguard", "t": w(e.guarded_type)}
    if isinstance(e, V.TypeIsExtension):
        return {"x": "typeis", "t": w(e.guarded_type)}
    if isinstance(e, V.ParameterTypeGuardExtension):
        return {"x": "paramguard" if e.varname == "x" else "paramguard!", "t": w(e.guarded_type)}
    if isinstance(e, V.NoReturnGuardExtension):
        return {"x": "noreturnguard" if e.varname == "x" else "noreturnguard!", "t": w(e.guarded_type)}
    if isinstance(e, V.AlwaysPresentExtension):
        return {"x": "alwayspresent", "t": anyt}
    if isinstance(e, V.DefiniteValueExtension):
        return {"x": "definite" if e.value is True else "definite!", "t": anyt}
    if isinstance(e, V.SysPlatformExtension):
        return {"x": "sysplatform", "t": anyt}
    if isinstance(e, V.DeprecatedExtension):
        return {"x": "deprecated" if e.deprecation_message == "old" else "deprecated!", "t": anyt}
    raise MachineryError(f"extension {e!r} is outside the modelled algebra")


def value_to_term_wide(v) -> dict:
    """pyanalyze Value -> term, for the wide term language of spec/SubstContexts.tla: everything value_to_term(dictinc=True)
    encodes plus AnnotatedValue (kept, with its metadata), CallableValue, TypedDict extra keys, SubclassValue(exactly=True),
    UnpackedValue, AsyncTaskIncompleteValue, KnownValueWithTypeVars, KnownValue of an odd object, TypeVarValue with bound /
    constraints.  Attributes outside the term language that the decoder fixes are encoded as a visible change ('!')."""
    from pyanalyze import signature as S
    from pyanalyze import value as V

    w = value_to_term_wide
    if isinstance(v, V.AnnotatedValue):
        return {"k": "annotated", "t": w(v.value), "md": [_ext_to_term(e) for e in v.metadata]}
    if isinstance(v, V.KnownValueWithTypeVars):
        return {"k": "knowntv", "o": _obj_wide(v.val)}
    if isinstance(v, V.KnownValue):
        return {"k": "known", "o": _obj_wide(v.val)}
    if isinstance(v, V.TypeVarValue):
        name = getattr(v.typevar, "__name__", "other")
        if v.bound is None and not v.constraints and not v.is_paramspec and not v.is_typevartuple:
            return {"k": "typevar", "n": name}
        return {"k": "tvar", "n": name, "bound": [w(v.bound)] if v.bound is not None else [], "cons": [w(c) for c in v.constraints]}
    if isinstance(v, V.MultiValuedValue):
        return {"k": "union", "ms": [w(m) for m in v.vals]}
    if isinstance(v, V.SubclassValue):
        return {"k": "exactly" if v.exactly else "subclass", "t": w(v.typ)}
    if isinstance(v, V.UnpackedValue):
        return {"k": "unpacked", "t": w(v.value)}
    if isinstance(v, V.TypedDictValue):
        items = [{"key": k, "req": bool(e.required), "ro": bool(e.readonly), "t": w(e.typ)} for k, e in v.items.items()]
        if v.extra_keys is None and not v.extra_keys_readonly:
            return {"k": "typeddict", "c": "dict", "items": items}
        return {"k": "tdx", "c": "dict", "items": items, "extra": [w(v.extra_keys)] if v.extra_keys is not None else [],
                "xro": bool(v.extra_keys_readonly)}
    if isinstance(v, V.SequenceValue):
        return {"k": "seq", "c": U.CLASS_NAME.get(v.typ, "other"), "ms": [{"many": bool(m), "t": w(t)} for m, t in v.members]}
    if isinstance(v, V.DictIncompleteValue):
        return {"k": "dictinc", "c": U.CLASS_NAME.get(v.typ, "other"),
                "kvs": [{"key": w(p.key), "val": w(p.value), "many": bool(p.is_many), "req": bool(p.is_required)} for p in v.kv_pairs]}
    if isinstance(v, V.AsyncTaskIncompleteValue):
        return {"k": "asynctask" if v.typ is list else "asynctask!", "t": w(v.value)}
    if isinstance(v, V.CallableValue):
        sig = v.signature
        if not isinstance(sig, S.Signature):
            raise MachineryError(f"callable {v!r} is outside the modelled algebra")
        kinds = {S.ParameterKind.POSITIONAL_ONLY: "pos", S.ParameterKind.POSITIONAL_OR_KEYWORD: "pk",
                 S.ParameterKind.KEYWORD_ONLY: "kw", S.ParameterKind.VAR_POSITIONAL: "var",
                 S.ParameterKind.VAR_KEYWORD: "varkw", S.ParameterKind.PARAM_SPEC: "pspec", S.ParameterKind.ELLIPSIS: "ellipsis"}
        ps = []
        for name, prm in sig.parameters.items():
            unann = isinstance(prm.annotation, V.AnyValue) and prm.annotation.source is V.AnySource.unannotated
            d = prm.default is not None
            kind = kinds[prm.kind]
            if name != prm.name or (d and prm.default != V.KnownValue(None)):
                kind += "!"
            ps.append({"n": prm.name, "kind": kind, "t": [] if unann else [w(prm.annotation)], "d": d})
        out = {"k": "callable", "ps": ps, "ret": w(sig.return_value)}
        if sig.is_asynq:
            out["asynq"] = True
        import collections.abc

        if (v.typ is not collections.abc.Callable or not sig.has_return_annotation or sig.allow_call or sig.evaluator is not None
                or sig.deprecated is not None or sig.impl is not None or sig.callable is not None):
            out["k"] = "callable!"
        return out
    if type(v) is V.GenericValue:
        return {"k": "generic", "c": U.CLASS_NAME.get(v.typ, "other"), "args": [w(a) for a in v.args]}
    if isinstance(v, V.AnyValue) and v.source is V.AnySource.unannotated:
        return {"k": "any", "src": "unannotated"}
    if isinstance(v, (V.AnyValue, V.NewTypeValue)) or type(v) is V.TypedValue:
        return value_to_term(v)
    raise MachineryError(f"value {v!r} is outside the modelled algebra")


# --------------------------------------------------------------------------- type terms -> annotation source
def term_to_annotation(t: dict) -> str:
    """Source text of a typing annotation denoting the term (None if it has no annotation syntax)."""
    k = t["k"]
    if k == "any":
        return "Any"
    if k == "known":
        o = t["o"]
        if o["c"] in ("int", "bool", "str", "NoneType", "Color"):
            return f"Literal[{obj_literal(o)}]"
        if o["c"] == "type":
            raise MachineryError("no annotation for a class literal")
        raise MachineryError(f"no Literal[] annotation for {o}")
    if k == "typed":
        return {"NoneType": "None", "Sequence": "Sequence", "Iterable": "Iterable", "Mapping": "Mapping"}.get(t["c"], t["c"])
    if k == "newtype":
        return t["n"]
    if k == "generic":
        args = [term_to_annotation(a) for a in t["args"]]
        if t["c"] == "tuple":
            return f"tuple[{args[0]}, ...]"
        return f"{t['c']}[{', '.join(args)}]"
    if k == "seq":
        if t["c"] != "tuple":
            raise MachineryError("no annotation for a list display type")
        if not t["ms"]:
            return "tuple[()]"
        parts = []
        for m in t["ms"]:
            a = term_to_annotation(m["t"])
            parts.append(f"*tuple[{a}, ...]" if m["many"] else a)
        return f"tuple[{', '.join(parts)}]"
    if k == "subclass":
        return f"type[{term_to_annotation(t['t'])}]"
    if k == "typeddict":
        return "HU." + U.td_name([(e["key"], bool(e["req"]), bool(e.get("ro", False)), _td_type_name(e["t"])) for e in t["items"]])
    if k == "union":
        if not t["ms"]:
            return "Never"
        return "Union[" + ", ".join(term_to_annotation(m) for m in t["ms"]) + "]"
    raise MachineryError(f"cannot render term {t}")


def _td_type_name(t: dict) -> str:
    if t == {"k": "typed", "c": "int"}:
        return "int"
    if t == {"k": "typed", "c": "str"}:
        return "str"
    if t["k"] == "union" and [m.get("c") or m.get("o", {}).get("c") for m in t["ms"]] == ["int", "NoneType"]:
        return "optint"
    raise MachineryError(f"no TypedDict class for entry type {t}")


PRELUDE = (
    "from typing import Any, Literal, Union, Optional, NewType\n"
    "from typing_extensions import Never, reveal_type\n"
    "from collections.abc import Sequence, Iterable, Mapping\n"
    "from harness.universe import A, B, Color, N\n"
    "from harness import universe as HU\n"
)
