"""Real Python counterparts of the class/object universe of spec/Values.tla."""
from __future__ import annotations

import collections.abc
import enum
import typing


class A:
    def __repr__(self) -> str:
        return "A()"

    def __eq__(self, other: object) -> bool:
        return type(other) is type(self)

    def __hash__(self) -> int:
        return hash(type(self).__name__)


class B(A):
    def __repr__(self) -> str:
        return "B()"


class Color(enum.Enum):
    RED = 1
    GREEN = 2


N = typing.NewType("N", int)
T = typing.TypeVar("T")
S = typing.TypeVar("S")
TYPEVARS = {"T": T, "S": S}

CLASSES = {
    "object": object,
    "int": int,
    "bool": bool,
    "float": float,
    "complex": complex,
    "str": str,
    "NoneType": type(None),
    "list": list,
    "tuple": tuple,
    "dict": dict,
    "set": set,
    "type": type,
    "A": A,
    "B": B,
    "Color": Color,
    "Sequence": collections.abc.Sequence,
    "Iterable": collections.abc.Iterable,
    "Mapping": collections.abc.Mapping,
}
CLASS_NAME = {v: k for k, v in CLASSES.items()}
NEWTYPES = {"N": N}

_A = A()
_B = B()

SCALARS = {
    ("int", "0"): 0,
    ("int", "1"): 1,
    ("int", "2"): 2,
    ("bool", "True"): True,
    ("bool", "False"): False,
    ("float", "1.5"): 1.5,
    ("float", "1.0"): 1.0,
    ("str", "a"): "a",
    ("str", ""): "",
    ("str", "ab"): "ab",
    ("str", "b"): "b",
    ("NoneType", "None"): None,
    ("Color", "RED"): Color.RED,
    ("Color", "GREEN"): Color.GREEN,
    ("A", "a"): _A,
    ("B", "b"): _B,
}


# --------------------------------------------------------------------------- TypedDict classes for the TD terms
# (functional syntax, typing_extensions: NotRequired / ReadOnly); one class per term, named after its entries,
# published as module attributes so that annotations can say `HU.<name>`
import typing_extensions as _te

_TD_TYPES = {"int": int, "optint": typing.Optional[int], "str": str}
TD_CLASSES: dict[str, type] = {}


def td_name(items: list[tuple[str, bool, bool, str]]) -> str:
    """items: (key, required, readonly, type name)"""
    return "TD_" + "_".join(f"{k}{'R' if req else 'N'}{'o' if ro else 'w'}{tn}" for k, req, ro, tn in items)


def td_class(items: list[tuple[str, bool, bool, str]]) -> type:
    name = td_name(items)
    cls = TD_CLASSES.get(name)
    if cls is None:
        fields = {}
        for k, req, ro, tn in items:
            ty = _TD_TYPES[tn]
            if ro:
                ty = _te.ReadOnly[ty]
            if not req:
                ty = _te.NotRequired[ty]
            fields[k] = ty
        cls = _te.TypedDict(name, fields)
        cls.__module__ = __name__
        TD_CLASSES[name] = cls
        globals()[name] = cls
    return cls


for _r in (True, False):
    for _ro in (True, False):
        for _ty in ("int", "optint"):
            for _bs in ([], [("b", True, False, "str")], [("b", False, False, "str")]):
                td_class([("a", _r, _ro, _ty)] + _bs)
