"""Real Python counterparts of the class/object universe of spec/Values.tla."""
from __future__ import annotations

import collections.abc
import enum
import typing


class A:
    def __repr__(self) -> str:
        return "A()"

    def __eq__(self, other: object) -> bool:
        return type(other) is type(self)

    def __hash__(self) -> int:
        return hash(type(self).__name__)


class B(A):
    def __repr__(self) -> str:
        return "B()"


class Color(enum.Enum):
    RED = 1
    GREEN = 2


N = typing.NewType("N", int)
T = typing.TypeVar("T")
S = typing.TypeVar("S")
TYPEVARS = {"T": T, "S": S}

CLASSES = {
    "object": object,
    "int": int,
    "bool": bool,
    "float": float,
    "complex": complex,
    "str": str,
    "NoneType": type(None),
    "list": list,
    "tuple": tuple,
    "dict": dict,
    "set": set,
    "type": type,
    "A": A,
    "B": B,
    "Color": Color,
    "Sequence": collections.abc.Sequence,
    "Iterable": collections.abc.Iterable,
    "Mapping": collections.abc.Mapping,
}
CLASS_NAME = {v: k for k, v in CLASSES.items()}
NEWTYPES = {"N": N}

_A = A()
_B = B()

SCALARS = {
    ("int", "0"): 0,
    ("int", "1"): 1,
    ("int", "2"): 2,
    ("bool", "True"): True,
    ("bool", "False"): False,
    ("float", "1.5"): 1.5,
    ("float", "1.0"): 1.0,
    ("str", "a"): "a",
    ("str", ""): "",
    ("str", "ab"): "ab",
    ("str", "b"): "b",
    ("NoneType", "None"): None,
    ("Color", "RED"): Color.RED,
    ("Color", "GREEN"): Color.GREEN,
    ("A", "a"): _A,
    ("B", "b"): _B,
}


# --------------------------------------------------------------------------- TypedDict classes for the TD terms
# (functional syntax, typing_extensions: NotRequired / ReadOnly); one class per term, named after its entries,
# published as module attributes so that annotations can say `HU.<name>`
import typing_extensions as _te

_TD_TYPES = {"int": int, "optint": typing.Optional[int], "str": str}
TD_CLASSES: dict[str, type] = {}


def td_name(items: list[tuple[str, bool, bool, str]]) -> str:
    """items: (key, required, readonly, type name)"""
    return "TD_" + "_".join(f"{k}{'R' if req else 'N'}{'o' if ro else 'w'}{tn}" for k, req, ro, tn in items)


def td_class(items: list[tuple[str, bool, bool, str]]) -> type:
    name = td_name(items)
    cls = TD_CLASSES.get(name)
    if cls is None:
        fields = {}
        for k, req, ro, tn in items:
            ty = _TD_TYPES[tn]
            if ro:
                ty = _te.ReadOnly[ty]
            if not req:
                ty = _te.NotRequired[ty]
            fields[k] = ty
        cls = _te.TypedDict(name, fields)
        cls.__module__ = __name__
        TD_CLASSES[name] = cls
        globals()[name] = cls
    return cls


for _r in (True, False):
    for _ro in (True, False):
        for _ty in ("int", "optint"):
            for _bs in ([], [("b", True, False, "str")], [("b", False, False, "str")]):
                td_class([("a", _r, _ro, _ty)] + _bs)


# --------------------------------------------------------------------------- C12: odd objects and type-variable-likes
# (add-only; terms [k |-> "known", o |-> [c |-> "odd", v |-> <name>]] and [k |-> "typevar", n |-> <name>] of
# spec/Values.tla OddTerms; used by the value-API totality slice of C12)
import types as _types


def odd_function(x: int, *args: str, k: int = 0, **kw: object) -> int:
    return x


class Unhashable:
    __hash__ = None  # type: ignore[assignment]

    def __eq__(self, other: object) -> bool:
        return self is other

    def __repr__(self) -> str:
        return "Unhashable()"


class EqRaises:
    def __eq__(self, other: object) -> bool:
        raise RuntimeError("__eq__ raises")

    def __hash__(self) -> int:
        return 7

    def __repr__(self) -> str:
        return "EqRaises()"


class HashRaises:
    """unhashable the documented way: __hash__ raises TypeError"""

    def __hash__(self) -> int:
        raise TypeError("unhashable HashRaises")

    def __repr__(self) -> str:
        return "HashRaises()"


class HashRaisesOther:
    def __hash__(self) -> int:
        raise RuntimeError("__hash__ raises")

    def __repr__(self) -> str:
        return "HashRaisesOther()"


class BoolRaises:
    def __bool__(self) -> bool:
        raise RuntimeError("__bool__ raises")

    def __repr__(self) -> str:
        return "BoolRaises()"


class EqReturnsOdd:
    """== returns an object whose truth value raises (numpy-array style)"""

    def __eq__(self, other: object) -> object:  # type: ignore[override]
        return BoolRaises()

    def __hash__(self) -> int:
        return 11

    def __repr__(self) -> str:
        return "EqReturnsOdd()"


ODD = {
    "function": odd_function,
    "lambda": (lambda: 0),
    "builtin": len,
    "method": A().__repr__,
    "module": _types,
    "class": A,
    "genericalias": list[int],
    "unhashable": Unhashable(),
    "eqraises": EqRaises(),
    "hashraises": HashRaises(),
    "hashraises_rt": HashRaisesOther(),
    "boolraises": BoolRaises(),
    "eqodd": EqReturnsOdd(),
    "nan": float("nan"),
    "ellipsis": ...,
    "notimplemented": NotImplemented,
    "bytearray": bytearray(b"x"),
    "slice": slice(1, 2),
    "frozenset": frozenset({1}),
    "range": range(3),
}

TB = typing.TypeVar("TB", bound=int)
TC = typing.TypeVar("TC", int, str)
PSPEC = typing.ParamSpec("PSPEC")
TVT = _te.TypeVarTuple("TVT")
TYPEVARS.update({"TB": TB, "TC": TC})
N2 = typing.NewType("N2", str)
NEWTYPES.update({"N2": N2})


# --------------------------------------------------------------------------- C12: callables with odd parameter lists
import functools as _functools


class OddMethods:
    """Methods whose `self` cannot always be bound: obj.method evaluates fine, only calling it may raise."""

    def plain(self, x: int) -> int:
        return x

    def noparams():  # type: ignore[misc]
        return 1

    def kwonly(*, k: int = 1):  # type: ignore[misc]
        return k

    def kwargs_only(**kw: object):  # type: ignore[misc]
        return kw

    def varargs(*args: object):  # type: ignore[misc]
        return args

    def selfann(self: int, x: int) -> int:  # type: ignore[misc]
        return x

    def defaults(self, x: int = 0, *a: str, k: int = 0, **kw: object) -> str:
        return ""

    @classmethod
    def cm(cls, x: int) -> int:
        return x

    @staticmethod
    def sm(x: int) -> int:
        return x

    def __call__(self, x: int) -> int:
        return x

    def __repr__(self) -> str:
        return "OddMethods()"


@typing.overload
def odd_overloaded(x: int) -> int: ...
@typing.overload
def odd_overloaded(x: str) -> str: ...
def odd_overloaded(x: object) -> object:
    return x


class CallbackProto(typing.Protocol):
    def __call__(self, x: int) -> int: ...


_OM = OddMethods()
ODD.update({
    "bm_plain": _OM.plain, "bm_noparams": _OM.noparams, "bm_kwonly": _OM.kwonly, "bm_kwargs": _OM.kwargs_only,
    "bm_varargs": _OM.varargs, "bm_selfann": _OM.selfann, "bm_defaults": _OM.defaults, "bm_classmethod": OddMethods.cm,
    "fn_static": OddMethods.sm, "fn_unbound": OddMethods.plain, "fn_unbound_noparams": OddMethods.noparams,
    "bm_builtin": [].append, "bm_strjoin": "s".join, "partial": _functools.partial(odd_function, 1),
    "partial_bm": _functools.partial(_OM.noparams), "overloaded": odd_overloaded, "callable_obj": _OM, "callable_cls": OddMethods,
    "builtin_cls": int, "method_descriptor": str.join, "wrapper_descriptor": int.__add__, "bm_dunder": (1).__add__,
})
