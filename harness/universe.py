"""Real Python counterparts of the class/object universe of spec/Values.tla."""
from __future__ import annotations

import collections.abc
import enum
import typing


class A:
    def __repr__(self) -> str:
        return "A()"

    def __eq__(self, other: object) -> bool:
        return type(other) is type(self)

    def __hash__(self) -> int:
        return hash(type(self).__name__)


class B(A):
    def __repr__(self) -> str:
        return "B()"


class Color(enum.Enum):
    RED = 1
    GREEN = 2


N = typing.NewType("N", int)
T = typing.TypeVar("T")
S = typing.TypeVar("S")
TYPEVARS = {"T": T, "S": S}

CLASSES = {
    "object": object,
    "int": int,
    "bool": bool,
    "float": float,
    "complex": complex,
    "str": str,
    "NoneType": type(None),
    "list": list,
    "tuple": tuple,
    "dict": dict,
    "set": set,
    "type": type,
    "A": A,
    "B": B,
    "Color": Color,
    "Sequence": collections.abc.Sequence,
    "Iterable": collections.abc.Iterable,
    "Mapping": collections.abc.Mapping,
}
CLASS_NAME = {v: k for k, v in CLASSES.items()}
NEWTYPES = {"N": N}

_A = A()
_B = B()

SCALARS = {
    ("int", "0"): 0,
    ("int", "1"): 1,
    ("int", "2"): 2,
    ("bool", "True"): True,
    ("bool", "False"): False,
    ("float", "1.5"): 1.5,
    ("float", "1.0"): 1.0,
    ("str", "a"): "a",
    ("str", ""): "",
    ("str", "ab"): "ab",
    ("NoneType", "None"): None,
    ("Color", "RED"): Color.RED,
    ("Color", "GREEN"): Color.GREEN,
    ("A", "a"): _A,
    ("B", "b"): _B,
}
