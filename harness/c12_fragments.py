"""C12: rendering of the TLC-generated module descriptions (spec/Totality.tla) to Python source text.

A module is PRELUDE + one block per fragment.  A fragment is [kind, a, b, w]: a fragment kind applied to operand
kinds a / b (OPERAND / ANNOT give the source text of an operand used as expression / as annotation) inside the
scope nesting w (a sequence of scope kinds chosen by TLC: "def", "async", "class", always ending in a function
scope so that nothing of the fragment runs at import).  Fragments are deliberately ill-typed.
"""
from __future__ import annotations

from . import core

PRELUDE = '''import asyncio
import contextlib
import enum
import functools
import os
import sys
from dataclasses import InitVar, dataclass, field
from typing import (Annotated, Any, AsyncIterator, Awaitable, Callable, ClassVar, Concatenate, Final, Generator, Generic,
                    Iterator, List, Literal, NamedTuple, NewType, NoReturn, Optional, ParamSpec, Protocol, Type, TypeVar, Union,
                    cast, overload, runtime_checkable, TYPE_CHECKING)
from typing_extensions import (Never, NotRequired, ReadOnly, Required, Self, TypedDict, TypeGuard, TypeIs, TypeVarTuple,
                               Unpack, assert_never, assert_type, reveal_type)
from pyanalyze.extensions import assert_error, reveal_locals
from pyanalyze.value import dump_value

TT = TypeVar("TT", bound=int)
PS = ParamSpec("PS")
Ts = TypeVarTuple("Ts")

def helper_fn(x: int, y: str = "") -> int:
    return x

class HelperCls:
    a: int = 1
    def method(self, q: int) -> str:
        return ""

@dataclass
class HelperDC:
    f: int
    g: str = ""

@overload
def ov(x: int) -> int: ...
@overload
def ov(x: str) -> str: ...
def ov(x: Union[int, str]) -> Union[int, str]:
    return x

class HelperCB:
    def plain(self, x: int) -> int:
        return x
    def noparams():
        return 1
    def kwonly(*, k: int = 1):
        return k
    def kwargs_only(**kw):
        return kw
    def varargs(*args):
        return args
    def selfann(self: int, x: int) -> int:
        return x
    @classmethod
    def cm(cls, x: int) -> int:
        return x
    @staticmethod
    def sm(x: int) -> int:
        return x
    def __call__(self, x: int) -> int:
        return x

CBI = HelperCB()

def take0(cb: Callable[[], object]) -> None: ...
def take1(cb: Callable[[int], int]) -> None: ...
def takeany(cb: Callable[..., Any]) -> None: ...
def takeps(cb: Callable[PS, TT], *a: PS.args, **k: PS.kwargs) -> TT: ...

HT = ("a", [1])           # nominally hashable (a tuple), hash() raises
HTD = ("a", {"k": 1})
HTS = ((1, {2}),)

class HashTE:
    def __hash__(self):
        raise TypeError("unhashable HashTE")

HTE = HashTE()

type PA[**P] = Callable[P, int]
type PB[**P, T] = Callable[P, T]
type PC[T, **P] = Callable[Concatenate[T, P], T]

GG = 0
'''

OPERAND = {
    "int": "(1)", "str": '"s"', "none": "None", "list": '[1, "a"]', "dict": '{"k": 1}', "tuple": '(1, "a")',
    "func": "helper_fn", "cls": "HelperCls", "module": "os", "undefined": "zz_undefined_name", "float": "(1.5)",
    "bytes": 'b"x"', "set": "{1, 2}",
}
ANNOT = {
    "int": "int", "str": "str", "none": "None", "list": "list[int]", "dict": "dict[str, int]", "tuple": "tuple[int, *tuple[str, ...]]",
    "func": "helper_fn", "cls": "HelperCls", "module": "os", "undefined": "ZzUndefinedType", "float": "float | None",
    "bytes": "Optional[bytes]", "set": "set[list[int]]",
}


def fragment_lines(f: dict) -> list[str]:
    A, B = OPERAND[f["a"]], OPERAND[f["b"]]
    AN = ANNOT[f["a"]]
    k = f["kind"]
    table = _table(A, B, AN)
    if k not in table:
        raise core.MachineryError(f"no rendering for fragment kind {k}")
    return table[k]


def _table(A: str, B: str, AN: str) -> dict[str, list[str]]:
    P = "(" + A + ")"
    return {
        # ---------------------------------------------------------------- first-generation kinds
        "call_arity": [f"helper_fn({A}, {A}, {A})", "helper_fn()", f"{A}()", f"{A}({A})"],
        "call_kw": [f"helper_fn(x={A}, nope={A})", f"HelperCls().method(q={A}, q2={A})"],
        "binop": [f"{A} + {B}", f"{A} @ {B}", f"{A} < {B}", f"{A} ** {B}"],
        "unary": [f"-{A}", f"~{A}", f"not {A}", f"+{A}"],
        "subscript": [f"{A}[{B}]", f"v = {A}", f"v[{B}] = 1", f"del v[{B}]"],
        "attribute": [f"{A}.nope", f"v = {A}", "v.nope = 1", f"{A}.__class__.__name__.nope"],
        "compare": [f"{A} in {B}", f"{A} is {B}", f"{A} == {B} < {A}", f"{A} not in {B}"],
        "annotation": [f"def inner(p: {AN}, *a: {AN}, **k: {AN}) -> {AN}:", "    return p", f"inner({A})"],
        "string_annotation": [f"def inner(p: \"{AN}\") -> \"{AN} | None\":", "    return p", f"x: \"{AN}\" = {A}"],
        "odd_string_annotation": [f"def inner(p: \"lambda: {AN}\", q: \"{AN} if 1 else {AN}\", r: \"[{AN} for _ in ()]\") -> \"not {AN}\":", "    return p",
                                  f"y: \"{AN}.attr[0](1)\" = {A}", f"z: \"-{AN}\" = {A}", f"w: \"{{1: {AN}}}\" = {A}"],
        "mixed_returns": ["def inner(c: bool):", "    if c:", f"        return {A}", "    elif c is None:", "        return int", "    return HelperCls", "inner(True)"],
        "decorator": [f"@{A}", "def inner(q):", "    return q", "inner(1)"],
        "class_base": [f"class Inner({A}, metaclass=type):", "    pass", "Inner()"],
        "class_body": ["class Inner:", f"    x: {AN} = {A}", "    def m(self):", "        return self.y + self.x", "Inner().m().nope"],
        "listcomp": [f"[x.nope for x in {A} if x]", f"[[y for y in x] for x in {A}]"],
        "dictcomp": [f"{{k: v for k, v in {A}}}", f"{{x: x for x in {A}}}"],
        "genexp": [f"sum(x for x in {A})", f"list(x for x in {A} for y in x)"],
        "lambda_call": [f"(lambda x, *y, **z: x + {A})({A}, {A}, q={A})", "(lambda: undefined_in_lambda)()"],
        "starred_call": [f"helper_fn(*{A}, **{A})", f"print(*{A}, sep={A})"],
        "starred_assign": [f"first, *rest = {A}", "first.nope", "rest.nope", f"*only, = {A}"],
        "fstring": [f"f\"{{({A})!r:>10}} {{({A}).nope}} {{({A}):{{({A})}}}}\"", f"f'{{({A})=}}'"],
        "percent_format": [f"\"%d %s\" % {A}", f"\"%(a)s\" % {A}", f"\"{{}} {{nope}}\".format({A})"],
        "walrus": [f"if (w := {A}):", "    w.nope", f"print(w2 := {A}, w2)"],
        "match_stmt": [f"match {A}:", "    case [x, *y]:", "        x.nope", "    case {\"k\": v, **rest}:", "        v.nope",
                       "    case HelperCls(a=1) | HelperDC(1, g=\"\"):", "        pass", "    case str() | None | 1.5:", "        pass",
                       "    case (1 | 2) as z if z:", "        z.nope", "    case _:", "        pass"],
        "async_fn": ["async def inner():", f"    await {A}", f"    async with {A} as q:", "        q.nope", f"    async for z in {A}:", "        z.nope",
                     f"    return [x async for x in {A}]"],
        "with_stmt": [f"with {A} as q, {A}:", "    q.nope"],
        "for_loop": [f"for a, b in {A}:", "    a + b", "else:", "    b"],
        "unpack": [f"a, b = {A}", f"(c, d), e = {A}, {A}", f"[f, g] = {A}"],
        "augassign": [f"v = {A}", f"v += {B}", "v[0] -= 1", "v.attr *= 2"],
        "delete": [f"v = {A}", "del v", "v", f"del {A}.nope"],
        "global_stmt": ["global GG", "GG = \"now a str\"", "GG.nope"],
        "try_stmt": ["try:", f"    {A}.nope", f"except {A}:", "    pass", f"except (ValueError, {A}) as e:", "    e.nope", "else:", "    pass", "finally:", "    pass"],
        "return_value": ["def inner() -> int:", f"    return {A}", "def inner2() -> None:", f"    return {A}", "inner().nope"],
        "yield_stmt": ["def inner():", f"    x = yield {A}", f"    yield from {A}", "    return x", "for q in inner():", "    q.nope"],
        "assert_stmt": [f"assert {A}, {A}", f"assert isinstance({A}, int)", f"assert {A} is not None"],
        "ifexp": [f"({A} if {A} else {A}).nope", f"(1 if {A} else \"s\") + 1"],
        "boolop": [f"({A} and {B}) or (not {A})", f"({A} or {B}).nope"],
        "slice": [f"{A}[1:2]", f"{A}[::{A}]", f"{A}[1:2] = {A}"],
        "dict_display": [f"{{{A}: {B}, **{A}}}", f"{{{A}: 1, {A}: 2}}"],
        "set_display": [f"{{{A}, *{A}}}", f"{{{A}, {A}}}"],
        "nested_def": [f"def outer(p={A}, *a: {AN}, k: {AN} = {A}, **kw):", "    def innermost():", "        nonlocal p", "        p = 1", "        return p, a, k, kw",
                       "    return innermost", f"outer({A}, k={A})()"],
        "typevar_fn": ["def inner(x: TT) -> list[TT]:", "    return [x]", f"inner({A})", f"inner({A})[0].nope"],
        "overload_fn": [f"ov({A})", f"ov({A}, {A})", f"ov(x={A}).nope"],
        "dataclass_cls": ["@dataclass", "class DC:", f"    f: {AN} = {A}", f"HelperDC({A}, nope={A})", f"DC({A}).f.nope"],
        # ---------------------------------------------------------------- second generation: class definitions
        "class_deco": [f"@{A}", "class K1:", "    pass", "K1().nope", f"@functools.total_ordering", f"@{A}.nope", "class K1b:", f"    v = {A}", "K1b.v.nope"],
        "class_meta_kw": ["class Meta(type):", "    def __new__(mcs, name, bases, ns, **kw):", "        return super().__new__(mcs, name, bases, ns)",
                          "    def __call__(cls, *a, **k):", f"        return {A}",
                          f"class K2(HelperCls, metaclass=Meta, flag={A}, other=1):", "    pass", f"class K3(metaclass={A}):", "    pass",
                          f"class K4(*{A}, **{A}):", "    pass", "K2(1, 2).nope", "K3().nope", "K4.nope"],
        "class_slots": ["class K5:", f"    __slots__ = (\"a\", {A})", "    def __init__(self):", f"        self.a = {A}", "        self.b = 1", "K5().c", "K5().a.nope",
                        "class K5b:", f"    __slots__ = {A}", "class K5c(K5):", "    __slots__ = ()", "K5c().zz = 1"],
        "class_property": ["class K6:", "    @property", f"    def p(self) -> {AN}:", f"        return {A}", "    @p.setter", f"    def p(self, v: {AN}) -> None:", "        self._p = v",
                           "    @p.deleter", "    def p(self):", "        del self._p", "    @staticmethod", f"    def s(x={A}):", "        return x",
                           "    @classmethod", f"    def c(cls, x: {AN} = {A}):", "        return cls", "    @functools.cached_property", "    def cp(self):", f"        return {A}",
                           "k6 = K6()", f"k6.p = {A}", "k6.p.nope", "del k6.p", "K6.s().nope", "K6.c(1, 2)", "k6.cp.nope", "K6.p.fget.nope"],
        "namedtuple_cls": ["class NT(NamedTuple):", f"    a: {AN}", f"    b: int = {A}", "    def m(self):", "        return self.a.nope", f"NT({A}).nope", f"NT({A}, {A}, {A})", "NT(1)[5]",
                           f"x, y, z = NT({A}, 1)", f"NT2 = NamedTuple(\"NT2\", [(\"a\", {AN}), {A}])", f"NT2({A}).a.nope", "NT._make([1]).nope", f"NT(a={A})._replace(zz=1)"],
        "typeddict_cls": ["class TDx(TypedDict, total=False):", f"    a: Required[{AN}]", "    b: NotRequired[int]", "    c: ReadOnly[str]",
                          f"d: TDx = {{\"a\": {A}, \"zz\": 1}}", "d[\"nope\"]", f"d[{A}]", f"TDx(a={A}, b={A})", "d[\"c\"] = \"x\"", "del d[\"a\"]",
                          "class TDy(TDx):", "    a: str", f"TD2 = TypedDict(\"TD2\", {{\"a\": {AN}, {A}: int}})", f"TD2(a={A})", f"d.update({A})", "d.get(\"b\").nope", f"d.setdefault({A}, {A})"],
        "enum_cls": ["class E1(enum.Enum):", f"    X = {A}", "    Y = 2", "    def m(self):", "        return self.value.nope", "E1.X.nope", f"E1({A})", "E1[\"Z\"]", "E1.X < E1.Y",
                     "class E2(enum.IntFlag):", "    P = 1", f"    Q = {A}", f"E2.P | E2.Q | {A}", "E1.X.value.nope", "E1.X.name.nope", "[e.nope for e in E1]", f"E3 = enum.Enum(\"E3\", {A})", "E3.nope",
                     "class E4(E1):", "    Z = 3"],
        "protocol_cls": ["class P1(Protocol):", f"    x: {AN}", f"    def meth(self, a: {AN}) -> int: ...", "@runtime_checkable", "class P2(Protocol[TT]):", "    def get(self) -> TT: ...",
                         "def use(p: P1, q: P2[int]) -> None:", f"    p.meth({A}).nope", "    q.get().nope", f"use({A}, {A})", f"isinstance({A}, P2)", f"isinstance({A}, P1)", "P1()",
                         f"class Impl(P1):", f"    x = {A}", "Impl().meth(1).nope"],
        "generic_cls": ["class G1(Generic[TT]):", "    def __init__(self, v: TT) -> None:", "        self.v = v", "    def get(self) -> TT:", "        return self.v",
                        f"G1({A}).v.nope", f"G1[int]({A})", f"G1[{A}]", "G1[int, str]", f"G1({A}).get().nope", "class G1s(G1[str]):", "    pass", f"G1s({A}).get().nope",
                        f"class G3(Generic[{A}]):", "    pass"],
        "pep695": ["def gen1[T](x: T) -> list[T]:", "    return [x]", "def gen2[T: int, *Us, **P](x: T, *a: *Us) -> T:", "    return x",
                   "class G2[T, U: (int, str)]:", "    def m(self, t: T, u: U) -> T:", "        return t",
                   f"type Alias1 = list[{AN}]", "type Rec = list[Rec] | int", "type GA[T] = dict[str, T]", f"v: Alias1 = {A}", f"w: Rec = {A}", f"z: GA[int] = {A}",
                   f"gen1({A}).nope", f"gen2({A}, {A})", f"G2[int, str]().m({A}, {A}).nope", "Alias1.__value__.nope", "GA[int, str]", f"type Bad = {A}", f"q: Bad = {A}"],
        "dataclass_opts": ["@dataclass(frozen=True, order=True, slots=True, kw_only=True)", "class D7:", f"    a: {AN} = field(default={A})", f"    b: list = field(default_factory={A})",
                           f"    c: ClassVar[int] = {A}", f"    d: InitVar[{AN}] = {A}", "    def __post_init__(self, d):", "        self.a = d",
                           f"D7({A}).a = 1", f"D7(a={A}) < D7(a={A})", "D7(1, 2, 3, 4)", f"@dataclass(nope={A})", "class D8:", "    x: int", "D8().x.nope",
                           "@dataclass", "class D9(HelperDC):", f"    h: {AN}", f"D9(1, \"\", {A}).h.nope"],
        "dunder_cls": ["class K7:", f"    def __getattr__(self, n): return {A}", f"    def __call__(self, *a): return {A}", f"    def __eq__(self, o): return {A}", "    __hash__ = None",
                       f"    def __bool__(self): return {A}", f"    def __len__(self): return {A}", f"    def __iter__(self): return {A}", f"    def __contains__(self, x): return {A}",
                       f"    def __getitem__(self, i): return {A}", "    def __add__(self, o): return NotImplemented", f"    def __radd__(self, o): return {A}",
                       f"    def __enter__(self): return {A}", f"    def __exit__(self, *a): return {A}", "    def __init_subclass__(cls, **kw): pass",
                       f"    def __class_getitem__(cls, i): return {A}", "    def __get__(self, obj, typ=None): return self", f"    def __set__(self, obj, v): obj.zz = {A}",
                       f"K7() + {A}", f"{A} + K7()", f"K7()[{A}].nope", f"{A} in K7()", "for x7 in K7():", "    x7.nope", "with K7() as k7:", "    k7.nope", f"K7()({A}).nope", "K7().anything.nope",
                       "bool(K7())", "if K7():", "    pass", f"K7() == {A}", "{K7(): 1}", "len(K7())", "K7[int]", "class K8(K7, flag=1):", "    d = K7()", "K8().d.nope", "K8().d = 1", "not K7()"],
        "inherit_odd": ["class D1(HelperCls, HelperCls):", "    pass", "class D2(int, str):", "    pass", f"class D4({A}, HelperCls):", "    pass",
                        "class D5(HelperCls):", f"    a: str = {A}", "    def method(self, q: str, extra) -> int:", "        return super().method(q).nope",
                        "    def __init__(self):", f"        super().__init__({A})", "        super(D5, self).nope", "        super(D5).nope", f"        super({A}, {A}).nope",
                        "super().nope", "D5().method(1, 2, 3)", "D4().method().nope", "class D6(D6z):", "    pass"],
        "overload_odd": ["@overload", f"def f1(x: {AN}) -> int: ...", f"f1({A})", "class O1:", "    @overload", "    def m(self, x: int) -> int: ...", "    @overload", "    def m(self, x: str) -> str: ...",
                         "    def m(self, x):", "        return x", f"O1().m({A}).nope", f"O1().m({A}, {A})", "@overload", f"def f2(x: int, y: {AN} = ...) -> {AN}: ...", "@overload", "def f2(x: str) -> None: ...",
                         "def f2(*a, **k):", "    return None", f"f2({A}, {A}).nope", f"ov(*{A})", f"ov(**{A})"],
        # ---------------------------------------------------------------- functions, async, generators
        "async_gen": ["async def agen():", f"    yield {A}", f"    await asyncio.sleep({A})", "async def user():", "    async for x in agen():", "        x.nope",
                      f"    async with {A} as c, {A} as d:", "        c.nope", "    r = [y async for y in agen() if await y]", "    s = {k: await k async for k in agen()}",
                      f"    g = (await z for z in {A})", "    t = {m async for m in g}", "    await user()", "    await agen()", f"    await {A}", "    async def deeper():", "        return [await user() for _ in r]",
                      "    return r, s, t, await deeper()", "user().nope", "agen().nope", "for bad in agen():", "    pass", "asyncio.run(user()).nope"],
        "async_odd": [f"async def co1(x: {AN} = {A}) -> Awaitable[int]:", f"    return {A}", f"async def ag1() -> AsyncIterator[{AN}]:", f"    yield {A}", "async def co2():",
                      "    async with asyncio.Lock() as lk, contextlib.AsyncExitStack() as st:", "        lk.nope", "        st.nope", "    with contextlib.suppress(ValueError):", f"        await co1({A}, {A})",
                      "    async for q in co1():", "        q.nope", "    x1 = await co1()", "    x1.nope", "    await asyncio.gather(co1(), ag1(), 1)", "    return (await co1()).nope",
                      "async def co3():", "    return lambda: (yield)", "co1().nope", f"co2({A})"],
        "generator_odd": ["def g1():", "    x = yield", f"    y = yield from {A}", "    return (yield)", f"def g2() -> Iterator[{AN}]:", f"    yield {A}", "    yield from g1()", f"    yield {A}, {A}",
                          f"def g3() -> Generator[int, str, {AN}]:", f"    got = yield {A}", "    got.nope", f"    return {A}", "def g4() -> int:", f"    yield {A}",
                          f"g1().send({A})", f"next(g2(), {A}).nope", "[*g3()]", "g3().nope", "for a, b in g2():", "    pass", "def g5():", "    r3 = yield from g3()", "    r3.nope"],
        "special_returns": [f"def nr() -> NoReturn:", f"    return {A}", "def nv() -> Never:", "    pass", f"def tg(x) -> TypeGuard[{AN}]:", f"    return {A}",
                            f"def ti(x: object) -> TypeIs[{AN}]:", f"    return {A}", f"if tg({A}):", "    pass", f"v5 = {A}", "if ti(v5):", "    v5.nope", "else:", "    v5.nope",
                            "nr()", "v5.nope", "class S2:", f"    def __init__(self) -> {AN}:", f"        return {A}", "S2().nope"],
        "lambda_defaults": [f"f = lambda a, b={A}, *c, d={A}, **e: (a, b, c, d, e)", "f()", f"f(1, 2, 3, d=4, z={A}).nope", f"(lambda a=(lambda: {A}): a())().nope",
                            f"(lambda *, k: k)({A})", f"(lambda a, /, b: a)(a=1, b={A})", f"g = lambda: (lambda: (lambda: {A}))", "g()()().nope", f"sorted({A}, key=lambda t: t.nope)",
                            f"(lambda x={A}.nope: x)()", "(lambda: (yield))().nope"],
        "nested_scopes": [f"def o1(p={A}):", "    q = p", "    class InFn:", "        r = q", "        def m(self):", "            return q, p, self.r, r", "        s = [q for _ in (1,) if r]",
                          "    def i1():", "        nonlocal q", "        def i2():", "            nonlocal q", f"            q = {A}", "            return lambda: q.nope", "        return i2",
                          "    return InFn().m, i1()()", "o1()[1]().nope", "o1.nope"],
        "global_nonlocal": ["global GG, GH", f"GH = {A}", "def o():", f"    n = {A}", "    def i():", "        nonlocal n", "        global GI", f"        n = GI = {A}", "        return n.nope",
                            "    return i", "GG.nope", "GI", "del GH", "GH", "def o2():", "    global GJ", "    GJ += 1", "    del GJ", "    for GJ in (1, 2):", "        pass"],
        # ---------------------------------------------------------------- expressions
        "comp_all": [f"[(y := x) for x in {A} if (z := x)]", "y.nope", "z", f"{{a for a in {A} for b in a if b if a}}", f"{{k: [v for v in k] for k in {A}}}",
                     f"[[(i, j) for i in {A}] for j in {A}]", f"[x for x in {A} if any((w := t) for t in x)]", "w.nope", f"[lambda: x for x in {A}][0]().nope",
                     f"[(a, b) for a, *b in {A}]", f"[x for x in {A} for x in x]", f"list(c for c in {A} if c for d in c if d)",
                     f"{{k: v for k, v in {A}.items()}}", f"[x for x in range(3)][{A}]", f"dict((k, k) for k in {A}).nope", f"[i for i in (j for j in {A})]", f"[{A} for _ in {A} if {A}]",
                     "[x for x in undefined_comp_iter if undefined_comp_cond]"],
        "star_expr": [f"print(*{A}, *{A}, **{A}, **{{\"sep\": {A}}})", f"a, *b, c = {A}", f"*a, b = *{A}, 1", f"x = [*{A}, *{A}]", f"t = (*{A},)", f"d = {{**{A}, \"k\": 1}}",
                      f"for a, *b in {A}:", "    b.nope", f"tuple[*{A}]", f"v = {A}", f"v[*{A}]", f"v[*{A}, 1] = 2", f"v[1:2, *{A}]", f"helper_fn(*{A}, x=1)", f"helper_fn(**{A}, **{A})",
                      f"helper_fn(*[1], *[{A}])", f"(a, *b), *c = {A}, {A}", "b.nope", f"s = {{*{A}, *x}}", f"return_star = lambda *a: (*a, *{A})"],
        "fstring_nested": [f"f\"{{{P}!r:{{{P}}}>{{{P}}}}}\"", f"f\"{{{P}=!s:>{{10}}}}\"", f"f\"{{{P}=}}\"", f"f\"{{f'{{{P}}}'}}\"", f"f\"{{f\"{{f\"{{{P}}}\"}}\"}}\"", f"f\"{{{P}:%Y-%m}}\"", f"f\"{{{P}!a}}\"",
                           f"f\"{{{{{{{P}}}}}}}\"", f"f\"{{{P}:{{{P}}}.{{{P}}}}}\"", f"f'{{{P}[\"k\"]}}'", f"f\"{{(lambda: {P})()}}\"", f"f\"{{{P}:{{'>'}}{{10}}}}\"", f"f\"{{{P}.nope:>{{{P}.nope}}}}\"",
                           f"f\"\"\"{{", f"    {P}", "}\"\"\"", f"f\"{{{P} = }}\"", f"f\"{{{P}!r}}\" \"{{not_f}}\" f\"{{{P}:d}}\"", f"rf\"\\d{{{P}}}\"", f"f\"{{{P}:{{{P}:{{{P}}}}}}}\""],
        "chained_cmp": [f"{A} < {A} <= {A} == {A} != {A} > {A} >= {A} is {A} is not {A} in {A} not in {A}", f"1 < {A} < \"s\"", f"({A} < 1) < 2", f"not {A} < {A}",
                        f"r = 1 < {A} in {A}", "r.nope", f"{A} == {A} == {A}", f"None is {A} is None", f"1 in {A} in [[1]]"],
        "operators_odd": [f"{A}[{A}][{A}]", f"{A}.a.b.c()", f"{A}()()()", f"({A}, {A})[{A}]", f"[{A}][0].nope", f"{{{A}: {A}}}[{A}]", f"-{A} ** -{A}", f"{A} or {A} and not {A}",
                          f"(x := {A}, y := x)", f"print({A} if (w := {A}) else w)", "...", f"{A}[...]", f"{A}[:, 1]", f"{A}[::]", f"{A}[()]", "1 .real.nope", "1j.imag.nope",
                          f"\"s\" \"t\" f\"{{{P}}}\"", "b\"a\" b\"b\"", "0xFF_FF.nope", "1_000.0e-1_0.nope", f"{A} if {A} else {A} if {A} else {A}", f"{A} @ {A} // {A} % {A} << {A} >> {A} & {A} | {A} ^ {A}",
                          f"~-+{A}", f"{A}.__class__.__mro__[{A}]", f"type({A})({A})", f"({A}).__dict__[\"x\"]"],
        "format_odd": [f"\"%s %s\" % ({A},)", f"\"%(a)s\" % {{\"a\": {A}, \"b\": 1}}", f"\"%*d\" % ({A}, {A})", f"\"%c\" % {A}", f"\"{{0.nope}} {{1[k]}}\".format({A}, {A})", f"\"{{:{{}}}}\".format({A}, {A})",
                       f"\"{{!z}}\".format({A})", "\"{\".format()", "\"}\".format()", f"\"%\" % {A}", f"\"%(a\" % {A}", f"\"%z\" % {A}", f"b\"%s\" % {A}", f"\"{{}}\".format(*{A}, **{A})",
                       f"\"{{a}}{{}}{{0}}\".format({A}, a={A})", f"\"%s\" % {A} % {A}", f"\"%d%%\" % {A}", f"\"{{0[0].x[1]}}\".format({A})", f"\"%s\".nope % {A}", f"\"{{:>{{w}}}}\".format({A}, w={A})"],
        "del_forms": [f"v = {A}", "del v.a, v[0], v[1:2], (v)", f"a = b = {A}", "del a, b", "a", f"a = b = {A}", "del (a), [b]", f"del {A}.x", f"v = {A}", f"del v[{A}]", "del v", "del v", "del zz_never_defined",
                      "for i in (1, 2):", "    del i", "i", "def dd(p):", "    del p", "    return p"],
        "augassign_targets": [f"v = {A}", f"v.attr += {A}", f"v[{A}] -= 1", "v[1:2] *= 2", f"v.a.b[0].c //= {A}", f"v @= {A}", f"v **= {A}", f"v >>= {A}", f"v |= {A}", f"v ^= {A}", f"v &= {A}", f"v %= {A}",
                              f"HelperCls.a += {A}", "HelperCls().a += \"s\"", f"zz_undef_aug += {A}", f"[v][0] += {A}", f"(v) += {A}", "GG += \"s\""],
        "with_multi": [f"with {A} as a, {A} as (b, c), open({A}) as [d, *e], {A}:", "    a.nope", "    e.nope", f"with ({A} as x, {A} as y,):", "    x.nope", "with HelperCls() as q:", "    q.nope",
                       f"with contextlib.suppress({A}):", f"    {A}.nope", f"with open({A}) as fh, fh:", "    fh.nope", f"with {A} as v.attr, {A} as v[0]:", "    pass",
                       "with contextlib.nullcontext(1) as one:", "    one.nope", "with contextlib.ExitStack() as es, es.enter_context(1):", "    pass"],
        "try_star": ["try:", f"    {A}.nope", f"except* {A} as eg:", "    eg.exceptions.nope", "except* (ValueError, TypeError) as eg2:", "    eg2.nope", "else:", "    pass", "finally:", "    pass",
                     "try:", f"    raise ExceptionGroup(\"g\", [{A}])", "except* OSError:", "    raise", "try:", "    pass", f"except* {A}:", "    eg.nope", "try:", f"    raise {A} from {A}",
                     "except (ValueError, *[TypeError]) as e3:", "    raise e3.nope", "except:", "    raise", "raise"],
        "match_all": [f"match {A}:", "    case 1 | -1 | 1.5 | 1+2j | \"s\" | b\"b\" | None | True:", "        pass", "    case os.sep | os.curdir:", "        pass", "    case []:", "        pass",
                      "    case [1, [2, *_], *rest] if rest:", "        rest.nope", "    case (x, y, *_) | [x, *_, y]:", "        x.nope", "    case {\"k\": 1, \"j\": [*a], **kw}:", "        kw.nope",
                      "    case {}:", "        pass", "    case int(n) | str(n):", "        n.nope", "    case HelperDC(f=int() as q, g=\"\"):", "        q.nope", "    case HelperDC(1, \"x\", 3) | HelperCls():", "        pass",
                      "    case HelperCls(1):", "        pass", "    case zz_undefined_cls(a=1):", "        pass", "    case str() as s if (w := s):", "        w.nope",
                      "    case {1: _, \"a\": None, os.sep: [_, _]}:", "        pass", f"    case _ if {A}:", "        pass", "    case _:", "        pass",
                      f"match {A}, {A}:", "    case a, b:", "        a.nope", "    case (a, b, *c) if c:", "        pass", f"match {A}:", "    case capture:", "        capture.nope",
                      "match (yield):", "    case [*_]:", "        pass", f"match {A}:", "    case HelperDC(f=HelperDC(f=[{\"k\": HelperCls(a=x2)}])):", "        x2.nope", "    case -1.5 | 1-2j | -0:", "        pass"],
        "control_odd": [f"while {A}:", "    break", "else:", f"    {A}.nope", "while True:", f"    if {A}:", "        continue", "    return 1", "lost_after_return.nope", f"for x in {A}:", "    pass", "x.nope",
                        "if TYPE_CHECKING:", "    import zz_missing_mod", "try:", "    import zz_missing_mod2", "except ImportError:", "    zz_missing_mod2 = None", "zz_missing_mod2.x",
                        "import os.path as p, sys as s", "from os import (path as q, sep)", "from . import zz_rel", "from .zz_pkg import zz_name", "from os import zz_not_there", "p.nope, s.nope, q.nope, sep.nope",
                        f"while (n := {A}):", "    n.nope", "for _ in ():", "    pass", "else:", "    return", "assert False, unreachable_name", "after_assert.nope"],
        "narrow_odd": [f"v = {A}", "if isinstance(v, (int, (str, bytes))):", "    v.nope", f"if isinstance(v, int | str) or issubclass(v, {A}):", "    v.nope", f"if isinstance(v, {A}):", "    v.nope",
                       "if callable(v):", "    v().nope", "if type(v) is int:", "    v.nope", "if v is None or v == 1 or v in (1, 2) or v:", "    v.nope", "if not (v and v):", "    v.nope",
                       "if hasattr(v, \"x\"):", "    v.x.nope", "if len(v) == 2:", "    a, b = v", "elif len(v) > 1 < len(v):", "    a, b, c = v", "assert_never(v)", f"if isinstance({A}, {A}, {A}):", "    pass",
                       "if isinstance(v, list[int]):", "    pass", "if v.__class__ is int and type(v) == str and v is not ...:", "    v.nope", "if v is True is not False:", "    v.nope"],
        # ---------------------------------------------------------------- typing
        "odd_annotations": [f"def deco(f: Callable[PS, TT]) -> Callable[Concatenate[int, PS], TT]: ...", "def va(*args: Unpack[Ts]) -> tuple[Unpack[Ts]]: ...",
                            "def va2(*args: *Ts, **kw: PS.kwargs) -> tuple[*Ts]: ...", "def va3(*args: PS.args, **kw: PS.kwargs) -> PS: ...", "class S1:", "    def m(self) -> Self:", "        return self",
                            "    def n(self: Self, o: Self) -> list[Self]:", "        return [o]", f"x1: Annotated[int, {A}, HelperCls(), lambda: 1, ...] = {A}", f"y1: Annotated[{AN}, \"meta\", 3] = {A}",
                            f"z1: Annotated[int] = {A}", f"z2: Annotated[()] = {A}", f"r1: Required[int] = {A}", f"r2: NotRequired[{AN}] = {A}", f"r3: ReadOnly[{AN}] = {A}",
                            "Rec1 = Union[int, List[\"Rec1\"]]", f"rr: Rec1 = {A}", f"c1: Callable[[int, ...], {AN}] = {A}", f"c2: Callable[..., ...] = {A}", f"c3: Callable[int] = {A}", f"c4: Callable[[], ()] = {A}",
                            f"t1: tuple[int, ..., str] = {A}", f"t2: tuple[...] = {A}", f"t3: tuple[()] = {A}", f"t4: type[{AN}] = {A}", f"t5: Type[int, str] = {A}", f"t6: Optional[int, str] = {A}",
                            f"l1: Literal[{A}] = {A}", f"l2: Literal[1.5] = {A}", f"l3: Literal = {A}", f"cv: ClassVar[{AN}] = {A}", f"fn: Final = {A}", f"fn2: Final[{AN}] = {A}", f"tg1: TypeGuard[{AN}] = {A}", f"tg2: TypeGuard = {A}",
                            f"p1: PS.args = {A}", f"p2: PS = {A}", f"u1: \"Unpack[Ts]\" = {A}", f"u2: Ts = {A}", f"u3: Unpack = {A}", f"s1: Self = {A}", f"cc: Concatenate[int, PS] = {A}", f"cc2: Concatenate[{AN}] = {A}",
                            f"deco({A})", f"va({A}, {A}).nope", f"va2({A}, k={A})", f"va3({A})", f"S1().n({A})[0].m().nope", f"g1: Generic[TT] = {A}", f"pr: Protocol = {A}", f"nn: Never | NoReturn = {A}",
                            f"an: Any[int] = {A}", f"un: Union = {A}", f"un2: Union[()] = {A}", f"op: Optional = {A}", f"li: list[int, str] = {A}", f"di: dict[int] = {A}", f"xx: 1 = {A}", f"yy: [int] = {A}", f"zz: (int, str) = {A}",
                            f"ww: {A} = {A}", f"vv: int() = {A}", f"uu: None | None = {A}", f"tt: \"int\" | None = {A}"],
        "string_annotation_errors": [f"x2: \"int[\" = {A}", "def g6(p: \"1 +\", q: \"\", r: \" int\", s: \"int\\n\", t: \"(\", u: \"lambda\", v: \"x y\", w: \"yield\", z: \"*int\", zz: \"**\", b: b\"int\") -> \"def\":", "    return p",
                                     f"g6({A})", f"y2: \"list['int']\" = {A}", f"y3: \"list[\\\"list['int[']\\\"]\" = {A}", f"y4: list[\"{AN}[\"] = {A}",
                                     f"y5: \"{AN}\" \"[int]\" = {A}", f"y6: f\"{{int}}\" = {A}", f"y7: \"\"\"", "    int", f"\"\"\" = {A}", f"y8: \"(\\n{AN}\\n)\" = {A}", f"y9: \"\\n\\n\\n\\n\\n\\n\\n\\n{AN}.nope\" = {A}",
                                     f"cast(\"{AN}[\", {A})", f"cast(\"\", {A})", f"TypeVar(\"Q\", bound=\"{AN}[\")", f"y10: \"int  #  comment\" = {A}", f"y11: \"int;\" = {A}", f"y12: \"a := int\" = {A}", f"y13: \"\\x00\" = {A}",
                                     f"y14: \"dict[str, dict[str, dict[str, dict[str, {AN}.nope]]]]\" = {A}"],
        "typing_calls": [f"TypeVar(\"X\", {A}, {A})", f"TypeVar(\"X\", bound={A})", f"TypeVar({A})", "TypeVar()", f"NewType(\"N\", {A})", f"NewType({A})", f"N1 = NewType(\"N1\", int)", f"N1({A}).nope",
                         f"Enum3 = enum.Enum(\"Enum3\", {A})", f"cast({AN}, {A}).nope", f"Literal[{A}]", f"Union[{A}, {A}]", f"Optional[{A}]", f"list[{A}]", f"dict[{A}]", f"int | {A}", f"{A} | None",
                         f"Callable[[{A}], {A}]", f"Generic[{A}]", f"Protocol[{A}]", f"Annotated[{A}, {A}]", f"Unpack[{A}]", f"ClassVar[{A}]", f"Final[{A}]", f"type[{A}]", f"ParamSpec({A})", f"TypeVarTuple({A})",
                         f"TT.nope", "PS.args.nope", "Ts.nope", f"TT({A})", f"Any({A})", f"Union({A})", f"Literal({A})", "NamedTuple()", "TypedDict()", f"TypedDict(\"T\", {A})", f"Required[{A}]"],
        "noncallable_deco": [f"@{A}.nope", "def i1(): pass", f"@{A}()", "def i2(): pass", f"@(lambda f: {A})", "def i3(): pass", "i3().nope", "@helper_fn(1)", "def i4(): pass",
                             "@property", "@staticmethod", "def i5(): pass", "@overload", f"def i6(x: {AN}): ...", f"@dataclass(nope={A})", "class I7:", "    pass", f"@functools.wraps({A})", "def i8(): pass",
                             f"@functools.lru_cache({A})", "def i9(x): return x", f"i9({A}).nope", "@contextlib.contextmanager", f"def i10(): return {A}", "with i10() as c10:", "    c10.nope",
                             f"@{A}", f"@{A}", "async def i11(): pass", "i11.nope", "@classmethod", "def i12(cls): return cls", "i12()", "@1", "@None", "@\"s\"", "def i13(): pass", "i13()"],
        "builtin_arity": ["len()", f"len({A}, {A})", f"isinstance({A})", f"isinstance({A}, {A}, {A})", f"int({A}, {A}, {A})", f"print(sep={A}, nope={A})", "range()", f"range({A}, {A}, {A}, {A})", f"dict({A}, {A})",
                          f"getattr({A})", f"getattr({A}, {A}, {A}, {A})", f"super({A}, {A}, {A})", f"type({A}, {A})", "type()", f"str({A}, {A}, {A}, {A})", f"sorted({A}, {A})", f"zip(strict={A})", "max()",
                          f"min({A}, key={A}, default={A}, nope=1)", "open()", f"hasattr({A}, 1)", f"iter({A}, {A}, {A})", "next()", f"object({A})", f"list({A}, {A})", f"tuple({A}, {A})", f"set({A}, {A})", f"bool({A}, {A})",
                          "enumerate()", "map()", f"filter({A})", "abs()", f"divmod({A})", f"pow({A})", f"round({A}, {A}, {A})", "sum()", "any()", f"all({A}, {A})", "callable()", "id()", f"hash({A}, {A})", "repr()",
                          f"vars({A}, {A})", f"dir({A}, {A})", f"issubclass({A})", "cast()", f"cast({A})", f"cast({A}, {A}, {A})", f"\"s\".join()", f"\"s\".join({A}, {A})", f"[].append()", f"[].append({A}, {A})",
                          f"{{}}.get()", f"{{}}.get({A}, {A}, {A})", f"(1).bit_length({A})", f"\"s\".format_map()", f"dict.fromkeys()", f"int.from_bytes()", f"str.join({A})", f"list.append({A})",
                          f"len(*{A})", f"len(**{A})", f"len(x={A})", f"isinstance(*{A}, **{A})", f"os.path.join()", f"os.getcwd({A})", f"functools.partial()", f"functools.partial({A}, {A})().nope",
                          f"functools.reduce({A})", f"asyncio.run()", f"enum.auto({A})"],
        "helper_arity": ["reveal_type()", f"reveal_type({A}, {A})", f"reveal_type(x={A})", f"reveal_type({A}).nope", f"assert_type({A})", f"assert_type({A}, {A}, {A})", f"assert_type({A}, {A})", f"assert_type({A}, \"nope[\")",
                         f"assert_type({A}, {AN})", f"assert_type(val={A}, typ={A})", f"reveal_locals({A})", "reveal_locals()", "reveal_locals().nope", "dump_value()", f"dump_value({A}, {A})", f"dump_value({A}).nope",
                         "assert_error()", f"assert_error({A})", "with assert_error():", f"    {A}.nope", "with assert_error():", "    pass", f"with assert_error({A}) as ae:", "    ae.nope",
                         "assert_never()", f"assert_never({A}, {A})", f"assert_never({A})", f"reveal_type(*{A})", f"reveal_type(**{A})", f"assert_type(*{A})", f"dump_value(*{A}, **{A})", "reveal_type", "reveal_locals.nope",
                         f"assert_type({A}, Annotated[int, {A}])", f"assert_type({A}, \"\")", f"reveal_type(reveal_type)({A})", f"cast(reveal_type, {A})"],
        # ---------------------------------------------------------------- callables handed to Callable-typed parameters
        "callback_arg": [f"take0(CBI.noparams)", "take0(CBI.kwonly)", "take0(CBI.kwargs_only)", "take0(CBI.varargs)", "take1(CBI.selfann)", "take1(CBI.plain)", "take1(HelperCB.plain)",
                         "take1(HelperCB.cm)", "take1(CBI.cm)", "take1(HelperCB.sm)", "take1(CBI)", "take1(HelperCB)", "take0(HelperCB.noparams)", "take0(HelperCB().noparams)",
                         "take0(HelperCB().kwonly)", "take0(HelperCB().kwargs_only)", "take1(HelperCB().selfann)", "take1(HelperCB().varargs)", "take1(HelperCB().plain)", "take1(HelperCB().cm)",
                         "take1([].append)", "take1(\"s\".join)", "take1(functools.partial(helper_fn, 1))", "take0(functools.partial(CBI.noparams))", "take1(lambda x: x)", "take0(lambda *, k: k)",
                         "take1(ov)", "take1(len)", "take1(int)", f"take1({A})", f"takeany({A})", f"take0({A})", "takeany(CBI.noparams)", "takeps(CBI.noparams)", f"takeps(CBI.plain, {A})",
                         f"takeps(HelperCB().kwonly, k={A})", "cb1: Callable[[int], int] = CBI.noparams", "cb2: Callable[[], object] = HelperCB().kwargs_only", f"cb3: Callable[..., int] = {A}",
                         "sorted([1], key=CBI.noparams)", "list(map(CBI.kwonly, [1]))", "list(filter(HelperCB().noparams, [1]))", "functools.reduce(CBI.plain, [1])",
                         "class LocalCB:", "    def noparams(): pass", "    def kwonly(*, k): pass", "    def selfann(self: str): pass", "take0(LocalCB().noparams)", "take0(LocalCB().kwonly)", "take0(LocalCB().selfann)",
                         "take0(LocalCB.noparams)", "def ret_cb() -> Callable[[], object]:", "    return CBI.noparams", "def ret_cb2() -> Callable[[int], int]:", f"    return {A}",
                         "CBI.noparams()", "CBI.kwonly()", "HelperCB().selfann(1)", "HelperCB.noparams()"],
        "return_classes": ["def r1(c):", "    if c:", "        return int", "    return str", "def r2(c):", "    if c:", "        return HelperCls", "    return HelperDC", "def r3(c):", "    return int if c else None",
                           "def r4(c):", "    if c:", f"        return {A}", "    elif c is None:", "        return bool", "    return int", "def r5(c):", "    return [int, str][c]", "def r6(c):", "    if c:", "        return enum.Enum",
                           "    return enum.IntEnum", "r1(1).nope", "r2(1)().nope", "r4(0).nope"],
        "return_metaclass": ["def m1(c):", "    if c:", "        return int", "    return type", "def m2(c):", "    if c:", "        return HelperCls", "    return enum.EnumMeta", "m1(1).nope"],
        # ---------------------------------------------------------------- known objects that are nominally fine but raise when hashed
        # (the callers of safe.is_hashable / safe_in / safe_equals and the places that hash or compare known objects)
        "unhashable_ops": ["{HT}", "{HT: 1}", "{1: 2}[HT]", "{HT: 1}[HT]", "HT in {1, 2}", "HT in (HT, 1)", "HT in {HT: 1}", "HT in [HT]", "{1: 2}.get(HT)", "{1, 2}.add(HT)", "set([HT])", "dict([(HT, 1)])",
                           "frozenset([HT, HTD])", "hash(HT)", "HT == HT", "HT == HTD", "[HT].index(HT)", "[HT].count(HTD)", "(HT,).index(HT)", f"d = {{{A}: 1}}", "d[HT]", "d[HT] = 1", "del d[HT]", "d.get(HTD)",
                           "d.setdefault(HTS, 1)", "d.pop(HT)", "HT in d", f"{{HT, {A}}}", f"{{HT: {A}, {A}: HT}}", "{**{HT: 1}}", "{*[HT]}", "{HTE}", "{HTE: 1}", "{1: 2}[HTE]", "HTE in {1, 2}", "HTE in (HTE,)",
                           "hash(HTE)", "lit: Literal[1] = HT", "def lf(x: Literal[1, 2] = HT) -> None: ...", "lf(HT)", "lf(HTE)", "match HT:", "    case (\"a\", [1]):", "        pass", "    case (\"a\", _):",
                           "        pass", "match HTE:", "    case 1 | 2:", "        pass", "isinstance(HT, (int, HT))", "isinstance(HT, HTE)", "issubclass(HT, int)", "functools.lru_cache()(helper_fn)(HT)",
                           "sorted({HT})", "set() | {HT}", "{1, 2} - {HTE}", "(HT, HTD)[HT]", f"[1, 2][{A}] in {{HT}}", "enum.Enum(\"EX\", {\"A\": HT})", "x1: \"HT\" = HT", "assert_type(HT, Literal[1])",
                           "reveal_type(HT) in {HT}", "{HT: 1}.keys() & {HTE}", "[k for k in {HT: 1}]", "{k: v for k, v in [(HT, HTE)]}", "{v for v in [HT, HTE]}", "max({HT: 1})", "sum([HTE])", "HT < HTE", "HTE == HTE", "HTE != 1",
                           "if HT in (HTD, HTS) or HTE in (1,):", "    pass", f"{A} in (HT, HTE)", f"{A} in {{HT: 1}}", f"HT[{A}]", f"{{1: 2}}[{A}, HT]"],
        # ---------------------------------------------------------------- open findings, confined to kinds of their own
        # (version_info_compare: repaired by 55a5b7d, kept as regression generator; paramspec_alias: Totality.tla Dev_ParamSpecSubstitution)
        "version_info_compare": [f"if sys.version_info > {A}:", "    pass", f"v1 = sys.version_info < {A}", f"v2 = sys.version_info >= (3, {A})", f"v3 = sys.version_info <= ({A},)",
                                 f"v4 = sys.version_info == {A}", f"v5 = sys.version_info != {A}", f"v6 = {A} < sys.version_info", f"v7 = sys.version_info[0] > {A}",
                                 f"v8 = sys.version_info[:2] >= {A}", f"v9 = sys.platform == {A}", f"v10 = sys.platform > {A}", f"v11 = sys.platform.startswith({A})",
                                 "if sys.version_info >= (3, 8) and sys.platform != \"win32\":", "    v12 = 1", "v12", f"assert sys.version_info > {A}", f"v13 = sys.version_info > {A} > sys.version_info",
                                 f"while sys.version_info < {A}:", "    break", f"v14 = [x for x in () if sys.version_info > {A}]", f"v15 = sys.version_info in {A}", f"v16 = sys.version_info is {A}",
                                 "v17 = sys.version_info >= (3,)", "v18 = sys.version_info < (3, 0, 0, \"final\", 0)", "v19 = sys.version_info > sys.version_info", "v20 = sys.platform == sys.platform"],
        "paramspec_alias": [f"a1: PA[[int]] = {A}", f"a2: PA[int] = {A}",
                            f"a3: PA[...] = {A}", f"a4: PA[[]] = {A}", f"a5: PA[int, str] = {A}", f"a6: PB[[int], str] = {A}", f"a7: PB[..., int] = {A}", f"a8: PB[int, str] = {A}", f"a9: PC[int, [str]] = {A}",
                            f"a10: PA[{AN}] = {A}", f"a11: PA[[{AN}]] = {A}", f"a12: PA = {A}", f"a13: PB[[int, str], PA[[int]]] = {A}", "def use_pa(f: PA[[int]], g: PB[[str], None]) -> PA[...]:", "    return f",
                            f"use_pa({A}, {A})", "a1(1).nope"],
        # ---------------------------------------------------------------- constructs the unchanged tree is known to deviate on
        # (kept out of every other kind; Totality.tla Dev_MatchValueNotLiteral / Dev_RecursiveStrAlias / Dev_EllipsisDetail)
        "match_value_dotted": ["match GG:", "    case HelperCls.a:", "        pass", "    case zz_undefined.attr:", "        pass"],
        "recursive_str_alias": ["Rec2 = list[\"Rec2\"]", "rr2: Rec2 = 1", "def inner(p: Rec2) -> None:", "    pass"],
        "pure_call_raises": [f"range({A})", f"[x for x in range({A})]", f"int({A}, {A})", f"divmod({A}, 0)", f"\"s\".center({A})", f"bytes({A}, {A})"],
    }


KINDS = sorted(_table("A", "B", "AN"))

INDENT = "    "


def render(prog: list[dict]) -> str:
    """PRELUDE + one block per fragment; block i = the scope nesting of the fragment (default one plain function)."""
    lines = [PRELUDE]
    for i, f in enumerate(prog):
        wrap = f.get("w") or ["def"]
        depth = 0
        for j, scope in enumerate(wrap):
            last = j == len(wrap) - 1
            name = f"frag_{i}" if j == 0 else f"inner_{i}_{j}"
            if scope == "class":
                lines.append(INDENT * depth + f"class {name.capitalize()}:")
            elif scope == "async":
                lines.append(INDENT * depth + f"async def {name}({'self' if j and wrap[j - 1] == 'class' else ''}):")
            elif scope == "def":
                lines.append(INDENT * depth + f"def {name}({'self' if j and wrap[j - 1] == 'class' else ''}):")
            else:
                raise core.MachineryError(f"unknown scope kind {scope}")
            depth += 1
            if last and scope == "class":
                raise core.MachineryError("a fragment must sit in a function scope")
        for ln in fragment_lines(f):
            lines.append(INDENT * depth + ln)
        lines.append("")
    return "\n".join(lines) + "\n"
