"""Real Python counterparts of the protocol sub-universe of spec/Protocols.tla (property C04).

Every class of PTab (spec/Protocols.tla) exists here under the same name as a real class built by a plain
`class` statement at import: run-time typing.Protocol classes (plain, inheriting, on top of an ABC that typing
allows as a protocol base, generic, with a data member, with a property, recursive, mutually recursive, with a
parameter of the protocol's own type, callable), candidate classes implementing every subset of the members
m / n / k and right / covariant / wrong member types, candidates that inherit an implementation, candidates that
subclass a protocol nominally, and the builtins used as candidates.  `harness/proto_common.py` compares this module
with the class table TLC prints (self-test), so the table in the specification is a checked description of these
classes, not a second definition.
"""
from __future__ import annotations

from collections.abc import Container, Hashable, Sized
from typing import Generic, Protocol, TypeVar, runtime_checkable

T_co = TypeVar("T_co", covariant=True)


# --------------------------------------------------------------------------- protocols
@runtime_checkable
class P1(Protocol):
    def m(self) -> int:  # (a default implementation: nominal subclasses may inherit it)
        return 0


class P2(Protocol):
    def m(self) -> int: ...
    def n(self) -> str: ...


class P3(P1, Protocol):
    def k(self) -> int: ...


@runtime_checkable
class PS(Sized, Protocol):
    def name(self) -> str: ...


class PLen(Sized, Protocol):
    pass


class PH(Hashable, Protocol):
    def name(self) -> str: ...


class PC(Container, Protocol):
    def name(self) -> str: ...


class PG(Protocol[T_co]):
    def get(self) -> T_co: ...


@runtime_checkable
class PA(Protocol):
    x: int


class PAn(Protocol):  # the same data member, not runtime_checkable
    x: int


class PP(Protocol):
    @property
    def x(self) -> int: ...


class PRec(Protocol):
    def nxt(self) -> PRec: ...


class PQ1(Protocol):
    def q(self) -> PQ2: ...
    def z(self) -> int: ...


class PQ2(Protocol):
    def p(self) -> PQ1: ...


class PAcc(Protocol):
    def take(self, o: PAcc) -> int: ...


class PPut(Protocol):
    def put(self, x: int) -> None: ...


class PCall(Protocol):
    def __call__(self, x: int) -> int: ...


class PHex(Protocol):
    def hex(self) -> str: ...


@runtime_checkable
class PHashOnly(Protocol):
    def __hash__(self) -> int: ...


# --------------------------------------------------------------------------- candidates: every subset of m / n / k
class K_:
    pass


class K_m:
    def m(self) -> int:
        return 0


class K_n:
    def n(self) -> str:
        return ""


class K_k:
    def k(self) -> int:
        return 0


class K_mn:
    def m(self) -> int:
        return 0

    def n(self) -> str:
        return ""


class K_mk:
    def m(self) -> int:
        return 0

    def k(self) -> int:
        return 0


class K_nk:
    def n(self) -> str:
        return ""

    def k(self) -> int:
        return 0


class K_mnk:
    def m(self) -> int:
        return 0

    def n(self) -> str:
        return ""

    def k(self) -> int:
        return 0


class Kmb:  # covariant return type
    def m(self) -> bool:
        return True


class Kms:  # wrong return type
    def m(self) -> str:
        return ""


class Kmattr:  # a data attribute where a method is required
    m: int = 0


class Kinh(K_m):  # inherits the implementation of m
    def n(self) -> str:
        return ""


class KP1(P1):  # nominal subclass of the protocol, own implementation
    def m(self) -> int:
        return 0


class KP1x(P1):  # nominal subclass that inherits the protocol's own (stub) method
    pass


class KP3(P3):  # nominal subclass of the inheriting protocol: m comes from P1, k is its own
    def k(self) -> int:
        return 0


# --------------------------------------------------------------------------- candidates for the ABC-based protocols
class Kname:
    def name(self) -> str:
        return ""


class Klen:
    def __len__(self) -> int:
        return 0


class KnameLen:
    def name(self) -> str:
        return ""

    def __len__(self) -> int:
        return 0


class KnameI:  # wrong type of the protocol's own member, ABC member present
    def name(self) -> int:
        return 0

    def __len__(self) -> int:
        return 0


class KPS(PS):
    def name(self) -> str:
        return ""

    def __len__(self) -> int:
        return 0


class KNoHash:
    __hash__ = None  # type: ignore[assignment]


class KnameNoHash:
    def name(self) -> str:
        return ""

    __hash__ = None  # type: ignore[assignment]


class KPH(PH):
    def name(self) -> str:
        return ""

    def __hash__(self) -> int:
        return 1


class KnameCont:
    def name(self) -> str:
        return ""

    def __contains__(self, x: object) -> bool:
        return False


class KPC(PC):
    def name(self) -> str:
        return ""

    def __contains__(self, x: object) -> bool:
        return False


# --------------------------------------------------------------------------- generic protocol
class Kgi:
    def get(self) -> int:
        return 0


class Kgs:
    def get(self) -> str:
        return ""


class Kgb:
    def get(self) -> bool:
        return True


class KPGi(PG[int]):
    def get(self) -> int:
        return 0


# --------------------------------------------------------------------------- data member / property
class Kx:
    x: int = 0


class Kxs:
    x: str = ""


class Kxb:
    x: bool = True


class Kxann:
    x: int

    def __init__(self) -> None:
        self.x = 0


class Kxprop:
    @property
    def x(self) -> int:
        return 0


class Kxprops:
    @property
    def x(self) -> str:
        return ""


class Kxi:  # the member exists per instance only; two instances of this one class differ in its type
    x: object

    def __init__(self, x: object = 0) -> None:
        self.x = x


# --------------------------------------------------------------------------- function literals (all of run-time type `function`)
def F_ii(x: int) -> int:
    return x


def F_si(x: str) -> int:
    return 0


def F_oi(x: object) -> int:
    return 0


def F_ib(x: int) -> bool:
    return True


def F_iii(x: int, y: int) -> int:
    return x


FUNCTIONS = {f.__name__: f for f in (F_ii, F_si, F_oi, F_ib, F_iii)}


# --------------------------------------------------------------------------- recursive protocols
class KRec:
    def nxt(self) -> KRec:
        return self


class KRecBad:
    def nxt(self) -> int:
        return 0


class KRecP:
    def nxt(self) -> PRec:
        return KRec()


class KQ:  # q / p close the PQ1 <-> PQ2 cycle, z (required by PQ1) is missing
    def q(self) -> KQ:
        return self

    def p(self) -> KQ:
        return self


class KQz:
    def q(self) -> KQz:
        return self

    def p(self) -> KQz:
        return self

    def z(self) -> int:
        return 0


class KAccSelf:  # parameter narrower than the protocol's (accepts only its own class)
    def take(self, o: KAccSelf) -> int:
        return 0


class KAccP:
    def take(self, o: PAcc) -> int:
        return 0


class KAccObj:
    def take(self, o: object) -> int:
        return 0


class Kput_int:
    def put(self, x: int) -> None:
        return None


class Kput_obj:
    def put(self, x: object) -> None:
        return None


class Kput_bool:
    def put(self, x: bool) -> None:
        return None


class Kcall:
    def __call__(self, x: int) -> int:
        return x


class Kcalls:
    def __call__(self, x: str) -> int:
        return 0


class Khex:
    def hex(self) -> str:
        return ""


# --------------------------------------------------------------------------- tables
import types as _types

SPECIAL = {"object": object, "Generic": Generic, "Protocol": Protocol}
RUNTIME_TYPES = {"function": _types.FunctionType, "type": type}  # run-time classes of the function / class literals
ABCS = {"Sized": Sized, "Hashable": Hashable, "Container": Container}
BUILTINS = {"int": int, "bool": bool, "float": float, "complex": complex, "str": str}
PROTOCOLS = {c.__name__: c for c in (P1, P2, P3, PS, PLen, PH, PC, PG, PA, PAn, PP, PRec, PQ1, PQ2, PAcc, PPut, PCall, PHex,
                                      PHashOnly)}
PLAIN = {c.__name__: c for c in (K_, K_m, K_n, K_k, K_mn, K_mk, K_nk, K_mnk, Kmb, Kms, Kmattr, Kinh, KP1, KP1x, KP3, Kname,
                                  Klen, KnameLen, KnameI, KPS, KNoHash, KnameNoHash, KPH, KnameCont, KPC, Kgi, Kgs, Kgb, KPGi,
                                  Kx, Kxs, Kxb, Kxann, Kxprop, Kxprops, Kxi, KRec, KRecBad, KRecP, KQ, KQz, KAccSelf, KAccP,
                                  KAccObj, Kput_int, Kput_obj, Kput_bool, Kcall, Kcalls, Khex)}
CLASSES: dict[str, type] = {**SPECIAL, **RUNTIME_TYPES, **ABCS, **BUILTINS, **PROTOCOLS, **PLAIN}
CLASS_NAME = {v: k for k, v in CLASSES.items()}

# one instance per plain class (the objects [c |-> K, v |-> "inst"] of the specification) + the builtin scalars
INSTANCES: dict[str, object] = {name: cls() for name, cls in PLAIN.items()}
SCALARS = {("int", "1"): 1, ("int", "0"): 0, ("bool", "True"): True, ("float", "1.5"): 1.5, ("str", "a"): "a", ("str", ""): "",
           ("NoneType", "None"): None}
# a second instance of Kxi whose member has another type: the object [c |-> "Kxi", v |-> "s"]
EXTRA_INSTANCES: dict[tuple[str, str], object] = {("Kxi", "s"): Kxi("")}
for (_cn, _vn), _obj in EXTRA_INSTANCES.items():
    globals()[f"INST_{_cn}_{_vn}"] = _obj
for _name, _obj in INSTANCES.items():  # module attributes INST_<class>: literals for the snippets
    globals()["INST_" + _name] = _obj
