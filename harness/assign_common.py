"""Real-code observers shared by C03 / C04 (and C14): decode terms, call the public Value API."""
from __future__ import annotations

import json
from typing import Any

from . import codec, core, pyz

_cache: dict[str, Any] = {}
_NS: dict[str, Any] = {}


def val(term: dict):
    k = json.dumps(term, sort_keys=True)
    v = _cache.get(k)
    if v is None:
        v = _cache[k] = codec.term_to_value(term)
    return v


def accepted(a, b, ck) -> bool:
    return isinstance(a.can_assign(b, ck), dict)


def observe_pair(arg):
    tid, p = arg
    ck = pyz.get_checker()
    a, b = val(p["a"]), val(p["b"])
    try:
        r = accepted(a, b, ck)
        with ck.set_exclude_any():
            rx = accepted(a, b, ck)
    except Exception as exc:  # the public API must return, not raise (also a C12 observation)
        return {"tid": tid, "kind": "raised", "a": p["a"], "b": p["b"], "exc": f"{type(exc).__name__}: {exc}"}
    return {"tid": tid, "kind": "pair", "a": p["a"], "b": p["b"], "real": r, "realx": rx}


def _namespace() -> dict:
    if not _NS:
        exec(codec.PRELUDE, _NS)
    return _NS


def observe_obj(arg):
    """(A, o): A.can_assign(KnownValue(o)) and pyanalyze.runtime.is_assignable(o, <runtime annotation of A>)."""
    from pyanalyze import runtime

    tid, p = arg
    ck = pyz.get_checker()
    a = val(p["a"])
    o = codec.obj_to_py(p["o"])
    from pyanalyze.value import KnownValue

    try:
        r = accepted(a, KnownValue(o), ck)
    except Exception as exc:
        return {"tid": tid, "kind": "raised", "a": p["a"], "o": p["o"], "exc": f"{type(exc).__name__}: {exc}"}
    rt = "n/a"
    try:
        anno = codec.term_to_annotation(p["a"])
    except core.MachineryError:
        anno = None
    if anno is not None:
        try:
            typ = eval(anno, _namespace())
            rt = "yes" if runtime.is_assignable(o, typ) else "no"
        except Exception as exc:
            return {"tid": tid, "kind": "raised", "a": p["a"], "o": p["o"], "exc": f"runtime.is_assignable: {type(exc).__name__}: {exc}"}
    return {"tid": tid, "kind": "obj", "a": p["a"], "o": p["o"], "real": r, "rt": rt}


def judge(check: core.Check, obs: list[dict], label: str, prop_clauses: set[str]) -> None:
    """Adjudicate observations with AssignTrace; only verdict clauses in prop_clauses are violations
    of the calling property (the others belong to the sibling property and are ignored here)."""
    raised = [o for o in obs if o["kind"] == "raised"]
    good = [o for o in obs if o["kind"] != "raised"]
    for o in raised:
        check.violation(core.canon({k: o[k] for k in ("a", "b", "o") if k in o}), "PublicApiRaised",
                        {"case": o, "source": label})
    verdicts, stats = core.adjudicate("AssignTrace", "AssignTrace.cfg", good, batch=15000, parallel=6)
    check.add_trace_stats(stats)
    check.evals(len(obs))
    by_tid = {o["tid"]: o for o in good}
    for tid, vs in verdicts.items():
        o = by_tid[tid]
        case = {k: o[k] for k in ("a", "b", "o") if k in o}
        for v in vs:
            if v.startswith("viol:"):
                if v[5:] in prop_clauses:
                    check.violation(core.canon(case), v[5:], {"case": o, "source": label})
            elif v.startswith("dev:"):
                if ("Sound" in prop_clauses) == (v[4:] in ("enum-instance-accepted-as-iterable", "typeddict-as-plain-dict")):
                    check.violation(v[4:], v[4:], {"case": o, "source": label})
            elif v.startswith("drift:"):
                check.drift({"verdict": v, "case": o, "source": label})
    for o in good[:: max(1, len(good) // 3)][:3]:
        check.sample({"source": label, **o})
