"""C12: the constant-folding family -- the checker EXECUTES real Python operations on known constants (f-string format
specs and conversions, % / str.format on literals, operators on literals, allow-listed pure callables on known arguments).
TLC (Totality.tla, generator K*) picks an operation (family, index) together with the menu of first operands xs and, for
binary operations, the menu of second operands ys; this module renders the case to a module of never-called functions, one per pair of operands.
Caps: every expression is evaluated by CPython itself in well under 0.1 s (exponents and repeat counts are bounded by the
menus; harness self-check `selfcheck_cost`)."""
from __future__ import annotations

from . import core

VALUES = {
    "m1": "-1", "zero": "0", "one": "1", "u255": "255", "u256": "256", "maxchr": "1114111", "overchr": "1114112",
    "p64": "2**64", "negp64": "-2**64", "p1024": "2**1024", "f15": "1.5", "negf": "-1.5", "inf": "1e999", "nan": "(1e999-1e999)",
    "str": "'a'", "estr": "''", "bytes": "b'a'", "none": "None", "true": "True", "tup": "(1,)", "lst": "[1]",
}

# family -> {argument -> expression template}; {X} / {Y} are parenthesised operand texts
FSPECS = ["c", "b", "d", "o", "x", "X", "n", "e", "E", "f", "F", "g", "G", "%", "s", "", ">10", "<10c", "^10", "=+10", "+d", " d", "#x", "#b",
          "#o", "010d", ",d", "_d", "_x", ",", ".2", ".2f", "10.3e", ",.2f", ".0%", "1000000", "z", "10.2s", ".100000f", "*^9", "0=-9.1G",
          "05", "+.3g", "#.0f", "c>3", "é^5", "999999999999999999999", ".999999999999999999999f", "zz", "!", "{", "10c", ",c", "#c", ".2c"]
FSPECS = [s for s in FSPECS if s != "{"]
FCONVS = ["!r", "!s", "!a", "=", "!r:>10", "=!r:^20", "!s:c", "!a:.1", "=:c"]
FNEST = ["{Y}", ">{Y}", ".{Y}f", "{Y}.{Y}", "{Y}d", "{Y}c", "0{Y}", ",.{Y}e", "{Y}{Y}"]
PCTS = ["c", "d", "i", "s", "r", "a", "x", "X", "o", "e", "E", "f", "F", "g", "G", "%", "5.2f", "-10s", "+d", "#x", "010d", ".1000f", "u", "b", "z",
        "s %s", "(a)s", "1000000d", ".1000000f", "lld", " ", "5"]
PCTSTAR = ["*d", ".*f", "*.*f", "-*s", "*c"]
FMTS = ["c", "d", "x", "e", "f", "g", "%", "s", "n", ">10", ",", ".2f", "b", "010", "z"]
FMTFIELDS = ["{0[0]}", "{0.real}", "{!r}", "{!z}", "{0[5]}", "{0.nope}", "{0[k]}", "{} {}", "{1}", "{a}", "{0!s:>5}", "{:{}}"]
FMTNEST = ["{:{}}", "{:.{}f}", "{:>{}}", "{0:{1}}{1:{0}}", "{:{}c}"]
CALLS = ["int({X})", "float({X})", "chr({X})", "ord({X})", "bytes({X})", "bytearray({X})", "range({X})", "len({X})", "bool({X})", "abs({X})", "round({X})",
         "hash({X})", "str({X})", "repr({X})", "ascii({X})", "hex({X})", "oct({X})", "bin({X})", "complex({X})", "list({X})", "tuple({X})", "set({X})", "frozenset({X})",
         "dict({X})", "sum({X})", "max({X})", "min({X})", "sorted({X})", "any({X})", "all({X})", "divmod({X}, 0)", "int({X}, 10)", "int('z', {X})", "int('1', {X})",
         "'a'.center({X})", "'a'.zfill({X})", "'a'.ljust({X})", "'a'.expandtabs({X})", "' '.join({X})", "{X}.bit_length()", "{X}.to_bytes(2, 'big')", "{X}.hex()",
         "{X}.is_integer()", "{X}.upper()", "{X}.decode()", "{X}.encode()", "{X}.count(1)", "{X}.index(5)", "{X}.as_integer_ratio()", "{X}.conjugate()",
         "{X}.__index__()", "{X}.__len__()", "{X}.__hash__()", "{X}.__bool__()", "{X}.__format__('c')", "format({X}, 'c')", "format({X}, 'e')", "format({X})",
         "int.from_bytes({X}, 'big')", "float.fromhex({X})", "bytes.fromhex({X})", "str({X}, 'utf-8')", "bytes({X}, 'utf-8')", "isinstance({X}, {X})", "issubclass({X}, int)",
         "type({X})({X})", "slice({X})", "enumerate({X})", "zip({X})", "iter({X})", "next({X})", "reversed({X})", "callable({X})", "id({X})", "print({X})", "pow({X}, -1, 7)",
         "pow(2, {X}, 7)", "round(1.5, {X})", "round({X}, -1)", "float('1e' + str({X}))" ]
UNOPS = ["-{X}", "~{X}", "+{X}", "not {X}", "{X}[0]", "{X}[5]", "{X}[-2]", "{X}[::0]", "{X}[1:2]", "{X}[::-1]", "{X}.real", "{X}.nope", "{X} if {X} else {X}",
         "{X} and {X}", "{X} or {X}", "{X} is {X}", "{X} in {X}", "{{{X}: 1}}", "{{{X}}}", "{{{X}: 1}}[{X}]", "[{X}][{X}]", "{X} == {X} != {X}", "{X} < {X} < {X}",
         "-(-{X})", "~~{X}", "{X} * {X}", "{X} ** 2", "{X} ** -1", "{X} ** 0.5", "{X} // 0", "{X} % 0", "{X} / 0", "0 ** {X}", "1 << {X}", "1 >> {X}", "{X} << 1",
         "{X} @ {X}", "[*{X}]", "{{**{X}}}", "(lambda: {X})()", "[{X} for _ in {X}]", "{X}[{X}]", "{X}({X})", "{X}.__class__({X})", "assert {X}, {X}",
         "del {X}[0]", "a, b = {X}", "a, *b = {X}", "for q in {X}: pass", "with {X}: pass", "raise {X}", "print(*{X}, **{X})"]
BINOPS_ALL = ["+", "-", "/", "//", "%", "@", "&", "|", "^", "<<", ">>", "<", "<=", "==", "!=", ">", ">=", "in", "not in", "is", "is not", "and", "or"]
BINOPS_SMALL = ["**"]        # exponents come from the small menu
BINOPS_BOTHSMALL = ["*", "{X}.__mul__({Y})", "{X}.__rmul__({Y})"]   # repeat counts: both operands from the small menu
BINCALLS_ALL = ["divmod({X}, {Y})", "{X}[{Y}]", "{X}[{Y}:{Y}]", "{X}[::{Y}]", "int({X}, {Y})", "range({X}, {Y})", "getattr({X}, {Y})", "isinstance({X}, {Y})", "max({X}, {Y})",
                "min({X}, {Y})", "{Y}.join({X})", "'a'.center({X}, {Y})", "{X}.split({Y})", "{X}.count({Y})", "{X}.index({Y})", "str({X}, {Y})", "bytes({X}, {Y})",
                "{X}.encode({Y})", "{X}.to_bytes({Y}, 'big')", "{X}.__add__({Y})", "{X}.__lshift__({Y})", "{X} if {Y} else {Y}", "{{{X}: {Y}}}[{Y}]",
                "({X}, {Y})[{Y}]", "dict([({X}, {Y})])", "{X}.startswith({Y})", "{X}.replace({Y}, {Y})", "{X}.find({Y})", "{X}.ljust({Y})", "{X} < {Y} < {X}", "complex({X}, {Y})",
                "slice({X}, {Y})", "int.from_bytes({X}, {Y})", "{X}.__format__({Y})", "format({X}, {Y})", "{X}.format({Y})", "{X} % ({Y},)", "{X} % {Y}"]
BINCALLS_SMALL = ["pow({X}, {Y})", "round({X}, {Y})", "{X}.__pow__({Y})", "pow({X}, {Y}, 7)"]

YS_ALL = list(VALUES)
YS_SMALL = ["m1", "zero", "one", "u255", "f15", "negf", "inf", "nan", "none", "str", "true", "tup", "lst", "bytes"]
# x values for which an exponent-like SMALL operation is generated at all (everything: bases may be huge, exponents are not)


def families() -> dict[str, list[str]]:
    return {"fstr": FSPECS, "fconv": FCONVS, "fnest": FNEST, "pct": PCTS, "pctstar": PCTSTAR, "fmt": FMTS, "fmtfield": FMTFIELDS, "fmtnest": FMTNEST,
            "call": CALLS, "unop": UNOPS, "binop": BINOPS_ALL, "binop_small": BINOPS_SMALL, "mul": BINOPS_BOTHSMALL, "bincall": BINCALLS_ALL, "bincall_small": BINCALLS_SMALL}


BINARY = {"mul": "bothsmall", "fnest": "all", "pctstar": "all", "fmtnest": "all", "binop": "all", "binop_small": "small", "bincall": "all", "bincall_small": "small"}


def expression(fam: str, idx: int, x: str, y: str) -> str:
    """Source text of the operation number idx (1-based) of family fam on the values x / y."""
    X, Y = "(" + VALUES[x] + ")", "(" + VALUES[y] + ")"
    arg = families()[fam][idx - 1]
    if fam == "fstr":
        return 'f"{' + X + ":" + arg + '}"'
    if fam == "fconv":
        return 'f"{' + X + arg + '}"'
    if fam == "fnest":
        return 'f"{' + X + ":" + arg.replace("{Y}", "{" + Y + "}") + '}"'
    if fam == "pct":
        return '"%' + arg + '" % ' + X
    if fam == "pctstar":
        n = arg.count("*")
        return '"%' + arg + '" % (' + ", ".join([Y] * n + [X]) + ")"
    if fam == "fmt":
        return '"{:' + arg + '}".format(' + X + ")"
    if fam == "fmtfield":
        return '"' + arg + '".format(' + X + ")"
    if fam == "fmtnest":
        return '"' + arg + '".format(' + X + ", " + Y + ")"
    if fam in ("binop", "binop_small"):
        return X + " " + arg + " " + Y
    if fam == "mul" and "{" not in arg:
        return X + " " + arg + " " + Y
    if fam in ("call", "unop", "bincall", "bincall_small", "mul"):
        return arg.replace("{{", "\0").replace("}}", "\1").replace("{X}", X).replace("{Y}", Y).replace("\0", "{").replace("\1", "}")
    raise core.MachineryError(f"unknown constant-folding family {fam}")


STATEMENTS = ("assert ", "del ", "a, b = ", "a, *b = ", "for ", "with ", "raise ")


def render(case: dict) -> str:
    """One never-called function per first operand x and (for binary operations) second operand y."""
    fam, idx = case["fam"], case["idx"]
    ys = case["ys"] or ["none"]
    lines = []
    for x in case["xs"]:
        for y in ys:
            e = expression(fam, idx, x, y)
            lines.append(f"def k_{x}_{y}():")
            lines.append("    " + (e if e.startswith(STATEMENTS) else "return " + e))
    return "\n".join(lines) + "\n"
