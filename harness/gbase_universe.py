"""Real user-defined generic classes for the generic-bases slice of C04 (spec/GenericBases.tla): every arrangement of an
explicit `Generic[...]` base (absent, last, in the middle, first), parameter orders that differ from the order of first
appearance, a subclass fixing one parameter, a two-level chain, Sequence- and list-based classes."""
from __future__ import annotations

import abc
from typing import Generic, Iterable, List, Mapping, Sequence, TypeVar  # (typing aliases: the subclasses are Generic at run time)

K = TypeVar("K")
V = TypeVar("V")
T = TypeVar("T")


def _mapping(cls):
    cls.__init__ = lambda self, d=None: setattr(self, "_d", dict(d or {}))
    cls.__getitem__ = lambda self, k: self._d[k]
    cls.__iter__ = lambda self: iter(self._d)
    cls.__len__ = lambda self: len(self._d)
    abc.update_abstractmethods(cls)
    return cls


def _sequence(cls):
    cls.__init__ = lambda self, d=(): setattr(self, "_d", list(d))
    cls.__getitem__ = lambda self, i: self._d[i]
    cls.__len__ = lambda self: len(self._d)
    abc.update_abstractmethods(cls)
    return cls


class Tagged:
    pass


class G1(Generic[T]):
    pass


@_mapping
class M1(Mapping[K, V]):  # implicit order [K, V]
    pass


@_mapping
class InvLast(Mapping[K, V], Generic[V, K]):
    pass


@_mapping
class InvMid(Mapping[K, V], Generic[V, K], Tagged):  # Generic in the middle
    pass


@_mapping
class InvFirst(Generic[V, K], Mapping[K, V]):
    pass


@_mapping
class SameMid(Mapping[K, V], Generic[K, V], Tagged):  # Generic in the middle, same order as appearance
    pass


@_mapping
class SI(InvMid[int, V]):  # fixes one parameter: Mapping[V, int]
    pass


@_mapping
class Chain2(InvLast[K, V]):  # two levels: InvLast[K, V] is a Mapping[V, K]
    pass


@_mapping
class Chain3(Chain2[V, K], Tagged):  # three levels, implicit order [V, K]: Chain2[V, K] -> InvLast[V, K] -> Mapping[K, V]
    pass


@_sequence
class S1(Sequence[T]):
    pass


class L1(List[T]):
    pass


@_sequence
class SPair(Sequence[K], Generic[V, K], Tagged):  # a Sequence of its SECOND parameter
    pass


import collections.abc as _abc

ROOTS = {"Iterable": _abc.Iterable, "Mapping": _abc.Mapping, "Sequence": _abc.Sequence, "list": list}
USER = {c.__name__: c for c in (Tagged, G1, M1, InvLast, InvMid, InvFirst, SameMid, SI, Chain2, Chain3, S1, L1, SPair)}
CLASSES = {**ROOTS, **USER}
TYPES = {"int": int, "str": str}
# documented relations between the typeshed roots (parameter positions passed upwards)
ROOT_UP = {"Mapping": ("Iterable", [0]), "Sequence": ("Iterable", [0]), "list": ("Sequence", [0]), "Iterable": None}
