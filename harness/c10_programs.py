"""Program pool for C10: family -> list of (pid, source).  Families match Determinism.tla."""
from __future__ import annotations

R = "from typing_extensions import reveal_type\n"

POOL: dict[str, list[str]] = {
    "kwargs": [
        "def f(a: int) -> None:\n    pass\n\ndef g() -> None:\n    f(1, zed=1, yak=2, xen=3, wim=4)\n",
        "def f(a: int, *, k: int = 0) -> None:\n    pass\n\ndef g() -> None:\n    f(1, k=2, beta=1, alpha=2, gamma=3)\n    f(delta=1, a=1, epsilon=2)\n",
        "class C:\n    def m(self, x: int) -> None:\n        pass\n\ndef g(c: C) -> None:\n    c.m(1, q=1, p=2, o=3)\n",
        # surplus keywords collected by **kwargs: the bound TypedDict is rendered in the diagnostic
        "def f(a: int, **kwargs: int) -> None:\n    pass\n\ndef h(a: int, /, *args: int, k: int = 0, **kw: str) -> None:\n    pass\n\ndef g() -> None:\n    f(1, zed='x', yak='y', xen=1, wim=None)\n    f(a=1, omega=b'', alpha='q', mid=2.5)\n    h(1, 2, k=3, tau=1, sigma=2, rho='ok', pi=None)\n",
    ],
    "orchain": [
        R + "\ndef f(x: object) -> None:\n    if isinstance(x, int) or isinstance(x, str) or x is None:\n        reveal_type(x)\n",
        R + "\ndef f(x: object, y: object) -> None:\n    if isinstance(x, bytes) or isinstance(x, float) or isinstance(x, list) or isinstance(x, dict):\n        reveal_type(x)\n    if not (isinstance(y, int) or isinstance(y, str)):\n        return\n    reveal_type(y)\n",
        R + "from typing import Union\n\ndef f(x: Union[int, str, bytes, None]) -> None:\n    if x is None or isinstance(x, bytes) or x == 1:\n        reveal_type(x)\n    else:\n        reveal_type(x)\n",
    ],
    "proto": [
        "from typing import Protocol\n\nclass P(Protocol):\n    def a(self) -> int:\n        return 1\n    def b(self) -> int:\n        return 1\n    def c(self) -> int:\n        return 1\n\nclass X:\n    pass\n\ndef want(p: P) -> None:\n    pass\n\ndef g() -> None:\n    want(X())\n",
        "from typing import Protocol\n\nclass Q(Protocol):\n    zeta: int\n    eta: int\n    theta: str\n    iota: str\n\nclass Y:\n    eta: int = 1\n\ndef want(p: Q) -> None:\n    pass\n\ndef g() -> None:\n    want(Y())\n    want(1)\n",
    ],
    "setlit": [
        R + "\ndef f() -> None:\n    s = {'a', 'b', 'c', 'd'}\n    reveal_type(s)\n    for e in s:\n        reveal_type(e)\n",
    ],
    "litunion": [
        R + "from typing_extensions import Literal\n\ndef f(x: Literal['a', 'b', 'c', 'd', 'e', 1, 2, 3]) -> None:\n    if x in ('a', 'c', 1, 3):\n        reveal_type(x)\n    else:\n        reveal_type(x)\n",
        R + "\ndef f(c: int) -> None:\n    if c == 1:\n        x = 'one'\n    elif c == 2:\n        x = 2\n    elif c == 3:\n        x = None\n    elif c == 4:\n        x = b'four'\n    else:\n        x = 5.0\n    reveal_type(x)\n",
    ],
    "dictkeys": [
        R + "\ndef f(c: bool) -> None:\n    d = {'x': 1, 'y': 'a', 'z': None}\n    reveal_type(d)\n    for k in d:\n        reveal_type(d[k])\n    reveal_type(d['nope'])\n",
    ],
    "attrs": [
        "class C:\n    def __init__(self) -> None:\n        self.a = 1\n\ndef f(c: C) -> None:\n    c.b\n    c.d\n    c.e\n",
        "import os\n\ndef f() -> None:\n    os.no_such_thing\n    (1).nope\n    'x'.zzz\n",
    ],
    "typeddict": [
        "from typing import TypedDict\n\nclass TD(TypedDict):\n    a: int\n    b: str\n    c: float\n\ndef want(t: TD) -> None:\n    pass\n\ndef g() -> None:\n    want({})\n    want({'z': 1, 'y': 2, 'x': 3})\n",
    ],
    "overload": [
        R + "from typing import overload, Union\n\n@overload\ndef f(x: int) -> int: ...\n@overload\ndef f(x: str) -> str: ...\ndef f(x: Union[int, str]) -> Union[int, str]:\n    return x\n\ndef g(y: Union[int, str, None], z: Union[bytes, float]) -> None:\n    reveal_type(f(y))\n    f(z)\n",
    ],
    "generic": [
        R + "from typing import TypeVar, Sequence, Union\nT = TypeVar('T')\nU = TypeVar('U')\n\ndef first(x: Sequence[T], y: Sequence[U]) -> Union[T, U]:\n    return x[0]\n\ndef g() -> None:\n    reveal_type(first([1, 'a'], (None, 2.0)))\n    reveal_type(first('ab', [b'x']))\n    first(1, 2)\n",
    ],
    # twins: the same program up to the order in which union / Literal members are written inside generic arguments;
    # checked one after the other by one Checker they must still render exactly as they do alone
    "gentwin": [
        R + "from typing import Union, Optional\n\ndef f(xs: list[Union[int, str]], d: dict[str, Union[int, None]]) -> None:\n    for x in xs:\n        reveal_type(x)\n    reveal_type(xs[0])\n    reveal_type(d['k'])\n    xs.append(b'no')\n    d['z'] = 1.5\n",
        R + "from typing import Union, Optional\n\ndef f(xs: list[Union[str, int]], d: dict[str, Union[None, int]]) -> None:\n    for x in xs:\n        reveal_type(x)\n    reveal_type(xs[0])\n    reveal_type(d['k'])\n    xs.append(b'no')\n    d['z'] = 1.5\n",
        R + "from typing import Union\nfrom typing_extensions import Literal\n\ndef f(t: tuple[Literal['a', 'b', 1], ...], s: set[Union[bytes, float]]) -> None:\n    for x in t:\n        reveal_type(x)\n    for y in s:\n        reveal_type(y)\n    reveal_type(t[0])\n",
        R + "from typing import Union\nfrom typing_extensions import Literal\n\ndef f(t: tuple[Literal[1, 'b', 'a'], ...], s: set[Union[float, bytes]]) -> None:\n    for x in t:\n        reveal_type(x)\n    for y in s:\n        reveal_type(y)\n    reveal_type(t[0])\n",
    ],
    # calls to typeshed functions whose parameters are generic structural protocols (abs, round, divmod, pow, sum, max,
    # sorted, ...): the protocol-compatibility cache and the signatures live in the Checker and are shared by every file
    # it checks, so a program calling them with union arguments, one calling them with plain arguments and one calling
    # them with other plain types must each render the same whatever was checked before (all ordered pairs are run)
    "sharedsig": [
        R + "from fractions import Fraction\nfrom typing import Union\n\ndef f(x: Union[int, float], y: Union[float, Fraction], z: Union[int, bool], s: Union[list[int], tuple[float, ...]]) -> None:\n    reveal_type(abs(x))\n    reveal_type(round(y, 1))\n    reveal_type(round(y))\n    reveal_type(divmod(x, z))\n    reveal_type(pow(z, 2))\n    reveal_type(sum(s))\n    reveal_type(max(s))\n    reveal_type(sorted(s))\n    reveal_type(abs(z))\n    reveal_type(min(x, y))\n    abs('no')\n    round(None)\n",
        R + "\ndef f(n: int, f: float, xs: list[int]) -> None:\n    reveal_type(abs(n))\n    reveal_type(round(f, 2))\n    reveal_type(round(f))\n    reveal_type(divmod(n, n))\n    reveal_type(pow(n, 2))\n    reveal_type(sum(xs))\n    reveal_type(max(xs))\n    reveal_type(sorted(xs))\n    reveal_type(abs(f))\n    reveal_type(min(n, n))\n    abs('no')\n    round(None)\n",
        R + "from fractions import Fraction\n\ndef f(b: bool, q: Fraction, c: complex, ts: tuple[float, ...]) -> None:\n    reveal_type(abs(b))\n    reveal_type(abs(q))\n    reveal_type(abs(c))\n    reveal_type(round(q, 2))\n    reveal_type(round(q))\n    reveal_type(divmod(b, b))\n    reveal_type(pow(b, 2))\n    reveal_type(sum(ts))\n    reveal_type(max(ts))\n    reveal_type(sorted(ts))\n    reveal_type(min(q, q))\n    abs('no')\n    round(None)\n",
        R + "from typing import Protocol, TypeVar, Union\n\nT = TypeVar('T', covariant=True)\n\nclass HasGet(Protocol[T]):\n    def get(self) -> T:\n        raise NotImplementedError\n\nclass GI:\n    def get(self) -> int:\n        return 1\n\nclass GS:\n    def get(self) -> str:\n        return ''\n\ndef take(h: HasGet[T]) -> T:\n    return h.get()\n\ndef f(u: Union[GI, GS], i: GI, s: GS) -> None:\n    reveal_type(take(u))\n    reveal_type(take(i))\n    reveal_type(take(s))\n    reveal_type(take(u))\n    take(1)\n",
    ],
    # end-of-run reports of the ClassAttributeChecker: the same never-set attribute read at several sites of one class,
    # several classes, reads in comprehensions / nested functions; the reports are sorted by attribute name only, so their
    # order among reads of one attribute must not depend on set / dict iteration over AST nodes
    "attrchecker": [
        "class Capybara(object):\n    def __init__(self):\n        self.weight = 1\n\n    def eat(self):\n        return self.grass\n\n    def eat_more(self):\n        if self.grass:\n            return self.grass + self.weight\n        return self.hay\n\n    def sleep(self):\n        print(self.grass)\n        print(self.hay)\n\n    def swim(self):\n        total = self.weight\n        total += self.grass\n        total += self.grass\n        return total\n\n    def run(self):\n        return [self.grass for _ in range(self.weight)]\n\n    def hide(self):\n        return (self.hay, self.grass, self.burrow)\n",
        "class A(object):\n    def f(self):\n        return self.x + self.y + self.x\n\n    def g(self):\n        def inner():\n            return self.x, self.z\n        return inner, self.y\n\n\nclass B(A):\n    def h(self):\n        return self.x or self.w or self.x\n\n\nclass C(object):\n    def k(self):\n        return {self.x: self.x for _ in (self.x, self.y)}\n",
    ],
    "narrow": [
        R + "from typing import Union, Optional\n\ndef f(x: Union[int, str, None, list[int], tuple[str, ...]]) -> None:\n    if not x:\n        reveal_type(x)\n    elif isinstance(x, (int, list)):\n        reveal_type(x)\n    else:\n        reveal_type(x)\n    while x:\n        reveal_type(x)\n        x = None\n",
    ],
    # several assignments to one name inside a try body / suppressing with (suppressing_subscope lists the new definition
    # nodes), and names of the enclosing function read from a nested function (all definition nodes)
    "trymulti": [
        R + "\ndef cond() -> bool:\n    return True\n\ndef f() -> None:\n    try:\n        x = 1\n        cond()\n        x = 'a'\n        cond()\n        x = None\n        cond()\n        x = 2.5\n        cond()\n        x = b'b'\n    except Exception:\n        pass\n    reveal_type(x)\n",
        R + "import contextlib\n\ndef cond() -> bool:\n    return True\n\ndef f() -> None:\n    y = 0\n    with contextlib.suppress(Exception):\n        y = 'p'\n        cond()\n        y = None\n        cond()\n        y = (1, 2)\n        cond()\n        y = 3.5\n    reveal_type(y)\n    takes_int(y)\n\ndef takes_int(i: int) -> None:\n    pass\n",
    ],
    "closure": [
        R + "\ndef f(c: int) -> None:\n    x = 1\n    x = 'a'\n    x = None\n    x = 2.5\n    def h() -> None:\n        nonlocal x\n        reveal_type(x)\n    h()\n",
        R + "\ndef f(c: int) -> None:\n    if c:\n        v = 1\n    elif c > 2:\n        v = 'a'\n    else:\n        v = None\n    v = b'x'\n    def h() -> int:\n        return v\n    g = lambda: reveal_type(v)\n    h()\n    g()\n",
    ],
    "scopes": [
        R + "\ndef cond() -> bool:\n    return True\n\ndef f() -> None:\n    try:\n        if cond():\n            x = 1\n        else:\n            y = 2\n        z = 'a'\n    except Exception:\n        x = None\n    finally:\n        reveal_type(x)\n    reveal_type(x)\n    print(y, z)\n    for _ in range(3):\n        w = 3\n    print(w)\n",
    ],
}


def programs() -> dict[str, dict]:
    out = {}
    for fam, srcs in POOL.items():
        for i, src in enumerate(srcs):
            out[f"{fam}#{i}"] = {"family": fam, "src": src}
    return out
