#!/bin/bash
# usage: confirm_seed.sh <worktree>   -- demo must FAIL with the change and PASS without it
wt=$1
cd $wt || exit 2
PYTHONPATH=$wt /venv/bin/python SEED/demo.py >/tmp/seed_demo_with.txt 2>&1; with=$?
git stash -q -- pyanalyze
PYTHONPATH=$wt /venv/bin/python SEED/demo.py >/tmp/seed_demo_without.txt 2>&1; without=$?
git stash pop -q
echo "with-change exit=$with (want 1)  without-change exit=$without (want 0)"
tail -2 /tmp/seed_demo_with.txt
