#!/bin/bash
# usage: confirm_seed.sh <worktree>   -- demo must FAIL with the change and PASS without it
# (no `git stash`: the stash is shared by all worktrees of a repository)
wt=$1
cd $wt || exit 2
tag=$(basename $wt)
PYTHONPATH=$wt /venv/bin/python SEED/demo.py >/tmp/seed_demo_with_$tag.txt 2>&1; with=$?
git diff -- pyanalyze > /tmp/seed_patch_$tag.diff
git apply -R /tmp/seed_patch_$tag.diff
PYTHONPATH=$wt /venv/bin/python SEED/demo.py >/tmp/seed_demo_without_$tag.txt 2>&1; without=$?
git apply /tmp/seed_patch_$tag.diff
echo "with-change exit=$with (want 1)  without-change exit=$without (want 0)"
tail -2 /tmp/seed_demo_with_$tag.txt
rm -f /tmp/seed_patch_$tag.diff
