"""C04 slice: generic argument comparison through the generic bases of USER generic classes (spec/GenericBases.tla,
spec/trace/GenericBasesTrace.tla; real classes harness/gbase_universe.py)."""
from __future__ import annotations

import typing

from . import core
from . import gbase_universe as GU


def to_value(t: dict):
    from pyanalyze.value import GenericValue, TypedValue

    return GenericValue(GU.CLASSES[t["c"]], [TypedValue(GU.TYPES[a["n"]]) for a in t["args"]])


def annotation(t: dict) -> str:
    return f"{t['c']}[{', '.join(a['n'] for a in t['args'])}]"


def observe_pairs(arg):
    """All offered types against one expected type, through one new Checker."""
    from pyanalyze.checker import Checker
    from pyanalyze.value import CanAssignError

    tid0, pairs = arg
    ck = Checker()
    out = []
    for i, p in enumerate(pairs):
        try:
            real = not isinstance(to_value(p["e"]).can_assign(to_value(p["o"]), ck), CanAssignError)
        except Exception as exc:
            out.append({"tid": tid0 + i, "kind": "raised", "case": p, "exc": f"{type(exc).__name__}: {exc}"})
            continue
        out.append({"tid": tid0 + i, "kind": "gpair", "e": p["e"], "o": p["o"], "real": real})
    return out


def observe_snippets(arg):
    """`def want(x: E)`; `def give_i(y: O): want(y)` through the visitor."""
    from . import pyz

    tid0, pairs = arg
    e = pairs[0]["e"]
    lines = ["from typing import Iterable, Mapping, Sequence", "from harness.gbase_universe import *", "",
             f"def want(x: {annotation(e)}) -> None:", "    pass", ""]
    calls = []
    for i, p in enumerate(pairs):
        lines += [f"def give{i}(y: {annotation(p['o'])}) -> None:", "    want(y)"]
        calls.append((len(lines), p))
    code = "\n".join(lines) + "\n"
    fails = pyz.check_source(code, checker=pyz.get_checker(fresh=True))
    bad: dict[int, list[str]] = {}
    for f in fails:
        bad.setdefault(f["lineno"], []).append(f["code"].name)
    other = {ln: cs for ln, cs in bad.items() if ln not in {c[0] for c in calls} or set(cs) - {"incompatible_argument"}}
    if other:
        raise core.MachineryError(f"generic-bases snippet for {e}: unexpected diagnostics {other}\n{code}")
    return [{"tid": tid0 + i, "kind": "gsnip", "e": p["e"], "o": p["o"], "diagnosed": ln in bad} for i, (ln, p) in enumerate(calls)]


# --------------------------------------------------------------------------- CPython as the oracle's validation
def _name(cls) -> str:
    for n, c in GU.CLASSES.items():
        if c is cls:
            return n
    raise core.MachineryError(f"class {cls} is not in the universe")


def cpython_base_args(cls: type, args: list, target: str):
    """c[args] seen as `target`: substitution of __parameters__ along __orig_bases__ (roots: documented relations)."""
    name = _name(cls)
    if name == target:
        return list(args)
    if name in GU.ROOT_UP:
        up = GU.ROOT_UP[name]
        return None if up is None else cpython_base_args(GU.CLASSES[up[0]], [args[i] for i in up[1]], target)
    env = dict(zip(getattr(cls, "__parameters__", ()), args))
    for ob in getattr(cls, "__orig_bases__", cls.__bases__):
        origin = typing.get_origin(ob)
        if origin is typing.Generic or ob is object:
            continue
        if origin is None:
            origin, bargs = ob, []
        else:
            bargs = [env.get(a, a) for a in typing.get_args(ob)]
        if origin not in GU.CLASSES.values():
            continue
        r = cpython_base_args(origin, bargs, target)
        if r is not None:
            return r
    return None


def selftest_table(rows: list[dict]) -> int:
    """GTab / Params(c, "ref") against the real classes' __orig_bases__ / __parameters__."""
    for r in rows:
        cls = GU.USER[r["cls"]]
        real_params = [p.__name__ for p in cls.__parameters__]
        if [p["n"] for p in r["params"]] != real_params:
            raise core.MachineryError(f"oracle: parameters of {r['cls']}: model {r['params']} != CPython __parameters__ {real_params}")
        real_bases = []
        for ob in getattr(cls, "__orig_bases__", cls.__bases__):
            origin = typing.get_origin(ob) or ob
            oname = "Generic" if origin is typing.Generic else _name(origin)
            real_bases.append({"c": oname, "args": [{"k": "tv", "n": a.__name__} if isinstance(a, typing.TypeVar) else {"k": "ty", "n": a.__name__}
                                                    for a in typing.get_args(ob)]})
        if list(r["bases"]) != real_bases:
            raise core.MachineryError(f"GTab[{r['cls']}] = {r['bases']} but __orig_bases__ gives {real_bases}")
    if {r["cls"] for r in rows} != set(GU.USER) - {"Tagged"}:
        raise core.MachineryError("GTab and gbase_universe.USER differ")
    return len(rows)


def witness_check(o: dict, target: str, args: list[str]) -> None:
    """A real object built as O must look like target[args] at run time (Mapping: key / value types; Sequence / Iterable:
    element type)."""
    cls = GU.USER[o["c"]]
    sample = {"int": 1, "str": "a"}
    root = cpython_base_args(cls, [GU.TYPES[a["n"]] for a in o["args"]], "Mapping")
    if root is not None:
        obj = cls({sample[root[0].__name__]: sample[root[1].__name__]})
        seen = {"Mapping": [type(next(iter(obj))).__name__, type(next(iter(obj.values()))).__name__], "Iterable": [type(next(iter(obj))).__name__]}
    else:
        root = cpython_base_args(cls, [GU.TYPES[a["n"]] for a in o["args"]], "Iterable")
        if root is None:
            return
        obj = cls([sample[root[0].__name__]])
        seen = {k: [type(next(iter(obj))).__name__] for k in ("Iterable", "Sequence", "list")}
    if target in seen and not isinstance(obj, GU.CLASSES[target]):
        raise core.MachineryError(f"witness of {o} is not an instance of {target}")
    if target in seen and seen[target] != args:
        raise core.MachineryError(f"oracle: the witness of {o} looks like {target}{seen[target]}, CPython's bases say {args}")


def run_slice(check: core.Check) -> None:
    res = core.require_ok(core.run_tlc("GenericBasesEmit", "GenericBases.quick.cfg", workers=4, timeout=900), "GenericBases")
    check.add_tlc("genericbases:quick(laws + emit)", res)
    sens = core.run_tlc("GenericBasesEmit", "GenericBases.sens_lastonly.cfg", workers=2, timeout=900)
    if sens.violated != "InvGSound":
        raise core.MachineryError("sensitivity self-test: the model that moves Generic[...] to the front only when it is last must violate InvGSound")
    rows = core.emitted_json(res)
    pairs = [r for r in rows if "e" in r]
    table = [r for r in rows if "cls" in r]
    if len(pairs) < 500:
        raise core.MachineryError("GenericBases emitted suspiciously few pairs")
    n_tab = selftest_table(table)
    import pyanalyze.checker  # noqa: F401

    by_e: dict[str, list[dict]] = {}
    for p in pairs:
        by_e.setdefault(core.canon(p["e"]), []).append(p)
        check.nontrivial("gbase:" + core.canon(p))
    groups = list(by_e.values())
    obs = [o for part in core.pmap(observe_pairs, [(0, g) for g in groups], chunk=1) for o in part]
    obs += [o for part in core.pmap(observe_snippets, [(0, g) for g in groups], chunk=1) for o in part]
    # CPython: every offered type seen as every root / user base
    offered = list({core.canon(p["o"]): p["o"] for p in pairs}.values())
    targets = sorted({p["e"]["c"] for p in pairs})
    n_wit = 0
    for o in offered:
        for t in targets:
            r = cpython_base_args(GU.USER[o["c"]], [GU.TYPES[a["n"]] for a in o["args"]], t)
            args = [] if r is None else [{"k": "ty", "n": a.__name__} for a in r]
            obs.append({"kind": "gbase", "o": o, "target": t, "found": r is not None, "args": args})
            if r is not None and t in GU.ROOTS:
                witness_check(o, t, [a.__name__ for a in r])
                n_wit += 1
    good = [o for o in obs if o["kind"] != "raised"]
    for o in obs:
        if o["kind"] == "raised":
            check.violation(core.canon(o["case"]), "PublicApiRaised", {"case": o["case"], "exc": o["exc"], "slice": "genericbases"})
    for i, o in enumerate(good):
        o["tid"] = i
    verdicts, stats = core.adjudicate("GenericBasesTrace", "GenericBasesTrace.cfg", good, batch=len(good), timeout=900)
    check.add_trace_stats(stats)
    check.evals(len(obs))
    counts: dict[str, int] = {}
    for tid, vs in verdicts.items():
        o = good[tid]
        for v in vs:
            counts[v] = counts.get(v, 0) + 1
            case = {"e": o.get("e"), "o": o["o"]}
            if v.startswith("viol:"):
                check.violation(core.canon(case), v[5:], {"case": case, "observed": o, "slice": "genericbases"})
            elif v.startswith("drift:"):
                check.drift({"verdict": v, "case": case, "observed": o, "source": "genericbases"})
            else:
                raise core.MachineryError(f"generic-bases oracle disagrees with CPython ({v}): {o}")
    check.cov["genericbases"] = {
        "pairs": len(pairs), "snippet_calls": sum(1 for o in obs if o["kind"] == "gsnip"), "classes_compared_with_cpython": n_tab,
        "base_argument_validations": sum(1 for o in obs if o["kind"] == "gbase"), "witness_objects_checked": n_wit, "verdicts": counts,
        "sensitivity": "GenericBases.sens_lastonly.cfg: InvGSound violated (Generic[...] moved to the front only when last)",
        "bounds": "12 user generic classes (Generic[...] absent / last / middle / first, inverted parameter orders, one fixed "
                  "parameter, 2- and 3-level chains, Sequence / list based) x all int/str argument tuples, offered to Mapping / Sequence / "
                  "Iterable / list / 4 user classes with all argument tuples: 1067 model states, exhaustive, value API + visitor",
    }


def replay(check: core.Check, witness: dict) -> None:
    p = witness["case"]
    obs = observe_pairs((0, [p])) + observe_snippets((1, [p]))
    for i, o in enumerate(obs):
        o["tid"] = i
    verdicts, _ = core.adjudicate("GenericBasesTrace", "GenericBasesTrace.cfg", obs, batch=len(obs), timeout=900)
    for tid, vs in verdicts.items():
        for v in vs:
            if v.startswith("viol:"):
                check.violation(core.canon(p), v[5:], {"case": p, "slice": "genericbases"})
            elif v.startswith("drift:"):
                check.drift({"verdict": v, "case": p})
