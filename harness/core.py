"""Shared machinery: scratch space, running TLC, trace adjudication, evidence, findings, verdicts.

Exit codes of every check: 0 held (maybe KNOWN-FINDING lines), 1 VIOLATION line(s), 2 machinery
failure (never reported as a violation).
"""
from __future__ import annotations

import atexit
import dataclasses
import hashlib
import json
import os
import re
import shutil
import subprocess
import sys
import tempfile
import time
from pathlib import Path
from typing import Any, Iterable, Optional, Sequence

VERIF = Path(__file__).resolve().parent.parent
SPEC = VERIF / "spec"
REPO = Path(os.environ.get("VERIF_REPO", "/repo"))
# runs against a scratch worktree (VERIF_REPO=..., used to try seeded changes) must not overwrite the evidence of
# the tree under verification
EVIDENCE = (VERIF / "evidence") if REPO == Path("/repo") else Path(os.environ.get("VERIF_EVIDENCE_DIR", "/tmp/verif-evidence-" + REPO.name))
GUARD = "PYANALYZE_VERIF"
NCPU = min(16, os.cpu_count() or 4)


class MachineryError(Exception):
    """Something in /verif broke (TLC crashed, codec failed, oracle model disagrees with CPython)."""


# --------------------------------------------------------------------------- scratch

_scratch_root: Optional[Path] = None


def scratch() -> Path:
    global _scratch_root
    if _scratch_root is None:
        base = os.environ.get("VERIF_SCRATCH") or tempfile.gettempdir()
        _scratch_root = Path(tempfile.mkdtemp(prefix="verif-", dir=base))
        if not os.environ.get("VERIF_KEEP"):
            atexit.register(shutil.rmtree, str(_scratch_root), True)
    return _scratch_root


def new_dir(name: str) -> Path:
    """A fresh directory under the scratch root (thread-safe)."""
    return Path(tempfile.mkdtemp(prefix=name.replace("/", "_") + ".", dir=str(scratch())))


# --------------------------------------------------------------------------- TLC


@dataclasses.dataclass
class TLCResult:
    ok: bool
    generated: int
    distinct: int
    depth: int
    wall_s: float
    stdout: str
    error: Optional[str] = None
    violated: Optional[str] = None
    dump: Optional[Path] = None
    coverage: dict[str, tuple[int, int]] = dataclasses.field(default_factory=dict)
    workdir: Optional[Path] = None
    printed: list[Any] = dataclasses.field(default_factory=list)


_RE_STATES = re.compile(r"(\d+) states generated, (\d+) distinct states found")
_RE_DEPTH = re.compile(r"depth of the complete state graph search is (\d+)")
_RE_SIM = re.compile(r"The number of states generated: (\d+)")
_RE_INV = re.compile(r"Error: Invariant (\w+) is violated")
_RE_PROP = re.compile(r"Error: (?:Action property|Temporal properties?) (\w+)? ?(?:is|were) violated")
_RE_COV = re.compile(r"^<(\w+) line \d+, col \d+ to line \d+, col \d+ of module (\w+)>: (\d+):(\d+)")


def stage_spec(cfg_name: str, extra_files: dict[str, str] | None = None) -> Path:
    """Copy every module of /verif/spec (flat) plus spec/mc into a fresh scratch directory."""
    d = new_dir("tlc-" + cfg_name.replace("/", "_"))
    for p in SPEC.glob("*.tla"):
        shutil.copy(p, d / p.name)
    for sub in ("mc", "trace"):
        for p in (SPEC / sub).glob("*"):
            if p.is_file():
                shutil.copy(p, d / p.name)
    for name, text in (extra_files or {}).items():
        (d / name).write_text(text)
    return d


def run_tlc(
    module: str,
    cfg: str,
    *,
    workers: int | str = NCPU,
    dump: bool = False,
    simulate: Optional[str] = None,
    depth: Optional[int] = None,
    seed: Optional[int] = None,
    coverage: bool = False,
    env: Optional[dict[str, str]] = None,
    timeout: int = 3600,
    extra_files: dict[str, str] | None = None,
    jvm_opts: Sequence[str] = (),
    dfs_queue: bool = False,
    heap: str = "5g",
) -> TLCResult:
    """Run TLC on `module`.tla with config file name `cfg` (looked up in spec/mc or extra_files)."""
    d = stage_spec(cfg, extra_files)
    meta = d / "meta"
    cmd = [
        "java",
        "-XX:+UseParallelGC",
        f"-Xmx{heap}",
        "-Xss64m",
        *jvm_opts,
    ]
    if dfs_queue:
        cmd.append("-Dtlc2.tool.queue.IStateQueue=StateDeque")
    cmd += [
        "-cp",
        "/opt/veriftools/tla/tla2tools.jar:/opt/veriftools/tla/CommunityModules-deps.jar",
        "tlc2.TLC",
        "-workers",
        str(workers),
        "-metadir",
        str(meta),
        "-noGenerateSpecTE",
        "-nowarning",
        "-config",
        cfg,
    ]
    if coverage:
        cmd += ["-coverage", "1"]
    if dump:
        cmd += ["-dump", str(d / "states")]
    if simulate is not None:
        cmd += ["-simulate", simulate]
    if depth is not None:
        cmd += ["-depth", str(depth)]
    if seed is not None:
        cmd += ["-seed", str(seed)]
    cmd.append(module + ".tla")
    e = dict(os.environ)
    e.pop("JAVA_TOOL_OPTIONS", None)
    if env:
        e.update(env)
    t0 = time.time()
    try:
        proc = subprocess.run(
            cmd, cwd=d, env=e, stdout=subprocess.PIPE, stderr=subprocess.STDOUT, text=True, timeout=timeout
        )
    except subprocess.TimeoutExpired as exc:
        raise MachineryError(f"TLC timed out after {timeout}s on {module}/{cfg}") from exc
    wall = time.time() - t0
    out = proc.stdout
    gen = dist = dep = 0
    m = None
    for m in _RE_STATES.finditer(out):
        pass
    if m:
        gen, dist = int(m.group(1)), int(m.group(2))
    else:
        ms = _RE_SIM.search(out)
        if ms:
            gen = dist = int(ms.group(1))
    md = _RE_DEPTH.search(out)
    if md:
        dep = int(md.group(1))
    violated = None
    mi = _RE_INV.search(out)
    if mi:
        violated = mi.group(1)
    else:
        mp = _RE_PROP.search(out)
        if mp:
            violated = mp.group(1) or "property"
    error = None
    if proc.returncode != 0 or "Error:" in out:
        idx = out.find("Error:")
        error = out[idx : idx + 3000] if idx >= 0 else f"tlc exit {proc.returncode}: {out[-2000:]}"
    cov: dict[str, tuple[int, int]] = {}
    if coverage:
        for line in out.splitlines():
            mc = _RE_COV.match(line.strip())
            if mc:
                name = mc.group(1)
                a, b = int(mc.group(3)), int(mc.group(4))
                prev = cov.get(name, (0, 0))
                cov[name] = (prev[0] + a, prev[1] + b)
    printed = []
    for line in out.splitlines():
        if line.startswith("<<\"") or line.startswith("\"@"):
            printed.append(line)
    res = TLCResult(
        ok=error is None,
        generated=gen,
        distinct=dist,
        depth=dep,
        wall_s=wall,
        stdout=out,
        error=error,
        violated=violated,
        dump=(d / "states.dump") if dump else None,
        coverage=cov,
        workdir=d,
        printed=printed,
    )
    shutil.rmtree(meta, ignore_errors=True)
    return res


def emitted_json(res: TLCResult) -> list[Any]:
    """Values printed by the spec with PrintT(ToJson(v)): one TLA+ string literal per line, whose
    content is JSON (TLC's string escaping coincides with JSON's)."""
    out = []
    for line in res.stdout.splitlines():
        if line.startswith('"{') or line.startswith('"['):
            out.append(json.loads(json.loads(line)))
    return out


def require_ok(res: TLCResult, what: str) -> TLCResult:
    if not res.ok:
        raise MachineryError(f"{what}: TLC failed: {res.error}")
    return res


def require_coverage(res: TLCResult, actions: Iterable[str], what: str) -> None:
    """Vacuity control: every named action/operator must have been evaluated at least once."""
    missing = [a for a in actions if res.coverage.get(a, (0, 0))[1] == 0]
    if missing:
        raise MachineryError(f"{what}: TLC coverage shows never-exercised actions: {missing}")


# --------------------------------------------------------------------------- trace adjudication

_RE_VERDICT = re.compile(r'^<<"VERDICT", (.*)>>$')


def adjudicate(
    module: str,
    cfg: str,
    observations: Sequence[dict[str, Any]],
    *,
    batch: int = 20000,
    extra_files: dict[str, str] | None = None,
    env: Optional[dict[str, str]] = None,
    timeout: int = 3600,
    parallel: int = 1,
) -> tuple[dict[Any, list[str]], dict[str, int]]:
    """Validate real-code observations against a trace specification with TLC.

    Every observation is one ndjson line with an integer `tid`.  The trace spec consumes one line
    per step and prints `<<"VERDICT", tid, "clause">>` for each line that is not plain "ok"
    ("viol:<clause>", "drift:<what>", "oracle:<what>").  Acceptance: TLC must consume every line
    (POSTCONDITION in the cfg); otherwise MachineryError.
    Returns ({tid: [verdict,...]}, stats).
    """
    from . import tlaparse

    verdicts: dict[Any, list[str]] = {}
    stats = {"observations": 0, "states": 0, "transitions": 0, "batches": 0}
    obs = list(observations)
    chunks = [obs[i : i + batch] for i in range(0, len(obs), batch)] or []

    def one(chunk_i: int) -> TLCResult:
        chunk = chunks[chunk_i]
        d = new_dir("trace")
        f = d / "obs.ndjson"
        with open(f, "w") as fh:
            for o in chunk:
                fh.write(json.dumps(o, separators=(",", ":")) + "\n")
        e = {"TRACE_FILE": str(f), "TRACE_LEN": str(len(chunk))}
        if env:
            e.update(env)
        res = run_tlc(module, cfg, workers=1, env=e, extra_files=extra_files, timeout=timeout)
        shutil.rmtree(d, ignore_errors=True)
        return res

    if parallel > 1 and len(chunks) > 1:
        from concurrent.futures import ThreadPoolExecutor

        with ThreadPoolExecutor(parallel) as ex:
            results = list(ex.map(one, range(len(chunks))))
    else:
        results = [one(i) for i in range(len(chunks))]
    for chunk, res in zip(chunks, results):
        if not res.ok:
            raise MachineryError(f"trace validation {module}/{cfg} failed: {res.error}")
        if res.distinct != len(chunk) + 1:
            raise MachineryError(
                f"trace validation {module}/{cfg}: TLC consumed {res.distinct - 1} of {len(chunk)} lines"
            )
        stats["observations"] += len(chunk)
        stats["states"] += res.distinct
        stats["transitions"] += res.generated
        stats["batches"] += 1
        for line in res.stdout.splitlines():
            m = _RE_VERDICT.match(line.strip())
            if m:
                vals = tlaparse.parse_value("<<" + m.group(1) + ">>")
                verdicts.setdefault(vals[0], []).append(vals[1])
        if res.workdir:
            shutil.rmtree(res.workdir, ignore_errors=True)
    return verdicts, stats


# --------------------------------------------------------------------------- findings


def load_findings(prop: str) -> tuple[dict[str, dict], list[dict]]:
    """Returns ({key: entry} for open findings of this property, [fixed entries])."""
    path = VERIF / "known_findings.jsonl"
    open_, fixed = {}, []
    if path.exists():
        for line in path.read_text().splitlines():
            line = line.strip()
            if not line or line.startswith("#"):
                continue
            e = json.loads(line)
            if e.get("property") != prop:
                continue
            if e.get("status") == "open":
                open_[e["key"]] = e
            else:
                fixed.append(e)
    return open_, fixed


def canon(obj: Any) -> str:
    return json.dumps(obj, sort_keys=True, separators=(",", ":"))


# --------------------------------------------------------------------------- check context


class Check:
    """Collects coverage numbers, violations, known findings and writes the evidence file."""

    def __init__(self, prop: str, tier: str, seed: int, level: str = "model_checking"):
        self.prop = prop
        self.tier = tier
        self.seed = seed
        self.level = level
        self.t0 = time.time()
        self.cov: dict[str, Any] = {
            "states": 0,
            "transitions": 0,
            "traces_validated_against_impl": 0,
            "evaluations": 0,
            "distinct_nontrivial": 0,
            "samples": [],
            "drift": 0,
            "drift_samples": [],
            "tlc_runs": [],
            "known_findings_seen": [],
        }
        self.assumptions: list[str] = []
        self.violations: list[dict] = []
        self.known_open, self.known_fixed = load_findings(prop)
        self.known_hit: dict[str, int] = {}
        self._nontrivial: set[str] = set()
        self.replay_dir = EVIDENCE / "replays" / prop
        if self.replay_dir.exists() and not os.environ.get("VERIF_REPLAY_MODE"):
            shutil.rmtree(self.replay_dir, ignore_errors=True)

    # -- bookkeeping
    def add_tlc(self, name: str, res: TLCResult, **extra: Any) -> None:
        self.cov["states"] += res.distinct
        self.cov["transitions"] += res.generated
        rec = {
            "name": name,
            "distinct": res.distinct,
            "generated": res.generated,
            "depth": res.depth,
            "wall_s": round(res.wall_s, 2),
        }
        if res.coverage:
            rec["action_coverage"] = {k: v[1] for k, v in sorted(res.coverage.items())}
        rec.update(extra)
        self.cov["tlc_runs"].append(rec)

    def add_trace_stats(self, stats: dict[str, int]) -> None:
        self.cov["traces_validated_against_impl"] += stats["observations"]
        self.cov["states"] += stats["states"]
        self.cov["transitions"] += stats["transitions"]

    def sample(self, obj: Any, limit: int = 6) -> None:
        if len(self.cov["samples"]) < limit:
            self.cov["samples"].append(obj)

    def nontrivial(self, key: str) -> None:
        self._nontrivial.add(hashlib.blake2b(key.encode(), digest_size=8).hexdigest())

    def evals(self, n: int = 1) -> None:
        self.cov["evaluations"] += n

    def drift(self, obj: Any) -> None:
        self.cov["drift"] += 1
        if len(self.cov["drift_samples"]) < 10:
            self.cov["drift_samples"].append(obj)

    # -- verdicts
    def violation(self, key: str, clause: str, payload: dict) -> None:
        """A property violation on the real code, adjudicated by TLC (or by the oracle)."""
        if key in self.known_open:
            self.known_hit[key] = self.known_hit.get(key, 0) + 1
            return
        for k, e in self.known_open.items():
            pat = e.get("key_regex")
            if pat and re.fullmatch(pat, key):
                self.known_hit[k] = self.known_hit.get(k, 0) + 1
                return
        if any(v["key"] == key for v in self.violations):
            return
        self.replay_dir.mkdir(parents=True, exist_ok=True)
        n = len(self.violations)
        path = self.replay_dir / f"{n:04d}.json"
        body = {"property": self.prop, "key": key, "clause": clause, **payload}
        if len(self.violations) < 200:
            path.write_text(json.dumps(body, indent=1, sort_keys=True, default=str))
        self.violations.append({"key": key, "clause": clause, "replay": str(path)})

    def finish(self) -> int:
        self.cov["distinct_nontrivial"] = len(self._nontrivial)
        for k, n in sorted(self.known_hit.items()):
            e = self.known_open[k]
            print(f"KNOWN-FINDING: property={self.prop} {e.get('what', k)} [key={k}] ({n} observation(s))")
            self.cov["known_findings_seen"].append({"key": k, "observations": n})
        for v in self.violations[:8]:
            print(f"VIOLATION property={self.prop} replay={v['replay']}  # {v['clause']}: {v['key'][:200]}")
        if len(self.violations) > 8:
            print(f"... and {len(self.violations) - 8} more violations of {self.prop}")
        ev = {
            "property_id": self.prop,
            "tier": self.tier,
            "seed": self.seed,
            "level": self.level,
            "coverage": self.cov,
            "assumptions": self.assumptions,
            "wall_s": round(time.time() - self.t0, 2),
            "violations": len(self.violations),
        }
        if not self.cov["samples"]:
            self.cov["samples"].append("no samples recorded")
        EVIDENCE.mkdir(parents=True, exist_ok=True)
        (EVIDENCE / f"{self.prop}.json").write_text(json.dumps(ev, indent=1, default=str) + "\n")
        return 1 if self.violations else 0


def repo_env() -> dict[str, str]:
    e = dict(os.environ)
    e[GUARD] = "1"
    e.setdefault("PYTHONHASHSEED", "0")
    return e


# --------------------------------------------------------------------------- parallel map


def _pmap_worker(args):
    func, chunk = args
    return [func(x) for x in chunk]


def pmap(func, items: Sequence[Any], procs: int = NCPU, chunk: int = 200) -> list[Any]:
    """Order-preserving parallel map over forked worker processes (func must be a module-level
    function).  Falls back to a plain loop for small inputs."""
    items = list(items)
    if len(items) < 2 * chunk or procs <= 1:
        return [func(x) for x in items]
    import multiprocessing as mp

    chunks = [items[i : i + chunk] for i in range(0, len(items), chunk)]
    ctx = mp.get_context("fork")
    with ctx.Pool(procs) as pool:
        parts = pool.map(_pmap_worker, [(func, c) for c in chunks])
    return [y for part in parts for y in part]


def simulate_cases(
    module: str,
    cfg: str,
    want: int,
    *,
    depth: int,
    seed: int,
    check: Optional["Check"] = None,
    timeout: int = 1800,
    first_num: Optional[int] = None,
) -> list[Any]:
    """Distinct cases emitted (PrintT(ToJson(..)) invariant) by `tlc -simulate`.

    In simulation mode TLC evaluates the invariants on every successor it generates at each step (not
    only on the one it picks), so one behaviour yields many emitted cases; `num` is therefore grown
    geometrically until at least `want` distinct cases were seen (or 4 rounds), then a seeded sample of
    `want` is returned."""
    import random

    uniq: dict[str, Any] = {}
    num = first_num or max(2, want // 200)
    for rnd_i in range(4):
        res = require_ok(
            run_tlc(module, cfg, workers=1, simulate=f"num={num}", depth=depth, seed=seed + 7919 * rnd_i, timeout=timeout),
            f"{module} simulate",
        )
        if check is not None:
            check.add_tlc(f"simulate:{cfg}:num={num}", res)
        for c in emitted_json(res):
            uniq.setdefault(canon(c), c)
        if len(uniq) >= want:
            break
        num *= 6
    cases = list(uniq.values())
    if len(cases) > want:
        cases = random.Random(seed).sample(cases, want)
    if check is not None:
        check.cov["simulated_cases"] = check.cov.get("simulated_cases", 0) + len(cases)
    if not cases:
        raise MachineryError(f"simulation of {module}/{cfg} produced no cases")
    return cases
