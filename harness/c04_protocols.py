"""C04 slice: the protocol sub-universe (spec/Protocols.tla, spec/trace/ProtocolsTrace.tla).

TLC proves the laws on the model (Sound with the named deviation classes, Sound of the repaired model, Refl, union
laws, NeverBottom, ObjectTop, history independence of the positive-cache machine) and emits pairs / histories; every
one of them is replayed through the real code (Value.can_assign with new Checkers, the visitor, CPython itself as the
validation of the oracle) and adjudicated by TLC against ProtocolsTrace.
"""
from __future__ import annotations

import random
from concurrent.futures import ThreadPoolExecutor

from . import core
from . import proto_common as pc

CLAUSES = {"Sound", "Reflexive", "NeverBottom", "ObjectTop", "UnionLeft", "UnionRight", "HistoryIndependent"}
DEV_KEYS = {"protocol-property-member-untyped", "none-valued-attribute-satisfies-protocol-member",
            "int-accepted-for-protocol-via-float-promotion", "runtime-protocol-literal-accepted-by-isinstance",
            "literal-callable-object-signature-unknown", "protocol-cache-poisoned-by-recursion-guard"}
# cfg -> invariant TLC must report as violated (sensitivity self-tests of the model)
SENSITIVITY = {
    "Protocols.sens_skipabc.cfg": ("InvPSound", "member collection that skips bases without _is_protocol (ABC bases) is unsound"),
    "Protocols.sens_firstlit.cfg": ("InvPSound", "a union on the right of which only the first literal per run-time type is checked is unsound"),
    "Protocols.sens_nodev.cfg": ("InvPSound", "without the named deviation classes the unchanged model is unsound (each class is shown inhabited "
                                              "by InvPDevInhabited in the pairs run)"),
    "Protocols.hist_strict.cfg": ("InvPHistIndepStrict", "the poisoned positive cache breaks history independence on the model"),
    "Protocols.hist_keyleft.cfg": ("InvPHistIndep", "a positive cache keyed by the protocol only (pre-73ce54b) is caught"),
}


def _tlc(module: str, cfg: str, workers: int = 4, timeout: int = 1500) -> core.TLCResult:
    return core.run_tlc(module, cfg, workers=workers, timeout=timeout)


NBATCH = 5


def _adjudicate(check: core.Check, obs: list[dict]) -> dict:
    """tid = index in obs; the observations are dealt round-robin by weight (number of steps) into NBATCH batches so that
    the parallel TLC runs finish together."""
    for i, o in enumerate(obs):
        o["tid"] = i
    ranked = sorted(obs, key=lambda o: -len(o.get("steps", [0])))
    bins: list[list[dict]] = [[] for _ in range(NBATCH)]
    loads = [0] * NBATCH
    for o in ranked:
        j = loads.index(min(loads))
        bins[j].append(o)
        loads[j] += len(o.get("steps", [0])) + 1
    verdicts: dict = {}
    with ThreadPoolExecutor(NBATCH) as ex:
        futs = [ex.submit(core.adjudicate, "ProtocolsTrace", "ProtocolsTrace.cfg", b, batch=len(b), timeout=1500) for b in bins if b]
        for f in futs:
            v, stats = f.result()
            check.add_trace_stats(stats)
            verdicts.update(v)
    return verdicts


def _judge(check: core.Check, obs: list[dict], label: str) -> dict:
    raised = [o for o in obs if o["kind"] == "raised"]
    good = [o for o in obs if o["kind"] != "raised"]
    for o in raised:
        check.violation(core.canon(o["case"]), "PublicApiRaised", {"case": o["case"], "exc": o["exc"], "source": label, "slice": "protocols"})
    verdicts = _adjudicate(check, good)
    counts: dict[str, int] = {}
    for tid, vs in verdicts.items():
        o = good[tid]
        for v in vs:
            v, _, idx = v.partition("@")
            counts[v] = counts.get(v, 0) + 1
            if o["kind"] == "phist":
                i = int(idx)
                step = o["steps"][i - 1]
                case = {"steps": [{"a": s["a"], "b": s["b"]} for s in o["steps"][:i]]}
                keycase = {"a": step["a"], "b": step["b"]}
                if v == "viol:HistoryIndependent":
                    keycase["after_steps"] = i - 1
            else:
                case = {k: o[k] for k in ("a", "b", "proto", "o", "pt") if k in o}
                keycase = case
            if v.startswith("viol:"):
                if v[5:] not in CLAUSES:
                    raise core.MachineryError(f"unknown clause {v}")
                if o["kind"] == "phist" and len(case["steps"]) > 1 and v != "viol:HistoryIndependent" and len(check.violations) < 50:
                    # minimise the witness: does the last check alone (new Checker) give the same verdict?
                    alone = pc.observe_fresh((0, keycase))
                    if alone.get("real") == step["real"] and not step["parts"]:
                        case = {"steps": [dict(keycase)]}
                check.violation(core.canon(keycase), v[5:], {"case": case, "observed": o if o["kind"] != "phist" else step, "source": label, "slice": "protocols"})
            elif v.startswith("dev:"):
                if v[4:] not in DEV_KEYS:
                    raise core.MachineryError(f"unknown deviation class {v}")
                check.violation(v[4:], v[4:], {"case": case, "source": label, "slice": "protocols"})
            elif v.startswith("drift:"):
                check.drift({"verdict": v, "case": keycase, "observed": o if o["kind"] != "phist" else step, "source": label})
            elif v.startswith("oracle:"):
                raise core.MachineryError(f"the protocol oracle disagrees with CPython ({v}): {o}")
            else:
                raise core.MachineryError(f"unknown verdict {v}")
    return counts


def selftest_trace(check: core.Check) -> None:
    """Corrupted observations: every clause of the trace specification must fire on a wrong observation."""
    T = lambda c: {"k": "typed", "c": c}  # noqa: E731
    K = lambda c: {"k": "known", "o": {"c": c, "v": "inst", "items": []}}  # noqa: E731
    step = lambda a, b, real, **kw: {"a": a, "b": b, "real": real, "parts": [], **kw}  # noqa: E731
    never = {"k": "union", "ms": []}
    cases = [
        # (observation, expected verdicts)
        ({"kind": "phist", "steps": [step(T("PS"), T("Kname"), True)]}, {"drift:protocol_can_assign@1", "viol:Sound@1"}),
        ({"kind": "phist", "steps": [step(T("PLen"), T("K_"), True)]}, {"drift:protocol_can_assign@1", "viol:Sound@1"}),
        ({"kind": "phist", "steps": [step(T("P3"), T("K_k"), True)]}, {"drift:protocol_can_assign@1", "viol:Sound@1"}),
        ({"kind": "phist", "steps": [step(T("P2"), T("P2"), False)]}, {"drift:protocol_can_assign@1", "viol:Reflexive@1"}),
        ({"kind": "phist", "steps": [step(T("P2"), never, False)]}, {"drift:protocol_can_assign@1", "viol:NeverBottom@1"}),
        ({"kind": "phist", "steps": [step(T("object"), T("P2"), False)]}, {"drift:protocol_can_assign@1", "viol:ObjectTop@1"}),
        ({"kind": "phist", "steps": [step(T("P1"), T("K_m"), True), step(T("P1"), T("K_"), False),
                                     step(T("P1"), {"k": "union", "ms": [T("K_m"), T("K_")]}, True, parts=[True, False])]},
         {"drift:protocol_can_assign@3", "viol:Sound@3", "viol:UnionLeft@3"}),
        ({"kind": "phist", "steps": [step(T("P2"), T("K_m"), False), step(T("P1"), T("K_m"), True),
                                     step({"k": "union", "ms": [T("P2"), T("P1")]}, T("K_m"), False, parts=[False, True])]},
         {"drift:protocol_can_assign@3", "viol:UnionRight@3"}),
        # the poisoned cache showing through a union law is the cache deviation, not a law violation
        ({"kind": "phist", "steps": [step(T("PQ2"), T("KQ"), False), step(T("PQ1"), T("KQ"), False),
                                     step({"k": "union", "ms": [T("PQ2"), T("PQ1")]}, T("KQ"), True, parts=[False, False])]},
         {"dev:protocol-cache-poisoned-by-recursion-guard@3"}),
        # a verdict that depends on the history and is not the known cache deviation
        ({"kind": "phist", "steps": [step(T("P1"), T("K_m"), True, fresh=True), step(T("P1"), T("K_"), True, fresh=False)]},
         {"drift:protocol_can_assign@2", "viol:Sound@2", "viol:HistoryIndependent@2"}),
        # the known deviations are excused only where the model reproduces the verdict
        ({"kind": "phist", "steps": [step(T("PQ1"), T("KQ"), False, fresh=False), step(T("PQ2"), T("KQ"), True, fresh=False)]},
         {"dev:protocol-cache-poisoned-by-recursion-guard@2"}),
        ({"kind": "phist", "steps": [step(T("PQ2"), T("KQ"), True, fresh=False)]},
         {"drift:protocol_can_assign@1", "viol:Sound@1", "viol:HistoryIndependent@1"}),
        ({"kind": "phist", "steps": [step(T("P1"), K("Kms"), True)]}, {"dev:runtime-protocol-literal-accepted-by-isinstance@1"}),
        ({"kind": "phist", "steps": [step(T("P2"), K("Kms"), True)]}, {"drift:protocol_can_assign@1", "viol:Sound@1"}),
        ({"kind": "psnip", "a": T("PS"), "b": T("Kname"), "diagnosed": False}, {"drift:protocol_snippet", "viol:Sound"}),
        ({"kind": "pmembers", "proto": "PS", "isproto": True, "real": ["name"]}, {"drift:protocol_members"}),
        ({"kind": "prt", "o": K("Kname")["o"], "pt": T("PS"), "present": True, "valok": True, "isinst": "yes"},
         {"oracle:presence", "oracle:isinstance"}),
        ({"kind": "prt", "o": K("Kms")["o"], "pt": T("P1"), "present": True, "valok": True, "isinst": "yes"}, set()),
    ]
    obs = [dict(o) for o, _ in cases]
    for i, o in enumerate(obs):
        o["tid"] = i
    verdicts, stats = core.adjudicate("ProtocolsTrace", "ProtocolsTrace.cfg", obs, batch=len(obs), timeout=900)
    check.add_trace_stats(stats)
    for i, (o, want) in enumerate(cases):
        got = set(verdicts.get(i, []))
        if got != want:
            raise core.MachineryError(f"trace self-test: observation {o} judged {sorted(got)}, expected {sorted(want)}")
    check.cov["protocols_trace_selftest"] = f"{len(cases)} corrupted / hand-made observations judged as expected (every clause fires)"


def run_slice(check: core.Check, rnd: random.Random) -> None:
    quick = check.tier == "quick"
    check.assumptions += [
        "protocol sub-universe (spec/Protocols.tla PTab, real classes harness/proto_universe.py, compared by a self-test): "
        "18 run-time protocols (inheriting, on Sized / Hashable / Container, generic, data member, property, recursive, mutually "
        "recursive, own-type parameter, __call__, __hash__), 49 candidate classes (every subset of m/n/k, covariant / wrong member "
        "types, inherited and nominal implementations, __hash__ = None), int / bool / float / str; membership = structural "
        "conformance of the declared member types (greatest fixed point), read-only view of data members, no int->float "
        "promotion for attribute presence; class objects (type[K], KnownValue(K)) and the permissive __hash__ rule for them are "
        "outside this slice; bare PG is the documented G[Any] leniency",
    ]
    # ---- the model: laws on every pair, emission of pairs + class table
    res = core.require_ok(_tlc("ProtocolsEmit", "Protocols.pairs.cfg", workers=8), "Protocols pairs")
    check.add_tlc("protocols:pairs(exhaustive laws + emit)", res)
    rows = core.emitted_json(res)
    order = next(r["order"] for r in rows if "order" in r)
    table = [r for r in rows if "cls" in r]
    pairs = [r for r in rows if "a" in r and "b" in r]
    if len(pairs) < 1000:
        raise core.MachineryError("Protocols pairs run emitted suspiciously few pairs")
    check.cov["protocols_table_selftest"] = pc.selftest_table(table, order)
    check.cov["protocols_table_selftest"]["functions"] = pc.selftest_functions([r for r in rows if "fn" in r])
    # ---- sensitivity of the model + history machine + trace self-test: TLC in background threads while the pairs are
    #      replayed through the real code
    import pyanalyze.checker  # noqa: F401  (imported before the workers fork)

    hist_cfg = "Protocols.hist2.cfg"
    ex = ThreadPoolExecutor(6)
    fh = ex.submit(_tlc, "ProtocolsEmit", hist_cfg, 6)
    futs = {cfg: ex.submit(_tlc, "ProtocolsEmit", cfg, 2) for cfg in SENSITIVITY}
    fself = ex.submit(selftest_trace, check)
    fh3 = None if quick else ex.submit(_tlc, "ProtocolsEmit", "Protocols.hist3.cfg", 8, 3000)

    # ---- real observations
    # (1) every emitted pair: one history per expected type A, in the order TLC emitted the pairs, through one new Checker
    by_a: dict[str, list[dict]] = {}
    for p in pairs:
        by_a.setdefault(core.canon(p["a"]), []).append(p)
        check.nontrivial("proto:" + core.canon(p))
    hists = [{"steps": pc.expand_unions(ps), "src": "pairs-by-A"} for ps in by_a.values()]
    # ... and the same pairs grouped by B in reverse order, four offered types per Checker (another history for every pair)
    by_b: dict[str, list[dict]] = {}
    for p in reversed(pairs):
        by_b.setdefault(core.canon(p["b"]), []).append(p)
    groups = list(by_b.values())
    # (the members of a union are checked next to it in the by-A histories only)
    hists += [{"steps": [{**p, "nparts": 0} for g in groups[i : i + 6] for p in g], "src": "pairs-by-B"} for i in range(0, len(groups), 6)]
    hists.sort(key=lambda h: -len(h["steps"]))
    obs = core.pmap(pc.observe_history, list(enumerate(hists)), chunk=1)
    # (3) the visitor: def use(p: A) / use(<B>) for every protocol type A
    a_terms = list({core.canon(p["a"]): p["a"] for p in pairs}.values())
    protos = [p for p in a_terms if p["k"] in ("typed", "generic") and p["c"] in pc.PU.PROTOCOLS]
    bs = list({core.canon(p["b"]): p["b"] for p in pairs}.values())
    offered = {core.canon(a): [p["b"] for p in pairs if p["a"] == a] for a in protos + [a for a in a_terms if a["k"] == "callable"]}
    snip = core.pmap(pc.observe_snippets, [(0, a, offered[core.canon(a)]) for a in protos + [a for a in a_terms if a["k"] == "callable"]], chunk=1)
    snips = [o for part in snip for o in part]
    # (4) the member sets pyanalyze collected, (5) CPython as validation of the oracle
    members = core.pmap(pc.observe_members, list(enumerate(sorted(pc.PU.PROTOCOLS))), chunk=2)
    pts = [p for p in protos if p != {"k": "typed", "c": "PG"}]
    objs = [b["o"] for b in bs if b["k"] == "known"]  # instances, scalars, function literals, class literals
    # (class objects only against the data-member protocols they are offered to)
    rt = [pc.observe_runtime((0, {"o": o, "pt": pt})) for o in objs for pt in pts if o["c"] != "type" or pt["c"] in ("PA", "PAn")]

    # (2) histories of the positive-cache machine: all in which the model sees a cache effect + a sample of the others
    #     (thorough: plus random 4-step histories over a cross-section of the whole space by TLC simulation); each step also gets the verdict
    #     of a new Checker
    hres = fh.result()
    core.require_ok(hres, "Protocols history machine")
    check.add_tlc("protocols:" + hist_cfg, hres)
    emitted = [h["steps"] for h in core.emitted_json(hres)]
    effect = [h for h in emitted if any(s["r"] != s["rr"] for s in h)]
    rest = [h for h in emitted if not any(s["r"] != s["rr"] for s in h)]
    sample = effect + rnd.sample(rest, min(len(rest), 100 if quick else 1500))
    if not quick:
        sim = core.simulate_cases("ProtocolsEmit", "Protocols.histsim.cfg", 600, depth=5, seed=check.seed + 11, check=check, first_num=24)
        sample += [h["steps"] for h in sim]
    hsteps = [[{"a": s["a"], "b": s["b"]} for s in h] for h in sample]
    distinct = {core.canon(s): s for h in hsteps for s in h}
    fresh_obs = core.pmap(pc.observe_fresh, list(enumerate(distinct.values())), chunk=4)
    for o in fresh_obs:
        if o.get("kind") == "raised":
            check.violation(core.canon(o["case"]), "PublicApiRaised", {"case": o["case"], "exc": o["exc"], "source": "fresh"})
    fresh = {core.canon({"a": o["a"], "b": o["b"]}): o["real"] for o in fresh_obs if o.get("kind") != "raised"}
    chists = [{"steps": [{**s, "fresh": fresh[core.canon(s)], "nparts": 0} for s in h], "src": "cache-machine"}
              for h in hsteps if all(core.canon(s) in fresh for s in h)]
    obs += core.pmap(pc.observe_history, list(enumerate(chists)), chunk=4)
    n_steps = sum(len(o.get("steps", [])) for o in obs)

    # ---- TLC side results
    sens = {cfg: f.result() for cfg, f in futs.items()}
    for cfg, (inv, what) in SENSITIVITY.items():
        if sens[cfg].violated != inv:
            raise core.MachineryError(f"sensitivity self-test {cfg}: {inv} should be violated ({what}); TLC said {sens[cfg].violated} {sens[cfg].error}")
    check.cov["protocols_sensitivity"] = {cfg: f"{inv} violated: {what}" for cfg, (inv, what) in SENSITIVITY.items()}
    fself.result()
    if fh3 is not None:
        check.add_tlc("protocols:Protocols.hist3.cfg", core.require_ok(fh3.result(), "Protocols history machine (3 steps)"))
    ex.shutdown()

    counts = _judge(check, obs + snips + members + rt, "protocols")
    check.evals(n_steps + len(snips) + len(members) + len(rt) + len(fresh_obs))
    check.cov["protocols"] = {
        "pairs": len(pairs), "histories": len(hists) + len(chists), "history_steps": n_steps, "cache_machine_histories": len(chists),
        "histories_with_model_cache_effect": len(effect), "fresh_checker_pairs": len(fresh_obs), "snippet_calls": len(snips),
        "member_sets": len(members), "runtime_oracle_validations": len(rt), "verdicts": counts,
        "bounds": "all 31 expected types (18 protocols + PG[t], unions, object, nominal classes, 3 Callable types) x 144 offered types + "
                  "function literals, a second instance of one class, class literals (for the data-member protocols) and the unions of "
                  "same-run-time-type literals in every order (pairs, two triples) -- 5770 model states -- replayed in two different histories each (by "
                  "expected type in TLC's order, by offered type in reverse order); cache machine: all 2-step histories over the "
                  "recursive family (22651 states), replayed: every history with a model cache effect + a sample"
                  + ("" if quick else "; 3-step histories over the core of the recursive family checked on the model (65641 states); 600 simulated 4-step "
                                          "histories over a cross-section of the whole space replayed"),
    }
    for o in obs[:: max(1, len(obs) // 2)][:2]:
        if o.get("kind") == "phist":
            check.sample({"source": "protocols", "kind": "phist", "src": o["src"], "steps": o["steps"][:3]})


def replay(check: core.Check, witness: dict) -> None:
    c = witness["case"]
    if "steps" in c:
        steps = [{"a": s["a"], "b": s["b"]} for s in c["steps"]]
        last = pc.expand_unions(steps[-1:])
        fresh = pc.observe_fresh((0, steps[-1]))
        if fresh.get("kind") != "raised" and len(steps) > 1:
            last[0]["fresh"] = fresh["real"]
        obs = [pc.observe_history((0, {"steps": pc.expand_unions(steps[:-1]) + last, "src": "replay"}))]
    elif "proto" in c:
        obs = [pc.observe_members((0, c["proto"]))]
    else:
        obs = pc.observe_snippets((0, c["a"], [c["b"]]))
    _judge(check, obs, "replay")
