"""C05, callable-kinds slice: realisation of a case [kind, via, sig, call] of spec/CallableKinds.tla as real
Python source (the callable object of that kind, and a call through the access path `via`), the real visitor
on that source, and the real execution of the call under CPython.  This file contains no binding rules: it
only writes source, runs the real code on it and records what happened; spec/trace/CallableKindsTrace.tla
judges.  The table of kinds is in the header of CallableKinds.tla (P = parameter list of `sig`).
"""
from __future__ import annotations

import itertools
import sys
from typing import Any, Optional

from . import core, pyz

EXTRA = "z"
MAXEXP = 4
RECEIVER = "self"  # the name CallableKinds.tla gives every receiver parameter

KINDS_VIAS = {
    "func": ["direct"], "lambda": ["direct"], "async": ["direct"], "wrapped": ["direct"],
    "annot": ["int", "str"],
    "smeth": ["class", "known", "typed"], "meth": ["class", "known", "typed"], "cmeth": ["class", "known", "typed"],
    "rawmeth": ["known", "typed"], "callobj": ["known", "typed"],
    "init": ["class", "typed"], "inherit": ["class", "typed"], "new": ["class", "typed"],
    "newinit": ["class", "typed"], "newstar": ["class", "typed"], "initstar": ["class", "typed"],
    "rawinit": ["class", "typed"], "bare": ["class", "typed"], "dataclass": ["class", "typed"],
    "ntuple": ["class", "typed"],
    "partial": ["p0", "p1", "pk"],
}
# how the source spells the receiver parameter of the function that decides the call (None: it has none);
# the model calls all of them "self" (only C.m(**kw) of a plain method can ever supply it by keyword)
RECEIVER_SPELLING = {
    "meth": "self", "callobj": "self", "init": "self", "inherit": "self", "dataclass": "self", "newstar": "self",
    "bare": "self", "cmeth": "cls", "new": "cls", "newinit": "cls", "initstar": "cls", "ntuple": "_cls",
}
INSTANCE_KINDS = ("smeth", "meth", "cmeth", "rawmeth", "callobj")

NOCALL = {"pos": 0, "star": {"kind": "none", "n": 0}, "post": 0, "kws": [], "dstar": "none", "dkeys": []}


def params_source(sig: list[dict], first: Optional[str] = None, ann: Optional[str] = None) -> str:
    """The text between the parentheses of a def for the signature term, optionally with a leading receiver
    parameter `first` (positional-only exactly when the next parameter is, as the grammar demands) and with
    every parameter annotated `ann` (defaults are then values of that type)."""
    ps = list(sig)
    if first is not None:
        k = "po" if sig and sig[0]["kind"] == "po" else "pk"
        ps = [{"kind": k, "name": first, "dflt": False, "recv": True}] + ps
    dflt = ' = ""' if ann == "str" else (" = 0" if ann else "=0")
    parts: list[str] = []
    kinds = [p["kind"] for p in ps]
    for i, p in enumerate(ps):
        k, name = p["kind"], p["name"]
        a = f": {ann}" if ann and not p.get("recv") else ""
        if k == "ko" and "va" not in kinds and (i == 0 or kinds[i - 1] != "ko"):
            parts.append("*")
        if k == "va":
            parts.append("*" + name + a)
        elif k == "vk":
            parts.append("**" + name + a)
        else:
            parts.append(name + a + (dflt if p["dflt"] else ""))
        if k == "po" and (i + 1 == len(ps) or kinds[i + 1] != "po"):
            parts.append("/")
    return ", ".join(parts)


def args_source(call: dict, first: Optional[str] = None, strs: bool = False) -> str:
    """The argument list of the call shape.  `first`: expression used instead of the literal for the first
    positional VALUE of the call (plain positional or first element of a *tuple-literal); `strs`: every
    value is a str literal instead of an int literal."""
    used = [first is None]

    def val(n: int) -> str:
        if not used[0]:
            used[0] = True
            return first  # type: ignore[return-value]
        return f'"s{n}"' if strs else str(n)

    zero = '""' if strs else "0"
    parts = [val(i + 1) for i in range(call["pos"])]
    star = call["star"]
    if star["kind"] == "lit":
        n = star["n"]
        parts.append("*(" + "".join(f"{val(10 + i)}, " for i in range(n)).rstrip() + ")" if n else "*()")
    elif star["kind"] == "list":
        parts.append("*xs")
    elif star["kind"] == "tuple":
        parts.append("*ts")
    parts += [val(20 + i) for i in range(call["post"])]
    parts += [f"{k}={zero}" for k in call["kws"]]
    if call["dstar"] == "lit":
        parts.append("**{" + ", ".join(f'"{k}": {zero}' for k in call["dkeys"]) + "}")
    elif call["dstar"] == "dict":
        parts.append("**kw")
    return ", ".join(parts)


def realise(case: dict, j: Any = "", ns: str = "") -> dict:
    """{"defs": module-level source lines, "param": extra parameter of the calling function or None,
    "call": the call expression (names of the defining module prefixed with `ns`, e.g. "L."),
    "elem": element type of the unknown-length star arguments at the call site, "is_async": bool}"""
    kind, via, sig, call = case["kind"], case["via"], case["sig"], case["call"]
    if via not in KINDS_VIAS.get(kind, ()):
        raise core.MachineryError(f"C05 kinds: no realisation for kind {kind!r} via {via!r}")
    f, g, p, C, B, c = f"f{j}", f"g{j}", f"p{j}", f"C{j}", f"B{j}", f"c{j}"
    P = params_source(sig)
    Ps = params_source(sig, "self")
    Pc = params_source(sig, "cls")
    A = args_source(call)
    param = None
    elem = "int"
    if kind == "func":
        defs, expr = [f"def {f}({P}): pass"], f"{ns}{f}({A})"
    elif kind == "lambda":
        defs, expr = [f"{f} = lambda {P}: None"], f"{ns}{f}({A})"
    elif kind == "async":
        defs, expr = [f"async def {f}({P}): pass"], f"{ns}{f}({A})"
    elif kind == "wrapped":
        defs = [f"def {g}(q, /): pass", f"@functools.wraps({g})", f"def {f}({P}): pass"]
        expr = f"{ns}{f}({A})"
    elif kind == "annot":
        elem = via
        defs = [f"def {f}({params_source(sig, ann=via)}): pass"]
        expr = f"{ns}{f}({args_source(call, strs=via == 'str')})"
    elif kind == "partial":
        pre = {"p0": "", "p1": ", 7", "pk": ", a=0"}[via]
        defs = [f"def {f}({P}): pass", f"{p} = functools.partial({f}{pre})"]
        expr = f"{ns}{p}({A})"
    else:
        new_generic = "    def __new__(cls, *args, **kwargs): return object.__new__(cls)"
        new_sig = f"    def __new__({Pc}): return object.__new__(cls)"
        if kind == "meth":
            body = [f"    def m({Ps}): pass"]
        elif kind == "cmeth":
            body = ["    @classmethod", f"    def m({Pc}): pass"]
        elif kind == "smeth":
            body = ["    @staticmethod", f"    def m({P}): pass"]
        elif kind == "rawmeth":
            body = [f"    def m({P}): pass"]
        elif kind in ("init", "inherit"):
            body = [f"    def __init__({Ps}): pass"]
        elif kind == "rawinit":
            body = [f"    def __init__({P}): pass"]
        elif kind == "new":
            body = [new_sig]
        elif kind == "newinit":
            body = [new_sig, f"    def __init__({Ps}): pass"]
        elif kind == "newstar":
            body = [new_generic, f"    def __init__({Ps}): pass"]
        elif kind == "initstar":
            body = [new_sig, "    def __init__(self, *args, **kwargs): pass"]
        elif kind == "bare":
            if sig:
                raise core.MachineryError("C05 kinds: a bare class has no parameters")
            body = ["    pass"]
        elif kind == "callobj":
            body = [f"    def __call__({Ps}): pass"]
        elif kind in ("dataclass", "ntuple"):
            body = []
            for prm in sig:
                if prm["kind"] == "pk":
                    body.append(f"    {prm['name']}: int" + (" = 0" if prm["dflt"] else ""))
                elif prm["kind"] == "ko" and kind == "dataclass":
                    body.append(f"    {prm['name']}: int = dataclasses.field(" + ("default=0, " if prm["dflt"] else "") + "kw_only=True)")
                else:
                    raise core.MachineryError(f"C05 kinds: a {kind} has no field of kind {prm['kind']}")
            body = body or ["    pass"]
        else:
            raise core.MachineryError(f"C05 kinds: unknown kind {kind!r}")
        if kind == "inherit":
            defs = [f"class {B}:", *body, f"class {C}({B}): pass"]
        elif kind == "dataclass":
            defs = ["@dataclasses.dataclass", f"class {C}:", *body]
        elif kind == "ntuple":
            defs = [f"class {C}(typing.NamedTuple):", *body]
        else:
            defs = [f"class {C}:", *body]
        if kind in INSTANCE_KINDS:
            defs.append(f"{c} = {C}()")
            if via == "class":
                expr = f"{ns}{C}.m({args_source(call, ns + c) if kind == 'meth' else A})"
                if kind == "meth":
                    # the written arguments fill `self` too: where pyanalyze infers the class for `self`, the
                    # elements of an unknown-length star argument must be instances as well
                    elem = f"{ns}{C}"
            elif via == "known":
                expr = f"{ns}{c}.m({A})" if kind != "callobj" else f"{ns}{c}({A})"
            else:
                param = f"o: {ns}{C}"
                expr = f"o.m({A})" if kind != "callobj" else f"o({A})"
        elif via == "class":
            expr = f"{ns}{C}({A})"
        else:
            param, expr = f"o: type[{ns}{C}]", f"o({A})"
    return {"defs": defs, "param": param, "call": expr, "elem": elem, "is_async": kind == "async"}


PRELUDE = ["import dataclasses", "import functools", "import typing"]


def module_source(cases: list[dict], lib: Optional[str] = None) -> tuple[str, Optional[str], list[int], dict[int, int]]:
    """One generated module for a list of cases: (source of the calling module, source of the library module or
    None, line number of each case's call, {line of a definition in the calling module: index of its case}).
    Without `lib` the definitions and the calls are in the same module; with `lib` (a module name) the
    definitions go to that module, the calling module does `import <lib> as L` and reaches every name as an
    attribute of the module."""
    defs: list[str] = list(PRELUDE)
    callers: list[str] = []
    rel: list[int] = []
    owner: dict[int, int] = {}
    for j, case in enumerate(cases):
        r = realise(case, j, "L." if lib else "")
        if lib is None:
            owner.update({len(defs) + 1 + k: j for k in range(len(r["defs"]))})
        defs += r["defs"]
        t = r["elem"]
        params = f"xs: list[{t}], ts: tuple[{t}, ...], kw: dict[str, {t}]" + (", " + r["param"] if r["param"] else "")
        callers.append(("async " if r["is_async"] else "") + f"def caller{j}({params}) -> None:")
        callers.append("    " + ("await " if r["is_async"] else "") + r["call"])
        rel.append(len(callers))
    if lib is None:
        head, libsrc = defs, None
    else:
        head, libsrc = [f"import {lib} as L"], "\n".join(defs) + "\n"
    src = "\n".join(head + callers) + "\n"
    return src, libsrc, [len(head) + r for r in rel], owner


# ----------------------------------------------------------------------------- the real visitor

_MARKERS = {"*args": "ARGS", "**kwargs": "KWARGS", "default": "DEFAULT", "unknown": "UNKNOWN"}
_libcount = 0


def visitor_observe(cases: list[dict], imported: bool) -> list[tuple[str, list[str]]]:
    """Send the cases through the real NameCheckVisitor (one generated module, one calling function per case).
    Per case: verdict "err" (incompatible_call on the call line) / "ok" (nothing on that line) / a string
    naming any other diagnostic reported on the call line (or a call diagnostic on the case's `c = C()`); and the positions the Bind hook recorded for the
    last bind_arguments call on that line (["none"]: no such event, ["rejected"], ["nohook"]: tree without
    the hook).  A diagnostic anywhere else in the generated module is a machinery error."""
    global _libcount
    from pyanalyze import _verif_trace

    lib = None
    if imported:
        _libcount += 1
        lib = f"c05kindslib{_libcount}"
    src, libsrc, lines, owner = module_source(cases, lib)
    if lib is not None:
        sys.modules[lib] = pyz.make_module(libsrc, name=lib)
    sink: list[dict] = []
    _verif_trace.set_sink(sink)
    try:
        try:
            fails = pyz.check_source(src)
        except Exception as exc:  # the visitor crashed: no verdict for any case of this module
            return [(f"exception {type(exc).__name__}", ["none"]) for _ in cases]
    finally:
        _verif_trace.set_sink(None)
        if lib is not None:
            sys.modules.pop(lib, None)
    where = {ln: j for j, ln in enumerate(lines)}
    flagged: dict[int, list[str]] = {}
    for code, lineno, _col in pyz.brief(fails):
        if lineno in where:
            flagged.setdefault(where[lineno], []).append(str(code))
        elif lineno in owner and code in ("incompatible_call", "incompatible_argument", "not_callable"):
            # the case's own definitions contain calls too (`c = C()`, the decorators, functools.partial(...)), all
            # of which CPython has just performed without error and none of which is reported on the unchanged
            # tree: a call diagnostic there is an observation about this case, not a defect of the generator
            flagged.setdefault(owner[lineno], []).append(f"{code} in the definitions")
        else:
            raise core.MachineryError(f"C05 kinds: realisation raised unexpected diagnostic {code} at line {lineno} in\n{src}")
    hook_present = _hook_present()
    hooked: dict[int, list[str]] = {}
    for ev in sink:
        if ev.get("event") != "Bind" or ev.get("lineno") not in where:
            continue
        j = where[ev["lineno"]]
        if ev["positions"] is None:
            hooked[j] = ["rejected"]
        else:
            hooked[j] = [
                f"P{pos}" if isinstance(pos, int) else _MARKERS.get(pos, "K" if pos == name else "K:" + pos)
                for name, pos in ev["positions"]
            ]
    out = []
    for j in range(len(cases)):
        codes = flagged.get(j, [])
        if not codes:
            v = "ok"
        elif set(codes) == {"incompatible_call"}:
            v = "err"
        else:
            v = "other diagnostic: " + ",".join(sorted(set(codes)))
        out.append((v, hooked.get(j, ["none"]) if hook_present else ["nohook"]))
    return out


_HOOK: list[bool] = []


def _hook_present() -> bool:
    if not _HOOK:
        import inspect

        from pyanalyze import signature

        _HOOK.append('"Bind"' in inspect.getsource(signature))
    return _HOOK[0]


# ----------------------------------------------------------------------------- real execution

_ENVS: dict[str, dict] = {}


def _environment(case: dict) -> dict:
    key = core.canon([case["kind"], case["via"], case["sig"]])
    env = _ENVS.get(key)
    if env is None:
        r = realise(dict(case, call=NOCALL))
        env = {}
        try:
            exec(compile("\n".join(PRELUDE + r["defs"]) + "\n", "<c05-kinds>", "exec"), env)
        except Exception as exc:
            raise core.MachineryError(f"C05 kinds: the generated definitions do not execute: {r['defs']}: {exc!r}")
        if r["param"] is not None:
            env["o"] = env["C"] if r["param"].startswith("o: type[") else env["c"]
        if len(_ENVS) > 20000:
            _ENVS.clear()
        _ENVS[key] = env
    return env


def real_cpython(case: dict) -> tuple[str, dict]:
    """Really evaluate the call expression.  Concrete shape: "ok" / "err" (TypeError; every body is trivial, so
    a TypeError can only come from binding).  Unknown-length star arguments: perform every expansion (xs / ts
    of 0..bound elements, kw over every set of <= bound of the relevant names) and report which ones CPython
    bound.  The relevant names are the parameter names, the call's keywords, z and -- under the model's
    spelling "self" -- the receiver parameter of the deciding function."""
    sig, call = case["sig"], case["call"]
    env = _environment(case)
    code = compile(realise(case)["call"], "<c05-kinds-call>", "eval")
    unk_star = call["star"]["kind"] in ("list", "tuple")
    unk_dstar = call["dstar"] == "dict"
    is_async = case["kind"] == "async"

    def run(local: dict) -> bool:
        try:
            res = eval(code, env, local)
        except TypeError:
            return False
        if is_async:
            res.close()
        return True

    bound = max(MAXEXP, len(sig) + 1)  # KExpBound of CallableKinds.tla (the trace spec checks it is the same number)
    if not unk_star and not unk_dstar:
        return ("ok" if run({}) else "err"), {"names": [], "maxexp": bound, "total": 0, "binding": []}
    spelling = RECEIVER_SPELLING.get(case["kind"])
    names = sorted({p["name"] for p in sig} | set(call["kws"]) | {EXTRA} | ({RECEIVER} if spelling else set()))
    lengths = range(bound + 1) if unk_star else [0]
    keysets: list[tuple[str, ...]] = [()]
    if unk_dstar:
        keysets = [ks for r in range(bound + 1) for ks in itertools.combinations(names, r)]
    binding = []
    total = 0
    for n in lengths:
        seq = list(range(n))
        for ks in keysets:
            total += 1
            kw = {(spelling if k == RECEIVER and spelling else k): 0 for k in ks}
            if run({"xs": seq, "ts": tuple(seq), "kw": kw}):
                binding.append([n, list(ks)])
    return "na", {"names": names, "maxexp": bound, "total": total, "binding": binding}
