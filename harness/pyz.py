"""Helpers to run the real pyanalyze (from /repo's working tree) on generated source text."""
from __future__ import annotations

import ast
import contextlib
import io
import os
import sys
import types
from typing import Any, Iterable, Mapping, Optional

_checkers: dict[Any, Any] = {}
_modcount = 0


def get_checker(settings: Optional[Mapping[str, bool]] = None, *, fresh: bool = False,
                options: Optional[Mapping[str, Any]] = None):
    """A Checker whose options enable/disable the named error codes as if given on the command line."""
    from pyanalyze.checker import Checker
    from pyanalyze.error_code import ErrorCode
    from pyanalyze.name_check_visitor import NameCheckVisitor

    key = (tuple(sorted((settings or {}).items())), tuple(sorted((options or {}).items())))
    if not fresh and key in _checkers:
        return _checkers[key]
    st = {getattr(ErrorCode, k): v for k, v in (settings or {}).items()}
    kwargs = NameCheckVisitor.prepare_constructor_kwargs({"settings": st, **dict(options or {})})
    checker = kwargs["checker"]
    if not fresh:
        _checkers[key] = checker
    return checker


def make_module(code: str, name: Optional[str] = None, extra: Optional[dict] = None) -> types.ModuleType:
    global _modcount
    _modcount += 1
    name = name or f"verifmod{_modcount}"
    mod = types.ModuleType(name)
    mod.__dict__["__file__"] = name + ".py"
    if extra:
        mod.__dict__.update(extra)
    exec(compile(code, name + ".py", "exec", dont_inherit=True), mod.__dict__)
    return mod


def check_source(
    code: str,
    *,
    settings: Optional[Mapping[str, bool]] = None,
    checker: Any = None,
    module: Optional[types.ModuleType] = None,
    extra: Optional[dict] = None,
    annotate: bool = False,
    want_visitor: bool = False,
    **kw: Any,
):
    """Run NameCheckVisitor.check() on `code` (executed into a fresh module unless given).

    Returns the list of failures (dicts) -- or (failures, visitor, tree) if want_visitor.
    Exceptions propagate to the caller (they are observations for C12)."""
    from pyanalyze.name_check_visitor import NameCheckVisitor

    if checker is None:
        checker = get_checker(settings)
    if module is None:
        module = make_module(code, extra=extra)
    tree = ast.parse(code)
    err = io.StringIO()
    with contextlib.redirect_stderr(err):
        v = NameCheckVisitor(
            module.__name__ + ".py", code, tree, module=module, checker=checker, annotate=annotate, **kw
        )
        fails = v.check()
    if want_visitor:
        return fails, v, tree
    return fails


def brief(fails: Iterable[dict]) -> list[list]:
    """[code, lineno, col] triples, in emission order."""
    out = []
    for f in fails:
        code = f.get("code")
        out.append([getattr(code, "name", None), f.get("lineno"), f.get("col_offset")])
    return out
