"""Regenerates /verif/MANIFEST.json from the table below:  /venv/bin/python -m harness.manifest"""
from __future__ import annotations

import json
from pathlib import Path

VERIF = Path(__file__).resolve().parent.parent

BASELINE_OFF = (
    "cd /repo && env -u PYANALYZE_VERIF /venv/bin/python -m pytest -ra -q -p no:cacheprovider --timeout=900 "
    "--continue-on-collection-errors"
)

TRUSTED = (
    "Trusted: TLC 1.8.0 and the TLA+ definitions of the oracle operators; the JSON codec between TLA+ terms and "
    "real objects (self-tested in setup); CPython as executed in this sandbox where it is the oracle."
)

CHECKS = {
    "C03": dict(
        technique="TLA+ specs Values.tla (object/type universe, Member relation) + Assign.tla (transcription of the can_assign "
        "dispatch); TLC proves ImplCA(A, Known(o)) = Member(o, A) for every static type term x object; each (A, o) is replayed "
        "through Value.can_assign, pyanalyze.runtime.is_assignable and `x: A = <literal>` snippets and adjudicated by TLC "
        "(AssignTrace.tla) against Member",
        text="Model checking over the bounded universe (18 classes, 40 objects, ~300 static depth-1 type terms in quick, depth-2 "
        "in thorough): the implementation-shaped model is proved equal to structural membership, and the real code is bound by "
        "exhaustive replay of the same (type, object) pairs on three routes with TLC judging every real verdict against Member.",
        design="2/C03",
        note=TRUSTED + " Member is defined from the typing spec and never refers to pyanalyze's algorithms.",
    ),
    "C04": dict(
        technique="TLA+ specs Values.tla + ValueAlgebra.tla + Assign.tla; TLC proves soundness w.r.t. Member, reflexivity, Never/object "
        "laws, union laws, Any laws and exclude-any monotonicity on every pair of type terms; every pair is replayed through "
        "the real Value.can_assign (plain and under set_exclude_any) and adjudicated by TLC (AssignTrace.tla)",
        text="Model checking: all ~108k ordered pairs of depth-1 terms (quick) / depth-2 (thorough) on the model; exhaustive "
        "replay of the same pairs into the real code (drift = 0 means the transcription is exact on the space), plus TLC "
        "simulation of deeper terms. Documented leniencies are named predicates; the enum-metaclass protocol hole is a named "
        "known deviation.",
        design="2/C04",
        note=TRUSTED + " Leniencies excluded from Sound are listed in DESIGN.md (bare generics, fixed<-variadic tuple, NewType<-supertype).",
    ),
    "C05": dict(
        technique="TLA+ state machine Binder.tla (preprocess_args + Signature.bind_arguments, one action per branch) checked by TLC "
        "against CPythonBind.tla (CPython's binding rules); TLC-enumerated/simulated (signature, call) cases replayed through the "
        "real binder, the real visitor and really executed under CPython; observations adjudicated by TLC (BinderTrace.tla), which "
        "first validates the oracle model against the real call outcomes",
        text="Model checking: TLC proves verdict <=> CPython binding for every signature of <=3 (quick) / <=4 and <=5 (thorough) "
        "parameters x call shapes incl. */** literals, and accept => exists expansion / reject => no non-empty expansion for "
        "list[int]/tuple[int,...]/dict[str,int] star arguments, outside two named deviation classes; 6 parameters by simulation; "
        "the real code is bound by replay (exhaustive at the emit bound in thorough) with per-parameter positions and error "
        "branch compared (drift).",
        design="2/C05",
        note=TRUSTED + " Arguments are ints and parameters are unannotated; keywords range over parameter names + one foreign "
        "name; the existential clause enumerates expansions up to max(4, number of parameters).",
    ),
    "C07": dict(
        technique="TLA+ state machine SigCompat.tla (Signature.can_assign incl. *args/**kwargs absorption) vs behavioural inclusion "
        "stated with the C05 oracle; pairs replayed through KnownValue(f).can_assign(KnownValue(g)) and the visitor (Literal[f] "
        "parameter); both functions really called with every call shape and the landing parameter of each argument recorded; "
        "adjudicated by TLC (SigCompatTrace.tla)",
        text="Model checking: accept => every call shape (<=3 positionals, <=3 keywords) bound by the expected signature is bound "
        "by the actual one, for all pairs <=3x2 (quick) / <=3x3 (thorough) parameters, outside one named (TLC-proved tight) "
        "deviation class; typed variant (chain C<:B<:A, Any) checks parameter contravariance/return covariance at <=1x2 / "
        "<=2x2; 4x4 by simulation.",
        design="2/C07",
        note=TRUSTED + " Expected parameters are canonically named; types are a 3-class chain; Callable[...] / protocol / override "
        "entry points share Signature.can_assign but are not driven separately.",
    ),
    "C09": dict(
        technique="TLA+ specs Scopes.tla (FunctionScope set/get_local/subscope/loop_scope/suppressing_subscope/combine + what the "
        "visitor issues per statement) vs CFG.tla (independent collecting semantics: strict and liberal reaching definitions), "
        "skeleton generator ScopeGen.tla; TLC checks Strict <= Reported <= Liberal at every use of every generated function body; "
        "each body is rendered to Python, checked by the real visitor and the reported definition sets adjudicated by TLC "
        "(ScopesTrace.tla)",
        text="Model checking: every function body of <=4 (quick) / <=6 (thorough) statements over assignments, uses, calls, "
        "if/while/while True/for (+else), with (suppressing or not), try/except/else/finally, return/raise/break/continue; the "
        "scope-machine model is bound to the code by exhaustive replay (drift 0) and the real reports are judged by the oracle; "
        "three named deviation classes (loop else, always-entered loop first iteration, loop body revisited after unconditional "
        "exit) are known findings. Larger bodies by TLC simulation.",
        design="2/C09",
        note=TRUSTED + " Dead code (statements after return/raise/break/continue in the same block) is outside the grammar "
        "(pyanalyze deliberately analyses it as fall-through); nested functions/global/nonlocal are not generated yet.",
    ),
    "C10": dict(
        technique="TLA+ spec Determinism.tla (set-iteration sites on the way to output as schedule choices; the Checker as a cache "
        "machine) checked by TLC; TLC simulation draws schedules (hash seed, sequence of programs sharing one Checker), each run "
        "in a fresh subprocess with that PYTHONHASHSEED, and the recorded renderings are validated by TLC "
        "(DeterminismTrace.tla): a program must always render exactly as the first time it was seen",
        text="Model checking of the schedule model (all seeds x all sequences of <=3 (quick) / <=4 (thorough) programs) plus "
        "trace validation of real executions: ~70 (quick) / ~420 (thorough) fresh processes over a pool of 21 programs "
        "targeting the modelled sites (unexpected keywords, or-chains, protocols, literal unions, dict/set displays, "
        "TypedDict, overloads, generics, narrowing loops, try/finally scopes), each also checked twice in one process. "
        "Four ordering defects were repaired; set displays are a known finding.",
        design="2/C10",
        note=TRUSTED + " Renderings = code, line, column and message text of every diagnostic with module names and addresses normalised.",
    ),
    "C11": dict(
        technique="TLA+ state machine Suppression.tla (show_error decision chain, unused/bare ignore passes) vs declarative "
        "RefD, exhaustive TLC; TLC-enumerated files realised as source, checked by the real visitor with the ShowError hook, "
        "and the Begin/ShowError/End event streams validated step by step by TLC (SuppressionTrace.tla)",
        text="Model checking: TLC explores every abstract file of <=3 (quick) / <=4 (thorough) lines over 26 line forms x every "
        "settings combination and proves the machine's output equals the documented projection; the real visitor is bound to "
        "the machine by trace validation of every show_error decision (hook) and its final failure list is judged by the "
        "declarative reference inside TLC. Longer files by TLC simulation.",
        design="2/C11",
        note=TRUSTED + " Diagnostics are realised with module-level lambdas (undefined_name, unsupported_operation).",
    ),
    "C14": dict(
        technique="TLA+ specs ValueAlgebra.tla (ImplEq, ImplSameHash, ImplUnite) + Algebra.tla (ImplSubst, the semilattice / hash / "
        "substitution laws, named deviation classes) checked by TLC on every triple of the bounded term space; each triple "
        "replayed through the real unite_values / == / hash / can_assign / substitute_typevars and the real results adjudicated "
        "by TLC (AlgebraTrace.tla: laws evaluated on the real result terms, Members via Member)",
        text="Model checking over 38 terms (literals incl. unhashable ones, typed, generic, sequence, subclass, newtype, type "
        "variables, unions incl. permuted and nested ones) x 6 type-variable maps, all triples; exhaustive replay into the real "
        "value API with drift 0. Two defects were repaired (union hash, substitution into unions), the identity hash of "
        "unhashable literals is a known finding.",
        design="2/C14",
        note=TRUSTED + " TypedDict, callable and annotated values are not in the term space yet.",
    ),
    "C15": dict(
        technique="TLA+ spec TypeVarSolve.tla: typevar.solve as a fold machine (bottom, top, options; one action per branch, TLC's "
        "interleavings of the Fold actions are the permutations of the bound multiset) and generic calls (pass 1 bound "
        "generation, solver per type variable, pass 2 re-check) vs a denotational oracle; every TLC-enumerated multiset is given "
        "to the real pyanalyze.typevar.resolve_bounds_map in every order and every declaration x parameter multiset is realised "
        "as a generic function + call checked by the real visitor in every parameter order; adjudicated by TLC "
        "(TypeVarSolveTrace.tla)",
        text="Model checking: all multisets of <=3 (quick) / <=4 (thorough) bounds over 12 static values (Lower/Upper) + 3 "
        "constraint lists + 2 OrBounds in every order, and 4 declarations of T x multisets of <=2 / <=3 parameters over 23 "
        "(form, argument) kinds in every order: an accepted solution satisfies every bound, an unsatisfiable multiset is "
        "diagnosed, the verdict is order-independent -- outside four named deviation classes of the raw bound API "
        "(known_findings.jsonl); generic calls satisfy the property without exception. Real code bound by exhaustive replay "
        "(drift 0) plus TLC simulation of larger multisets.",
        design="2/C15",
        note=TRUSTED + " A solution Any counts as satisfying every bound; multisets containing an Any bound are exempt from "
        "'unsatisfiable => error'; one IsOneOf per type variable. The solver's input in calls is recorded by wrapping "
        "pyanalyze.signature.resolve_bounds_map inside the harness process.",
    ),
    "C16": dict(
        technique="TLA+ state machine FixLoop.tla (add-ignores loop over the Suppression.tla machine) model-checked by TLC "
        "for convergence / tree unchanged / each inserted ignore targets one diagnostic; the real fix loop is driven on the "
        "TLC-enumerated files and its Begin/Iter/End stream validated by TLC (FixLoopTrace.tla)",
        text="Model checking of the add-ignores fix loop: every abstract file x settings, every iteration to the fixpoint; "
        "the three known deviation classes are named predicates in the spec (known_findings.jsonl), everything else must "
        "hold. Real loop bound by trace validation of every iteration (inserted line, position, first diagnostic).",
        design="2/C16",
        note=TRUSTED + " Replacement fixes other than add-ignores are not yet covered by this check.",
    ),
    "C18": dict(
        technique="TLA+ spec Config.tla (options.py transcription vs documented precedence) checked exhaustively by TLC; "
        "every TLC-enumerated/simulated case replayed through real TOML files + pyanalyze.options and adjudicated by TLC "
        "against ConfigTrace.tla",
        text="Model checking: TLC proves ImplLookup = RefLookup for every chain of <=2 (quick) / <=3 (thorough) config files "
        "x command line x queried module x option kind, and the real options code is bound to the model by replaying the "
        "enumerated cases (exhaustively up to the replay limit, seeded sample above it) with TLC judging every real result "
        "against the documented precedence. Malformed configurations must raise InvalidConfigOption.",
        design="2/C18",
        note=TRUSTED + " Three real options stand for the three option kinds.",
    ),
    "C19": dict(
        technique="TLA+ spec Dispatch.tla (CPython operator protocol RefOp vs transcription ImplOp of _visit_binop_no_mvv / "
        "_check_dunder_call / _composite_from_subscript_no_mvv / _get_attribute_from_known+_mro+fallback over abstract "
        "method-table and attribute-lookup facts) checked exhaustively by TLC; every realisable TLC case realised with synthetic "
        "classes, plus the literal universe x operators/indices/attribute names, checked by the real pyanalyze and evaluated by "
        "real CPython; every observation adjudicated by TLC (DispatchTrace.tla: RefOp = real CPython, property verdict, ImplOp drift)",
        text="Model checking: TLC explores every fact table (candidate method absent/NotImplemented/value/TypeError/IndexError/"
        "other x signature verdict x type relation x operator; attribute-lookup facts) and proves diagnosed <=> CPython raises "
        "and inferred literal = result outside eight named deviation classes; bound to the code by replaying all realisable "
        "cases and the literal-universe expressions, each judged by TLC against the real CPython outcome; drift must be 0.",
        design="2/C19",
        note=TRUSTED + " CPython 3.12.1 as executed here is the oracle (the TLA model of its protocol is validated against it on "
        "every observation). pyanalyze's signature/stub layer is not modelled: its verdict per candidate call is a recorded "
        "fact. NAME.attr with attr in the documented ignored_end_of_reference default is excluded.",
    ),
}

ALL = [f"C{i:02d}" for i in range(1, 21)]

NOT_APPLICABLE_REASON: dict[str, str] = {}


def main() -> None:
    checks = []
    for pid in ALL:
        if pid not in CHECKS:
            continue
        c = CHECKS[pid]
        checks.append(
            {
                "property_id": pid,
                "quick_cmd": f"/venv/bin/python -m harness.run --property {pid} --tier quick",
                "thorough_cmd": f"/venv/bin/python -m harness.run --property {pid} --tier thorough",
                "evidence_file": f"/verif/evidence/{pid}.json",
                "replay_cmd_template": f"/venv/bin/python -m harness.run --property {pid} --replay {{path}}",
                "engine": "tlc",
                "level_claimed": {
                    "category": c.get("level", "model_checking"),
                    "text": c["text"],
                    "design_ref": c["design"],
                },
                "level_note": c["note"],
                "technique": c["technique"],
            }
        )
    hooks_file = VERIF / "hooks.json"
    hook_commits = json.loads(hooks_file.read_text()) if hooks_file.exists() else []
    manifest = {
        "version": 1,
        "setup_cmd": "/venv/bin/python -m harness.run --setup",
        "hooks": {
            "guard": "PYANALYZE_VERIF",
            "enable": "checks export PYANALYZE_VERIF=1 (and PYANALYZE_VERIF_TRACE=<file>) before importing /repo's working tree; "
            "pyanalyze is installed editable from /repo so no rebuild is needed",
            "baseline_off_cmd": BASELINE_OFF,
            "source_commits": hook_commits,
            "add_only": True,
        },
        "engines": [
            {
                "name": "tlc",
                "path": "/verif/harness/run.py",
                "serves_properties": sorted(CHECKS),
                "kind_free_text": "explicit TLA+ specifications under /verif/spec checked with TLC (exhaustive + simulation) and "
                "bound to the implementation by replaying TLC-generated cases into the real code and validating the recorded "
                "observations/traces against trace specifications with TLC",
            }
        ],
        "checks": checks,
        "notes": "See DESIGN.md. Exit 0 = held (KNOWN-FINDING lines possible), 1 = VIOLATION line, 2 = machinery failure.",
        "not_applicable": [
            {"property_id": pid, "reason": NOT_APPLICABLE_REASON.get(pid, "check not built yet in this round (planned, see DESIGN.md section 2)")}
            for pid in ALL
            if pid not in CHECKS
        ],
    }
    (VERIF / "MANIFEST.json").write_text(json.dumps(manifest, indent=1) + "\n")
    print(f"MANIFEST.json: {len(checks)} checks, {len(manifest['not_applicable'])} not claimed")


if __name__ == "__main__":
    main()
