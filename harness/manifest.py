"""Regenerates /verif/MANIFEST.json from the table below:  /venv/bin/python -m harness.manifest"""
from __future__ import annotations

import json
from pathlib import Path

VERIF = Path(__file__).resolve().parent.parent

BASELINE_OFF = (
    "cd /repo && env -u PYANALYZE_VERIF /venv/bin/python -m pytest -ra -q -p no:cacheprovider --timeout=900 "
    "--continue-on-collection-errors"
)

TRUSTED = (
    "Trusted: TLC 1.8.0 and the TLA+ definitions of the oracle operators; the JSON codec between TLA+ terms and "
    "real objects (self-tested in setup); CPython as executed in this sandbox where it is the oracle."
)

CHECKS = {
    "C03": dict(
        technique="TLA+ specs Values.tla (object/type universe, Member relation) + Assign.tla (transcription of the can_assign "
        "dispatch); TLC proves ImplCA(A, Known(o)) = Member(o, A) for every static type term x object; each (A, o) is replayed "
        "through Value.can_assign, pyanalyze.runtime.is_assignable and `x: A = <literal>` snippets and adjudicated by TLC "
        "(AssignTrace.tla) against Member",
        text="Model checking over the bounded universe (18 classes, 40 objects, ~300 static depth-1 type terms in quick, depth-2 "
        "in thorough): the implementation-shaped model is proved equal to structural membership, and the real code is bound by "
        "exhaustive replay of the same (type, object) pairs on three routes with TLC judging every real verdict against Member.",
        design="2/C03",
        note=TRUSTED + " Member is defined from the typing spec and never refers to pyanalyze's algorithms.",
    ),
    "C04": dict(
        technique="TLA+ specs Values.tla + ValueAlgebra.tla + Assign.tla; TLC proves soundness w.r.t. Member, reflexivity, Never/object "
        "laws, union laws, Any laws and exclude-any monotonicity on every pair of type terms; every pair is replayed through "
        "the real Value.can_assign (plain and under set_exclude_any) and adjudicated by TLC (AssignTrace.tla)",
        text="Model checking: all ~108k ordered pairs of depth-1 terms (quick) / depth-2 (thorough) on the model; exhaustive "
        "replay of the same pairs into the real code (drift = 0 means the transcription is exact on the space), plus TLC "
        "simulation of deeper terms. Documented leniencies are named predicates; the enum-metaclass protocol hole is a named "
        "known deviation.",
        design="2/C04",
        note=TRUSTED + " Leniencies excluded from Sound are listed in DESIGN.md (bare generics, fixed<-variadic tuple, NewType<-supertype).",
    ),
    "C11": dict(
        technique="TLA+ state machine Suppression.tla (show_error decision chain, unused/bare ignore passes) vs declarative "
        "RefD, exhaustive TLC; TLC-enumerated files realised as source, checked by the real visitor with the ShowError hook, "
        "and the Begin/ShowError/End event streams validated step by step by TLC (SuppressionTrace.tla)",
        text="Model checking: TLC explores every abstract file of <=3 (quick) / <=4 (thorough) lines over 26 line forms x every "
        "settings combination and proves the machine's output equals the documented projection; the real visitor is bound to "
        "the machine by trace validation of every show_error decision (hook) and its final failure list is judged by the "
        "declarative reference inside TLC. Longer files by TLC simulation.",
        design="2/C11",
        note=TRUSTED + " Diagnostics are realised with module-level lambdas (undefined_name, unsupported_operation).",
    ),
    "C16": dict(
        technique="TLA+ state machine FixLoop.tla (add-ignores loop over the Suppression.tla machine) model-checked by TLC "
        "for convergence / tree unchanged / each inserted ignore targets one diagnostic; the real fix loop is driven on the "
        "TLC-enumerated files and its Begin/Iter/End stream validated by TLC (FixLoopTrace.tla)",
        text="Model checking of the add-ignores fix loop: every abstract file x settings, every iteration to the fixpoint; "
        "the three known deviation classes are named predicates in the spec (known_findings.jsonl), everything else must "
        "hold. Real loop bound by trace validation of every iteration (inserted line, position, first diagnostic).",
        design="2/C16",
        note=TRUSTED + " Replacement fixes other than add-ignores are not yet covered by this check.",
    ),
    "C18": dict(
        technique="TLA+ spec Config.tla (options.py transcription vs documented precedence) checked exhaustively by TLC; "
        "every TLC-enumerated/simulated case replayed through real TOML files + pyanalyze.options and adjudicated by TLC "
        "against ConfigTrace.tla",
        text="Model checking: TLC proves ImplLookup = RefLookup for every chain of <=2 (quick) / <=3 (thorough) config files "
        "x command line x queried module x option kind, and the real options code is bound to the model by replaying the "
        "enumerated cases (exhaustively up to the replay limit, seeded sample above it) with TLC judging every real result "
        "against the documented precedence. Malformed configurations must raise InvalidConfigOption.",
        design="2/C18",
        note=TRUSTED + " Three real options stand for the three option kinds.",
    ),
}

ALL = [f"C{i:02d}" for i in range(1, 21)]

NOT_APPLICABLE_REASON: dict[str, str] = {}


def main() -> None:
    checks = []
    for pid in ALL:
        if pid not in CHECKS:
            continue
        c = CHECKS[pid]
        checks.append(
            {
                "property_id": pid,
                "quick_cmd": f"/venv/bin/python -m harness.run --property {pid} --tier quick",
                "thorough_cmd": f"/venv/bin/python -m harness.run --property {pid} --tier thorough",
                "evidence_file": f"/verif/evidence/{pid}.json",
                "replay_cmd_template": f"/venv/bin/python -m harness.run --property {pid} --replay {{path}}",
                "engine": "tlc",
                "level_claimed": {
                    "category": c.get("level", "model_checking"),
                    "text": c["text"],
                    "design_ref": c["design"],
                },
                "level_note": c["note"],
                "technique": c["technique"],
            }
        )
    hooks_file = VERIF / "hooks.json"
    hook_commits = json.loads(hooks_file.read_text()) if hooks_file.exists() else []
    manifest = {
        "version": 1,
        "setup_cmd": "/venv/bin/python -m harness.run --setup",
        "hooks": {
            "guard": "PYANALYZE_VERIF",
            "enable": "checks export PYANALYZE_VERIF=1 (and PYANALYZE_VERIF_TRACE=<file>) before importing /repo's working tree; "
            "pyanalyze is installed editable from /repo so no rebuild is needed",
            "baseline_off_cmd": BASELINE_OFF,
            "source_commits": hook_commits,
            "add_only": True,
        },
        "engines": [
            {
                "name": "tlc",
                "path": "/verif/harness/run.py",
                "serves_properties": sorted(CHECKS),
                "kind_free_text": "explicit TLA+ specifications under /verif/spec checked with TLC (exhaustive + simulation) and "
                "bound to the implementation by replaying TLC-generated cases into the real code and validating the recorded "
                "observations/traces against trace specifications with TLC",
            }
        ],
        "checks": checks,
        "notes": "See DESIGN.md. Exit 0 = held (KNOWN-FINDING lines possible), 1 = VIOLATION line, 2 = machinery failure.",
        "not_applicable": [
            {"property_id": pid, "reason": NOT_APPLICABLE_REASON.get(pid, "check not built yet in this round (planned, see DESIGN.md section 2)")}
            for pid in ALL
            if pid not in CHECKS
        ],
    }
    (VERIF / "MANIFEST.json").write_text(json.dumps(manifest, indent=1) + "\n")
    print(f"MANIFEST.json: {len(checks)} checks, {len(manifest['not_applicable'])} not claimed")


if __name__ == "__main__":
    main()
