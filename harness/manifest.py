"""Regenerates /verif/MANIFEST.json from the table below:  /venv/bin/python -m harness.manifest"""
from __future__ import annotations

import json
from pathlib import Path

VERIF = Path(__file__).resolve().parent.parent

BASELINE_OFF = (
    "cd /repo && env -u PYANALYZE_VERIF /venv/bin/python -m pytest -ra -q -p no:cacheprovider --timeout=900 "
    "--continue-on-collection-errors"
)

TRUSTED = (
    "Trusted: TLC 1.8.0 and the TLA+ definitions of the oracle operators; the JSON codec between TLA+ terms and "
    "real objects (self-tested in setup); CPython as executed in this sandbox where it is the oracle."
)

CHECKS = {
    "C01": dict(
        level="exploration",
        technique="TLA+ spec MiniPy.tla: TLC generates annotated functions (a staged stack machine composing whole source lines over "
        "catalogues of 219 expressions, 97 tests and 76 match patterns; parameter types from the shared term universe) together "
        "with the argument tuples, which TLC draws from the declared types with the Member relation; each function is checked by "
        "the real visitor and executed under CPython with an AST-rewriting recorder; the recorded (node, runtime value, inferred "
        "type) events are validated by TLC (MiniPyTrace.tla): Member(value, inferred) at every evaluated node, Never never "
        "reached; MiniPyTrace.tla replays the known deviating mechanisms over store / loop / try / with / match events so that a "
        "deviation class excuses an unsound event only if its mechanism explains that event; inferred types are read per visit "
        "through harness-side wrappers around visit / composite_from_node",
        text="Exploration with a TLA+ generator and TLC as the judge: single statements x 29 parameter types, a narrowing slice "
        "(every test in if / if-else / early return, every pattern pair incl. guards), bodies of <=6 statements / depth 3 by "
        "simulation (unpacking, augmented assignment, assert, saved conditions, walrus, break / continue / raise, loop else, "
        "try shapes, suppressing with, match with guards, comprehensions, dict methods, 25 builtins, two-typevar generics, a "
        "generic class and a dataclass); ~44k executions, ~440k judged events, 1.2% skipped in quick. The visitor's abstract "
        "machine is not one specification: its components are modelled and bound in C02, C09, C14, C03/C04 and the call specs. "
        "Event-level deviation classes and 4 domain classes, each self-tested for reachability and non-masking."
        " An indexing slice (every index -3..3 on parameters, starred displays and extend-then-append lists, all argument tuples incl. empty containers) is always run in full.",
        design="2/C01",
        note=TRUSTED + " Runtime values come from instrumented execution under CPython 3.12; values / inferred types outside the "
        "term universe are not judged (counted as skipped); bool arguments are only passed where bool is declared (cross-type "
        "equality, as in C02); programs mutate only the locals m / d; domain verdicts (not findings): cross-type equality, "
        "value of a rejected expression, variadic-tuple leniency, flows-from-Any.",
    ),
    "C02": dict(
        technique="TLA+ specs Narrowing.tla + Boolability.tla (over Assign/ValueAlgebra/Values): transcription of the "
        "condition->constraint mapping, AbstractConstraint invert/apply, Constraint.apply_to_value, the IsAssignable / Equals / "
        "In / len predicates and get_boolability; TLC proves N1 (no loss), N2 (no widening), N3 (always-true/false verdicts) "
        "against Member + a CPython model of the conditions; every TLC-generated (V, condition) is replayed through "
        "stacked_scopes.constrain_value with real Constraint objects (and their invert()) and as a generated if/else or match "
        "function through the visitor; observations adjudicated by TLC (NarrowingTrace.tla), which first validates the "
        "condition model against real CPython on all 43 objects; ConstraintFlow.tla (flow-level slice: the collecting-phase scope "
        "machine with fake definition nodes carrying a constraint and the definitions it restricts, the origin guard of "
        "_add_single_constraint, combine_subscopes, two visits of loop bodies, saved conditions, walrus, and / or operands, "
        "constraint-object identity and the resolution cache) against a small-step CPython execution of the same function; "
        "ConstraintFlowTrace.tla validates the execution model against recorded CPython runs first, then judges the real "
        "inferred type at every read",
        text="Model checking: 346 depth-1 (+267 depth-2) type terms x ~170 atomic conditions of 15 kinds + not/and/or and match "
        "patterns, both polarities (11k states quick, 106k thorough); exhaustive replay (24k / 202k real observations, drift "
        "0), depth-2 by TLC simulation; flow-level slice: 10.7k (quick) / 308k (thorough) functions over the tested variable, a "
        "saved-condition variable and opaque flags (<=5-6 statements) model-checked for FlowN1 (no object seen by a concrete run "
        "is lost) / FlowN2 (nothing outside the reaching assignments and the tested types) and replayed through the visitor and "
        "CPython for every flag choice (15.7k reads, 56.6k runs in quick, drift 0); seven named deviation classes stated on the "
        "lost object (known_findings.jsonl)."
        " Match statements with guards (MatchCases.tla: 2-3 cases of (pattern, guard); visit_Match bookkeeping vs concrete match execution validated against CPython; 2.8k functions replayed in quick) and ordering comparisons with the len() call on either side are covered.",
        design="2/C02",
        note=TRUSTED + " == / != / in / value patterns quantify only over type-respecting equality, as the property says; two "
        "gradual-typing leniencies are excluded from N1 for TypeIs against a parametrised type; sequence/mapping/class-subpattern "
        "match patterns, ordering comparisons other than `x <op> numeric literal`, TypedDict/Callable/TypeVar/Annotated values are not "
        "covered; flow slice: one narrowed variable, one saved-condition variable, no break / continue / try / for, no attribute "
        "/ subscript targets.",
    ),
    "C03": dict(
        technique="TLA+ specs Values.tla (object/type universe, Member relation) + Assign.tla (transcription of the can_assign "
        "dispatch); TLC proves ImplCA(A, Known(o)) = Member(o, A) for every static type term x object; each (A, o) is replayed "
        "through Value.can_assign, pyanalyze.runtime.is_assignable and `x: A = <literal>` snippets and adjudicated by TLC "
        "(AssignTrace.tla) against Member",
        text="Model checking over the bounded universe (18 classes, 40 objects, ~300 static depth-1 type terms in quick, depth-2 "
        "in thorough): the implementation-shaped model is proved equal to structural membership, and the real code is bound by "
        "exhaustive replay of the same (type, object) pairs on three routes with TLC judging every real verdict against Member.",
        design="2/C03",
        note=TRUSTED + " Member is defined from the typing spec and never refers to pyanalyze's algorithms.",
    ),
    "C04": dict(
        technique="TLA+ specs Values.tla + ValueAlgebra.tla + Assign.tla; TLC proves soundness w.r.t. Member, reflexivity, Never/object "
        "laws, union laws, Any laws and exclude-any monotonicity on every pair of type terms; every pair is replayed through "
        "the real Value.can_assign (plain and under set_exclude_any) and adjudicated by TLC (AssignTrace.tla); Protocols.tla + "
        "ProtocolsTrace.tla model the run-time protocol check as the state machine it is (member collection over the MRO, "
        "per-member lookup and comparison, recursion guard, positive cache as state) on 18 real protocols x 49 candidate classes "
        "whose table is compared with the real classes and CPython's __protocol_attrs__; membership = greatest fixed point of "
        "PEP 544 conformance validated against CPython; every pair replayed in two histories through new Checkers, through the "
        "visitor and through the cache machine",
        text="Model checking: all ~108k ordered pairs of depth-1 terms (quick) / depth-2 (thorough) on the model; exhaustive "
        "replay of the same pairs into the real code (drift = 0 means the transcription is exact on the space), plus TLC "
        "simulation of deeper terms. Run-time protocols: all pairs of a 28 x 144 sub-universe, 2-step (quick) / 3-step "
        "(thorough) cache histories exhaustive over the recursive family, Sound / Refl / union laws / history independence. "
        "Documented leniencies are named predicates; the enum-metaclass protocol hole and six protocol deviations (poisoned "
        "positive cache, five Any / rescue leniencies) are named known deviations, excused only where the model reproduces the "
        "real verdict."
        " Unions of same-type literals (function literals, class literals, two instances of one class, scalars) in every order are offered to Callable types, __call__ / data-member protocols and every expected kind (UnionLeft)."
        " User generic classes with every arrangement of the Generic[...] base and permuted parameter orders (GenericBases.tla, 1067 states exhaustive, 2080 real pairs) check generic-base substitution against __orig_bases__ / __parameters__ and witness objects.",
        design="2/C04",
        note=TRUSTED + " Leniencies excluded from Sound are listed in DESIGN.md (bare generics, fixed<-variadic tuple, NewType<-supertype); class objects (type[K], KnownValue(K)) against protocols and the "
        "permissive __hash__ rule are outside the protocol slice.",
    ),
    "C05": dict(
        technique="TLA+ state machine Binder.tla (preprocess_args + Signature.bind_arguments, one action per branch) checked by TLC "
        "against CPythonBind.tla (CPython's binding rules); TLC-enumerated/simulated (signature, call) cases replayed through the "
        "real binder, the real visitor and really executed under CPython; observations adjudicated by TLC (BinderTrace.tla), which "
        "first validates the oracle model against the real call outcomes; CallableKinds.tla / CallableKindsTrace.tla model signature "
        "extraction from runtime objects: per kind of callable object x access path the receiver transformation "
        "(signature_from_value -> _uncached_get_argspec -> make_bound_method / bind_self) followed by the binder, against what "
        "evaluating the call does under CPython; cases realised as real source checked by the visitor (same and importing "
        "module) and really performed; StarPrep.tla / StarPrepTrace.tla model the preprocessing of INFERRED star arguments "
        "(_preprocess_kwargs_kv_pairs, _preprocess_kwargs_no_mvv, concrete_values_from_iterable, merging into ActualArguments with "
        "possibly-provided keywords) against every expansion of the opaque inputs; each case realised with cond()-guarded "
        "spreads whose inferred value is read back and compared with the case, and every expansion really executed",
        text="Model checking: TLC proves verdict <=> CPython binding for every signature of <=3 (quick) / <=4 and <=5 (thorough) "
        "parameters x call shapes incl. */** literals, and accept => exists expansion / reject => no non-empty expansion for "
        "list[int]/tuple[int,...]/dict[str,int] star arguments, outside two named deviation classes; 6 parameters by simulation; "
        "the real code is bound by replay (exhaustive at the emit bound in thorough) with per-parameter positions and error "
        "branch compared (drift). Additionally, for 21 kinds of callable object x access path (function, lambda, async, "
        "wraps-wrapper, annotated, static/class/instance method via class / instance / typed receiver, callable instance, class "
        "with __init__ / __new__ / both / inherited / none, dataclass, NamedTuple, partial; <=2 quick / <=3 thorough parameters "
        "beyond the receiver) TLC proves that the receiver transformation followed by the binder agrees with CPython's call "
        "semantics outside three further named classes and two unchecked-by-design kinds; replayed through the real visitor "
        "and real calls (10k observations quick). Star-argument preprocessing: ** of dict displays with required / optional / "
        "duplicate / non-literal keys, TypedDicts with NotRequired keys, unions of dict literals, * of tuples with unpacked "
        "segments and length unions (67k states, 9.3k cases replayed with 30k executed expansions in quick; 2.2M states "
        "thorough); single expansion: iff clause, otherwise the property's existential accept / reject clauses; four further "
        "named classes.",
        design="2/C05",
        note=TRUSTED + " Arguments are ints and parameters are unannotated; keywords range over parameter names + one foreign "
        "name; the existential clause enumerates expansions up to max(4, number of parameters); in the kinds slice receiver "
        "parameters are never passed by explicit keyword, bodies are trivial (any TypeError is a binding error), builtins and "
        "typeshed signatures are out of scope.",
    ),
    "C06": dict(
        technique="TLA+ spec Calls.tla (EXTENDS Assign/Values): a fixed library of 136 annotated functions (incl. a generic-classes slice: GBox(Generic[T]) with subclasses fixing T, re-parameterising, overriding __init__, bounded / constrained variants, generic dataclasses and a generic Protocol; constructor, method, classmethod and subscripted-class call forms) (data of the spec; the real "
        "Python library is generated from TLC's JSON) x every binding call over 15 literal arguments (<=3 args, <=2 keywords, "
        "plain, *(..)/**{..} and mixed explicit+star forms; literal menu incl. 0 / False / 0.0 / "" / None / ()); ImplCall = transcription of Signature.check_call_with_bound_args (pass 1 bounds via "
        "can_assign with type variables, typevar.solve, default return, return substitution, pass 2, duplicate-diagnostic "
        "suppression, constructor/bound-method signatures, the default exemption decided by identity (signature.py:654), "
        "receiver-as-argument for `self: T`, allow_call for NamedTuple, return inferred from the body) and of TypeObject's protocol cache over call sessions; Ref = Member of "
        "the runtime objects in the declared types under some admissible type-variable assignment, CPython binding, body model. "
        "Exhaustive TLC + simulation; every TLC case realised, checked by the real visitor, really executed, and adjudicated by "
        "TLC (CallsTrace.tla: oracle models = real CPython, property, drift)",
        text="Model checking: for every library function x literal argument tuple (quick 3.2e5 states incl. the defaults / parameter-kinds / call-forms / returns slice of 2.6e4; thorough adds 1.1e5 for that slice) the model "
        "is diagnosed iff some argument does not belong to its declared type (for generics: under no admissible type-variable "
        "value), the inferred type contains the modelled result, and the inferred solution fits every argument; bound to the "
        "code by replaying 5.5e3 cases quick (first-built slice in full; defaults slice: all <=1-argument calls plus 1 000 sampled two-argument calls) / all cases thorough + simulation through the real checker and real CPython, "
        "each observation judged by TLC, drift 0; three named deviation classes (orbound-ignored, classmethod-on-specialised-class-keeps-free-typevar, subscripted-generic-class-call-unchecked); the protocol-cache defect was repaired."
        " A keyword-names slice (typed **kwargs next to positional-only / *args parameters, keywords reusing every parameter name) checks the landing slot of every argument against CPython.",
        design="2/C06",
        note=TRUSTED + " The result clause is judged on calls whose arguments fit. Candidates for type variables in the oracle: "
        "object, bound, constraints, int/str/bool/float/A/B. Sessions need a fresh Checker; all other calls share one Checker "
        "per process. A def whose default lies outside its annotation is itself reported (incompatible_default); the result "
        "clause is not judged for calls that rely on such a default.",
    ),
    "C07": dict(
        technique="TLA+ state machine SigCompat.tla (Signature.can_assign incl. *args/**kwargs absorption) vs behavioural inclusion "
        "stated with the C05 oracle; pairs replayed through KnownValue(f).can_assign(KnownValue(g)) and the visitor (Literal[f] "
        "parameter); both functions really called with every call shape and the landing parameter of each argument recorded; "
        "adjudicated by TLC (SigCompatTrace.tla); entry points modelled as their own machines in CallableRoutes.tla (override check "
        "over every defining ancestor, Callable[[..], R] / Callable[..., R] parameters, protocol members; receiver kinds) and "
        "driven separately through the real visitor (incompatible_override enabled) on realised class hierarchies / Callable "
        "parameters / Protocol classes with real method calls on instances, adjudicated by CallableRoutesTrace.tla",
        text="Model checking: accept => every call shape (<=3 positionals, <=3 keywords) bound by the expected signature is bound "
        "by the actual one, for all pairs <=3x2 (quick) / <=3x3 (thorough) parameters, outside one named (TLC-proved tight) "
        "deviation class; typed variant (chain C<:B<:A, Any) checks parameter contravariance/return covariance at <=1x2 / "
        "<=2x2; 4x4 by simulation. Entry points (CallableRoutes.tla): override hierarchies of 1-3 base classes (chains, unrelated "
        "bases, mixed; every defining ancestor is an obligation), Callable parameters and protocol methods, receiver kinds self "
        "/ self positional-only / none; quick <=1x1 (exhaustive), <=1x2 and typed <=1x1 (sampled), thorough <=2x2 / 3 bases "
        "<=1x2, 3x3 by simulation.",
        design="2/C07",
        note=TRUSTED + " Expected parameters are canonically named; types are a 3-class chain; override hierarchies are diamond-free; the receiver "
        "parameter is unannotated; names of ignored_for_incompatible_overrides and Callable[...] argument lists are outside the "
        "property; bound-method arguments, overloads and properties are not driven.",
    ),
    "C08": dict(
        technique="TLA+ state machine Overloads.tla (two-pass loop of OverloadedSignature.check_call with any/union/union+any "
        "bookkeeping, binder, decompose_union, _unite_rets) model-checked by TLC against the declarative RefClause (first "
        "accepting overload on ground types; union argument = every member's own call; an Any-bearing member (Any, List[Any]) = some "
        "unknown ground type, and a member call whose unknown part can select different returns is Any; the Any-used bookkeeping "
        "of decompose_union / check_call_with_bound_args is part of the machine); every "
        "TLC-enumerated/simulated (overload set, call) is realised as @overload stubs + reveal_type(f(args)), checked by the real "
        "visitor, and the verdict, revealed type, second-pass step classification and real CPython binding of every overload "
        "are adjudicated by TLC (OverloadsTrace.tla)",
        text="Model checking: TLC proves the machine satisfies the property for every overload set of 2-3 signatures (4 with <=1 "
        "parameter) over {int,bool,str,None,float,object,Any,List[int|str|Any],Literal[1|2|'a'],enum members, unions incl. Any-bearing "
        "members}, parameters positional-or-keyword/keyword-only with/"
        "without defaults, and every call of <=2 positional/keyword arguments with at most one union argument; one named "
        "deviation class (known_findings.jsonl), everything else must hold. The real checker is bound to the model by "
        "replaying the enumerated cases (quick: all; thorough: 1 in 2-6 overload sets per slice) plus TLC simulation of 2-4 "
        "overloads, with TLC judging every real result against RefClause and comparing the real loop's per-overload step classes "
        "for every replayed call (1.2M states, 114k cases replayed in quick; 12M / 500k thorough).",
        design="2/C08",
        note=TRUSTED + " Assignability inside the oracle is nominal subtyping over six builtin classes plus int->float; the binder "
        "part of the oracle is checked against real CPython calls on every observation. Second-pass steps are observed by "
        "wrapping Signature.check_call_preprocessed in the harness process. List element types are restricted to int / str (variance "
        "not judged); TLC -coverage is replaced by printed branch counts (the Members table exhausts its cost model).",
    ),
    "C09": dict(
        technique="TLA+ specs Scopes.tla (FunctionScope set/get_local/subscope/loop_scope/suppressing_subscope/combine + what the "
        "visitor issues per statement) vs CFG.tla (independent collecting semantics: strict and liberal reaching definitions), "
        "skeleton generator ScopeGen.tla; TLC checks Strict <= Reported <= Liberal at every use of every generated function body; "
        "each body is rendered to Python, checked by the real visitor and the reported definition sets adjudicated by TLC "
        "(ScopesTrace.tla); a second observable on usage_to_definition_nodes (unused_variable / unused_assignment per binding: a "
        "binding that reaches a use along a strict path must not be reported); slices for loop-continue / loop-exit bodies, "
        "try / finally inside loops, other binding forms (augmented assignment, import, walrus, with-as, for targets, except-as), "
        "inner scopes (comprehensions / lambdas reading, iterating, binding) and match captures, observed on the function "
        "scope's own maps where the bound values are not literals",
        text="Model checking: every function body of <=4 (quick) / <=6 (thorough) statements over assignments, uses, calls, "
        "if/while/while True/for (+else), with (suppressing or not), try/except/else/finally, return/raise/break/continue; the "
        "scope-machine model is bound to the code by exhaustive replay (drift 0) and the real reports are judged by the oracle; "
        "three named deviation classes (loop else, always-entered loop first iteration, loop body revisited after unconditional "
        "exit) are known findings. Larger bodies by TLC simulation. Quick: exhaustive 4 statements / depth 2 / 2 variables (256k "
        "states, all 1.7k bodies replayed) plus slices loopcont (179k states, 5.9k bodies), finally (254k, 720), binders (138k, "
        "3k sampled), inner (19k, 900), match (751k, 1.5k), nested5, closure4, loopexit7; thorough: 5 / 3 / 2 variables (9.6M "
        "states) and 6 / 3 / 1 variable (87M); twelve named deviation classes, each excusing only reports the model reproduces "
        "exactly."
        " While tests over locals bound to non-empty / empty lists, tuples and int literals (whiletest slice, 526k states) distinguish always-entered, never-entered and ordinary loops.",
        design="2/C09",
        note=TRUSTED + " Dead code (statements after return/raise/break/continue in the same block) is outside the grammar "
        "(pyanalyze deliberately analyses it as fall-through); nested functions with nonlocal are generated as one-statement closures called after a dominating definition (ScopeGen.closure*.cfg); `global` is not generated (module variables are flow-insensitive by design); loop-exit bodies with break under try / suppressing with form their own slice (ScopeGen.loopexit.cfg); in the newer slices "
        "programs with a statement following a compound statement that cannot complete normally are outside the domain (DeadTail); "
        "`del` (treated as a read by pyanalyze) and class bodies reading function variables (resolved flow-insensitively by "
        "design) are left out.",
    ),
    "C10": dict(
        technique="TLA+ spec Determinism.tla (set-iteration sites on the way to output as schedule choices; the Checker as a cache "
        "machine) checked by TLC; TLC simulation draws schedules (hash seed, sequence of programs sharing one Checker), each run "
        "in a fresh subprocess with that PYTHONHASHSEED, and the recorded renderings are validated by TLC "
        "(DeterminismTrace.tla): a program must always render exactly as the first time it was seen",
        text="Model checking of the schedule model (all seeds x all sequences of <=3 (quick) / <=4 (thorough) programs) plus "
        "trace validation of real executions: ~70 (quick) / ~420 (thorough) fresh processes over a pool of 21 programs "
        "targeting the modelled sites (unexpected keywords, or-chains, protocols, literal unions, dict/set displays, "
        "TypedDict, overloads, generics, narrowing loops, try/finally scopes), each also checked twice in one process. "
        "Four ordering defects were repaired; set displays are a known finding."
        " The corpus slice checks the repository's own 896 pure test snippets in two fresh processes per shard (different seeds, opposite orders, one Checker per settings); every program is checked with a ClassAttributeChecker so that end-of-run reports are part of the rendering; families sharedsig (typeshed generic-protocol builtins, Protocol[T]) and attrchecker were added after seeds C10-3 / C10-4.",
        design="2/C10",
        note=TRUSTED + " Renderings = code, line, column and message text of every diagnostic with module names and addresses normalised.",
    ),
    "C11": dict(
        technique="TLA+ state machine Suppression.tla (show_error decision chain, unused/bare ignore passes) vs declarative "
        "RefD, exhaustive TLC; TLC-enumerated files realised as source, checked by the real visitor with the ShowError hook, "
        "and the Begin/ShowError/End event streams validated step by step by TLC (SuppressionTrace.tla); SuppressionRoutes.tla + "
        "SuppressionRoutesTrace.tla extend the machine with the enabling decision (command line -e / -d / --enable-all / "
        "--disable-all over configuration-file sections over the built-in default: ImplEnabled = transcription of main(), "
        "prepare_constructor_kwargs, sort_key / get_value_from_instances), structured files (14 line shapes: multi-line "
        "statements, decorators, nested defs, assert_error blocks, leading docstring / import / shebang lines; ignore[a, b]; "
        "default-off and FunctionDef-node codes) and the caught_errors stack as state (CatchBegin / ShowCaught / CatchEndDrop / "
        "CatchEndReemit with an exactly-once chain invariant); routes replayed: constructor settings, in-process "
        "NameCheckVisitor.main() with real temp files and a pyproject.toml (two modules sharing one Checker), python -m pyanalyze",
        text="Model checking: TLC explores every abstract file of <=3 (quick) / <=4 (thorough) lines over 26 line forms x every "
        "settings combination and proves the machine's output equals the documented projection; the real visitor is bound to "
        "the machine by trace validation of every show_error decision (hook) and its final failure list is judged by the "
        "declarative reference inside TLC. Longer files by TLC simulation. Every settings request over CLI x config sections for a "
        "default-on and a default-off code is proved equal to the documented precedence (212k states); catch / re-emit / drop "
        "and file structure exhaustively for small files (170k-230k states per slice quick; 6.6M / 15M thorough) and by "
        "simulation for 3-8 lines x 7 codes; quick: 3 lines x 4 unused-reporting settings + 2 lines x all 16 settings (4 lines x "
        "all settings in thorough); ~124k trace lines, ~14k files replayed in quick.",
        design="2/C11",
        note=TRUSTED + " Diagnostics are realised with module-level lambdas and, in the routes slice, at function level, on multi-line statements, "
        "decorators, nested defs and assert_error blocks; implicit_any is switched off with -d whenever --enable-all is "
        "requested; `ignore[a, b]` is undocumented: it suppresses nothing and is reported unused; ignore[meta-code] comments "
        "and the config key disable_all are out of this property's domain (disable_all belongs to C18).",
    ),
    "C12": dict(
        level="exploration",
        technique="TLA+ spec Totality.tla: (i) a TLC generator of deliberately odd / ill-typed modules (96 fragment kinds x operand kinds x scope nestings over def / async def / class up to depth 3; "
        "layouts: 16 diagnostic sites x 12 paddings incl. non-ASCII, TAB, FF, U+2028 x line endings), (ii) an exhaustively "
        "checked position model of show_error (physical lines, node positions, context window, caret), (iii) the life-cycle automaton of one check (Start -> Diag* -> End, every Diag WellFormed, "
        "no Raise action); every generated module is checked by the real visitor under two enabled-code configurations and the "
        "Begin/Diag/End/Raised event stream validated by TLC (TotalityTrace.tla); the public value API is exercised on "
        "TLC-generated pairs of Values (Assign.tla's generator plus TotalityValues.tla: odd KnownValues, bound methods with odd "
        "parameter lists, partials, overloads, Callable signatures, Annotated / extension terms, TypeVars, unpacked sequences; 12 "
        "binary and 25 unary operations per pair; pyanalyze.runtime functions on (object, type) pairs); a constant-folding family "
        "(342 operations the checker EXECUTES on known constants: f-string specs and conversions, % and str.format, numeric / "
        "bytes / range calls, unary and binary operators x 21 constants up to 2**1024 and 1e999; 26k expressions in quick)",
        text="Exploration with a TLA+ generator and acceptance automaton: every single fragment exhaustively (1.4k modules x 2 "
        "configurations), nestings and sequences by TLC simulation, 1.7k layouts, ~13k (quick) value pairs through can_assign / "
        "unite_values / substitute_typevars / str / hash / simplify / runtime API; every diagnostic's position and rendered "
        "context judged against the file. Totality is observed, not derived. Eleven crashes / ill-formed positions found this "
        "way were repaired; the UTF-8 byte-offset column is an open finding."
        " Declaration-level class bodies (33 kinds of Enum / dataclass / NamedTuple / TypedDict / Protocol bodies x 26 member values incl. nominally-hashable-but-unhashable ones) are part of the generator.",
        design="2/C12",
        note=TRUSTED + " The grammar is the modelled one, not all of Python; modules that fail to import are outside the domain; the line model is CPython's physical lines; well-formed odd objects "
        "may raise in __eq__ / __hash__ / __bool__ only (a raising __repr__ or a __getattr__ raising other than AttributeError is "
        "outside the domain).",
    ),
    "C13": dict(
        technique="TLA+ specs Annotations.tla (transcriptions of pyanalyze's three annotation evaluators -- runtime object, "
        "string/forward reference, checker's visitor -- over a validated model of CPython's typing normalisation) and "
        "DefHeaders.tla (compute_parameters vs inspect.signature + from_signature) checked by TLC; every TLC-enumerated/"
        "simulated expression and def header realised as source and pushed through the real routes (type_from_runtime on "
        "eval(E) and on 'E', reveal_type of a parameter, get_argspec from plain and PEP 563 modules, nested-def signature, each "
        "call in three contexts); observations adjudicated by TLC (AnnotationsTrace.tla / DefHeadersTrace.tla), which first "
        "validate the CPython models against real eval() / inspect.signature; AnnotationContext.tla / AnnotationContextTrace.tla "
        "(a two-module world with same-named classes, 17 spellings of a forward reference, typing's subscription memo really "
        "shared, histories of typing.get_type_hints / pyanalyze routes; model of typing's sharing validated against the real "
        "ForwardRef objects) and DefShapes.tla / DefShapesTrace.tla (methods via class / instance, functools.wraps wrappers, "
        "decorators with a declared Callable return, sync / async generators, non-literal defaults)",
        text="Model checking: TLC proves the three evaluators mean the same type for every expression of <=3 (quick) / <=4 "
        "(thorough, 1.8M states) forms over 32 leaf / 22 unary / 7 binary forms, and that def-derived and runtime-derived "
        "signatures agree for every header of <=2 / <=3 parameters over all five kinds, defaults, annotations, async and PEP "
        "563, outside two named deviation classes (three more were repaired); simulation to 7 forms / 4 parameters. The real "
        "code is bound to the model by replay (drift 0) and every real result is judged by TLC. The denotation of a forward "
        "reference is proved and replayed to be independent of evaluation history and of typing's shared ForwardRef objects "
        "(histories <=2, 20k states quick / 387k thorough, 1.7k cases replayed in quick); shapes of definition model checked "
        "(3.7k / 112k states) and replayed."
        " Unpack'd *args / **kwargs in three spellings (DefVarargs.tla) and TypedDict / dataclass / NamedTuple field declarations (13 qualifier stacks over Required / NotRequired / ReadOnly / Annotated x typing / typing_extensions x three spellings; DeclFields.tla, 342 cases all replayed) are judged against the declared meaning of PEP 589 / 646 / 655 / 692 / 705 on every route.",
        design="2/C13",
        note=TRUSTED + " RefSame / RefSameSig define 'up to representation'; typing's caches are cleared per case for Annotations / DefHeaders and really shared inside a case for AnnotationContext; return types of "
        "calls compared only when declared; vocabulary = prelude of c13.py; Python 3.12.1.",
    ),
    "C14": dict(
        technique="TLA+ specs ValueAlgebra.tla (ImplEq, ImplSameHash, ImplUnite) + Algebra.tla (ImplSubst, the semilattice / hash / "
        "substitution laws, named deviation classes) checked by TLC on every triple of the bounded term space; each triple "
        "replayed through the real unite_values / == / hash / can_assign / substitute_typevars and the real results adjudicated "
        "by TLC (AlgebraTrace.tla: laws evaluated on the real result terms, Members via Member); SubstContexts.tla (context-with-hole "
        "generator over every sub-value position and flag of every Value class that holds values; structural oracle FreeVars / "
        "RefSubst / Norm / RefSame independent of the ImplSubstF / ImplEq / ImplSameHash / ImplWalkVars transcriptions) + "
        "SubstContextsTrace.tla for substitution, equality / hash of separately built values and extract_typevars",
        text="Model checking over all triples of 49 terms (literals incl. unhashable ones, typed, generic, sequence, subclass, newtype, "
        "type variables, TypedDict / DictIncomplete, unions incl. permuted and nested ones) x 6 type-variable maps, plus 17k "
        "context cases (44 one-hole frames nested to depth 2; thorough depth 3, 66k; fillers T, S, int, a function literal; 8 "
        "maps incl. a chain and a swap) and 9k equality pairs, all replayed into the real value API with drift 0. Three defects "
        "were repaired (union hash, substitution into unions, TypedDict extra keys not walked); six deviation classes are open "
        "findings, excused only where the real result equals the model's prediction.",
        design="2/C14",
        note=TRUSTED + " TypedDict and DictIncomplete (optional / unpacked pairs) terms are in the term space; callable, annotated, TypedDict extra-keys, exactly, Unpacked and AsyncTask values are in the context slice; ParamSpec "
        "parameters, TypeVar bounds mentioning type variables, UnboundMethodValue and TypeAliasValue are not.",
    ),
    "C15": dict(
        technique="TLA+ spec TypeVarSolve.tla: typevar.solve as a fold machine (bottom, top, options; one action per branch, TLC's "
        "interleavings of the Fold actions are the permutations of the bound multiset) and generic calls (pass 1 bound "
        "generation, solver per type variable, pass 2 re-check) vs a denotational oracle; every TLC-enumerated multiset is given "
        "to the real pyanalyze.typevar.resolve_bounds_map in every order and every declaration x parameter multiset is realised "
        "as a generic function + call checked by the real visitor in every parameter order; adjudicated by TLC "
        "(TypeVarSolveTrace.tla)",
        text="Model checking: all multisets of <=3 (quick) / <=4 (thorough) bounds over 12 static values (Lower/Upper) + 3 "
        "constraint lists + 2 OrBounds in every order, and 4 declarations of T x multisets of <=2 / <=3 parameters over 23 "
        "(form, argument) kinds in every order: an accepted solution satisfies every bound, an unsatisfiable multiset is "
        "diagnosed, the verdict is order-independent -- outside four named deviation classes of the raw bound API "
        "(known_findings.jsonl); generic calls satisfy the property without exception. Real code bound by exhaustive replay "
        "(drift 0) plus TLC simulation of larger multisets.",
        design="2/C15",
        note=TRUSTED + " A solution Any counts as satisfying every bound; multisets containing an Any bound are exempt from "
        "'unsatisfiable => error'; one IsOneOf per type variable. The solver's input in calls is recorded by wrapping "
        "pyanalyze.signature.resolve_bounds_map inside the harness process.",
    ),
    "C16": dict(
        technique="TLA+ state machine FixLoop.tla (add-ignores loop over the Suppression.tla machine) model-checked by TLC "
        "for convergence / tree unchanged / each inserted ignore targets one diagnostic; the real fix loop is driven on the "
        "TLC-enumerated files and its Begin/Iter/End stream validated by TLC (FixLoopTrace.tla); part B FixReplace.tla: replacement "
        "fixes (9 producers) as post-conditions per step; part C FixLayout.tla: textual model of the fixer's line-range "
        "computation (get_line_range_for_node heuristics, replace_node / remove_node, add-ignores insertion, "
        "_apply_changes_to_lines) over physical line records, model-checked Impl = Ref(statement extent, lines owned, block "
        "kept, comment only where it is a lexical no-op) outside 8 named classes; every enumerated file fixed by the real code "
        "to the fixpoint and judged by FixLayoutTrace.tla (oracle = CPython's node extent -> drift -> clauses), CLI -r on a "
        "sample",
        text="Model checking of the add-ignores fix loop: every abstract file x settings, every iteration to the fixpoint; "
        "the three known deviation classes are named predicates in the spec (known_findings.jsonl), everything else must "
        "hold. Real loop bound by trace validation of every iteration (inserted line, position, first diagnostic). Parts B / C: "
        "replacement fixes as post-conditions (parses, proposing diagnostic gone, AST = intended program, loop clean) and as "
        "text operations over fix kind x 24 statement layouts x 9 blocks x 8 lines-before x 12 lines-after x 3 end-of-file "
        "positions (87k states quick / 200k thorough; 3.7k / 99k files through the real fixer)."
        " Part D (FixShapes.tla): the fix producers' decisions over statement / literal / call shapes (assignment targets x walrus x value purity; 70 named shapes for missing_f, use_fstrings, too_many_positional_args, unused_ignore) with Ref = the applied replacement is the intended change only, judged by executing the function before and after the fix."
        " use_fstrings rewrites are enumerated over flag x width x precision x conversion (360 cases) and executed before / after on values that expose each field.",
        design="2/C16",
        note=TRUSTED + " Replacement fixes (missing_f, use_fstrings, unused_variable, too_many_positional_args, unused_ignore) are covered by part B (FixReplace.tla / FixReplaceTrace.tla, c16b.py) with post-conditions only: parses, proposing diagnostic gone, AST delta within the allowed set; the decompiler's text fidelity is outside what TLA+ decides (comments inside the rewritten statement are lost by design and not counted). 8 open findings in the line-range / insertion code (proposed/C16-fix-1..3.diff); asynq multi-statement rewrites (missing_asynq, duplicate / unnecessary yield) are not realised.",
    ),
    "C17": dict(
        technique="TLA+ specs PercentFormat.tla / StrFormat.tla (transcription of format_strings.py + _str_format_impl vs an "
        "independent model of CPython 3.12's %-formatter and str.format incl. the format-spec mini-language), exhaustive TLC + "
        "simulation; every enumerated case realised as an expression, checked by the real visitor and really evaluated by "
        "CPython; observations adjudicated by TLC (PercentFormatTrace / StrFormatTrace), which first validates the CPython "
        "model against the real outcome; PercentFields.tla / StrFields.tla are specifier- / field-structured generators extending "
        "the two specs (same operators, invariants and trace specs): templates built from items whose fields are enumerated, "
        "arguments drawn around the arity the template asks for",
        text="Model checking: TLC proves 'CPython raises => reported', 'CPython succeeds => nothing reported outside the "
        "documented lints' and 'inferred type = result type' for every %-template of <=3 (quick) / <=4 (thorough) tokens x "
        "literal scalar/tuple/dict arguments x str/bytes, and every str.format template of <=4 / <=5 tokens x positional/"
        "keyword arguments; and, by the structured generators, every 1-item template over the complete field menus (3 keys x 16 "
        "flag sets x 3 widths x 4 precisions x 4 length modifiers x 19 conversions; 5 names x 10 accessor chains x 5 conversions "
        "x 11 specs) and 2-item templates over reduced menus x arguments of arity required-1 / 0 / +1 (quick: 25k cases all "
        "replayed; thorough 1e7 states), outside 15 named deviation classes (known_findings.jsonl). The real code is bound by replaying the "
        "enumerated cases with TLC judging each real report against the real CPython outcome; drift 0."
        " Lexical edge forms of str.format field names (signs, spaces, underscores, non-ASCII digits, Py_ssize_t overflow) are enumerated against CPython's get_integer rule.",
        design="2/C17",
        note=TRUSTED + " CPython 3.12.1 is the oracle (its TLA+ model is re-validated on every observation). Acceptance and result "
        "type only, not rendered text. -coverage is unusable on these specs (OOM); vacuity is controlled by observation "
        "classes, strict and seeded-bug configs. A deviation class excuses an observation only if the Impl model reproduces the "
        "real report.",
    ),
    "C18": dict(
        technique="TLA+ spec Config.tla (options.py transcription vs documented precedence) checked exhaustively by TLC; "
        "every TLC-enumerated/simulated case replayed through real TOML files + pyanalyze.options and adjudicated by TLC "
        "against ConfigTrace.tla; the command-line assembly (argparse -> main() settings -> prepare_constructor_kwargs) is a modelled "
        "stage with seven seeded-model sensitivity cfgs, replayed through the real prepare_constructor_kwargs, "
        "NameCheckVisitor.main() on a real sys.argv and `python -m pyanalyze --display-options` subprocesses",
        text="Model checking: TLC proves ImplLookup = RefLookup on every state of (a) chains of <=2 (quick) / <=3 (thorough) "
        "config files x command line x queried module x {bool, int, list} and (b) the command-line assembly slice: six option "
        "kinds x {absent, falsy, truthy} on command line (kwargs and every argv of <=2 tokens), override, top level, extended "
        "file, default; flat / nested directories; 14 malformed kinds at every file / section (6e5 + 1.8e5 states quick; 4e7 + "
        "4e6 thorough). The printed cases (deterministic sample where the space exceeds the replay budget; 1.3e5 real "
        "observations quick) are replayed through the real options code with TLC judging every result (CommandLineValueWins, "
        "LayeringFollowsDocs, MalformedRejected); the real command-line instances are compared with the model even when a lower "
        "layer masks the value."
        " The Options object is state with a Lookup action: histories of <=3 lookups on one real Options (and one program run over several files) must each follow the documented precedence and leave the stored instances unchanged."
        " extend_config references carry a spelling dimension (same dir, ./, ../dir/, absolute, redundant components, symlink) for acyclic chains and for cycles of length 1-3, which must raise InvalidConfigOption.",
        design="2/C18",
        note=TRUSTED + " Seven real options stand for six option kinds; Options.display is replaced by a recorder in-process; path lists are "
        "first-statement-wins (PathSequenceOption is not a ConcatenatedOption); files=[] means no file was named; a command line "
        "with both -e X and -d X is outside the domain.",
    ),
    "C19": dict(
        technique="TLA+ spec Dispatch.tla (CPython operator protocol RefOp vs transcription ImplOp of _visit_binop_no_mvv / "
        "_check_dunder_call / _composite_from_subscript_no_mvv / _get_attribute_from_known+_mro+fallback over abstract "
        "method-table and attribute-lookup facts) checked exhaustively by TLC; every realisable TLC case realised with synthetic "
        "classes, plus the literal universe x operators/indices/attribute names, checked by the real pyanalyze and evaluated by "
        "real CPython; every observation adjudicated by TLC (DispatchTrace.tla: RefOp = real CPython, property verdict, ImplOp drift)",
        text="Model checking: TLC explores every fact table (candidate method absent/NotImplemented/value/TypeError/IndexError/"
        "other x signature verdict x type relation x operator; attribute-lookup facts) and proves diagnosed <=> CPython raises "
        "and inferred literal = result outside eight named deviation classes; bound to the code by replaying all realisable "
        "cases and the literal-universe expressions, each judged by TLC against the real CPython outcome; drift must be 0.",
        design="2/C19",
        note=TRUSTED + " CPython 3.12.1 as executed here is the oracle (the TLA model of its protocol is validated against it on "
        "every observation). pyanalyze's signature/stub layer is not modelled: its verdict per candidate call is a recorded "
        "fact. NAME.attr with attr in the documented ignored_end_of_reference default is excluded.",
    ),
    "C20": dict(
        technique="TLA+ spec TypeEval.tla: evaluator bodies generated line by line (if/elif/else, and/or/not of is_of_type, "
        "comparisons, is_provided/is_positional/is_keyword, version/platform checks, return, show_error) x signature x call "
        "shape x argument types; RefObs = documented semantics (docs/type_evaluation.md) with one execution per combination of "
        "union members, ImplObs = transcription of ConditionEvaluator / EvaluateVisitor and of the positions computed by "
        "bind_arguments; exhaustive TLC + simulation; every emitted case realised as a real @evaluated function and call, "
        "checked by NameCheckVisitor with Evaluator.evaluate wrapped, each observation adjudicated by TLC (TypeEvalTrace.tla)",
        text="Model checking: for every body of <=3 lines/1 if/2-atom conditions and <=4 lines/2 ifs over the tier's atom set x "
        "signatures x call shapes x argument types (quick ~3e5, thorough ~4.2e6 states, plus simulation over the full grammar) "
        "the implementation model equals the documented per-member evaluation or falls in a named deviation class; version / "
        "platform conditions (all six operators x tuples of length 1..5 around the running version, ill-typed and non-tuple "
        "right-hand sides, sys.version_info[i], platform ==, !=, in, startswith) and comparison conditions (literals incl. bool "
        "and enum members; in, chained, reversed and bare expressions must be rejected at the definition) are enumerated as "
        "probes and inside generated bodies (7e5 states, 1.7k probes + 6k bodies replayed in quick); "
        "the argument-kind predicates are the documented ones for every signature x call shape; the real checker is bound by "
        "replay (2e4 quick / 3e5 thorough cases judged by TLC, drift 0).",
        design="2/C20",
        note=TRUSTED + " The oracle is written from docs/type_evaluation.md on the atoms Literal[1], Literal[2], Literal['x'], "
        "Literal['y'], None, int, str, Any; CPython for sys.version_info / sys.platform (recorded and checked against the "
        "oracle; Python's tuple comparison is written in TLA+ and validated per observation). Validity is three-valued (valid / "
        "invalid / unspecified); the result of calling a rejected evaluator is unspecified and compared with the model as drift "
        "only. Action coverage comes from a generator-only run.",
    ),
}

ALL = [f"C{i:02d}" for i in range(1, 21)]

NOT_APPLICABLE_REASON: dict[str, str] = {}


def main() -> None:
    checks = []
    for pid in ALL:
        if pid not in CHECKS:
            continue
        c = CHECKS[pid]
        checks.append(
            {
                "property_id": pid,
                "quick_cmd": f"/venv/bin/python -m harness.run --property {pid} --tier quick",
                "thorough_cmd": f"/venv/bin/python -m harness.run --property {pid} --tier thorough",
                "evidence_file": f"/verif/evidence/{pid}.json",
                "replay_cmd_template": f"/venv/bin/python -m harness.run --property {pid} --replay {{path}}",
                "engine": "tlc",
                "level_claimed": {
                    "category": c.get("level", "model_checking"),
                    "text": c["text"],
                    "design_ref": c["design"],
                },
                "level_note": c["note"],
                "technique": c["technique"],
            }
        )
    hooks_file = VERIF / "hooks.json"
    hook_commits = json.loads(hooks_file.read_text()) if hooks_file.exists() else []
    manifest = {
        "version": 1,
        "setup_cmd": "/venv/bin/python -m harness.run --setup",
        "hooks": {
            "guard": "PYANALYZE_VERIF",
            "enable": "checks export PYANALYZE_VERIF=1 (and PYANALYZE_VERIF_TRACE=<file>) before importing /repo's working tree; "
            "pyanalyze is installed editable from /repo so no rebuild is needed",
            "baseline_off_cmd": BASELINE_OFF,
            "source_commits": hook_commits,
            "add_only": True,
        },
        "engines": [
            {
                "name": "tlc",
                "path": "/verif/harness/run.py",
                "serves_properties": sorted(CHECKS),
                "kind_free_text": "explicit TLA+ specifications under /verif/spec checked with TLC (exhaustive + simulation) and "
                "bound to the implementation by replaying TLC-generated cases into the real code and validating the recorded "
                "observations/traces against trace specifications with TLC",
            }
        ],
        "checks": checks,
        "notes": "See DESIGN.md. Exit 0 = held (KNOWN-FINDING lines possible), 1 = VIOLATION line, 2 = machinery failure.",
        "not_applicable": [
            {"property_id": pid, "reason": NOT_APPLICABLE_REASON.get(pid, "check not built yet in this round (planned, see DESIGN.md section 2)")}
            for pid in ALL
            if pid not in CHECKS
        ],
    }
    (VERIF / "MANIFEST.json").write_text(json.dumps(manifest, indent=1) + "\n")
    print(f"MANIFEST.json: {len(checks)} checks, {len(manifest['not_applicable'])} not claimed")


if __name__ == "__main__":
    main()
