"""Subprocess worker for C10: with the PYTHONHASHSEED it was started under, checks a sequence of programs
with ONE Checker (so every program is checked after the previous ones as history) and prints, as one JSON
line, the rendering of each check: [[code, lineno, col, message] ...] with module-name tokens normalised."""
from __future__ import annotations

import json
import os
import re
import sys


def render(fails, modname: str):
    out = []
    for f in fails:
        code = getattr(f.get("code"), "name", None)
        msg = f.get("description", "")
        msg = msg.replace(modname, "<mod>")
        msg = re.sub(r"verifmod\d+", "<mod>", msg)
        msg = re.sub(r" at 0x[0-9a-f]+", " at 0x?", msg)
        msg = re.sub(r"<test input [0-9a-f]+>", "<mod>", msg)
        msg = re.sub(r"[0-9a-f]{64}\.py", "<mod>.py", msg)
        out.append([code, f.get("lineno"), f.get("col_offset"), msg])
    return out


def main() -> None:
    job = json.loads(sys.stdin.read())
    sys.path.insert(0, "/verif")
    sys.path.insert(0, os.environ.get("VERIF_REPO", "/repo"))
    os.environ.setdefault("PYANALYZE_VERIF", "1")
    from harness import pyz

    results = []
    if "corpus" in job:
        # corpus mode: the repository's own test snippets, checked in the given order; programs with the same
        # settings share ONE Checker (so each is checked with all earlier ones as history)
        from harness import corpus
        from pyanalyze.error_code import ErrorCode
        from pyanalyze.test_name_check_visitor import ConfiguredNameCheckVisitor

        by_id = {it["id"]: it for it in corpus.harvest()}
        checkers: dict = {}
        for cid in job["corpus"]:
            it = by_id.get(cid)
            if it is None:
                results.append({"pid": "corpus:" + cid, "raised": "MissingFromCorpus"})
                continue
            key = tuple(sorted(it["settings"].items()))
            try:
                if key not in checkers:
                    st = {getattr(ErrorCode, k): v for k, v in corpus.test_default_settings(it["settings"]).items()}
                    checkers[key] = ConfiguredNameCheckVisitor.prepare_constructor_kwargs({"settings": st})["checker"]
                fails, _, visitor = corpus.run(it["code"], it["settings"], checker=checkers[key], **it["_kwargs"])
                results.append({"pid": "corpus:" + cid, "render": render(fails, visitor.filename)})
            except Exception as exc:  # noqa: BLE001
                results.append({"pid": "corpus:" + cid, "raised": f"{type(exc).__name__}: {exc}"})
        print(json.dumps({"seed": os.environ.get("PYTHONHASHSEED"), "results": results}))
        return
    # every program is checked the way the command line checks a file: with a ClassAttributeChecker whose end-of-run
    # reports (attribute_is_never_set) are part of the rendering
    checker = pyz.get_checker(job.get("settings") or {"attribute_is_never_set": True}, fresh=True)
    from pyanalyze.name_check_visitor import ClassAttributeChecker
    for item in job["sequence"]:
        try:
            module = pyz.make_module(item["src"])
            with ClassAttributeChecker(enabled=True, options=checker.options) as attribute_checker:
                fails = pyz.check_source(item["src"], checker=checker, module=module, attribute_checker=attribute_checker)
            fails = list(fails)  # the end-of-run reports were appended to the visitor's list when the block exited
            results.append({"pid": item["pid"], "render": render(fails, module.__name__)})
        except Exception as exc:  # noqa: BLE001
            results.append({"pid": item["pid"], "raised": f"{type(exc).__name__}: {exc}"})
    print(json.dumps({"seed": os.environ.get("PYTHONHASHSEED"), "results": results}))


if __name__ == "__main__":
    main()
