"""MANIFEST.setup_cmd: parse every TLA+ module, self-test the TLA value parser and the repo import."""
from __future__ import annotations

import subprocess
import sys

from . import core, tlaparse


def main() -> int:
    d = core.stage_spec("setup")
    failed = []
    mods = sorted(p.name for p in d.glob("*.tla"))
    for m in mods:
        proc = subprocess.run(
            ["java", "-cp", "/opt/veriftools/tla/tla2tools.jar:/opt/veriftools/tla/CommunityModules-deps.jar", "tla2sany.SANY", m],
            cwd=d, stdout=subprocess.PIPE, stderr=subprocess.STDOUT, text=True,
        )
        if proc.returncode != 0 or "*** Errors" in proc.stdout or "Fatal errors" in proc.stdout or "Could not" in proc.stdout:
            failed.append((m, proc.stdout[-1500:]))
    for m, out in failed:
        print(f"SANY failed on {m}:\n{out}")
    v = tlaparse.parse_value('[a |-> <<1, "x\\"y">>, b |-> {TRUE, FALSE}, c |-> (1 :> "p" @@ 2 :> "q")]')
    assert v == {"a": [1, 'x"y'], "b": [True, False], "c": [(1, "p"), (2, "q")]}, v
    import pyanalyze  # noqa: F401  (the repo must import from its working tree)

    print(f"setup: {len(mods)} TLA+ modules parsed, {len(failed)} failed; pyanalyze from {pyanalyze.__file__}")
    return 1 if failed else 0
