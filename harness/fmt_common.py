"""C17 helpers: codec between the TLA+ cases of PercentFormat.tla / StrFormat.tla and Python source,
and the recorders that run the real pyanalyze visitor and the real CPython formatter on a case.

Nothing in here decides anything: the recorders only write down what the real code did (the
diagnostics are reduced to the message *kinds* the specifications use); TLC judges.
"""
from __future__ import annotations

import ast
import keyword
import re
import warnings
from typing import Any

from . import core, pyz

SETTINGS = {"use_fstrings": False}

# ---------------------------------------------------------------------------------------- codec

ATOMS = {
    "i1": "1",
    "i2": "2",
    "i255": "255",
    "i300": "300",
    "in1": "-1",
    "ibig": "1114112",
    "true": "True",
    "f15": "1.5",
    "c1j": "1j",
    "none": "None",
    "sa": "'a'",
    "sab": "'ab'",
    "se": "''",
    "sx": "'x'",
    "sd": "'d'",
    "s1": "'1'",
    "sgt": "'>'",
    "ba": "b'a'",
    "bab": "b'ab'",
    "be": "b''",
    "l1": "[1]",
    "da": "{'a': 1}",
}


def atom_src(v: str) -> str:
    try:
        return ATOMS[v]
    except KeyError:
        raise core.MachineryError(f"codec: unknown value atom {v!r}")


# non-ASCII characters travel through TLA+/JSON as named one-element tokens
NAMED_CHARS = {
    "<ar0>": "\u0660",  # ARABIC-INDIC DIGIT ZERO: a Unicode decimal digit (isdigit, int() = 0)
    "<sup2>": "\u00b2",  # SUPERSCRIPT TWO: isdigit() but not decimal (int() raises)
}


def text_of(chars: list[str]) -> str:
    out = []
    for ch in chars:
        ch = NAMED_CHARS.get(ch, ch)
        if len(ch) != 1:
            raise core.MachineryError(f"codec: template is not a sequence of characters: {chars!r}")
        out.append(ch)
    return "".join(out)


def text_src(chars: list[str], kind: str = "str") -> str:
    return ("b" if kind == "bytes" else "") + repr(text_of(chars))


def percent_args_src(args: dict) -> str:
    shape, items = args["shape"], args["items"]
    if shape == "scalar":
        return atom_src(items[0])
    if shape == "tuple":
        inner = ", ".join(atom_src(v) for v in items)
        return "(" + inner + ("," if len(items) == 1 else "") + ")"
    if shape == "dict":
        pairs = []
        for key, v in zip(args["keys"], items):
            if key["ty"] == "int":
                k = "".join(key["chars"])
            else:
                k = text_src(key["chars"], key["ty"])
            pairs.append(f"{k}: {atom_src(v)}")
        return "{" + ", ".join(pairs) + "}"
    raise core.MachineryError(f"codec: unknown args shape {shape!r}")


def percent_expr(case: dict) -> str:
    return f"{text_src(case['t'], case['kind'])} % {percent_args_src(case['args'])}"


def format_expr(case: dict) -> str:
    parts = [atom_src(v) for v in case["pos"]]
    spread = []
    for kw in case["kw"]:
        name = text_of(kw["name"])
        if name.isascii() and name.isidentifier() and not keyword.iskeyword(name):
            parts.append(f"{name}={atom_src(kw['v'])}")
        else:  # a key that is no identifier (" 0 ", "+0", "0", ...) is spelled through a ** dict literal
            spread.append(f"{name!r}: {atom_src(kw['v'])}")
    if spread:
        parts.append("**{" + ", ".join(spread) + "}")
    return f"{text_src(case['t'])}.format({', '.join(parts)})"


# ---------------------------------------------------------------------------------------- CPython


def real_eval(expr: str) -> dict:
    with warnings.catch_warnings():
        warnings.simplefilter("ignore")
        try:
            r = eval(expr, {"__builtins__": {}}, {})
        except Exception as exc:  # the oracle: CPython raised while formatting
            return {"exc": type(exc).__name__, "rtype": "none", "msg": str(exc)[:80]}
    return {"exc": "ok", "rtype": type(r).__name__, "msg": ""}


# ---------------------------------------------------------------------------------------- message kinds

PERCENT_KINDS = [
    ("using % combined with optional specifiers", "pctopt"),
    ("the %b conversion specifier works only", "b-on-str"),
    ("cannot combine specifiers that require a mapping", "mix"),
    ("invalid conversion specifier in", "invalid"),
    ("use of % on string with no conversion specifiers", "nospec"),
    ("% string requires a mapping", "requires-mapping"),
    ("No value specified for keys", "missing-keys"),
    ("too few arguments to format string", "too-few"),
    ("too many arguments to format string", "too-many"),
    ("%c requires an integer in range(", "c-range"),
    ("%c requires a single character", "c-single"),
    ("%c requires an integer or character", "c-type"),
    ("'*' special specifier only accepts ints", "star"),
    ("%% does not accept arguments", "pct-arg"),
]
_RE_NUM = re.compile(r"^%[diouxXeEfFgG] conversion specifier accepts (numbers|integers)")
_RE_BYTES = re.compile(r"^%[bs] accepts only bytes")


def percent_kind(msg: str) -> str:
    for prefix, kind in PERCENT_KINDS:
        if msg.startswith(prefix):
            return kind
    if _RE_NUM.match(msg):
        return "num"
    if _RE_BYTES.match(msg):
        return "bytes-only"
    raise core.MachineryError(f"unclassified bad_format_string message: {msg!r}")


FORMAT_KINDS = [
    ("expected '}' before end of string", "p-eof-brace"),
    ("expected ']' before end of string", "p-eof-bracket"),
    ("single '}' encountered in format string", "p-single-close"),
    ("expected one of", "p-expected"),
    ("invalid attribute", "p-attr"),
    ("Unknown conversion specifier", "p-conv"),
    ("unexpected '{' in field name", "p-open-in-name"),
    ("only '.' or '[' may follow ']'", "p-after-bracket"),  # message of proposed/C17-fix-5.diff
    ("Too few arguments to format string", "too-few"),
    ("Numbered argument(s)", "unused-pos"),
    ("Named argument(s)", "unused-kw"),
]
_RE_NUMBERED = re.compile(r"^Numbered argument \d+ to format string is out of range")
_RE_NAMED = re.compile(r"^Named argument .* to format string was not given", re.S)


def format_kind(msg: str) -> str:
    for prefix, kind in FORMAT_KINDS:
        if msg.startswith(prefix):
            return kind
    if _RE_NUMBERED.match(msg):
        return "index-range"
    if _RE_NAMED.match(msg):
        return "named-missing"
    raise core.MachineryError(f"unclassified str.format message: {msg!r}")


_RE_REVEAL = re.compile(r"^Revealed type is '(.*)'$", re.S)
RTYPES = {"str": "str", "bytes": "bytes", "Any[error]": "any"}


def _rtype(desc: str) -> str:
    m = _RE_REVEAL.match(desc)
    if not m:
        raise core.MachineryError(f"cannot parse reveal_type output {desc!r}")
    return RTYPES.get(m.group(1), m.group(1))


# ---------------------------------------------------------------------------------------- recorders


def _check_batch(exprs: list[str]):
    lines = ["from typing_extensions import reveal_type"]
    for i, e in enumerate(exprs):
        lines.append(f"def f{i}():")
        lines.append(f"    reveal_type({e})")
    code = "\n".join(lines) + "\n"
    fails, visitor, tree = pyz.check_source(code, settings=SETTINGS, annotate=True, want_visitor=True)
    per: list[list[dict]] = [[] for _ in exprs]
    for f in fails:
        ln = f.get("lineno")
        if not isinstance(ln, int) or ln < 2:
            raise core.MachineryError(f"diagnostic without usable line: {f}")
        per[(ln - 2) // 2].append(f)
    funcs = [n for n in tree.body if isinstance(n, ast.FunctionDef)]
    if len(funcs) != len(exprs):
        raise core.MachineryError("batch realisation lost functions")
    return per, visitor, funcs


def _visible(fails: list[dict], wanted: str, kind_of, expr: str) -> dict:
    first = "none"
    crash = False
    rtype = "missing"
    for f in fails:
        code = getattr(f.get("code"), "name", None)
        desc = f.get("description", "")
        if code == wanted:
            if first == "none":
                first = kind_of(desc)
            else:
                raise core.MachineryError(f"two {wanted} diagnostics on one node for {expr}")
        elif code == "internal_error":
            crash = True
        elif code == "reveal_type":
            rtype = _rtype(desc)
        else:
            raise core.MachineryError(f"realised snippet {expr} raised unexpected diagnostic {code}: {desc[:200]}")
    return {"first": first, "crash": crash, "rtype": rtype}


def observe_percent_batch(batch: list[tuple[int, dict]]) -> list[dict]:
    """[(tid, case)] -> observation lines for PercentFormatTrace.tla."""
    from pyanalyze.format_strings import PercentFormatString

    exprs = [percent_expr(c) for _, c in batch]
    per, visitor, funcs = _check_batch(exprs)
    out = []
    for (tid, case), expr, fails, fn in zip(batch, exprs, per, funcs):
        pz = _visible(fails, "bad_format_string", percent_kind, expr)
        # the complete error list of the public API, on the Value the visitor inferred for the argument
        binop = fn.body[0].value.args[0]
        value = getattr(binop.right, "inferred_value", None)
        if value is None:
            raise core.MachineryError(f"no inferred value for the argument of {expr}")
        pattern = eval(text_src(case["t"], case["kind"]))
        fs = (
            PercentFormatString.from_bytes_pattern(pattern)
            if isinstance(pattern, bytes)
            else PercentFormatString.from_pattern(pattern)
        )
        allk = [percent_kind(m) for m in fs.lint()]
        try:
            for m in fs.accept(value, visitor):
                allk.append(percent_kind(m))
        except core.MachineryError:
            raise
        except Exception:
            allk.append("CRASH")
        pz["all"] = allk
        out.append({"tid": tid, "case": case, "expr": expr, "cpy": real_eval(expr), "pz": pz})
    return out


def observe_format_batch(batch: list[tuple[int, dict]]) -> list[dict]:
    """[(tid, case)] -> observation lines for StrFormatTrace.tla."""
    from pyanalyze.format_strings import parse_format_string

    exprs = [format_expr(c) for _, c in batch]
    per, _visitor, _funcs = _check_batch(exprs)
    out = []
    for (tid, case), expr, fails in zip(batch, exprs, per):
        pz = _visible(fails, "incompatible_call", format_kind, expr)
        try:
            _, errors = parse_format_string(text_of(case["t"]))
            pz["parse"] = [[pos, format_kind(msg)] for pos, msg in errors]
        except core.MachineryError:
            raise
        except Exception:  # the parser itself raised: recorded, TLC judges
            pz["parse"] = [[0, "CRASH"]]
        out.append({"tid": tid, "case": case, "expr": expr, "cpy": real_eval(expr), "pz": pz})
    return out


def batches(cases: list[dict], size: int = 250, tid0: int = 0) -> list[list[tuple[int, dict]]]:
    items = [(tid0 + i, c) for i, c in enumerate(cases)]
    return [items[i : i + size] for i in range(0, len(items), size)]


def observe(cases: list[dict], which: str) -> list[dict]:
    func = observe_percent_batch if which == "percent" else observe_format_batch
    parts = core.pmap(func, batches(cases), chunk=1)
    return [o for part in parts for o in part]
