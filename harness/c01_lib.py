"""The fixed library of annotated / generic functions, classes and context managers that the functions generated for
property C01 (spec/MiniPy.tla) call.  Imported by every generated module (`from harness.c01_lib import *`)."""

from collections.abc import Iterable, Mapping, Sequence
from typing import Any, Optional, Union
from typing import TypeVar, Generic, Callable, Iterator
from dataclasses import dataclass
from contextlib import contextmanager, suppress
T = TypeVar("T")
U = TypeVar("U")

# Every helper either is fully generic or raises on arguments outside its annotation: a call that the checker
# reports as incompatible must not deliver a value of the wrong type to the rest of the function.
def ident(a: T) -> T:
    return a

def first(a: Sequence[T]) -> T:
    if not isinstance(a, Sequence):
        raise TypeError
    return a[0]

def pair(a: T, b: U) -> tuple[T, U]:
    return (a, b)

def maybe(a: T) -> Optional[T]:
    return a if a else None

def tolist(a: T) -> list[T]:
    return [a]

def swap(p: tuple[T, U]) -> tuple[U, T]:
    if not isinstance(p, tuple) or len(p) != 2:
        raise TypeError
    return (p[1], p[0])

def pick(a: T, b: U) -> Union[T, U]:
    return a if a else b

def second(p: tuple[T, U]) -> U:
    if not isinstance(p, tuple) or len(p) != 2:
        raise TypeError
    return p[1]

def opt(a: T, b: int = 0) -> tuple[T, int]:
    return (a, b)

def kw(*, a: T, b: Optional[U] = None) -> tuple[T, Optional[U]]:
    return (a, b)

def varargs(*args: T) -> tuple[T, ...]:
    return args

def unwrap(a: Optional[T]) -> T:
    if a is None:
        raise ValueError
    return a

def firstkey(a: Mapping[T, U]) -> T:
    if not isinstance(a, Mapping):
        raise TypeError
    return next(iter(a))

def vals(a: Mapping[T, U]) -> list[U]:
    if not isinstance(a, Mapping):
        raise TypeError
    return list(a.values())

def bothof(a: T, b: T) -> list[T]:
    return [a, b]

def takes_int(a: int) -> int:
    if not isinstance(a, int):
        raise TypeError
    return a

def takes_opt(a: Optional[int]) -> int:
    if a is not None and not isinstance(a, int):
        raise TypeError
    return 0 if a is None else a

def conv(a: Union[int, str]) -> str:
    if not isinstance(a, (int, str)):
        raise TypeError
    return str(a)

class Box(Generic[T]):
    __match_args__ = ("item",)

    def __init__(self, item: T) -> None:
        self.item = item

    def get(self) -> T:
        return self.item

    def pair(self, other: U) -> tuple[T, U]:
        return (self.item, other)

    def map(self, fn: Callable[[T], U]) -> "Box[U]":
        return Box(fn(self.item))

    def same(self) -> "Box[T]":
        return self

    @property
    def first(self) -> T:
        return self.item

    @classmethod
    def make(cls, item: T) -> "Box[T]":
        return cls(item)

@dataclass
class Pt(Generic[T, U]):
    px: T
    py: U

    def both(self) -> tuple[T, U]:
        return (self.px, self.py)

@contextmanager
def ctx() -> Iterator[None]:
    yield

@contextmanager
def give(a: T) -> Iterator[T]:
    yield a

class maybe_suppress:
    def __enter__(self) -> int:
        return 1

    def __exit__(self, *args: object) -> bool:
        return True
