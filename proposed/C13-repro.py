"""Stand-alone reproductions of the five C13 findings (no harness model involved): /venv/bin/python /verif/proposed/C13-repro.py"""
import ast, contextlib, io, sys, types, typing
from typing import ClassVar, Final, Literal, Optional, TypeVar
from pyanalyze.annotations import type_from_runtime
from pyanalyze.name_check_visitor import NameCheckVisitor

def check(src, future=False):
    import __future__
    name = "repro_mod_%d_%d" % (abs(hash(src)) % 10**8, future)
    mod = types.ModuleType(name); mod.__dict__["__file__"] = name + ".py"
    flags = __future__.annotations.compiler_flag if future else 0
    sys.modules[name] = mod      # as for a really imported module
    with contextlib.redirect_stdout(io.StringIO()), contextlib.redirect_stderr(io.StringIO()):
        exec(compile(src, name + ".py", "exec", flags=flags, dont_inherit=True), mod.__dict__)
        kwargs = NameCheckVisitor.prepare_constructor_kwargs({})
        v = NameCheckVisitor(name + ".py", src, ast.parse(src), module=mod, **kwargs)
        fails = v.check()
    return [(f["code"].name, f["lineno"], f["message"].strip().splitlines()[0][:110]) for f in fails if f["code"].name != "missing_return"]

G = {"Final": Final, "ClassVar": ClassVar, "Literal": Literal}
print("1. star-in-subscript")
print("   runtime object :", type_from_runtime(tuple[int, *tuple[str, ...]]))
try:
    print("   string         :", type_from_runtime("tuple[int, *tuple[str, ...]]", globals=G))
except Exception as e:
    print("   string         : raises", type(e).__name__, e)
for r in check("from typing_extensions import reveal_type\ndef f(x: tuple[int, *tuple[str, ...]]) -> None:\n    reveal_type(x)\n"): print("   visitor        :", r)
for r in check("from typing_extensions import reveal_type\ndef f(x: 'tuple[int, *tuple[str, ...]]') -> None:\n    reveal_type(x)\n"): print("   visitor, quoted:", r)

print("2. final-classvar-in-string")
print("   runtime object :", type_from_runtime(Final[int]), "/", type_from_runtime(ClassVar[int]))
print("   string         :", type_from_runtime("Final[int]", globals=G), "/", type_from_runtime("ClassVar[int]", globals=G))
SRC = "from typing import ClassVar\nfrom typing_extensions import reveal_type\nclass C:\n    x: ClassVar[int] = 0\ndef g(c: C) -> None:\n    reveal_type(c.x)\n"
print("   class attribute, plain module   :", check(SRC))
print("   class attribute, PEP 563 module :", check(SRC, future=True))

print("3. nested-literal-in-string")
print("   runtime object :", type_from_runtime(Literal[Literal[1], 2]))
print("   string         :", type_from_runtime("Literal[Literal[1], 2]", globals=G))

print("4. dunder-parameter-positional-only")
SRC = '''from typing_extensions import reveal_type
def f(x: int, __y: str) -> int:
    return 1
def outer() -> None:
    def g(x: int, __y: str) -> int:
        return 1
    reveal_type(g)
    g(x=1, __y="a")          # nested def: accepted
def caller() -> None:
    reveal_type(f)
    f(x=1, __y="a")          # same header, module level: rejected
'''
for r in check(SRC): print("   ", r)
ns = {}; exec("def f(x: int, __y: str) -> int:\n    return 1\nr = f(x=1, __y='a')", ns); print("    CPython: f(x=1, __y='a') ->", ns["r"])

print("5. ellipsis-default")
SRC = '''from typing import TypeVar
from typing_extensions import reveal_type
T = TypeVar("T")
def f(x: T = ...) -> T:
    return x
def outer() -> None:
    def g(x: T = ...) -> T:
        return x
    reveal_type(g())
def caller() -> None:
    reveal_type(f())
'''
for r in check(SRC): print("   ", r)
