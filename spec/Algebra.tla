------------------------------- MODULE Algebra -------------------------------
(***************************************************************************)
(* Value algebra laws (property C14) over triples of terms: unions form a  *)
(* semilattice up to equality, equal values hash equal, substitution of    *)
(* type variables.  Impl operators come from ValueAlgebra.tla (ImplEq,     *)
(* ImplSameHash, ImplUnite) and Assign.tla (ImplCA); type variables are    *)
(* added here as [k |-> "typevar", n |-> name].                            *)
(***************************************************************************)
EXTENDS Assign

TV(n) == [k |-> "typevar", n |-> n]

\* ---- Impl: substitute_typevars (value.py: TypeVarValue:2181, GenericValue:1146, SequenceValue:1258,
\*      SubclassValue:1842 via SubclassValue.make, MultiValuedValue:1985 -- which re-unites the substituted
\*      members with unite_values)
\* odd objects of harness/universe.py ODD for which callable(obj) holds
CallableOdd == {"function", "builtin", "lambda", "class"}
\* `bug` names a seeded mistake of the mechanism (sensitivity self-tests of SubstContexts.tla); "none" = the code as it is
RECURSIVE ImplSubstF(_, _, _)
ImplSubstF(v, m, bug) ==
    CASE v.k = "typevar" -> IF v.n \in DOMAIN m THEN m[v.n] ELSE v
      [] v.k = "generic" -> Generic(v.c, [i \in 1..Len(v.args) |-> ImplSubstF(v.args[i], m, bug)])
      [] v.k = "seq" -> SeqT(v.c, [i \in 1..Len(v.ms) |-> [many |-> v.ms[i].many, t |-> ImplSubstF(v.ms[i].t, m, bug)]])
      \* SubclassValue.substitute_typevars (value.py:1844) = SubclassValue.make (value.py:1930) of the substituted typ, `exactly` kept
      [] v.k \in {"subclass", "exactly"} ->
            IF bug = "skip-type-of-generic" /\ v.t.k # "typevar" THEN v
            ELSE
            LET t == ImplSubstF(v.t, m, bug)
            IN CASE t.k = "union" -> ImplUnite([i \in 1..Len(t.ms) |-> [k |-> v.k, t |-> t.ms[i]]])
                 [] t.k = "any" -> Typed("type")
                 [] t.k \in {"typevar", "typed", "newtype", "generic", "seq", "typeddict", "dictinc", "tdx", "callable", "asynctask"} -> [k |-> v.k, t |-> t]
                 [] OTHER -> AnyT
      [] v.k = "union" -> IF v.ms = << >> THEN v ELSE ImplUnite([i \in 1..Len(v.ms) |-> ImplSubstF(v.ms[i], m, bug)])
      \* TypedDictValue.substitute_typevars (value.py:1670): entry types substituted, required / readonly kept
      [] v.k = "typeddict" -> TD([i \in 1..Len(v.items) |-> [v.items[i] EXCEPT !.t = ImplSubstF(@, m, bug)]])
      \* ... and the extra-keys type, extra_keys_readonly kept
      [] v.k = "tdx" -> [v EXCEPT !.items = [i \in 1..Len(v.items) |-> [v.items[i] EXCEPT !.t = ImplSubstF(@, m, bug)]],
                                  !.extra = [i \in 1..Len(v.extra) |-> ImplSubstF(v.extra[i], m, bug)]]
      \* DictIncompleteValue.substitute_typevars (value.py:1360) / KVPair.substitute_typevars (value.py:1318):
      \* key and value substituted, is_many / is_required kept
      [] v.k = "dictinc" -> DictInc([i \in 1..Len(v.kvs) |-> [v.kvs[i] EXCEPT !.key = ImplSubstF(@, m, bug), !.val = ImplSubstF(@, m, bug)]])
      \* CallableValue (value.py:1753) -> Signature.substitute_typevars (signature.py:1762) -> SigParameter (signature.py:461):
      \* every annotation and the return value; name / kind / default / is_asynq kept (ParamSpec parameters are not in the space)
      \* "Returning the same object helps the local return value check" (signature.py:1797): if the substituted return value
      \* and parameters are == the old ones, the ORIGINAL signature is returned
      [] v.k = "callable" -> LET r == [v EXCEPT !.ps = [i \in 1..Len(v.ps) |-> [v.ps[i] EXCEPT !.t = [j \in 1..Len(@) |-> ImplSubstF(@[j], m, bug)]]],
                                                !.ret = ImplSubstF(@, m, bug)]
                             IN IF ImplEq(r, v) THEN v ELSE r
      \* AnnotatedValue (value.py:2597): the value and every metadata item; Extension.substitute_typevars: the guarded /
      \* attribute types of ParameterTypeGuard / NoReturnGuard / TypeGuard / TypeIs / HasAttrGuard / HasAttr extensions,
      \* identity for the others (value.py:2274; CustomCheck.substitute_typevars extensions.py:91)
      [] v.k = "annotated" -> [v EXCEPT !.t = ImplSubstF(@, m, bug),
                                        !.md = [i \in 1..Len(v.md) |->
                                                  IF v.md[i].x \in {"value", "typeguard", "typeis", "paramguard", "noreturnguard", "hasattr", "hasattrguard"}
                                                  THEN [v.md[i] EXCEPT !.t = ImplSubstF(@, m, bug)] ELSE v.md[i]]]
      [] v.k = "asynctask" -> [v EXCEPT !.t = ImplSubstF(@, m, bug)]        \* value.py:1725
      \* KnownValue.substitute_typevars (value.py:654): a literal of a callable object becomes a KnownValueWithTypeVars
      \* (same object, the map recorded) unless the map is empty
      [] v.k = "known" -> IF (v.o.c = "type" \/ (v.o.c = "odd" /\ v.o.v \in CallableOdd)) /\ DOMAIN m # {} THEN [k |-> "knowntv", o |-> v.o] ELSE v
      \* UnpackedValue has no substitute_typevars: Value.substitute_typevars (value.py:168) returns self
      [] OTHER -> v
ImplSubst(v, m) == ImplSubstF(v, m, "none")

RECURSIVE FreeVars(_)
FreeVars(v) ==
    CASE v.k = "typevar" -> {v.n}
      [] v.k = "generic" -> UNION {FreeVars(v.args[i]) : i \in 1..Len(v.args)}
      [] v.k = "seq" -> UNION {FreeVars(v.ms[i].t) : i \in 1..Len(v.ms)}
      [] v.k = "subclass" -> FreeVars(v.t)
      [] v.k = "union" -> UNION {FreeVars(v.ms[i]) : i \in 1..Len(v.ms)}
      [] v.k = "typeddict" -> UNION {FreeVars(v.items[i].t) : i \in 1..Len(v.items)}
      [] v.k = "dictinc" -> UNION {FreeVars(v.kvs[i].key) \cup FreeVars(v.kvs[i].val) : i \in 1..Len(v.kvs)}
      \* wide terms (SubstContexts.tla): every sub-value a Value holds (by the fields of the classes, not by what walk_values yields)
      [] v.k \in {"exactly", "unpacked", "asynctask"} -> FreeVars(v.t)
      [] v.k = "tdx" -> UNION ({FreeVars(v.items[i].t) : i \in 1..Len(v.items)} \cup {FreeVars(v.extra[i]) : i \in 1..Len(v.extra)})
      [] v.k = "callable" -> FreeVars(v.ret) \cup UNION {UNION {FreeVars(v.ps[i].t[j]) : j \in 1..Len(v.ps[i].t)} : i \in 1..Len(v.ps)}
      [] v.k = "annotated" -> FreeVars(v.t) \cup UNION {FreeVars(v.md[i].t) : i \in 1..Len(v.md)}
      [] OTHER -> {}
Closed(v) == FreeVars(v) = {}

HasUnhashableKnownV(v) == HasUnhashableKnown(v)
ImplEqV(a, b) == ImplEq(a, b)

NoNestedUnion(v) == v.k = "union" => \A i \in 1..Len(v.ms) : v.ms[i].k # "union"
IsWellFormedUnion(v) == v.k = "union" => (Len(v.ms) # 1 /\ NoNestedUnion(v))

(***************************************************************************)
(* The laws, each with the class of inputs on which the implementation is  *)
(* known to deviate (see known_findings.jsonl)                             *)
(***************************************************************************)
U2(a, b) == ImplUnite(<<a, b>>)
\* TypedDict terms (TD / Ent of Values.tla) take part in the equality / hash / union / substitution laws here; their
\* assignability and membership laws are checked by Assign.tla (C03 / C04)
RECURSIVE HasTD(_)
HasTD(v) ==
    CASE v.k \in {"typeddict", "dictinc"} -> TRUE
      [] v.k = "generic" -> \E i \in 1..Len(v.args) : HasTD(v.args[i])
      [] v.k = "seq" -> \E i \in 1..Len(v.ms) : HasTD(v.ms[i].t)
      [] v.k = "subclass" -> HasTD(v.t)
      [] v.k = "union" -> \E i \in 1..Len(v.ms) : HasTD(v.ms[i])
      [] OTHER -> FALSE
StaticV(v) == Closed(v) => ~HasAny(v)     \* the membership laws speak about Any-free values

\* Known deviation 1: a literal of an unhashable object (list/dict/set) hashes by id() (value.py:636), so
\* equal literals are neither merged nor hash-equal
Dev_UnhashableLiteral(v) == HasUnhashableKnownV(v)
L_Idem(a) == ImplEqV(U2(a, a), a) \/ Dev_UnhashableLiteral(a)
L_Comm(a, b) == ImplEqV(U2(a, b), U2(b, a)) \/ Dev_UnhashableLiteral(a) \/ Dev_UnhashableLiteral(b)
L_Assoc(a, b, c) == ImplEqV(U2(U2(a, b), c), U2(a, U2(b, c)))
                    \/ Dev_UnhashableLiteral(a) \/ Dev_UnhashableLiteral(b) \/ Dev_UnhashableLiteral(c)
L_NoNest(a, b) == NoNestedUnion(U2(a, b))
L_NeverId(a) == ImplEqV(U2(a, Never), a) /\ ImplEqV(U2(Never, a), a)
L_Accepts(a, b) == (Closed(a) /\ Closed(b) /\ StaticV(a) /\ StaticV(b) /\ ~HasTD(a) /\ ~HasTD(b)) => (ImplCA(U2(a, b), a, FALSE) /\ ImplCA(U2(a, b), b, FALSE))
L_Members(a, b) == (Closed(a) /\ Closed(b) /\ StaticV(a) /\ StaticV(b) /\ ~HasTD(a) /\ ~HasTD(b)) => Members(U2(a, b)) = Members(a) \cup Members(b)
L_EqHash(a, b) == ImplEqV(a, b) => ImplSameHash(a, b) \/ Dev_UnhashableLiteral(a)
L_SubstClosed(a, m) == Closed(a) => ImplSubst(a, m) = a
L_SubstAll(a, m) == FreeVars(ImplSubst(a, m)) \cap DOMAIN m = {}
L_SubstUnite(a, b, m) == ImplEqV(ImplSubst(U2(a, b), m), U2(ImplSubst(a, m), ImplSubst(b, m)))
                         \/ Dev_UnhashableLiteral(a) \/ Dev_UnhashableLiteral(b)

(***************************************************************************)
(* Bounded term space and generator for triples                            *)
(***************************************************************************)
AlgAtoms == {Typed("int"), Typed("str"), Typed("bool"), Typed("object"), Typed("B"),
             Known(I1), Known(BT), Known(SA), Known(NONE), Known(Cont("list", <<I1>>)), Known(Cont("dict", <<KV(SA, I1)>>)),
             Known(Cont("tuple", <<I1, SA>>)), AnyT, AnyU, Never, NewType("N", "int"), TV("T"), TV("S")}
AlgComposites ==
    {Generic("list", <<Typed("int")>>), Generic("list", <<Union(<<Typed("int"), Typed("str")>>)>>),
     Generic("list", <<Union(<<Typed("str"), Typed("int")>>)>>), Generic("dict", <<Typed("str"), Typed("int")>>),
     Generic("tuple", <<Typed("int")>>), Generic("list", <<TV("T")>>),
     SeqT("tuple", <<One(Typed("int")), One(Typed("str"))>>), SeqT("tuple", <<One(Typed("int")), Many(Typed("str"))>>),
     SeqT("tuple", <<One(TV("T")), One(Typed("int"))>>), SeqT("list", <<One(Known(I1))>>),
     SubclassT(Typed("int")), SubclassT(TV("T")),
     Union(<<Typed("int"), Typed("str")>>), Union(<<Typed("str"), Typed("int")>>), Union(<<Typed("int"), Known(NONE)>>),
     Union(<<Known(I1), Known(BT)>>), Union(<<Typed("int"), AnyT>>), Union(<<TV("T"), Typed("int")>>),
     Union(<<Typed("int"), Typed("str"), Known(NONE)>>), Union(<<Known(Cont("list", <<I1>>)), Typed("int")>>),
     TD(<<Ent("a", TRUE, Typed("int")), Ent("b", TRUE, Typed("str"))>>), TD(<<Ent("b", TRUE, Typed("str")), Ent("a", TRUE, Typed("int"))>>),
     TD(<<Ent("a", TRUE, Typed("int"))>>), TD(<<Ent("a", TRUE, Typed("int")), Ent("b", FALSE, Typed("str"))>>),
     Union(<<TD(<<Ent("a", TRUE, Typed("int")), Ent("b", TRUE, Typed("str"))>>), Typed("int")>>),
     TD(<<EntX("a", FALSE, TRUE, Generic("list", <<TV("T")>>))>>),
     \* dict displays with optional / unpacked entries (DictIncompleteValue), with and without type variables
     DictInc(<<Pair(Known(SA), Generic("list", <<Typed("int")>>), FALSE, FALSE), Pair(Known(SE), Typed("int"), FALSE, TRUE)>>),
     DictInc(<<Pair(Known(SA), Generic("list", <<TV("T")>>), FALSE, FALSE)>>),
     DictInc(<<Pair(Known(SA), Generic("list", <<TV("T")>>), FALSE, TRUE)>>),
     DictInc(<<Pair(Typed("str"), TV("T"), TRUE, FALSE)>>),
     DictInc(<<Pair(Known(SA), Typed("int"), FALSE, FALSE)>>)}
AlgSpace == AlgAtoms \cup AlgComposites
TvMaps == {[T |-> Typed("int")], [T |-> Union(<<Typed("int"), Typed("str")>>)], [T |-> Typed("str"), S |-> Known(I1)],
           [T |-> TV("S")], [T |-> AnyT], [S |-> Typed("bool")]}
MapNames == {"T->int", "T->int|str", "T->str,S->1", "T->S", "T->Any", "S->bool"}
MapOf(name) ==
    CASE name = "T->int" -> [T |-> Typed("int")]
      [] name = "T->int|str" -> [T |-> Union(<<Typed("int"), Typed("str")>>)]
      [] name = "T->str,S->1" -> [T |-> Typed("str"), S |-> Known(I1)]
      [] name = "T->S" -> [T |-> TV("S")]
      [] name = "T->Any" -> [T |-> AnyT]
      [] name = "S->bool" -> [S |-> Typed("bool")]

VARIABLES tc, tm
avars == <<stage, ta, tb, ob, tc, tm>>

AInit == stage = "a" /\ ta = Never /\ tb = Never /\ ob = NONE /\ tc = Never /\ tm = "T->int"
AChooseA == stage = "a" /\ \E t \in AlgSpace : ta' = t /\ stage' = "b" /\ UNCHANGED <<tb, ob, tc, tm>>
AChooseB == stage = "b" /\ \E t \in AlgSpace : tb' = t /\ stage' = "c" /\ UNCHANGED <<ta, ob, tc, tm>>
AChooseC == stage = "c" /\ \E t \in AlgSpace, n \in MapNames : tc' = t /\ tm' = n /\ stage' = "done3" /\ UNCHANGED <<ta, tb, ob>>
ANext == AChooseA \/ AChooseB \/ AChooseC

Done3 == stage = "done3"
InvIdem == stage = "b" => L_Idem(ta)
InvNeverId == stage = "b" => L_NeverId(ta)
InvComm == stage = "c" => L_Comm(ta, tb)
InvNoNest == stage = "c" => L_NoNest(ta, tb)
InvAccepts == stage = "c" => L_Accepts(ta, tb)
InvMembers == stage = "c" => L_Members(ta, tb)
InvEqHash == stage = "c" => L_EqHash(ta, tb)
InvAssoc == Done3 => L_Assoc(ta, tb, tc)
InvSubstClosed == Done3 => L_SubstClosed(ta, MapOf(tm))
InvSubstAll == Done3 => L_SubstAll(ta, MapOf(tm))
InvSubstUnite == Done3 => L_SubstUnite(ta, tb, MapOf(tm))
\* strict versions (expected to be violated: sensitivity / documentation of the findings)
InvEqHashStrict == stage = "c" => (ImplEqV(ta, tb) => ImplSameHash(ta, tb))
InvIdemStrict == stage = "b" => ImplEqV(U2(ta, ta), ta)
=============================================================================
