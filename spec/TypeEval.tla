------------------------------ MODULE TypeEval ------------------------------
(***************************************************************************)
(* Type evaluation functions (property C20).                               *)
(*                                                                         *)
(* A case is                                                               *)
(*   lines : the body of an @evaluated function f(a, b), one record per    *)
(*           source line [ind, k, c]: k in if/elif/else (headers, c = the  *)
(*           condition) or ret/err/pass; line i of kind ret is             *)
(*           `return Literal["r<i>"]`, of kind err `show_error("e<i>")`,   *)
(*           so every leaf is identified by its line number;               *)
(*   ann   : whether f has a return annotation (-> Literal["ann"]);        *)
(*   sig   : <<pa, pb>>, the two parameters [kind, dflt]:                  *)
(*           kind po (positional-only) pk ko (keyword-only) va (star b)    *)
(*           vk (double-star b), dflt req | lit (a = 1, b = "x") | ell;    *)
(*           every parameter is annotated Union[int, str, None];           *)
(*   call  : [npos, kws, star, dstar] -- explicit positionals, keyword     *)
(*           names ("z" lands in **b), `*args` / `**kwargs` of unknown     *)
(*           size;                                                         *)
(*   ta,tb : the types of the explicit arguments for a / b (sequences of   *)
(*           member atoms L1 L2 Lx Ly None int str Any; >1 = a Union).     *)
(* env = [ver, plat] is tuple(sys.version_info) / sys.platform; tuple       *)
(* elements are typed records EI(n) / ES(n) / N0 / X0 (see "typed elements"). *)
(*                                                                         *)
(* Ref* is written from docs/type_evaluation.md only: the argument kinds   *)
(* POSITIONAL/KEYWORD/DEFAULT/UNKNOWN, compatibility with `Any` matching   *)
(* only `Any` under exclude_any, comparisons as is_of_type(Literal[..]),   *)
(* and -- for unions -- one deterministic execution of the body per        *)
(* combination of members, the result being the union of the results.      *)
(* Impl* transcribes pyanalyze/type_evaluation.py (ConditionEvaluator with *)
(* left/right variable maps, EvaluateVisitor.visit_block / visit_If,       *)
(* CombinedReturn) and the part of Signature.bind_arguments that computes  *)
(* the positions (signature.py:820-1051).  Every operator takes the case   *)
(* (and env) as parameters: TypeEvalTrace.tla applies them to recorded     *)
(* observations of the real code.                                          *)
(***************************************************************************)
EXTENDS Naturals, Sequences, FiniteSets, TLC

CONSTANTS
    Profile,     \* "tiny" | "small" | "corr" | "full": which atom / signature / type sets are enumerated
    MaxLines,    \* lines in the body
    MaxIfs,      \* if/elif lines in the body
    MaxDepth,    \* maximal indentation of a line (0 = function level)
    MaxAtoms,    \* primitive conditions in the whole body
    MaxCondAtoms,\* primitive conditions in one condition (1 or 2)
    Bug,         \* "none"; other values switch a plausible bug on in the Impl model (sensitivity):
                 \* any_matches, ver2 / ver3 (sys.version_info truncated to 2 / 3 elements), pyeq,
                 \* nogenvisit / noornull (the code before repo 2abb651 / fdb4789)
    Fixed        \* the repairs (see Repairs) that the code under test contains; {} on the current tree

ToSet(s) == {s[i] : i \in 1..Len(s)}
Vars == {"a", "b"}
Idx(v) == IF v = "a" THEN 1 ELSE 2

(***************************************************************************)
(* Syntax of conditions                                                    *)
(***************************************************************************)
KindAtom(f, v) == [k |-> "kind", f |-> f, v |-> v]              \* is_provided / is_positional / is_keyword
Oft(v, tt, x) == [k |-> "oft", v |-> v, tt |-> tt, x |-> x]      \* is_of_type(v, Union[tt], exclude_any=x)
Cmp(v, op, lit) == [k |-> "cmp", v |-> v, op |-> op, lit |-> lit] \* v == 1, v is not None, ...
\* typed elements of tuples / right-hand sides: an int, a string (index into StrTab, which is sorted
\* the way Python sorts strings), None, and a non-literal expression (rendered `int()`)
StrTab == <<"3", "alpha", "beta", "candidate", "final", "x">>
EI(n) == [k |-> "i", n |-> n]
ES(n) == [k |-> "s", n |-> n]
N0 == [k |-> "n", n |-> 0]
X0 == [k |-> "x", n |-> 0]
IT(s) == [i \in 1..Len(s) |-> EI(s[i])]
\* sys.version_info <op> (e1, .., en)   op in lt le gt ge eq ne; sc: the right-hand side is the bare
\* element tup[1] instead of a tuple (sys.version_info > "3")
Ver(op, tup) == [k |-> "ver", op |-> op, tup |-> tup, sc |-> FALSE]
VerS(op, e) == [k |-> "ver", op |-> op, tup |-> <<e>>, sc |-> TRUE]
VerIx(i, op, n) == [k |-> "veri", i |-> i, op |-> op, n |-> n]   \* sys.version_info[0] >= 3 (PEP 484's example)
Plat(op, name) == [k |-> "plat", op |-> op, name |-> name]       \* sys.platform == "linux"
PlatIn(op, names) == [k |-> "platin", op |-> op, names |-> names]  \* sys.platform [not] in ("linux", "darwin")
PlatSW(name) == [k |-> "platsw", name |-> name]                  \* sys.platform.startswith("lin")
\* forms that are NOT conditions of the specification: arg [not] in (..), a chained comparison
\* (w = "a": a == 1 == 1, w = "ver": sys.version_info >= (3,) >= (3,)), constant == arg, and an
\* expression that is no comparison / call at all (w = "a": `a`, "True": `True`, "plat": `sys.platform`)
CmpIn(v, op, lits) == [k |-> "cmpin", v |-> v, op |-> op, lits |-> lits]
Chain(v, w) == [k |-> "chain", v |-> v, w |-> w]
CmpRev(v, lit) == [k |-> "cmprev", v |-> v, lit |-> lit]
Bare(w) == [k |-> "bare", w |-> w]
Not(c) == [k |-> "not", c |-> c]
And2(x, y) == [k |-> "and", cs |-> <<x, y>>]
Or2(x, y) == [k |-> "or", cs |-> <<x, y>>]
NoCond == [k |-> "none"]

RECURSIVE AtomsOf(_)
AtomsOf(c) ==
    IF c.k = "none" THEN {}
    ELSE IF c.k = "not" THEN AtomsOf(c.c)
    ELSE IF c.k \in {"and", "or"} THEN UNION {AtomsOf(c.cs[i]) : i \in 1..Len(c.cs)}
    ELSE {c}
RECURSIVE NAtoms(_), NAtomsFrom(_, _)
NAtoms(c) ==
    IF c.k = "none" THEN 0
    ELSE IF c.k = "not" THEN NAtoms(c.c)
    ELSE IF c.k \in {"and", "or"} THEN NAtomsFrom(c.cs, 1)
    ELSE 1
NAtomsFrom(cs, i) == IF i > Len(cs) THEN 0 ELSE NAtoms(cs[i]) + NAtomsFrom(cs, i + 1)

BodyAtoms(lines) == UNION {AtomsOf(lines[i].c) : i \in 1..Len(lines)}
RECURSIVE BodyNAtoms(_, _)
BodyNAtoms(lines, i) == IF i > Len(lines) THEN 0 ELSE NAtoms(lines[i].c) + BodyNAtoms(lines, i + 1)
TypeVarsTested(lines) == {x.v : x \in {y \in BodyAtoms(lines) : y.k \in {"oft", "cmp", "cmpin", "chain", "cmprev"}}}
KindVarsTested(lines) == {x.v : x \in {y \in BodyAtoms(lines) : y.k = "kind"}}

(***************************************************************************)
(* Syntax of bodies: Python indentation rules on the sequence of lines     *)
(***************************************************************************)
IsHeader(ln) == ln.k \in {"if", "elif", "else"}
LastAt(lines, d) == CHOOSE j \in 1..Len(lines) :
                        lines[j].ind = d /\ \A k \in (j + 1)..Len(lines) : lines[k].ind # d
CanAppend(lines, ln) ==
    IF lines = << >> THEN ln.ind = 0 /\ ln.k \notin {"elif", "else"}
    ELSE LET prev == lines[Len(lines)] IN
         IF IsHeader(prev) THEN ln.ind = prev.ind + 1 /\ ln.k \notin {"elif", "else"}
         ELSE /\ ln.ind <= prev.ind
              /\ LET j == LastAt(lines, ln.ind) IN
                 IF ln.k \in {"elif", "else"} THEN lines[j].k \in {"if", "elif"}
                 ELSE lines[j].k # "ret"                    \* no statement directly after a return
Complete(lines) == lines # << >> /\ ~IsHeader(lines[Len(lines)])

\* the tree: statements [k, s (line number), c, t (then block), e (else block)]
RECURSIVE BodyEndFrom(_, _, _, _)
BodyEndFrom(L, i, hi, j) == IF j < hi /\ L[j + 1].ind > L[i].ind THEN BodyEndFrom(L, i, hi, j + 1) ELSE j
BodyEnd(L, i, hi) == BodyEndFrom(L, i, hi, i)     \* last line of the block opened by the header on line i
RECURSIVE ChainEnd(_, _, _)
ChainEnd(L, lo, hi) ==    \* last line of the if/elif/else chain whose first header is on line lo
    LET be == BodyEnd(L, lo, hi) IN
    IF be < hi /\ L[be + 1].ind = L[lo].ind /\ L[be + 1].k = "elif" THEN ChainEnd(L, be + 1, hi)
    ELSE IF be < hi /\ L[be + 1].ind = L[lo].ind /\ L[be + 1].k = "else" THEN BodyEnd(L, be + 1, hi)
    ELSE be
RECURSIVE ParseBlock(_, _, _), ParseIf(_, _, _)
ParseBlock(L, lo, hi) ==
    IF lo > hi THEN << >>
    ELSE IF L[lo].k \in {"ret", "err", "pass"}
         THEN << [k |-> L[lo].k, s |-> lo] >> \o ParseBlock(L, lo + 1, hi)
         ELSE LET ce == ChainEnd(L, lo, hi) IN << ParseIf(L, lo, ce) >> \o ParseBlock(L, ce + 1, hi)
ParseIf(L, lo, ce) ==
    LET be == BodyEnd(L, lo, ce)
    IN [k |-> "if", s |-> lo, c |-> L[lo].c,
        t |-> ParseBlock(L, lo + 1, be),
        e |-> IF be = ce THEN << >>
              ELSE IF L[be + 1].k = "elif" THEN << ParseIf(L, be + 1, ce) >>
              ELSE ParseBlock(L, be + 2, ce)]
Tree(c) == ParseBlock(c.lines, 1, Len(c.lines))

RetLabel(s) == "r" \o ToString(s)
ErrLabel(s) == "e" \o ToString(s)
FallLabel(c) == IF c.ann THEN "ann" ELSE "any"       \* return annotation, or Any without one

(***************************************************************************)
(* Signatures and calls                                                    *)
(***************************************************************************)
Param(c, v) == c.sig[Idx(v)]
Name(i) == IF i = 1 THEN "a" ELSE "b"
PosCapable(p) == p.kind \in {"po", "pk"}
KwCapable(p) == p.kind \in {"pk", "ko"}
NPosParams(sig) == Cardinality({i \in 1..2 : PosCapable(sig[i])})

KindRank(k) == CASE k = "po" -> 1 [] k = "pk" -> 2 [] k = "va" -> 3 [] k = "ko" -> 4 [] k = "vk" -> 5
SigOK(sig) ==      \* a definable Python signature def f(a, b)
    /\ sig[1].kind \in {"po", "pk", "ko"}
    /\ KindRank(sig[1].kind) <= KindRank(sig[2].kind)
    /\ (sig[2].kind \in {"va", "vk"} => sig[2].dflt = "req")
    /\ (sig[1].dflt # "req" /\ PosCapable(sig[2]) => sig[2].dflt # "req")

\* the i-th parameter is filled by the i-th explicit positional argument / by a keyword
FilledPos(sig, call, i) == PosCapable(sig[i]) /\ call.npos >= i
FilledKw(sig, call, i) == Name(i) \in ToSet(call.kws)
ExtraPos(sig, call) == call.npos > NPosParams(sig)          \* positionals that land in *b
ExplicitV(c, v) == FilledPos(c.sig, c.call, Idx(v)) \/ FilledKw(c.sig, c.call, Idx(v))

\* calls that bind (Python call semantics; ambiguous star/keyword mixtures are left out)
CallOK(sig, call) ==
    /\ call.npos <= NPosParams(sig) + (IF sig[2].kind = "va" THEN 1 ELSE 0)
    /\ \A n \in ToSet(call.kws) :
         \/ n = "z" /\ sig[2].kind = "vk"
         \/ \E i \in 1..2 : n = Name(i) /\ KwCapable(sig[i]) /\ ~FilledPos(sig, call, i)
    /\ call.star =>
         /\ ~\E i \in 1..2 : sig[i].kind = "pk" /\ FilledKw(sig, call, i)
         /\ \/ sig[2].kind = "va"
            \/ \E i \in 1..2 : PosCapable(sig[i]) /\ ~FilledPos(sig, call, i)
    /\ call.dstar =>
         \/ sig[2].kind = "vk"
         \/ \E i \in 1..2 : KwCapable(sig[i]) /\ ~FilledPos(sig, call, i) /\ ~FilledKw(sig, call, i)
    /\ \A i \in 1..2 :
         (sig[i].dflt = "req" /\ sig[i].kind \notin {"va", "vk"}) =>
             \/ FilledPos(sig, call, i) \/ FilledKw(sig, call, i)
             \/ call.star /\ PosCapable(sig[i])
             \/ call.dstar /\ KwCapable(sig[i])

\* may the parameter be filled from *args / **kwargs (it is not given explicitly)
ViaStar(c, v) == c.call.star /\ PosCapable(Param(c, v))
ViaDStar(c, v) == c.call.dstar /\ KwCapable(Param(c, v))
\* the parameter has a type that the specification defines: an explicit argument or the default
Typed(c, v) == Param(c, v).kind \notin {"va", "vk"} /\ (ExplicitV(c, v) \/ (~ViaStar(c, v) /\ ~ViaDStar(c, v)))

ArgT(c, v) == IF v = "a" THEN c.ta ELSE c.tb
DefaultAtom(v) == IF v = "a" THEN "L1" ELSE "Lx"       \* a = 1, b = "x"
AnnotAtoms == {"int", "str", "None"}                   \* every parameter: Union[int, str, None]

(***************************************************************************)
(* Ref: docs/type_evaluation.md                                            *)
(***************************************************************************)
\* "### is_provided(), is_positional(), and is_keyword()": the argument kind of a parameter
RefKind(c, v) ==
    LET p == Param(c, v) IN
    IF p.kind = "va" THEN (IF ExtraPos(c.sig, c.call) \/ c.call.star THEN "POSITIONAL" ELSE "DEFAULT")
    ELSE IF p.kind = "vk" THEN (IF "z" \in ToSet(c.call.kws) \/ c.call.dstar THEN "KEYWORD" ELSE "DEFAULT")
    ELSE IF FilledPos(c.sig, c.call, Idx(v)) THEN "POSITIONAL"
    ELSE IF FilledKw(c.sig, c.call, Idx(v)) THEN "KEYWORD"
    ELSE IF ~ViaStar(c, v) /\ ~ViaDStar(c, v) THEN "DEFAULT"
    ELSE IF p.dflt # "req" THEN "UNKNOWN"          \* po/ko/pk with a default and *args / **kwargs
    ELSE IF ViaStar(c, v) /\ ViaDStar(c, v) THEN "UNKNOWN"     \* pk in a call with both
    ELSE IF ViaStar(c, v) THEN "POSITIONAL" ELSE "KEYWORD"     \* "a variadic one"
RefKindTest(f, kind) ==
    CASE f = "prov" -> kind \in {"POSITIONAL", "KEYWORD"}
      [] f = "pos" -> kind = "POSITIONAL"
      [] f = "kw" -> kind = "KEYWORD"

\* "the type of the argument within the evaluation function": the value at the call site, Literal[X]
\* for an unused default X, the annotation for an unused default `...`
RefParamType(c, v) ==
    IF ~Typed(c, v) THEN {"Any"}                  \* not defined by the text; never tested (generator)
    ELSE IF ExplicitV(c, v) THEN ToSet(ArgT(c, v))
    ELSE IF Param(c, v).dflt = "ell" THEN AnnotAtoms
    ELSE {DefaultAtom(v)}

\* "### is_of_type()": would `_: t = <value of type m>` be accepted; with exclude_any, Any is
\* compatible only with Any.  m, t range over the atoms; a Literal is compatible with itself and
\* with the class of its value, a class with itself, None with None.
\* (LT = Literal[True], LE = Literal[E.A] with class E(enum.IntEnum): A = 1 -- three literals that
\* are == in Python and distinct as types; bool and IntEnum are subclasses of int)
RefCompat(m, t, excl) ==
    IF m = "Any" THEN ~excl
    ELSE \/ m = t
         \/ t = "int" /\ m \in {"L1", "L2", "LT", "LE"}
         \/ t = "str" /\ m \in {"Lx", "Ly"}

\* PEP 484 version / platform checks: the meaning the expression has in Python on the running
\* interpreter.  Python's tuple comparison (Objects/tupleobject.c tuplerichcompare): the first index
\* at which the elements are not == decides -- the operator is applied to those two elements, and
\* ordering an int against a str / None raises TypeError --; without such an index the lengths are
\* compared.  Result: "lt" | "eq" | "gt" | "mix" (unequal, not orderable).
RECURSIVE TupCmp(_, _)
TupCmp(x, y) ==
    IF x = << >> THEN (IF y = << >> THEN "eq" ELSE "lt")
    ELSE IF y = << >> THEN "gt"
    ELSE IF Head(x) = Head(y) THEN TupCmp(Tail(x), Tail(y))
    ELSE IF Head(x).k # Head(y).k \/ Head(x).k = "n" THEN "mix"
    ELSE IF Head(x).n < Head(y).n THEN "lt" ELSE "gt"
\* <left> <op> <right> given the three-way result; "err" = TypeError
OpRes(op, r) ==
    IF r = "mix" THEN (IF op = "eq" THEN "F" ELSE IF op = "ne" THEN "T" ELSE "err")
    ELSE LET b == CASE op = "lt" -> r = "lt" [] op = "le" -> r \in {"lt", "eq"}
                    [] op = "gt" -> r = "gt" [] op = "ge" -> r \in {"gt", "eq"}
                    [] op = "eq" -> r = "eq" [] op = "ne" -> r # "eq"
         IN IF b THEN "T" ELSE "F"
HasX(tup) == \E i \in 1..Len(tup) : tup[i].k = "x"
\* ver: a tuple against a non-tuple is unequal and not orderable
PyVerCompare(left, x) == OpRes(x.op, IF x.sc THEN "mix" ELSE TupCmp(left, x.tup))
\* str.startswith on the platform names / prefixes used here
StartsWith(plat, pre) == <<plat, pre>> \in {<<"linux", "lin">>, <<"win32", "win">>, <<"darwin", "dar">>}
B2ES(b) == IF b THEN "T" ELSE "F"
\* value of a version / platform check under Python: "T" | "F" | "err" (checked against the real
\* interpreter for every recorded check: TypeEvalTrace!OracleOK)
PyEnvEval(env, x) ==
    CASE x.k = "ver" -> PyVerCompare(env.ver, x)
      [] x.k = "veri" -> OpRes(x.op, IF env.ver[x.i + 1].n < x.n THEN "lt" ELSE IF env.ver[x.i + 1].n = x.n THEN "eq" ELSE "gt")
      [] x.k = "plat" -> B2ES(IF x.op = "eq" THEN env.plat = x.name ELSE env.plat # x.name)
      [] x.k = "platin" -> B2ES((env.plat \in ToSet(x.names)) = (x.op = "in"))
      [] x.k = "platsw" -> B2ES(StartsWith(env.plat, x.name))
\* the shape sys.version_info has: (int, int, int, str, int)
WellTyped(tup) == /\ Len(tup) \in 1..5
                  /\ \A i \in 1..Len(tup) : tup[i].k = (IF i = 4 THEN "s" ELSE "i")
\* Is the expression a condition of the specification ("Conditions in if statements may contain")?
\*   "valid"    it is, and its meaning is defined;
\*   "invalid"  it is not (an operator / operand form that is not listed, a right-hand side that is
\*              no literal, a version check that raises TypeError in Python): the evaluator must be
\*              rejected with an error at its definition;
\*   "either"   the text does not say (PEP 484 shows ==, != on sys.platform and ordering of
\*              sys.version_info against tuples of ints): an implementation may reject it, and if
\*              it accepts it the meaning is Python's.
RefValidity(env, x) ==
    CASE x.k \in {"kind", "oft"} -> "valid"
      [] x.k = "cmp" -> IF x.op \in {"eq", "ne", "is", "isnot"} /\ x.lit # "X" THEN "valid" ELSE "invalid"
      [] x.k \in {"cmpin", "chain", "cmprev", "bare"} -> "invalid"
      [] x.k = "ver" -> IF HasX(x.tup) THEN "invalid"
                        ELSE IF PyEnvEval(env, x) = "err" THEN "invalid"
                        ELSE IF ~x.sc /\ WellTyped(x.tup) THEN "valid" ELSE "either"
      [] x.k \in {"veri", "plat"} -> "valid"
      [] x.k \in {"platin", "platsw"} -> "either"
RefMustReject(c, env) == \E x \in BodyAtoms(c.lines) : RefValidity(env, x) = "invalid"
RefMayReject(c, env) == \E x \in BodyAtoms(c.lines) : RefValidity(env, x) = "either"

\* one concrete execution: mem[v] is the member of the argument's type that is evaluated
RECURSIVE RefCond(_, _, _, _)
RefCond(c, env, mem, x) ==
    CASE x.k = "kind" -> RefKindTest(x.f, RefKind(c, x.v))
      [] x.k = "oft" -> \E t \in ToSet(x.tt) : RefCompat(mem[x.v], t, x.x)
      [] x.k = "cmp" -> LET eq == RefCompat(mem[x.v], x.lit, TRUE)     \* is_of_type(v, Literal[lit])
                        IN IF x.op \in {"eq", "is"} THEN eq ELSE ~eq
      [] x.k \in {"ver", "veri", "plat", "platin", "platsw"} -> PyEnvEval(env, x) = "T"
      [] x.k = "not" -> ~RefCond(c, env, mem, x.c)
      [] x.k = "and" -> \A i \in 1..Len(x.cs) : RefCond(c, env, mem, x.cs[i])
      [] x.k = "or" -> \E i \in 1..Len(x.cs) : RefCond(c, env, mem, x.cs[i])

\* executes block[i..]; result [ret: label of the return reached or "fall", errs: show_error calls reached]
RECURSIVE RefExec(_, _, _, _, _)
RefExec(c, env, mem, block, i) ==
    IF i > Len(block) THEN [ret |-> "fall", errs |-> {}]
    ELSE LET s == block[i] IN
         IF s.k = "ret" THEN [ret |-> RetLabel(s.s), errs |-> {}]
         ELSE IF s.k = "pass" THEN RefExec(c, env, mem, block, i + 1)
         ELSE IF s.k = "err" THEN
              LET rest == RefExec(c, env, mem, block, i + 1)      \* execution continues past show_error
              IN [ret |-> rest.ret, errs |-> rest.errs \cup {ErrLabel(s.s)}]
         ELSE LET br == IF RefCond(c, env, mem, s.c) THEN RefExec(c, env, mem, s.t, 1)
                                                     ELSE RefExec(c, env, mem, s.e, 1)
              IN IF br.ret # "fall" THEN br
                 ELSE LET rest == RefExec(c, env, mem, block, i + 1)
                      IN [ret |-> rest.ret, errs |-> br.errs \cup rest.errs]

\* "### Interaction with unions" / the property: every member (combination) evaluated separately,
\* the result is the union of the results
RefRuns(c, env) ==
    LET tree == Tree(c)
    IN {RefExec(c, env, [v \in Vars |-> IF v = "a" THEN ma ELSE mb], tree, 1) :
           ma \in RefParamType(c, "a"), mb \in RefParamType(c, "b")}
RefObs(c, env) ==
    LET runs == RefRuns(c, env)
    IN [types |-> {IF r.ret = "fall" THEN FallLabel(c) ELSE r.ret : r \in runs},
        errs |-> UNION {r.errs : r \in runs}]

(***************************************************************************)
(* Impl: pyanalyze                                                         *)
(***************************************************************************)
\* F: the set of repairs of known deviations switched on in the model (Fixed = the code as it is)
\*   "carry"   narrowing is carried past an `if` statement
\*   "exact"   the positive branch of a partial match keeps exactly the matching members
\*   "keepany" a matching `Any` stays `Any` instead of becoming the tested type
\*   "ell"     the type of a parameter left at its default `...` is its annotation
\*   "boolop"  an and/or operand that decides the condition after partially matching operands
\*             does not discard the members those operands had set aside
Repairs == {"carry", "exact", "keepany", "ell", "boolop"}
\* repairs of the deviations in accepting / rejecting conditions (see StatusClass)
\*   "veri"     sys.version_info[i] <op> n is evaluated
\* (two more were found by the condition families and are repaired in the code: repo 2abb651
\* ConditionEvaluator.generic_visit rejects an expression that is no call / comparison / not / and /
\* or, repo fdb4789 an invalid operand makes a boolean condition invalid instead of raising; the
\* old behaviour is kept as Bug = "nogenvisit" / "noornull" for the sensitivity configurations)
StatusRepairs == {"veri"}
NoFix == Fixed

\* Signature.bind_arguments (signature.py:820-1051), restricted to two parameters: the position
\* stored for each parameter.  pi = positional_index before the parameter.
ImplPosOf(sig, call, i, pi) ==
    LET p == sig[i]
        name == Name(i)
        kw == name \in ToSet(call.kws)
    IN CASE p.kind = "po" ->                                        \* :821
              IF pi < call.npos THEN "int"                          \* :822-845
              ELSE IF call.star THEN (IF p.dflt = "req" THEN "args" ELSE "unknown")   \* :846-852
              ELSE "default"                                        \* :853
         [] p.kind = "pk" ->                                        \* :867
              IF pi < call.npos THEN "int"                          \* :868-884
              ELSE IF call.star THEN                                \* :895
                   (IF call.dstar THEN "unknown"                    \* :909-914
                    ELSE IF p.dflt = "req" THEN "args" ELSE "unknown")               \* :904-907
              ELSE IF kw THEN "kw"                                  \* :918-932
              ELSE IF call.dstar THEN (IF p.dflt = "req" THEN "kwargs" ELSE "unknown")  \* :933-941
              ELSE "default"                                        \* :942
         [] p.kind = "ko" ->                                        \* :951
              IF kw THEN "kw"                                       \* :952-973
              ELSE IF call.dstar THEN (IF p.dflt = "req" THEN "kwargs" ELSE "unknown")  \* :974-983
              ELSE "default"                                        \* :984
         [] p.kind = "va" ->                                        \* :993
              IF call.star THEN "args"                              \* :1006
              ELSE IF pi < call.npos THEN "args" ELSE "default"     \* :1014-1020
         [] p.kind = "vk" ->                                        \* :1022
              IF call.dstar THEN "kwargs"                           \* :1039
              ELSE IF "z" \in ToSet(call.kws) THEN "kwargs" ELSE "default"  \* :1047-1050 (a, b consumed)
ImplPos(c, v) ==
    IF v = "a" THEN ImplPosOf(c.sig, c.call, 1, 0)
    ELSE ImplPosOf(c.sig, c.call, 2, IF PosCapable(c.sig[1]) /\ c.call.npos >= 1 THEN 1 ELSE 0)
\* ConditionEvaluator.visit_Call (type_evaluation.py:364-369)
ImplKindTest(f, pos) ==
    CASE f = "prov" -> pos \notin {"default", "unknown"}
      [] f = "pos" -> pos \in {"args", "int"}
      [] f = "kw" -> pos \in {"kwargs", "kw"}

\* the value bound to the parameter (signature.py:1340-1343): the argument's value, the default's
\* value (KnownValue(...) for `...`: atom "Ell"), or the element type of *args / **kwargs (Any)
ImplParamType(c, v, F) ==
    IF Param(c, v).kind \in {"va", "vk"} THEN {"Any"}     \* a tuple / dict value; never tested (generator)
    ELSE IF ExplicitV(c, v) THEN ToSet(ArgT(c, v))
    ELSE IF ViaStar(c, v) \/ ViaDStar(c, v) THEN {"Any"}
    ELSE IF Param(c, v).dflt = "ell" THEN (IF "ell" \in F THEN AnnotAtoms ELSE {"Ell"})
    ELSE {DefaultAtom(v)}

\* Value.can_assign on the atoms: KnownValue for the literals (and None, Ellipsis), TypedValue for
\* int / str, AnyValue.  value.py:102/846/2008: an AnyValue on the right is accepted unless
\* ctx.should_exclude_any().
IsKnown(m) == m \in {"L1", "L2", "Lx", "Ly", "None", "Ell", "LT", "LE"}
PyType(m) == CASE m \in {"L1", "L2", "int"} -> "int" [] m \in {"Lx", "Ly", "str"} -> "str"
               [] m = "None" -> "NoneType" [] m = "Ell" -> "ellipsis"
               [] m = "LT" -> "bool" [] m = "LE" -> "E" [] OTHER -> m
SubClass(x, y) == x = y \/ (y = "int" /\ x \in {"bool", "E"})          \* bool, IntEnum < int
ImplAssignAtom(t, m, excl) ==
    IF m = "Any" THEN (IF Bug = "any_matches" THEN TRUE ELSE ~excl)
    ELSE IF IsKnown(t) THEN \/ t = m                    \* KnownValue.can_assign: same value of the same type only
                            \/ Bug = "pyeq" /\ {t, m} \subseteq {"L1", "LT", "LE"}   \* (bug: Python's ==, 1 == True == E.A)
    ELSE IF IsKnown(m) THEN SubClass(PyType(m), t)      \* TypedValue <- KnownValue: isinstance
    ELSE m = t                                          \* TypedValue <- TypedValue: int, str unrelated
ImplAssign(tt, m, excl) == \E t \in tt : ImplAssignAtom(t, m, excl)      \* MultiValuedValue on the left
\* value.py:3379 is_overlapping after _deliteral
ImplOverlap(tt, m) == m = "Any" \/ \E t \in tt : SubClass(PyType(t), PyType(m)) \/ SubClass(PyType(m), PyType(t))
\* constrain_value(val, IsAssignablePredicate(typ, positive_only=False)) with positive=True
\* (predicates.py:59-69), applied to every member of val (stacked_scopes.py:1584)
ImplConstrainMember(tt, m, F) ==
    IF ~ImplOverlap(tt, m) THEN {}
    ELSE IF ImplAssign(tt, m, FALSE)
         THEN (IF m = "Any" /\ "keepany" \notin F THEN tt ELSE {m})   \* is_universally_assignable -> pattern
    ELSE tt                                                          \* overlapping, not assignable -> pattern
ImplConstrain(tt, val, matched, F) ==
    UNION {ImplConstrainMember(tt, m, F) : m \in (IF "exact" \in F THEN matched ELSE val)}

\* optional variable maps (ConditionReturn.left_varmap / right_varmap)
None == [some |-> FALSE, m |-> << >>]
Some(f) == [some |-> TRUE, m |-> f]
EmptyMap == [x \in {} |-> {}]
One(v, val) == [x \in {v} |-> val]
Merge(old, new) == [x \in (DOMAIN old) \cup (DOMAIN new) |-> IF x \in DOMAIN new THEN new[x] ELSE old[x]]
\* unite_varmaps (type_evaluation.py:803)
Unite(maps) ==
    IF maps = << >> THEN None
    ELSE LET keys == {x \in Vars : \A i \in 1..Len(maps) : x \in DOMAIN maps[i]}
         IN Some([x \in keys |-> UNION {maps[i][x] : i \in 1..Len(maps)}])

\* ConditionEvaluator.visit_is_of_type (type_evaluation.py:407-457) + decompose_union (:769)
ImplIsOfType(v, tt, excl, vars, F) ==
    LET val == vars[v]
        matched == {m \in val : ImplAssign(tt, m, excl)}
    IN IF matched = val                                              \* can_assign succeeded (:453)
       THEN [l |-> Some(One(v, ImplConstrain(tt, val, matched, F))), r |-> None]
       ELSE IF Cardinality(val) >= 2 /\ matched # {}                 \* decompose_union found a split (:437-451)
       THEN [l |-> Some(One(v, ImplConstrain(tt, val, matched, F))), r |-> Some(One(v, val \ matched))]
       ELSE [l |-> None, r |-> Some(EmptyMap)]                       \* :452
Decided(b) == IF b THEN [l |-> Some(EmptyMap), r |-> None] ELSE [l |-> None, r |-> Some(EmptyMap)]
\* return_invalid (:342): ConditionReturn(NullCondition()), neither map
NullC == [l |-> None, r |-> None]
\* the evaluation of the condition raises (the visitor turns it into internal_error)
CrashMark == [some |-> FALSE, m |-> <<"crash">>]
CrashC == [l |-> CrashMark, r |-> CrashMark]
IsCrash(r) == ~r.l.some /\ ~r.r.some /\ r.l.m # << >>
IsNull(r) == ~r.l.some /\ ~r.r.some /\ r.l.m = << >>
Reverse(r) == IF IsCrash(r) THEN r ELSE [l |-> r.r, r |-> r.l]       \* ConditionReturn.reverse (:327); None.reverse()

\* the operand visit_Compare hands to Python's operator for sys.version_info (:488)
VerOperand(env) == IF Bug = "ver2" THEN SubSeq(env.ver, 1, 2)
                   ELSE IF Bug = "ver3" THEN SubSeq(env.ver, 1, 3) ELSE env.ver
\* the visit of the primitive condition x records an InvalidEvaluation and returns NullCondition
ImplAtomNull(env, x, F) ==
    CASE x.k = "cmp" -> \/ x.lit = "X"                            \* evaluate_literal: "Only literals supported" (:471-473)
                        \/ x.op \notin {"eq", "ne", "is", "isnot"} \* :474-476 not taken, :482 not an Attribute -> :515
      [] x.k = "cmpin" -> TRUE                                    \* :515 "Unsupported comparison operator"
      [] x.k = "chain" -> TRUE                                    \* :467-468
      [] x.k = "cmprev" -> TRUE                                   \* right operand is a Name: no literal (:471-473)
      [] x.k = "ver" -> \/ HasX(x.tup)                            \* :471-473
                        \/ PyVerCompare(VerOperand(env), x) = "err"   \* data.impl raises (:496-501)
      [] x.k = "veri" -> "veri" \notin F                          \* node.left is a Subscript -> :515
      [] x.k = "platsw" -> TRUE                                   \* visit_Call: func is no Name (:347-348)
      [] x.k = "bare" -> Bug # "nogenvisit"                       \* generic_visit -> return_invalid (:346-349)
      [] OTHER -> FALSE
\* (bug: no generic_visit -- ast.NodeVisitor's returns None for a Name / Constant / Attribute)
ImplAtomCrash(x, F) == x.k = "bare" /\ Bug = "nogenvisit"

RECURSIVE ImplCond(_, _, _, _, _), ImplBoolOp(_, _, _, _, _, _, _, _, _)
ImplCond(c, env, vars, x, F) ==
    IF x.k \notin {"not", "and", "or"} /\ ImplAtomCrash(x, F) THEN CrashC
    ELSE IF x.k \notin {"not", "and", "or"} /\ ImplAtomNull(env, x, F) THEN NullC
    ELSE
    CASE x.k = "kind" -> Decided(ImplKindTest(x.f, ImplPos(c, x.v)))                \* :350-378
      [] x.k = "oft" -> ImplIsOfType(x.v, ToSet(x.tt), x.x, vars, F)                 \* :379-403
      [] x.k = "cmp" ->                                                              \* visit_Compare :466-480
           LET r == ImplIsOfType(x.v, {x.lit}, TRUE, vars, F)
           IN IF x.op \in {"ne", "isnot"} THEN Reverse(r) ELSE r
      \* sys.version_info / sys.platform comparisons are delegated to Python's operators (:495-513)
      [] x.k = "ver" -> Decided(PyVerCompare(VerOperand(env), x) = "T")
      [] x.k \in {"veri", "plat", "platin"} -> Decided(PyEnvEval(env, x) = "T")
      [] x.k = "not" -> Reverse(ImplCond(c, env, vars, x.c, F))                      \* visit_UnaryOp :459
      [] x.k \in {"and", "or"} -> ImplBoolOp(c, env, x.cs, 1, x.k = "and", vars, EmptyMap, << >>, F)
\* visit_BoolOp (:517-584): operands in order under the narrowing accumulated so far
ImplBoolOp(c, env, cs, i, isAnd, vars, narrowed, remaining, F) ==
    IF i > Len(cs) THEN                                                              \* :572-584
        (IF isAnd THEN [l |-> Some(narrowed), r |-> Unite(remaining)]
                  ELSE [l |-> Unite(remaining), r |-> Some(narrowed)])
    ELSE LET res == ImplCond(c, env, vars, cs[i], F) IN
         IF IsCrash(res) THEN res                                                    \* result.condition of None (:530)
         ELSE IF ~isAnd /\ IsNull(res) THEN                 \* invalid operand: the condition is invalid (:536-538)
            (IF Bug = "noornull" THEN CrashC ELSE NullC)    \* (bug: narrowed_varmap.update(None) raises)
         ELSE IF isAnd THEN
            IF ~res.l.some THEN                                                      \* :532-537
                [l |-> None,
                 r |-> IF "boolop" \in F /\ remaining # << >> /\ res.r.some
                       THEN Unite(Append(remaining, Merge(narrowed, res.r.m))) ELSE res.r]
            ELSE ImplBoolOp(c, env, cs, i + 1, isAnd, Merge(vars, res.l.m), Merge(narrowed, res.l.m),
                            IF res.r.some THEN Append(remaining, res.r.m) ELSE remaining, F)   \* :538-550
         ELSE
            IF ~res.l.some THEN                                                      \* :552-557
                ImplBoolOp(c, env, cs, i + 1, isAnd, Merge(vars, res.r.m), Merge(narrowed, res.r.m), remaining, F)
            ELSE IF ~res.r.some THEN                                                 \* :558-563
                [l |-> IF "boolop" \in F /\ remaining # << >>
                       THEN Unite(Append(remaining, Merge(narrowed, res.l.m))) ELSE res.l,
                 r |-> None]
            ELSE ImplBoolOp(c, env, cs, i + 1, isAnd, Merge(vars, res.r.m), Merge(narrowed, res.r.m),
                            Append(remaining, res.l.m), F)                           \* :564-570

\* EvalReturn as a sequence: <<"none">> = None, <<x>> = a Value, longer = CombinedReturn.children.
\* Statement results: [rets, errs (in emission order), ft (variables of the executions that fall
\* through, used only by the `carry` repair)]
IsNotNone(x) == x # "none"
NonNone(rets) == SelectSeq(rets, IsNotNone)
JoinFt(f, g) == IF ~f.some THEN g ELSE IF ~g.some THEN f
                ELSE Some([x \in Vars |-> f.m[x] \cup g.m[x]])
RECURSIVE ImplBlock(_, _, _, _, _, _, _), ImplStmt(_, _, _, _, _)
ImplStmt(c, env, vars, s, F) ==
    CASE s.k = "ret" -> [rets |-> << RetLabel(s.s) >>, errs |-> << >>, ft |-> None]      \* visit_Return :663
      [] s.k = "pass" -> [rets |-> << "none" >>, errs |-> << >>, ft |-> Some(vars)]       \* visit_Pass :660
      [] s.k = "err" -> [rets |-> << "none" >>, errs |-> << ErrLabel(s.s) >>, ft |-> Some(vars)]  \* :700-729
      [] s.k = "if" ->                                                                    \* visit_If :731-762
           LET cond == ImplCond(c, env, vars, s.c, F)
           IN IF IsCrash(cond) THEN [rets |-> << "CRASH" >>, errs |-> << >>, ft |-> None]  \* condition.left_varmap of None (:739)
           ELSE
           LET skip == [rets |-> << "none" >>, errs |-> << >>, ft |-> None]
               L == IF cond.l.some THEN ImplBlock(c, env, Merge(vars, cond.l.m), s.t, 1, << >>, F) ELSE skip
               R == IF cond.r.some THEN ImplBlock(c, env, Merge(vars, cond.r.m), s.e, 1, << >>, F) ELSE skip
           IN [rets |-> IF cond.l.some /\ cond.r.some THEN L.rets \o R.rets               \* CombinedReturn.make :754
                        ELSE IF cond.l.some THEN L.rets ELSE R.rets,
               errs |-> L.errs \o R.errs,
               ft |-> JoinFt(L.ft, R.ft)]
\* visit_block (:643-658); possible = possible_returns
ImplBlock(c, env, vars, block, i, possible, F) ==
    IF i > Len(block) THEN [rets |-> possible \o << "none" >>, errs |-> << >>, ft |-> Some(vars)]   \* :658
    ELSE LET r == ImplStmt(c, env, vars, block[i], F)
             nvars == IF "carry" \in F /\ r.ft.some THEN r.ft.m ELSE vars
         IN IF r.rets = << "none" >> THEN                                                \* :647
                LET rest == ImplBlock(c, env, nvars, block, i + 1, possible, F)
                IN [rets |-> rest.rets, errs |-> r.errs \o rest.errs, ft |-> rest.ft]
            ELSE IF \A j \in 1..Len(r.rets) : r.rets[j] # "none" THEN                    \* :649-653
                [rets |-> possible \o r.rets, errs |-> r.errs, ft |-> None]
            ELSE LET rest == ImplBlock(c, env, nvars, block, i + 1, possible \o NonNone(r.rets), F)   \* :655
                 IN [rets |-> rest.rets, errs |-> r.errs \o rest.errs, ft |-> rest.ft]

\* Evaluator.evaluate / EvaluateVisitor.run / _evaluate_ret (:275, :611-622)
ImplRun(c, env, F) ==
    ImplBlock(c, env, [v \in Vars |-> ImplParamType(c, v, F)], Tree(c), 1, << >>, F)
ObsOfRun(c, r) == [types |-> {IF x = "none" THEN FallLabel(c) ELSE x : x \in ToSet(r.rets)}, errs |-> ToSet(r.errs)]
ImplObsF(c, env, F) == ObsOfRun(c, ImplRun(c, env, F))
ImplObs(c, env) == ImplObsF(c, env, NoFix)
ImplErrSeq(c, env) == ImplRun(c, env, NoFix).errs
\* what the visitor reports for the call: show_error de-duplicates per (node, code)
\* (node_visitor.py:634), every error of the evaluator is attached to the call node
DiagOf(e) == IF e = << >> THEN << >> ELSE << e[1] >>
ImplDiag(c, env) == DiagOf(ImplErrSeq(c, env))

\* Validation at the definition (name_check_visitor.py:2258-2274 -> Evaluator.validate): every
\* condition and both blocks of every `if` are visited (visit_If / visit_BoolOp in validation_mode),
\* every InvalidEvaluation becomes a bad_evaluator diagnostic.  (Without generic_visit `not <bare>`
\* raised there: visit_UnaryOp, None.reverse().)
RECURSIVE HasNotBare(_)
HasNotBare(x) ==
    IF x.k = "not" THEN x.c.k = "bare" \/ HasNotBare(x.c)
    ELSE IF x.k \in {"and", "or"} THEN \E i \in 1..Len(x.cs) : HasNotBare(x.cs[i])
    ELSE FALSE
ImplDefCrash(c, F) == Bug = "nogenvisit" /\ \E i \in 1..Len(c.lines) : HasNotBare(c.lines[i].c)
ImplRejected(c, env, F) == ~ImplDefCrash(c, F) /\ \E x \in BodyAtoms(c.lines) : ImplAtomNull(env, x, F)
\* the check of the definition or of the call raises
ImplCrashes(c, env, F) ==
    /\ \E x \in BodyAtoms(c.lines) : ImplAtomNull(env, x, F) \/ ImplAtomCrash(x, F)
    /\ \/ ImplDefCrash(c, F)
       \/ "CRASH" \in ToSet(ImplRun(c, env, F).rets)
\* the same check in ordinary code (`if sys.version_info > "3":` in a function body):
\* name_check_visitor.py:3569-3581 applies the operator to sys.version_info and the literal
\* right-hand side for the four ordering operators, guarded by try / except since repo 55a5b7d
\* (before it the checker raised whenever Python's comparison does: found by this slice's twins)
ImplTwinRaises(env, x) == FALSE

(***************************************************************************)
(* Known deviations of the implementation from the specification           *)
(***************************************************************************)
Sub(x, y) == x.types \subseteq y.types /\ x.errs \subseteq y.errs
UsesEll(c) == \E v \in Vars : v \in TypeVarsTested(c.lines) /\ Param(c, v).dflt = "ell"
                              /\ Typed(c, v) /\ ~ExplicitV(c, v)
UnionVars(c) == {v \in Vars : Cardinality(RefParamType(c, v)) >= 2}
TwoUnionVarsTested(c) == UnionVars(c) = Vars /\ TypeVarsTested(c.lines) = Vars

\* Classification of a case: the set of known-deviation classes that explain Impl # Ref, or {"viol"}.
\*  ellipsis-default-not-annotation    the type of a parameter left at its default `...` is
\*        Literal[...] instead of the annotation (signature.py:854/943/985)
\*  union-narrowing-not-carried-past-if  after an `if` one of whose branches returned, the members
\*        that took that branch are still evaluated by the following statements (visit_block keeps
\*        ctx.variables; :643-658)
\*  union-positive-narrowing-leaks-pattern  in the positive branch of a partial match the variable
\*        becomes constrain_value(whole value) -- non-matching members are replaced by the tested
\*        type instead of being dropped (:449)
\*  any-narrowed-to-tested-type  after is_of_type(x, T, exclude_any=False) matched an `Any`, x is T,
\*        so that a following strict is_of_type(x, T) / comparison sees T and not `Any` (:455)
\*  boolop-deciding-operand-drops-members  `x and y` where x matches some members and y is false for
\*        the members x let through: the else branch is evaluated with y's narrowing only, the
\*        members x had set aside are lost (dually `x or y` with y true: the then branch) (:532-537,
\*        :558-563)
\*  two-union-arguments-correlation-lost  variable maps are per variable: with two union-typed
\*        arguments both tested, combinations that no execution has are evaluated; the
\*        implementation must still over-approximate once the other repairs are applied
ClassName(f) == CASE f = "carry" -> "union-narrowing-not-carried-past-if"
                  [] f = "exact" -> "union-positive-narrowing-leaks-pattern"
                  [] f = "keepany" -> "any-narrowed-to-tested-type"
                  [] f = "ell" -> "ellipsis-default-not-annotation"
                  [] f = "boolop" -> "boolop-deciding-operand-drops-members"
Class(c, env) ==
    LET R == RefObs(c, env)
        Fixing == {S \in SUBSET (Repairs \ Fixed) : ImplObsF(c, env, S \cup Fixed) = R}
    IN IF ImplObsF(c, env, NoFix) = R THEN {}
       ELSE IF Fixing # {}
            THEN LET S == CHOOSE S \in Fixing : \A S2 \in Fixing : Cardinality(S) <= Cardinality(S2)
                 IN {ClassName(f) : f \in S}
       ELSE IF TwoUnionVarsTested(c) /\ Sub(R, ImplObsF(c, env, Repairs))
            THEN {"two-union-arguments-correlation-lost"}
       ELSE {"viol"}
Dev_EllipsisDefault(c, env) == "ellipsis-default-not-annotation" \in Class(c, env)
Dev_NarrowingNotCarried(c, env) == "union-narrowing-not-carried-past-if" \in Class(c, env)
Dev_PositiveNarrowingLeaks(c, env) == "union-positive-narrowing-leaks-pattern" \in Class(c, env)
Dev_AnyNarrowed(c, env) == "any-narrowed-to-tested-type" \in Class(c, env)
Dev_BoolOpDropsMembers(c, env) == "boolop-deciding-operand-drops-members" \in Class(c, env)
Dev_CorrelationLost(c, env) == "two-union-arguments-correlation-lost" \in Class(c, env)
\* the classes in which the implementation may report less than the specification
MayUnderApproximate == {"ellipsis-default-not-annotation", "any-narrowed-to-tested-type",
                        "boolop-deciding-operand-drops-members"}

\* Accepting and rejecting conditions.  The demand: the check never raises; an evaluator with a
\* condition that is none of the specification's is rejected at its definition; one whose conditions
\* are all defined is not; rejection for an "either" condition is allowed.
StatusReq(c, env, F) ==
    LET atoms == BodyAtoms(c.lines)
        rej == ImplRejected(c, env, F)
    IN /\ ~ImplCrashes(c, env, F)
       /\ IF RefMustReject(c, env) THEN rej
          ELSE rej => \A x \in atoms : ImplAtomNull(env, x, F) => RefValidity(env, x) = "either"
\*  version-subscript-check-rejected   PEP 484's own example `sys.version_info[0] >= 3` is rejected
StatusClassName(f) == CASE f = "veri" -> "version-subscript-check-rejected"
StatusClass(c, env) ==
    IF StatusReq(c, env, Fixed) THEN {}
    ELSE LET Fixing == {S \in SUBSET (StatusRepairs \ Fixed) : StatusReq(c, env, S \cup Fixed)}
         IN IF Fixing = {} THEN {"viol"}
            ELSE LET S == CHOOSE S \in Fixing : \A S2 \in Fixing : Cardinality(S) <= Cardinality(S2)
                 IN {StatusClassName(f) : f \in S}
Dev_VersionSubscriptRejected(c, env) == "version-subscript-check-rejected" \in StatusClass(c, env)

\* argument kinds: the three documented predicates (DEFAULT and UNKNOWN are indistinguishable)
KindsAgree(c, posOf) ==
    \A v \in Vars : \A f \in {"prov", "pos", "kw"} : ImplKindTest(f, posOf[v]) = RefKindTest(f, RefKind(c, v))

(***************************************************************************)
(* Bounded case space (staged generator)                                   *)
(*                                                                         *)
(* The bounds are the constants MaxLines / MaxIfs / MaxDepth / MaxAtoms    *)
(* and the sets selected by Profile below.  Two families of cases:         *)
(*  - probes: `if [not] <p>: return .. / return ..` for every argument-    *)
(*    kind primitive p under EVERY signature x call shape (this is where   *)
(*    the binder's positions are compared with the documented argument     *)
(*    kinds), and for every version / platform check;                      *)
(*  - all other bodies under the signatures BodySigs x every call shape.   *)
(* Dimensions a body cannot observe are collapsed to a canonical value     *)
(* (no argument-kind primitive: no *args/**kwargs calls; an argument no    *)
(* is_of_type / comparison tests has the canonical type).                  *)
(***************************************************************************)
\* the interpreter the model is evaluated on (the harness substitutes the running one if it differs)
ModelEnv == [ver |-> <<EI(3), EI(12), EI(1), ES(5), EI(0)>>, plat |-> "linux"]

(***************************************************************************)
(* Condition families (profiles "cenv", "ccmp")                            *)
(*                                                                         *)
(* Every member of a family is enumerated as a probe                       *)
(*     if [not] <x>: show_error; return   else: show_error; return         *)
(* (the branch taken is visible in the returned type and in the error      *)
(* fired), a core subset is combined with not / and / or and placed in     *)
(* generated bodies (if / elif / else, nesting, fall-through).             *)
(* Version tuples are built around the interpreter's own version, where    *)
(* the outcome depends on every position of sys.version_info.              *)
(***************************************************************************)
MV(i) == ModelEnv.ver[i].n
D3 == {0, 1, 2}                       \* offsets -1, 0, +1 (as naturals: value + d - 1)
Off(v, d) == IF v + d >= 1 THEN v + d - 1 ELSE 0
Levels == {ES(3), ES(5), ES(6)}          \* "beta", "final", "x"
VerTuplesWellTyped ==
    { <<EI(Off(MV(1), d))>> : d \in D3 }
    \cup { <<EI(Off(MV(1), d1)), EI(Off(MV(2), d2))>> : d1 \in D3, d2 \in D3 }
    \cup { <<EI(MV(1)), EI(Off(MV(2), d2)), EI(Off(MV(3), d3))>> : d2 \in D3, d3 \in D3 }
    \cup { <<EI(MV(1)), EI(MV(2)), EI(Off(MV(3), d3)), lv>> : d3 \in D3, lv \in Levels }
    \cup { <<EI(MV(1)), EI(MV(2)), EI(MV(3)), lv, EI(ser)>> : lv \in Levels, ser \in {0, 1} }
VerTuplesOther ==
    { << >>, <<EI(MV(1)), ES(6)>>, <<EI(MV(1) + 1), ES(6)>>, <<EI(MV(1)), EI(MV(2)), ES(6)>>,
      <<EI(MV(1)), EI(MV(2)), EI(MV(3)), EI(5)>>, <<EI(MV(1)), N0>>, <<EI(MV(1)), X0>>,
      <<EI(MV(1)), EI(MV(2)), EI(MV(3)), ES(5), EI(0), EI(7)>> }
VerOps == {"lt", "le", "gt", "ge", "eq", "ne"}
VerFamily ==
    { Ver(op, t) : op \in VerOps, t \in VerTuplesWellTyped \cup VerTuplesOther }
    \cup { VerS(op, e) : op \in VerOps, e \in {EI(3), ES(1), N0, X0} }
    \cup { VerIx(i, op, Off(MV(i + 1), d)) : i \in {0, 1}, op \in VerOps, d \in D3 }
PlatFamily ==
    { Plat(op, n) : op \in {"eq", "ne"}, n \in {"linux", "win32"} }
    \cup { PlatIn(op, ns) : op \in {"in", "notin"}, ns \in { <<"linux", "darwin">>, <<"win32", "darwin">>, <<"linux">> } }
    \cup { PlatSW(n) : n \in {"lin", "win"} }
    \cup { Chain("a", "ver"), Bare("plat") }
CmpFamily ==
    { Cmp("a", op, lit) : op \in {"eq", "ne", "is", "isnot", "lt", "ge"}, lit \in {"L1", "Lx", "None", "LT", "LE", "X"} }
    \cup { CmpIn("a", op, ls) : op \in {"in", "notin"}, ls \in { <<"L1", "L2">>, <<"L1">> } }
    \cup { Chain("a", "a"), CmpRev("a", "L1"), CmpRev("a", "X"), Bare("a"), Bare("True") }
CmpArgTypes == { <<"L1">>, <<"LT">>, <<"LE">>, <<"None">>, <<"int">>, <<"Any">>,
                 <<"L1", "L2">>, <<"L1", "LT">>, <<"LT", "LE">>, <<"L1", "None">>, <<"Any", "L1">>, <<"Any", "LT">> }
CmpBodyArgTypes == { <<"L1">>, <<"LT">>, <<"Any">>, <<"L1", "LT">>, <<"Any", "L1">> }
\* the members combined with other conditions and placed in generated bodies
MM == <<EI(MV(1)), EI(MV(2))>>
MMU == <<EI(MV(1)), EI(MV(2)), EI(MV(3))>>
EnvCoreValid == { Ver("gt", MM), Ver("eq", MM), Ver("ge", MMU), Ver("lt", <<EI(MV(1)), EI(MV(2)), EI(MV(3) + 1)>>),
                  Ver("le", <<EI(MV(1)), EI(MV(2) + 1)>>), Ver("ne", ModelEnv.ver) }
EnvCore == EnvCoreValid \cup { Plat("eq", "linux"), PlatIn("notin", <<"linux", "darwin">>),
                               VerS("gt", ES(1)), VerIx(0, "ge", MV(1)), Bare("plat") }
EnvSecond == { Cmp("a", "eq", "L1"), Ver("gt", MM), VerS("gt", ES(1)) }
CmpCore == { Cmp("a", "eq", "L1"), Cmp("a", "isnot", "LT"), Cmp("a", "ne", "LE"), Cmp("a", "is", "None"),
             Cmp("a", "ge", "L1"), CmpIn("a", "in", <<"L1", "L2">>), Bare("a") }
CmpSecond == { Cmp("a", "eq", "L1"), Cmp("a", "eq", "LT"), CmpIn("a", "in", <<"L1", "L2">>), Bare("a") }
Probe2Lits == LET fam == IF Profile = "cenv" THEN VerFamily \cup PlatFamily ELSE CmpFamily
              IN fam \cup {Not(x) : x \in fam}

\* Profiles: "tiny" (quick tier), "small" (thorough tier), "corr" (two tested union arguments, few
\* atoms, larger bodies), "corrq" (quick-tier slice of corr: both arguments are the literal unions
\* Literal[1, 2] / Literal['x', 'y'] passed positionally, both parameters tested by the body, no
\* probes), "full" (random simulation only: every primitive of the grammar)
\* "cenv" / "ccmp": the families of version / platform conditions and of comparison conditions
\* (see "Condition families" below)
CorrQ == Profile = "corrq"
NewProf == Profile \in {"cenv", "ccmp"}
PickP(tiny, small, corr, full) ==
    CASE Profile = "tiny" -> tiny [] Profile = "small" -> small [] Profile \in {"corr", "corrq"} -> corr [] Profile = "full" -> full
AllTTs == { <<"L1">>, <<"Lx">>, <<"int">>, <<"str">>, <<"None">>, <<"L1", "L2">>, <<"int", "None">>, <<"L1", "None">> }
AtomsA == IF Profile = "cenv" THEN {Cmp("a", "eq", "L1")} ELSE IF Profile = "ccmp" THEN CmpCore ELSE PickP(
    {Cmp("a", "eq", "L1"), Oft("a", <<"int">>, TRUE), Oft("a", <<"int">>, FALSE)},
    {Cmp("a", "eq", "L1"), Oft("a", <<"int">>, TRUE), Oft("a", <<"int">>, FALSE), Oft("a", <<"L1", "L2">>, TRUE)},
    {Cmp("a", "eq", "L1")},
    {Cmp("a", op, lit) : op \in {"eq", "ne", "is", "isnot"}, lit \in {"L1", "L2", "Lx", "None"}}
        \cup {Oft("a", tt, x) : tt \in AllTTs, x \in BOOLEAN})
AtomsB == IF NewProf THEN {} ELSE PickP(
    {Cmp("b", "eq", "Lx")},
    {Cmp("b", "eq", "Lx")},
    {Cmp("b", "eq", "Lx")},
    {Cmp("b", op, lit) : op \in {"eq", "ne", "is", "isnot"}, lit \in {"Lx", "L1", "None"}}
        \cup {Oft("b", tt, x) : tt \in {<<"str">>, <<"Lx">>, <<"int", "None">>}, x \in BOOLEAN})
AllKindAtoms == {KindAtom(f, v) : f \in {"prov", "pos", "kw"}, v \in Vars}
KindAtoms == IF NewProf THEN {} ELSE PickP({KindAtom("prov", "b")}, {KindAtom("prov", "b"), KindAtom("kw", "a")}, {}, AllKindAtoms)
AllEnvAtoms == {Ver("ge", IT(<<3, 8>>)), Ver("lt", IT(<<3, 8>>)), Ver("ge", IT(<<3, 99>>)), Ver("lt", IT(<<4>>)),
                Plat("eq", "win32"), Plat("ne", "win32"), Plat("eq", "linux"), Plat("ne", "linux")}
EnvAtoms == IF Profile = "cenv" THEN EnvCore ELSE IF Profile = "ccmp" THEN {} ELSE PickP(
    {},
    {Ver("ge", IT(<<3, 8>>)), Plat("eq", "win32")},
    {},
    AllEnvAtoms \cup EnvCoreValid)
Atoms == AtomsA \cup AtomsB \cup KindAtoms \cup EnvAtoms
Lits == Atoms \cup {Not(x) : x \in Atoms}
\* second operands of two-operand conditions
Lits2 == IF Profile = "cenv" THEN EnvSecond ELSE IF Profile = "ccmp" THEN CmpSecond
         ELSE AtomsA \cup AtomsB \cup (KindAtoms \cap {KindAtom("prov", "b")})
Pairs == {And2(x, y) : x \in Lits, y \in Lits2} \cup {Or2(x, y) : x \in Lits, y \in Lits2}
Conds1 == Lits
Conds2 == Pairs \cup {Not(p) : p \in Pairs}
\* random conditions for the simulation profile: up to three operands, one level of nesting
RandLit(u) == LET x == RandomElement(Atoms) IN IF RandomElement(BOOLEAN) THEN x ELSE Not(x)
RandBool(u) ==
    LET kk == RandomElement({"and", "or"})
        n == RandomElement({2, 2, 3})
        inner == [k |-> RandomElement({"and", "or"}), cs |-> <<RandLit(u), RandLit(u + 1)>>]
        ops == IF n = 2 THEN <<RandLit(u + 2), IF RandomElement(1..4) = 1 THEN inner ELSE RandLit(u + 3)>>
               ELSE <<RandLit(u + 2), RandLit(u + 3), RandLit(u + 4)>>
        b == [k |-> kk, cs |-> ops]
    IN IF RandomElement(1..4) = 1 THEN Not(b) ELSE b
RandCond(u) == IF RandomElement(1..3) = 1 THEN RandLit(u) ELSE RandBool(u)
CondsUpTo(n, u) ==
    IF Profile = "full" THEN {RandCond(u)}
    ELSE IF n <= 0 THEN {} ELSE IF n = 1 \/ MaxCondAtoms = 1 THEN Conds1 ELSE Conds1 \cup Conds2
\* every is_provided / is_positional / is_keyword primitive and every version / platform check,
\* plain and negated (probes)
KindProbeLits == AllKindAtoms \cup {Not(x) : x \in AllKindAtoms}
ProbeLits == KindProbeLits \cup AllEnvAtoms \cup {Not(x) : x \in AllEnvAtoms}
LeafKinds == IF NewProf THEN {"ret", "err"} ELSE PickP({"ret", "err"}, {"ret", "err", "pass"}, {"ret", "err"}, {"ret", "err", "pass"})

ParamSpace == [kind : {"po", "pk", "ko", "va", "vk"}, dflt : {"req", "lit", "ell"}]
KwsSpace == { << >>, <<"a">>, <<"b">>, <<"a", "b">>, <<"z">>, <<"a", "z">> }
CallSpace == [npos : 0..2, kws : KwsSpace, star : BOOLEAN, dstar : BOOLEAN]
P(kind, dflt) == [kind |-> kind, dflt |-> dflt]
CanonSig == << P("pk", "req"), P("pk", "lit") >>
EllSig == << P("pk", "lit"), P("pk", "ell") >>
MoreSigs == { CanonSig, EllSig, << P("pk", "req"), P("ko", "lit") >>, << P("po", "lit"), P("pk", "lit") >>,
              << P("pk", "ell"), P("va", "req") >>, << P("pk", "lit"), P("vk", "req") >> }
BodySigs == IF NewProf THEN {CanonSig} ELSE PickP({CanonSig, EllSig}, {CanonSig, EllSig, << P("pk", "req"), P("ko", "lit") >>}, {CanonSig}, MoreSigs)
ArgTypesA == IF CorrQ THEN { <<"L1", "L2">> }
             ELSE IF Profile = "cenv" THEN { <<"L1">>, <<"L1", "L2">>, <<"Any">> }
             ELSE IF Profile = "ccmp" THEN CmpArgTypes ELSE PickP(
    { <<"L1">>, <<"Any">>, <<"L1", "L2">>, <<"Any", "L1">> },
    { <<"L1">>, <<"Any">>, <<"L1", "L2">>, <<"L1", "Lx">>, <<"Any", "L1">>, <<"L1", "int">> },
    { <<"L1">>, <<"L1", "L2">> },
    { <<"L1">>, <<"L2">>, <<"Lx">>, <<"None">>, <<"int">>, <<"str">>, <<"Any">>,
      <<"L1", "L2">>, <<"L1", "Lx">>, <<"L1", "None">>, <<"int", "str">>, <<"int", "None">>,
      <<"L1", "int">>, <<"Any", "L1">>, <<"Any", "int">>, <<"L1", "L2", "Lx">>, <<"Any", "L1", "Lx">>,
      <<"L1", "int", "None">> })
ArgTypesB == IF CorrQ THEN { <<"Lx", "Ly">> } ELSE IF NewProf THEN { <<"Lx">> } ELSE PickP(
    { <<"Lx">>, <<"Lx", "Ly">> },
    { <<"Lx">>, <<"Lx", "Ly">> },
    { <<"Lx">>, <<"Lx", "Ly">> },
    { <<"Lx">>, <<"str">>, <<"Any">>, <<"None">>, <<"Lx", "Ly">>, <<"Lx", "L1">>, <<"Any", "Lx">>, <<"str", "None">> })
AnnChoices == IF NewProf THEN {TRUE} ELSE PickP({TRUE}, BOOLEAN, {TRUE}, BOOLEAN)

VARIABLES case, stage
gvars == <<case, stage>>

Blank == [lines |-> << >>, ann |-> FALSE, sig |-> CanonSig,
          call |-> [npos |-> 1, kws |-> << >>, star |-> FALSE, dstar |-> FALSE],
          ta |-> <<"L1">>, tb |-> <<"Lx">>]

NIfs(lines) == Cardinality({i \in 1..Len(lines) : lines[i].k \in {"if", "elif"}})
ProbeBody(x) == << [ind |-> 0, k |-> "if", c |-> x], [ind |-> 1, k |-> "ret", c |-> NoCond],
                   [ind |-> 0, k |-> "ret", c |-> NoCond] >>
IsProbe(lines) == Len(lines) = 3 /\ lines[1].c \in ProbeLits /\ lines = ProbeBody(lines[1].c)
ProbeBody2(x) == << [ind |-> 0, k |-> "if", c |-> x], [ind |-> 1, k |-> "err", c |-> NoCond], [ind |-> 1, k |-> "ret", c |-> NoCond],
                    [ind |-> 0, k |-> "else", c |-> NoCond], [ind |-> 1, k |-> "err", c |-> NoCond], [ind |-> 1, k |-> "ret", c |-> NoCond] >>
IsProbe2(lines) == Len(lines) = 6 /\ lines = ProbeBody2(lines[1].c)

Init == case = Blank /\ stage = "body"

AddLeaf ==
    /\ stage = "body" /\ Len(case.lines) < MaxLines
    /\ \E ind \in 0..MaxDepth, k \in LeafKinds :
         LET ln == [ind |-> ind, k |-> k, c |-> NoCond] IN
         /\ CanAppend(case.lines, ln)
         /\ (k = "pass" => case.lines # << >> /\ IsHeader(case.lines[Len(case.lines)]))  \* pass only as a whole block
         /\ case' = [case EXCEPT !.lines = Append(@, ln)]
    /\ UNCHANGED stage
AddElse ==
    /\ stage = "body" /\ Len(case.lines) + 1 < MaxLines
    /\ \E ind \in 0..(MaxDepth - 1) :
         LET ln == [ind |-> ind, k |-> "else", c |-> NoCond] IN
         /\ CanAppend(case.lines, ln)
         /\ case' = [case EXCEPT !.lines = Append(@, ln)]
    /\ UNCHANGED stage
AddIf ==
    /\ stage = "body" /\ Len(case.lines) + 1 < MaxLines /\ NIfs(case.lines) < MaxIfs
    /\ \E ind \in 0..(MaxDepth - 1), k \in {"if", "elif"} :
         \E cond \in CondsUpTo(MaxAtoms - BodyNAtoms(case.lines, 1), Len(case.lines)) :
            LET ln == [ind |-> ind, k |-> k, c |-> cond] IN
            /\ CanAppend(case.lines, ln)
            /\ case' = [case EXCEPT !.lines = Append(@, ln)]
    /\ UNCHANGED stage
\* the kind probes start from their fixed three-line body
StartProbe ==
    /\ stage = "body" /\ case.lines = << >> /\ ~CorrQ /\ ~NewProf
    /\ \E x \in ProbeLits : case' = [case EXCEPT !.lines = ProbeBody(x)]
    /\ stage' = "sig"
\* the probes of the condition families: the six-line body, canonical signature and call
StartProbe2 ==
    /\ stage = "body" /\ case.lines = << >> /\ NewProf
    /\ \E x \in Probe2Lits : case' = [case EXCEPT !.lines = ProbeBody2(x), !.ann = TRUE]
    /\ stage' = "types"
EndBody ==
    /\ stage = "body" /\ Complete(case.lines) /\ NIfs(case.lines) >= 1 /\ ~IsProbe(case.lines)
    /\ (CorrQ => TypeVarsTested(case.lines) = Vars)
    /\ \E ann \in AnnChoices : case' = [case EXCEPT !.ann = ann]
    /\ stage' = "sig"
ChooseSig ==
    /\ stage = "sig"
    /\ \E pa \in ParamSpace, pb \in ParamSpace :
         LET sig == <<pa, pb>> IN
         /\ SigOK(sig)
         /\ (IsProbe(case.lines) \/ sig \in BodySigs)
         /\ (KindVarsTested(case.lines) = {} => sig \in {CanonSig, EllSig})
         /\ case' = [case EXCEPT !.sig = sig]
    /\ stage' = "call"
ChooseCall ==
    /\ stage = "call"
    /\ \E call \in CallSpace :
         LET c2 == [case EXCEPT !.call = call] IN
         /\ CallOK(case.sig, call)
         /\ (CorrQ => call.npos = 2 /\ call.kws = << >>)
         /\ (NewProf => call = Blank.call)
         /\ \A v \in TypeVarsTested(case.lines) : Typed(c2, v)
         /\ (KindVarsTested(case.lines) = {} => ~call.star /\ ~call.dstar /\ call.kws \in {<< >>, <<"b">>})
         /\ case' = c2
    /\ stage' = "types"
ChooseTypes ==
    /\ stage = "types"
    /\ \E ta \in ArgTypesA, tb \in ArgTypesB :
         /\ ((ExplicitV(case, "a") /\ "a" \in TypeVarsTested(case.lines)) \/ ta = <<"L1">>)
         /\ ((ExplicitV(case, "b") /\ "b" \in TypeVarsTested(case.lines)) \/ tb = <<"Lx">>)
         /\ (Profile = "ccmp" /\ ~IsProbe2(case.lines) => ta \in CmpBodyArgTypes)   \* every type only for the probes
         /\ case' = [case EXCEPT !.ta = ta, !.tb = tb]
    /\ stage' = "done"

Next == AddLeaf \/ AddElse \/ AddIf \/ StartProbe \/ StartProbe2 \/ EndBody \/ ChooseSig \/ ChooseCall \/ ChooseTypes

(***************************************************************************)
(* Properties on the model                                                 *)
(***************************************************************************)
Done == stage = "done"
\* the three argument-kind predicates computed from the binder's positions are the documented ones
ArgumentKindsFollowSpec == Done => KindsAgree(case, [v \in Vars |-> ImplPos(case, v)])
\* One judgement per case (evaluated once): the deviation classes and the two stronger statements
Judge(c, env) ==
    LET R == RefObs(c, env)
        I == ImplObs(c, env)
        cls == IF I = R THEN {} ELSE Class(c, env)
    IN [cls |-> cls,
        \* without union-typed parameters, `Any` arguments and `...` defaults the evaluation is exactly
        \* the documented one: no deviation class applies
        single |-> (UnionVars(c) = {} /\ ~UsesEll(c) /\ "Any" \notin ToSet(c.ta) \cup ToSet(c.tb)) => I = R,
        \* everything the specification prescribes is reported (result members, errors), except in
        \* the two classes that may under-approximate
        over |-> Sub(R, I) \/ cls \cap MayUnderApproximate # {}]
\* conditions are accepted / rejected as the specification says (or a named class explains it); an
\* evaluator that is accepted evaluates as documented.  (The result of calling a rejected evaluator
\* is not defined by the text.)
Accepted(c, env) == ~RefMustReject(c, env) /\ ~ImplRejected(c, env, NoFix) /\ ~ImplCrashes(c, env, NoFix)
EvalFollowsSpec ==
    Done => /\ "viol" \notin StatusClass(case, ModelEnv)
            /\ Accepted(case, ModelEnv) =>
                  LET j == Judge(case, ModelEnv) IN "viol" \notin j.cls /\ j.single /\ j.over
\* expected to be violated on the condition families: the three status deviations are real
StatusFollowsSpecStrict == Done => StatusReq(case, ModelEnv, Fixed)
\* expected to be violated: the deviations are real (sensitivity of the specification)
EvalFollowsSpecStrict == (Done /\ Accepted(case, ModelEnv)) => ImplObs(case, ModelEnv) = RefObs(case, ModelEnv)
OverApproximatesStrict == (Done /\ Accepted(case, ModelEnv)) => Sub(RefObs(case, ModelEnv), ImplObs(case, ModelEnv))
=============================================================================
