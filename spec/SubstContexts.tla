---------------------------- MODULE SubstContexts ----------------------------
(***************************************************************************)
(* C14, substitution / equality over a GRAMMAR WITH A HOLE.                *)
(*                                                                         *)
(* The property's anchor is "substitute_typevars on EACH Value class".     *)
(* Algebra.tla checks the laws on a list of 49 terms in which type         *)
(* variables sit at a few fixed places.  Here the terms are generated:     *)
(* a case is a CONTEXT  C = f1 . f2 . ... . fd  (a sequence of one-hole    *)
(* frames, one frame per constructor position of every Value class that    *)
(* holds sub-values), a FILLER for the hole (a mapped / unmapped type       *)
(* variable or a closed term) and a type-variable map.                     *)
(*                                                                         *)
(* Impl*: ImplSubstF / ImplEq / ImplSameHash / ImplUnite (Algebra.tla,     *)
(*        ValueAlgebra.tla: transcriptions of the methods, class by class) *)
(*        and ImplWalkVars (walk_values / extract_typevars) below.         *)
(* Ref*:  written from the STRUCTURE of the terms only (which sub-values a *)
(*        value holds = the fields of the dataclasses): FreeVars           *)
(*        (Algebra.tla), RefSubst (replace in every sub-value), Norm       *)
(*        (union = set, type[A | B] = type[A] | type[B], type[Any] = type, *)
(*        Annotated[A | B, m] = Annotated[A, m] | Annotated[B, m]) and     *)
(*        RefSame (structural identity; unions and TypedDict entries are   *)
(*        sets, parameters and metadata are sequences).  None of them      *)
(*        refers to an Impl operator.                                      *)
(***************************************************************************)
EXTENDS Algebra

CONSTANTS MaxDepth,     \* contexts of 0..MaxDepth frames
          Bug,          \* "none", or a seeded mistake of ImplSubstF (sensitivity cfgs)
          PairOuter,    \* "few" / "some" / "all": frames put around both sides of an equality pair
          Lean          \* TRUE (quick tier): contexts of depth 2 get the maps that matter for their filler only, pairs of
                        \* different frames the fillers T / int only; depth-3 contexts are always lean

(***************************************************************************)
(* Wide constructors (add to Values.tla's; C12's CallableT / AnnotatedT /  *)
(* ExtT / UnpackedT / OddObj are reused)                                   *)
(***************************************************************************)
TDX(items, extra, xro) == [k |-> "tdx", c |-> "dict", items |-> items, extra |-> extra, xro |-> xro]
ExactlyT(t) == [k |-> "exactly", t |-> t]
AsyncTaskT(t) == [k |-> "asynctask", t |-> t]
KnownFn == Known(OddObj("function"))
Prm(n, kind, t, d) == SigParam(n, kind, <<t>>, d)
Md1 == <<ExtT("value", Known(I1))>>

\* MultiValuedValue.__post_init__ (value.py:1958): the members are flattened (not de-duplicated) on construction
MkUnion(ms) == Union(Flatten(ms))

(***************************************************************************)
(* Frames: one per (Value class, position of a sub-value, flag setting)    *)
(***************************************************************************)
GenericFrames == {"list", "dictk", "dictv", "tup1", "tupmany", "tupmany1", "listdisp"}
DictIncFrames == {"dikey", "dival", "diopt", "dimany"}
TypedDictFrames == {"tdreq", "tdnreq", "tdro", "tdopt", "tdoptrev", "tdextra", "tdextraro"}
TypeFrames == {"type", "exactly"}
UnionFrames == {"optional", "unionr"}
AnnotatedFrames == {"annval", "annmd", "anntg", "annti", "annpg", "annnrg", "annha", "annhag", "anncc", "annccrev"}
CallableFrames == {"cparam", "cparamd", "cparampk", "cret", "cvar", "ckw", "cvarkw", "casynq", "c2xy", "c2yx"}
OtherFrames == {"unpacked", "atask"}
Frames == GenericFrames \cup DictIncFrames \cup TypedDictFrames \cup TypeFrames \cup UnionFrames \cup AnnotatedFrames
          \cup CallableFrames \cup OtherFrames

Plug(f, x) ==
    CASE f = "list"      -> Generic("list", <<x>>)
      [] f = "dictk"     -> Generic("dict", <<x, Typed("int")>>)
      [] f = "dictv"     -> Generic("dict", <<Typed("str"), x>>)
      [] f = "tup1"      -> SeqT("tuple", <<One(x), One(Typed("int"))>>)
      [] f = "tupmany"   -> SeqT("tuple", <<One(Typed("int")), Many(x)>>)
      [] f = "tupmany1"  -> SeqT("tuple", <<One(Typed("int")), One(x)>>)
      [] f = "listdisp"  -> SeqT("list", <<One(x)>>)
      [] f = "dikey"     -> DictInc(<<Pair(x, Typed("int"), FALSE, TRUE)>>)
      [] f = "dival"     -> DictInc(<<Pair(Known(SA), x, FALSE, TRUE)>>)
      [] f = "diopt"     -> DictInc(<<Pair(Known(SA), x, FALSE, FALSE)>>)
      [] f = "dimany"    -> DictInc(<<Pair(Typed("str"), x, TRUE, FALSE)>>)
      [] f = "tdreq"     -> TD(<<Ent("a", TRUE, x)>>)
      [] f = "tdnreq"    -> TD(<<Ent("a", FALSE, x)>>)
      [] f = "tdro"      -> TD(<<EntX("a", TRUE, TRUE, x)>>)
      [] f = "tdopt"     -> TD(<<EntX("a", FALSE, TRUE, x), Ent("b", TRUE, Typed("int"))>>)
      \* the same entries as "tdopt" declared in the other order (the same type: entries are a mapping)
      [] f = "tdoptrev"  -> TD(<<Ent("b", TRUE, Typed("int")), EntX("a", FALSE, TRUE, x)>>)
      [] f = "tdextra"   -> TDX(<<Ent("a", TRUE, Typed("int"))>>, <<x>>, FALSE)
      [] f = "tdextraro" -> TDX(<<Ent("a", TRUE, Typed("int"))>>, <<x>>, TRUE)
      [] f = "type"      -> SubclassT(x)
      [] f = "exactly"   -> ExactlyT(x)
      [] f = "optional"  -> MkUnion(<<x, Known(NONE)>>)
      [] f = "unionr"    -> MkUnion(<<Typed("str"), x>>)
      [] f = "annval"    -> AnnotatedT(x, Md1)
      [] f = "annmd"     -> AnnotatedT(Typed("int"), <<ExtT("value", x)>>)
      [] f = "anntg"     -> AnnotatedT(Typed("bool"), <<ExtT("typeguard", x)>>)
      [] f = "annti"     -> AnnotatedT(Typed("bool"), <<ExtT("typeis", x)>>)
      [] f = "annpg"     -> AnnotatedT(Typed("bool"), <<ExtT("paramguard", x)>>)
      [] f = "annnrg"    -> AnnotatedT(Known(NONE), <<ExtT("noreturnguard", x)>>)
      [] f = "annha"     -> AnnotatedT(Typed("A"), <<ExtT("hasattr", x)>>)
      [] f = "annhag"    -> AnnotatedT(Typed("bool"), <<ExtT("hasattrguard", x)>>)
      [] f = "anncc"     -> AnnotatedT(x, <<ExtT("literalonly", AnyT), ExtT("value", Known(SA))>>)
      \* the same metadata as "anncc" in the other order (a different type: metadata is a sequence)
      [] f = "annccrev"  -> AnnotatedT(x, <<ExtT("value", Known(SA)), ExtT("literalonly", AnyT)>>)
      [] f = "cparam"    -> CallableT(<<Prm("x", "pos", x, FALSE)>>, Typed("int"))
      [] f = "cparamd"   -> CallableT(<<Prm("x", "pos", x, TRUE)>>, Typed("int"))
      [] f = "cparampk"  -> CallableT(<<Prm("x", "pk", x, FALSE)>>, Typed("int"))
      [] f = "cret"      -> CallableT(<<Prm("x", "pos", Typed("int"), FALSE)>>, x)
      [] f = "cvar"      -> CallableT(<<Prm("a", "var", x, FALSE)>>, Typed("int"))
      [] f = "ckw"       -> CallableT(<<Prm("x", "pk", Typed("int"), TRUE), Prm("k", "kw", x, FALSE)>>, Typed("str"))
      [] f = "cvarkw"    -> CallableT(<<SigParam("x", "pk", << >>, FALSE), Prm("kw", "varkw", x, FALSE)>>, Typed("int"))
      [] f = "casynq"    -> [k |-> "callable", ps |-> <<Prm("x", "pos", x, FALSE)>>, ret |-> Typed("int"), asynq |-> TRUE]
      [] f = "c2xy"      -> CallableT(<<Prm("x", "pk", x, FALSE), Prm("y", "pk", Typed("str"), FALSE)>>, Typed("int"))
      [] f = "c2yx"      -> CallableT(<<Prm("y", "pk", Typed("str"), FALSE), Prm("x", "pk", x, FALSE)>>, Typed("int"))
      [] f = "unpacked"  -> UnpackedT(x)
      [] f = "atask"     -> AsyncTaskT(x)

\* SubclassValue.typ must be a TypedValue or a TypeVarValue (value.py:1840): type[...] frames take class-like arguments only
ClassLike(x) == x.k \in {"typevar", "typed", "generic", "seq"}
\* Signature.make (signature.py:1857) expands `*args: tuple[A, B]` into positional-only parameters and `**kw: TypedDict` into
\* keyword-only ones: such parameters do not exist as values, so the frames do not build them
CanPlug(f, x) == IF f \in TypeFrames THEN ClassLike(x)
                 ELSE IF f = "cvar" THEN x.k # "seq"
                 ELSE IF f = "cvarkw" THEN x.k \notin {"typeddict", "tdx"}
                 ELSE TRUE

Holes == {"T", "S", "int", "fn"}
HoleTerm(h) == CASE h = "T" -> TV("T") [] h = "S" -> TV("S") [] h = "int" -> Typed("int") [] h = "fn" -> KnownFn

RECURSIVE Term(_, _)
Term(cx, h) == IF cx = << >> THEN HoleTerm(h) ELSE Plug(Head(cx), Term(Tail(cx), h))
RECURSIVE TermOK(_, _)
TermOK(cx, h) == IF cx = << >> THEN TRUE ELSE IF TermOK(Tail(cx), h) THEN CanPlug(Head(cx), Term(Tail(cx), h)) ELSE FALSE

(***************************************************************************)
(* Type-variable maps: Algebra.tla's six plus a chain (T -> list[S],       *)
(* S -> int: substitution is ONE parallel step, value.py:2185 is a plain   *)
(* dict lookup) and a swap (T -> S, S -> T: a sequential implementation    *)
(* would collapse both to one variable)                                    *)
(***************************************************************************)
CtxMapNames == MapNames \cup {"T->list[S],S->int", "T->S,S->T"}
CtxMapOf(name) ==
    CASE name = "T->list[S],S->int" -> [T |-> Generic("list", <<TV("S")>>), S |-> Typed("int")]
      [] name = "T->S,S->T" -> [T |-> TV("S"), S |-> TV("T")]
      [] OTHER -> MapOf(name)
\* closed fillers only need a map that is non-empty (identity law); variables get every map -- or, for the lean part of
\* the space, the maps that touch them in different ways (class, union, chain, swap / literal, class, swap)
MapsFor(h, d) ==
    IF d <= 1 \/ (~Lean /\ d <= 2)
    THEN (IF h \in {"T", "S"} THEN CtxMapNames ELSE {"T->int", "T->str,S->1"})
    ELSE CASE h = "T" -> {"T->int", "T->int|str", "T->list[S],S->int", "T->S,S->T"}
           [] h = "S" -> {"T->str,S->1", "S->bool", "T->S,S->T"}
           [] OTHER -> {"T->int"}
\* depth 3: the outermost frame from Core1 (one or two frames per Value class), the innermost from Core3
Core1 == {"list", "tupmany", "dival", "dimany", "tdopt", "tdextra", "type", "exactly", "optional", "annval", "anntg", "annha",
          "cparam", "cret", "ckw", "unpacked", "atask"}
Core3 == {"list", "type", "optional", "annval", "cret"}

(***************************************************************************)
(* Ref: substitution as structural replacement, free variables of the      *)
(* expected result, normal form, structural identity                       *)
(***************************************************************************)
RECURSIVE RefSubst(_, _)
RefSubst(v, m) ==
    CASE v.k = "typevar" -> IF v.n \in DOMAIN m THEN m[v.n] ELSE v
      [] v.k = "generic" -> [v EXCEPT !.args = [i \in 1..Len(v.args) |-> RefSubst(v.args[i], m)]]
      [] v.k = "seq" -> [v EXCEPT !.ms = [i \in 1..Len(v.ms) |-> [v.ms[i] EXCEPT !.t = RefSubst(@, m)]]]
      [] v.k \in {"subclass", "exactly", "unpacked", "asynctask"} -> [v EXCEPT !.t = RefSubst(@, m)]
      [] v.k = "union" -> [v EXCEPT !.ms = [i \in 1..Len(v.ms) |-> RefSubst(v.ms[i], m)]]
      [] v.k = "typeddict" -> [v EXCEPT !.items = [i \in 1..Len(v.items) |-> [v.items[i] EXCEPT !.t = RefSubst(@, m)]]]
      [] v.k = "tdx" -> [v EXCEPT !.items = [i \in 1..Len(v.items) |-> [v.items[i] EXCEPT !.t = RefSubst(@, m)]],
                                  !.extra = [i \in 1..Len(v.extra) |-> RefSubst(v.extra[i], m)]]
      [] v.k = "dictinc" -> [v EXCEPT !.kvs = [i \in 1..Len(v.kvs) |-> [v.kvs[i] EXCEPT !.key = RefSubst(@, m), !.val = RefSubst(@, m)]]]
      [] v.k = "callable" -> [v EXCEPT !.ret = RefSubst(@, m),
                                       !.ps = [i \in 1..Len(v.ps) |-> [v.ps[i] EXCEPT !.t = [j \in 1..Len(v.ps[i].t) |-> RefSubst(v.ps[i].t[j], m)]]]]
      [] v.k = "annotated" -> [v EXCEPT !.t = RefSubst(@, m), !.md = [i \in 1..Len(v.md) |-> [v.md[i] EXCEPT !.t = RefSubst(@, m)]]]
      [] OTHER -> v

\* the variables the result may mention: the unmapped ones of v and those of the images of the mapped ones
RefResultVars(v, m) == (FreeVars(v) \ DOMAIN m) \cup UNION {FreeVars(m[n]) : n \in FreeVars(v) \cap DOMAIN m}

RECURSIVE RefSame(_, _)
RefSame(a, b) ==
    IF a.k # b.k THEN FALSE
    ELSE CASE a.k = "generic" -> a.c = b.c /\ Len(a.args) = Len(b.args) /\ \A i \in 1..Len(a.args) : RefSame(a.args[i], b.args[i])
           [] a.k = "seq" -> a.c = b.c /\ Len(a.ms) = Len(b.ms) /\ \A i \in 1..Len(a.ms) : a.ms[i].many = b.ms[i].many /\ RefSame(a.ms[i].t, b.ms[i].t)
           [] a.k \in {"subclass", "exactly", "unpacked", "asynctask"} -> RefSame(a.t, b.t)
           [] a.k = "union" -> /\ \A i \in 1..Len(a.ms) : \E j \in 1..Len(b.ms) : RefSame(a.ms[i], b.ms[j])
                               /\ \A j \in 1..Len(b.ms) : \E i \in 1..Len(a.ms) : RefSame(a.ms[i], b.ms[j])
           \* the fields of a TypedDict are a mapping: their order carries no meaning
           [] a.k \in {"typeddict", "tdx"} ->
                /\ Len(a.items) = Len(b.items)
                /\ \A i \in 1..Len(a.items) : \E j \in 1..Len(b.items) :
                      /\ a.items[i].key = b.items[j].key /\ a.items[i].req = b.items[j].req /\ a.items[i].ro = b.items[j].ro
                      /\ RefSame(a.items[i].t, b.items[j].t)
                /\ (a.k = "tdx" => /\ Len(a.extra) = Len(b.extra) /\ a.xro = b.xro
                                   /\ \A i \in 1..Len(a.extra) : RefSame(a.extra[i], b.extra[i]))
           [] a.k = "dictinc" -> /\ Len(a.kvs) = Len(b.kvs)
                                 /\ \A i \in 1..Len(a.kvs) : /\ a.kvs[i].many = b.kvs[i].many /\ a.kvs[i].req = b.kvs[i].req
                                                             /\ RefSame(a.kvs[i].key, b.kvs[i].key) /\ RefSame(a.kvs[i].val, b.kvs[i].val)
           \* the parameters of a signature are a SEQUENCE: (x: int, y: str) and (y: str, x: int) are different types
           [] a.k = "callable" -> /\ Len(a.ps) = Len(b.ps) /\ SigAsynq(a) = SigAsynq(b) /\ RefSame(a.ret, b.ret)
                                  /\ \A i \in 1..Len(a.ps) : /\ a.ps[i].n = b.ps[i].n /\ a.ps[i].kind = b.ps[i].kind /\ a.ps[i].d = b.ps[i].d
                                                             /\ Len(a.ps[i].t) = Len(b.ps[i].t)
                                                             /\ \A j \in 1..Len(a.ps[i].t) : RefSame(a.ps[i].t[j], b.ps[i].t[j])
           [] a.k = "annotated" -> /\ RefSame(a.t, b.t) /\ Len(a.md) = Len(b.md)
                                   /\ \A i \in 1..Len(a.md) : a.md[i].x = b.md[i].x /\ RefSame(a.md[i].t, b.md[i].t)
           [] a.k = "known" -> KVEq(a.o, b.o)
           [] OTHER -> a = b

\* de-duplicated sequence (first occurrences), through RefSame
RECURSIVE RefDedupe(_, _)
RefDedupe(s, acc) ==
    IF s = << >> THEN acc
    ELSE RefDedupe(Tail(s), IF \E i \in 1..Len(acc) : RefSame(acc[i], Head(s)) THEN acc ELSE Append(acc, Head(s)))
RECURSIVE RefSplice(_)
RefSplice(s) == IF s = << >> THEN << >> ELSE (IF Head(s).k = "union" THEN Head(s).ms ELSE <<Head(s)>>) \o RefSplice(Tail(s))
NormUnion(ms) == LET d == RefDedupe(RefSplice(ms), << >>) IN IF Len(d) = 1 THEN d[1] ELSE Union(d)

RECURSIVE Norm(_)
Norm(v) ==
    CASE v.k = "generic" -> [v EXCEPT !.args = [i \in 1..Len(v.args) |-> Norm(v.args[i])]]
      [] v.k = "seq" -> [v EXCEPT !.ms = [i \in 1..Len(v.ms) |-> [v.ms[i] EXCEPT !.t = Norm(@)]]]
      [] v.k \in {"unpacked", "asynctask"} -> [v EXCEPT !.t = Norm(@)]
      \* type[A | B] is type[A] | type[B]; type[Any] is the plain class `type`
      [] v.k \in {"subclass", "exactly"} ->
            LET t == Norm(v.t)
            IN CASE t.k = "union" -> NormUnion([i \in 1..Len(t.ms) |-> [v EXCEPT !.t = t.ms[i]]])
                 [] t.k = "any" -> Typed("type")
                 [] OTHER -> [v EXCEPT !.t = t]
      [] v.k = "union" -> NormUnion([i \in 1..Len(v.ms) |-> Norm(v.ms[i])])
      [] v.k = "typeddict" -> [v EXCEPT !.items = [i \in 1..Len(v.items) |-> [v.items[i] EXCEPT !.t = Norm(@)]]]
      [] v.k = "tdx" -> [v EXCEPT !.items = [i \in 1..Len(v.items) |-> [v.items[i] EXCEPT !.t = Norm(@)]],
                                  !.extra = [i \in 1..Len(v.extra) |-> Norm(v.extra[i])]]
      [] v.k = "dictinc" -> [v EXCEPT !.kvs = [i \in 1..Len(v.kvs) |-> [v.kvs[i] EXCEPT !.key = Norm(@), !.val = Norm(@)]]]
      [] v.k = "callable" -> [v EXCEPT !.ret = Norm(@),
                                       !.ps = [i \in 1..Len(v.ps) |-> [v.ps[i] EXCEPT !.t = [j \in 1..Len(v.ps[i].t) |-> Norm(v.ps[i].t[j])]]]]
      \* Annotated[A | B, md] is Annotated[A, md] | Annotated[B, md]
      [] v.k = "annotated" ->
            LET t == Norm(v.t)
                md == [i \in 1..Len(v.md) |-> [v.md[i] EXCEPT !.t = Norm(@)]]
            IN IF t.k = "union" THEN NormUnion([i \in 1..Len(t.ms) |-> [v EXCEPT !.t = t.ms[i], !.md = md]])
               ELSE [v EXCEPT !.t = t, !.md = md]
      \* a literal of a callable object that remembers a type-variable map is the same literal
      [] v.k = "knowntv" -> Known(v.o)
      [] OTHER -> v
NormEq(x, y) == RefSame(Norm(x), Norm(y))

\* type[X] only has a meaning for class-like X (after normalisation: a class, a generic alias, a type variable, Any or a union of those)
RECURSIVE WellFormed(_)
WellFormed(v) ==
    CASE v.k = "generic" -> \A i \in 1..Len(v.args) : WellFormed(v.args[i])
      [] v.k = "seq" -> \A i \in 1..Len(v.ms) : WellFormed(v.ms[i].t)
      [] v.k \in {"unpacked", "asynctask"} -> WellFormed(v.t)
      [] v.k \in {"subclass", "exactly"} ->
            /\ WellFormed(v.t)
            /\ \/ ClassLike(v.t) \/ v.t.k \in {"any", "newtype", "typeddict", "tdx", "dictinc", "callable", "asynctask"}
               \/ (v.t.k = "union" /\ \A i \in 1..Len(v.t.ms) : ClassLike(v.t.ms[i]))
      [] v.k = "union" -> \A i \in 1..Len(v.ms) : WellFormed(v.ms[i])
      [] v.k = "typeddict" -> \A i \in 1..Len(v.items) : WellFormed(v.items[i].t)
      [] v.k = "tdx" -> (\A i \in 1..Len(v.items) : WellFormed(v.items[i].t)) /\ (\A i \in 1..Len(v.extra) : WellFormed(v.extra[i]))
      [] v.k = "dictinc" -> \A i \in 1..Len(v.kvs) : WellFormed(v.kvs[i].key) /\ WellFormed(v.kvs[i].val)
      [] v.k = "callable" -> WellFormed(v.ret) /\ \A i \in 1..Len(v.ps) : \A j \in 1..Len(v.ps[i].t) : WellFormed(v.ps[i].t[j])
      [] v.k = "annotated" -> WellFormed(v.t) /\ \A i \in 1..Len(v.md) : WellFormed(v.md[i].t)
      [] OTHER -> TRUE

(***************************************************************************)
(* Impl: walk_values / extract_typevars (value.py:3341) -- the sub-values  *)
(* each class YIELDS (value.py:164 default: only self)                     *)
(***************************************************************************)
RECURSIVE ImplWalkVars(_)
ImplWalkVars(v) ==
    CASE v.k = "typevar" -> {v.n}
      [] v.k = "generic" -> UNION {ImplWalkVars(v.args[i]) : i \in 1..Len(v.args)}                       \* value.py:1141
      [] v.k = "seq" -> UNION {ImplWalkVars(v.ms[i].t) : i \in 1..Len(v.ms)}                              \* value.py:1275
      [] v.k = "dictinc" -> UNION {ImplWalkVars(v.kvs[i].key) \cup ImplWalkVars(v.kvs[i].val) : i \in 1..Len(v.kvs)}   \* value.py:1348
      \* TypedDictValue.walk_values (value.py:1704) yields the entry types and (since fix b707bb5) the extra-keys type;
      \* Bug = "extra-keys-not-walked" is the behaviour before the fix (sensitivity cfg SubstContexts.bug_extrakeys.cfg)
      [] v.k = "typeddict" -> UNION {ImplWalkVars(v.items[i].t) : i \in 1..Len(v.items)}
      [] v.k = "tdx" -> UNION ({ImplWalkVars(v.items[i].t) : i \in 1..Len(v.items)}
                               \cup (IF Bug = "extra-keys-not-walked" THEN {} ELSE {ImplWalkVars(v.extra[i]) : i \in 1..Len(v.extra)}))
      [] v.k = "asynctask" -> ImplWalkVars(v.t)                                                            \* value.py:1730
      \* CallableValue (value.py:1756) -> Signature.walk_values (signature.py:1809): return value and annotations
      [] v.k = "callable" -> ImplWalkVars(v.ret) \cup UNION {UNION {ImplWalkVars(v.ps[i].t[j]) : j \in 1..Len(v.ps[i].t)} : i \in 1..Len(v.ps)}
      [] v.k \in {"subclass", "exactly"} -> ImplWalkVars(v.t)                                              \* value.py:1855
      [] v.k = "union" -> UNION {ImplWalkVars(v.ms[i]) : i \in 1..Len(v.ms)}                              \* value.py:2102
      \* AnnotatedValue (value.py:2630): the value and the walk_values of every metadata item; Extension default: nothing
      [] v.k = "annotated" -> ImplWalkVars(v.t) \cup UNION {IF v.md[i].x \in {"value", "typeguard", "typeis", "paramguard", "noreturnguard", "hasattr", "hasattrguard"}
                                                            THEN ImplWalkVars(v.md[i].t) ELSE {} : i \in 1..Len(v.md)}
      \* UnpackedValue has no walk_values: Value.walk_values yields self only
      [] OTHER -> {}

(***************************************************************************)
(* Named deviations of the unchanged tree (known_findings.jsonl)           *)
(***************************************************************************)
\* sub-terms of a given kind that mention a variable of S
RECURSIVE HasKindWithVars(_, _, _)
HasKindWithVars(v, kind, S) ==
    \/ (v.k = kind /\ (IF kind = "tdx" THEN \E i \in 1..Len(v.extra) : FreeVars(v.extra[i]) \cap S # {} ELSE FreeVars(v) \cap S # {}))
    \/ CASE v.k = "generic" -> \E i \in 1..Len(v.args) : HasKindWithVars(v.args[i], kind, S)
         [] v.k = "seq" -> \E i \in 1..Len(v.ms) : HasKindWithVars(v.ms[i].t, kind, S)
         [] v.k \in {"subclass", "exactly", "unpacked", "asynctask"} -> HasKindWithVars(v.t, kind, S)
         [] v.k = "union" -> \E i \in 1..Len(v.ms) : HasKindWithVars(v.ms[i], kind, S)
         [] v.k = "typeddict" -> \E i \in 1..Len(v.items) : HasKindWithVars(v.items[i].t, kind, S)
         [] v.k = "tdx" -> (\E i \in 1..Len(v.items) : HasKindWithVars(v.items[i].t, kind, S)) \/ (\E i \in 1..Len(v.extra) : HasKindWithVars(v.extra[i], kind, S))
         [] v.k = "dictinc" -> \E i \in 1..Len(v.kvs) : HasKindWithVars(v.kvs[i].key, kind, S) \/ HasKindWithVars(v.kvs[i].val, kind, S)
         [] v.k = "callable" -> HasKindWithVars(v.ret, kind, S) \/ \E i \in 1..Len(v.ps) : \E j \in 1..Len(v.ps[i].t) : HasKindWithVars(v.ps[i].t[j], kind, S)
         [] v.k = "annotated" -> HasKindWithVars(v.t, kind, S) \/ \E i \in 1..Len(v.md) : HasKindWithVars(v.md[i].t, kind, S)
         [] OTHER -> FALSE
AllVars == {"T", "S"}
\* 1. UnpackedValue (value.py:2660) holds a value but defines neither substitute_typevars nor walk_values: a type variable
\*    below it is neither replaced nor seen by extract_typevars
Dev_UnpackedNotSubstituted(a, m) == HasKindWithVars(a, "unpacked", DOMAIN m)
Dev_UnpackedNotWalked(a) == HasKindWithVars(a, "unpacked", AllVars)
\* 2. (repaired, /repo b707bb5: TypedDictValue.walk_values now yields extra_keys; it used to be the deviation class
\*    typeddict-extra-keys-not-walked.  A regression is a plain violation of ExtractTypevarsAgrees.)
\* 3. KnownValue.substitute_typevars (value.py:654) turns a literal of a callable object into a KnownValueWithTypeVars, which
\*    compares equal to the original (KnownValue.__eq__) but hashes differently (generated dataclass hash over (val,)):
\*    substitution is not the identity on the closed value as far as hashing (set / dict membership, union merging) goes;
\*    inside a union even == fails (MultiValuedValue.__eq__ compares sets of members)
RECURSIVE HasCallableKnown(_)
HasCallableKnown(v) ==
    CASE v.k = "known" -> v.o.c = "type" \/ (v.o.c = "odd" /\ v.o.v \in CallableOdd)
      [] v.k = "generic" -> \E i \in 1..Len(v.args) : HasCallableKnown(v.args[i])
      [] v.k = "seq" -> \E i \in 1..Len(v.ms) : HasCallableKnown(v.ms[i].t)
      [] v.k \in {"subclass", "exactly", "asynctask"} -> HasCallableKnown(v.t)
      [] v.k = "union" -> \E i \in 1..Len(v.ms) : HasCallableKnown(v.ms[i])
      [] v.k = "typeddict" -> \E i \in 1..Len(v.items) : HasCallableKnown(v.items[i].t)
      [] v.k = "tdx" -> (\E i \in 1..Len(v.items) : HasCallableKnown(v.items[i].t)) \/ (\E i \in 1..Len(v.extra) : HasCallableKnown(v.extra[i]))
      [] v.k = "dictinc" -> \E i \in 1..Len(v.kvs) : HasCallableKnown(v.kvs[i].key) \/ HasCallableKnown(v.kvs[i].val)
      [] v.k = "callable" -> HasCallableKnown(v.ret) \/ \E i \in 1..Len(v.ps) : \E j \in 1..Len(v.ps[i].t) : HasCallableKnown(v.ps[i].t[j])
      [] v.k = "annotated" -> HasCallableKnown(v.t) \/ \E i \in 1..Len(v.md) : HasCallableKnown(v.md[i].t)
      [] OTHER -> FALSE
Dev_CallableLiteralRehashed(a) == HasCallableKnown(a)
\* 4. Signature equality compares the `parameters` dicts (order-insensitive) while Signature.__hash__ (signature.py:578) hashes
\*    them in order: two callables with the same named parameters in a different order are == yet hash differently -- and
\*    they are different types in the first place
RECURSIVE HasMultiParamCallable(_)
HasMultiParamCallable(v) ==
    CASE v.k = "callable" -> Len(v.ps) >= 2 \/ HasMultiParamCallable(v.ret) \/ \E i \in 1..Len(v.ps) : \E j \in 1..Len(v.ps[i].t) : HasMultiParamCallable(v.ps[i].t[j])
      [] v.k = "generic" -> \E i \in 1..Len(v.args) : HasMultiParamCallable(v.args[i])
      [] v.k = "seq" -> \E i \in 1..Len(v.ms) : HasMultiParamCallable(v.ms[i].t)
      [] v.k \in {"subclass", "exactly", "unpacked", "asynctask"} -> HasMultiParamCallable(v.t)
      [] v.k = "union" -> \E i \in 1..Len(v.ms) : HasMultiParamCallable(v.ms[i])
      [] v.k = "typeddict" -> \E i \in 1..Len(v.items) : HasMultiParamCallable(v.items[i].t)
      [] v.k = "tdx" -> (\E i \in 1..Len(v.items) : HasMultiParamCallable(v.items[i].t)) \/ (\E i \in 1..Len(v.extra) : HasMultiParamCallable(v.extra[i]))
      [] v.k = "dictinc" -> \E i \in 1..Len(v.kvs) : HasMultiParamCallable(v.kvs[i].key) \/ HasMultiParamCallable(v.kvs[i].val)
      [] v.k = "annotated" -> HasMultiParamCallable(v.t) \/ \E i \in 1..Len(v.md) : HasMultiParamCallable(v.md[i].t)
      [] OTHER -> FALSE
Dev_SignatureParameterOrder(a, b) == HasMultiParamCallable(a) /\ HasMultiParamCallable(b)

(***************************************************************************)
(* The laws on the model (ImplSubstF with the configured Bug)              *)
(***************************************************************************)
SubstM(v, m) == ImplSubstF(v, m, Bug)
\* companions of a for "commutes with uniting": a plain class, the variable, a union with the variable, and the same
\* context around a closed filler (so that the two sides merge after the substitution T -> int)
Companions(cx) == <<Typed("int"), TV("T"), Union(<<TV("T"), Known(NONE)>>), Term(cx, "int")>>

L_ReplacesAllStrict(a, m) == FreeVars(SubstM(a, m)) \subseteq RefResultVars(a, m)
L_ReplacesAll(a, m) == L_ReplacesAllStrict(a, m) \/ Dev_UnpackedNotSubstituted(a, m)
L_StructureStrict(a, m) == WellFormed(RefSubst(a, m)) => NormEq(SubstM(a, m), RefSubst(a, m))
L_Structure(a, m) == L_StructureStrict(a, m) \/ Dev_UnpackedNotSubstituted(a, m)
L_IdentityStrict(a, m) == Closed(a) => (ImplEq(SubstM(a, m), a) /\ ImplSameHash(SubstM(a, m), a))
L_Identity(a, m) == L_IdentityStrict(a, m) \/ Dev_CallableLiteralRehashed(a)
L_Commutes(a, b, m) == ImplEq(SubstM(U2(a, b), m), U2(SubstM(a, m), SubstM(b, m)))
L_SubstEqHash(a, m) == ImplEq(SubstM(a, m), SubstM(a, m)) /\ ImplSameHash(SubstM(a, m), SubstM(a, m))
L_WalkStrict(a) == ImplWalkVars(a) = FreeVars(a)
L_Walk(a) == L_WalkStrict(a) \/ Dev_UnpackedNotWalked(a)
\* equality / hashing of two separately built values
L_PairEqHashStrict(a, b) == ImplEq(a, b) => ImplSameHash(a, b)
L_PairEqHash(a, b) == L_PairEqHashStrict(a, b) \/ Dev_SignatureParameterOrder(a, b)
L_PairDiscriminatesStrict(a, b) == ImplEq(a, b) <=> RefSame(a, b)
L_PairDiscriminates(a, b) == L_PairDiscriminatesStrict(a, b) \/ Dev_SignatureParameterOrder(a, b)

(***************************************************************************)
(* Staged generator                                                        *)
(***************************************************************************)
VARIABLES cx, hl, cy, hy
cvars == <<stage, ta, tb, ob, tc, tm, cx, hl, cy, hy>>

CInit == /\ stage = "ctx" /\ ta = Never /\ tb = Never /\ ob = NONE /\ tc = Never /\ tm = "T->int"
         /\ cx = << >> /\ hl = "T" /\ cy = << >> /\ hy = "T"
CPush == /\ stage = "ctx" /\ Len(cx) < MaxDepth
         /\ \E f \in Frames : (IF Len(cx) = 2 THEN cx[1] \in Core1 /\ f \in Core3 ELSE TRUE) /\ cx' = Append(cx, f)
         /\ UNCHANGED <<stage, ta, tb, ob, tc, tm, hl, cy, hy>>
CFill == /\ stage = "ctx"
         /\ \E h \in Holes : \E n \in MapsFor(h, Len(cx)) : TermOK(cx, h) /\ hl' = h /\ tm' = n
         /\ stage' = "done" /\ UNCHANGED <<ta, tb, ob, tc, cx, cy, hy>>
\* equality pairs: frames f and g (optionally both below the same outer frame) around fillers h and h'
POuters == CASE PairOuter = "all" -> Frames
             [] PairOuter = "some" -> {"list", "optional", "annval", "cret", "tdreq", "type"}
             [] OTHER -> {"list"}
PStart == /\ stage = "ctx" /\ cx = << >>
          /\ \E f \in Frames, g \in Frames : \/ (cx' = <<f>> /\ cy' = <<g>>)
                                            \/ \E o \in POuters : cx' = <<o, f>> /\ cy' = <<o, g>>
          /\ stage' = "pair" /\ UNCHANGED <<ta, tb, ob, tc, tm, hl, hy>>
PFill == /\ stage = "pair"
         /\ \E h \in Holes, h2 \in Holes :
               \* different frames: same filler; same frame: every pair of fillers
               /\ (IF cx[Len(cx)] # cy[Len(cy)] THEN h = h2 /\ (IF Lean THEN h \in {"T", "int"} ELSE TRUE) ELSE TRUE)
               /\ TermOK(cx, h) /\ TermOK(cy, h2) /\ hl' = h /\ hy' = h2
         /\ stage' = "donepair" /\ UNCHANGED <<ta, tb, ob, tc, tm, cx, cy>>
CNext == CPush \/ CFill
PNext == PStart \/ PFill
CPNext == CNext \/ PNext

CDone == stage = "done"
PDone == stage = "donepair"
CA == Term(cx, hl)
CM == CtxMapOf(tm)
InvReplacesAll == CDone => L_ReplacesAll(CA, CM)
InvStructure == CDone => L_Structure(CA, CM)
InvIdentity == CDone => L_Identity(CA, CM)
InvCommutes == CDone => \A i \in 1..4 : L_Commutes(CA, Companions(cx)[i], CM)
InvSubstEqHash == CDone => L_SubstEqHash(CA, CM)
InvWalk == CDone => L_Walk(CA)
InvPairEqHash == PDone => L_PairEqHash(Term(cx, hl), Term(cy, hy))
InvPairDiscriminates == PDone => L_PairDiscriminates(Term(cx, hl), Term(cy, hy))
\* strict versions: expected to be violated (the deviations are real on the model of the unchanged tree)
InvReplacesAllStrict == CDone => L_ReplacesAllStrict(CA, CM)
InvStructureStrict == CDone => L_StructureStrict(CA, CM)
InvIdentityStrict == CDone => L_IdentityStrict(CA, CM)
InvWalkStrict == CDone => L_WalkStrict(CA)
InvPairEqHashStrict == PDone => L_PairEqHashStrict(Term(cx, hl), Term(cy, hy))
InvPairDiscriminatesStrict == PDone => L_PairDiscriminatesStrict(Term(cx, hl), Term(cy, hy))
=============================================================================
