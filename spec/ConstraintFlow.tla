--------------------------- MODULE ConstraintFlow ---------------------------
(***************************************************************************)
(* Flow-level half of property C02: constraints are attached to the        *)
(* definition nodes that were current when the condition was EVALUATED and *)
(* may be applied later (condition saved in a variable, evaluated in one   *)
(* branch and used after the merge, operands of and / or, while conditions *)
(* re-applied on the second visit of a loop body, walrus, early return).   *)
(*                                                                         *)
(* A case is a small Python function over the tested variable x, the       *)
(* saved-condition variable ok and opaque flag() calls:                     *)
(*     [decl |-> declared type of the parameter x, toks |-> token sequence]*)
(* Tokens (uniform records [t, c, d]; c a condition of Narrowing.tla on x, *)
(* d a literal object):                                                    *)
(*   asg   x = <d>                     save  ok = <c>                       *)
(*   okflag ok = flag()                use   U(<index>, x)                  *)
(*   ret   return                                                          *)
(*   ifflag if flag():                 ifok  if ok: / if not ok:            *)
(*   ifc   if <c>:                     ifwal if (ok := <c>):                *)
(*   ifand if <c> and U(<index>, x):   ifor  if <c> or U(<index>, x):       *)
(*   whflag while flag():  whok while ok: / while not ok:  whc while <c>:  *)
(*   else / end   (end closes an if or a while)                            *)
(* For ifok / whok c is CTruthy (`ok`) or CNot(CTruthy) (`not ok`).        *)
(* U(k, v) records v at run time and returns True.                          *)
(*                                                                         *)
(* Impl*  the scope machine of pyanalyze, one operator per piece of code:  *)
(*   FunctionScope.set / get_local / subscope / combine_subscopes /         *)
(*   add_constraint / _add_single_constraint (origin guard, fake            *)
(*   definition node carrying a _ConstrainedValue) / _resolve_origin /      *)
(*   _resolve_value / _get_value_from_nodes (stacked_scopes.py), and the    *)
(*   visitor's visit_If / visit_While (two visits of the body while         *)
(*   collecting) / visit_BoolOp / visit_UnaryOp / composite_from_walrus /   *)
(*   _visit_possible_constraint / extract_constraints (a saved condition    *)
(*   keeps its constraint as a ConstraintExtension on the value of ok).     *)
(*   Only the collecting phase builds reachable fake nodes (the key of a    *)
(*   fake node contains the Constraint object, which is created anew in    *)
(*   the checking phase, and lookups of the checking phase go through      *)
(*   usage_to_definition_nodes recorded while collecting).                 *)
(* Ref*   concrete small-step execution of the same function under CPython *)
(*   semantics for every choice of the opaque flags and every argument     *)
(*   object of the declared type; HoldsCode / Member (Narrowing / Values)  *)
(*   are the only imports.  Nothing on the Ref side mentions a definition  *)
(*   node, a constraint or an origin.                                      *)
(***************************************************************************)
EXTENDS Narrowing

CONSTANTS FKinds,      \* token kinds the generator may use
          FConds,      \* names of the conditions on x: "int" "str" "none" "nnone" and their `not (...)` forms "!int" ...
          FLits,       \* names of the literals for `x = <lit>`: "1" "a" "None"
          FDecls,      \* names of the declared types of x: "is" (int | str), "in" (int | None), "isn" (int | str | None)
          FMaxStmts,   \* maximal number of statements (tokens other than else / end)
          FMaxDepth,   \* maximal block nesting
          FBits,       \* run-time: number of flag() calls that may return True or False (later calls return False)
          FMaxTicks,   \* run-time: a run is cut when a loop body is entered for the (FMaxTicks+1)-th time
          FBug,        \* sensitivity: "none" | "guard_reversed" | "guard_removed" | "visit_once" | "assign_appends" | "shared_fake_nodes"
          FFixed       \* names of proposed repairs applied to the code under test ({} = as found)

Tok(t, c, d) == [t |-> t, c |-> c, d |-> d]
NoCond == CTruthy
NotOk == CNot(CTruthy)

CondOf(name) ==
    CASE name = "int" -> CIsinstance(<<"int">>)
      [] name = "str" -> CIsinstance(<<"str">>)
      [] name = "none" -> CIs(NONE, FALSE)
      [] name = "nnone" -> CIs(NONE, TRUE)
      [] name = "!int" -> CNot(CIsinstance(<<"int">>))
      [] name = "!str" -> CNot(CIsinstance(<<"str">>))
      [] name = "!none" -> CNot(CIs(NONE, FALSE))
      [] name = "!nnone" -> CNot(CIs(NONE, TRUE))
LitOf(name) == CASE name = "1" -> I1 [] name = "a" -> SA [] name = "None" -> NONE
DeclOf(name) ==
    CASE name = "is" -> Union(<<Typed("int"), Typed("str")>>)
      [] name = "in" -> Union(<<Typed("int"), Known(NONE)>>)
      [] name = "isn" -> Union(<<Typed("int"), Typed("str"), Known(NONE)>>)

IfKinds == {"ifflag", "ifok", "ifc", "ifwal", "ifand", "ifor"}
WhileKinds == {"whflag", "whok", "whc"}
Openers == IfKinds \cup WhileKinds
UseKinds == {"use", "ifand", "ifor"}       \* tokens that contain a recorded read of x

(***************************************************************************)
(* Block structure of a token sequence                                     *)
(***************************************************************************)
\* index of the `end` that closes the opener at i
RECURSIVE ScanEnd(_, _, _)
ScanEnd(toks, j, depth) ==
    IF j > Len(toks) THEN 0
    ELSE IF toks[j].t \in Openers THEN ScanEnd(toks, j + 1, depth + 1)
    ELSE IF toks[j].t = "end" THEN (IF depth = 0 THEN j ELSE ScanEnd(toks, j + 1, depth - 1))
    ELSE ScanEnd(toks, j + 1, depth)
MatchEnd(toks, i) == ScanEnd(toks, i + 1, 0)
\* index of the `else` of the `if` at i (0 = none)
RECURSIVE ScanElse(_, _, _)
ScanElse(toks, j, depth) ==
    IF j > Len(toks) THEN 0
    ELSE IF toks[j].t \in Openers THEN ScanElse(toks, j + 1, depth + 1)
    ELSE IF toks[j].t = "end" THEN (IF depth = 0 THEN 0 ELSE ScanElse(toks, j + 1, depth - 1))
    ELSE IF toks[j].t = "else" /\ depth = 0 THEN j
    ELSE ScanElse(toks, j + 1, depth)
MatchElse(toks, i) == ScanElse(toks, i + 1, 0)
\* index of the opener whose block the `else` / `end` at j belongs to
RECURSIVE ScanOpen(_, _, _)
ScanOpen(toks, j, depth) ==
    IF j < 1 THEN 0
    ELSE IF toks[j].t = "end" THEN ScanOpen(toks, j - 1, depth + 1)
    ELSE IF toks[j].t \in Openers THEN (IF depth = 0 THEN j ELSE ScanOpen(toks, j - 1, depth - 1))
    ELSE ScanOpen(toks, j - 1, depth)
MatchOpen(toks, j) == ScanOpen(toks, j - 1, 0)

UseIds(case) == {i \in 1..Len(case.toks) : case.toks[i].t \in UseKinds}

(***************************************************************************)
(* Ref: CPython execution                                                  *)
(*   state: pc, x (object), xd (index of the assignment that produced x,   *)
(*   0 = the argument), ok (0 / 1 / 2 = unbound), nb (flag() calls that    *)
(*   may still return True), ticks, ev (recorded U calls)                  *)
(*   relaxed = TRUE: every condition is an opaque choice (used only to     *)
(*   compute which assignments can reach a use at all: clause FlowN2)      *)
(***************************************************************************)
Ev(u, o, d) == [u |-> u, o |-> o, d |-> d]
FlagOutcomes(s) == IF s.nb = 0 THEN {FALSE} ELSE {TRUE, FALSE}
Spend(s) == IF s.nb = 0 THEN s ELSE [s EXCEPT !.nb = @ - 1]
CondTrue(c, o) == HoldsCode(c, o) = 1

RECURSIVE RefExec(_, _, _)
RefExec(toks, s, relaxed) ==
    IF s.pc > Len(toks) THEN {s.ev}
    ELSE
    LET tk == toks[s.pc]
        next == [s EXCEPT !.pc = @ + 1]
        \* leave the test of the opener at s.pc with the given outcome
        Branch(st, outcome) ==
            LET e == MatchEnd(toks, s.pc)
                m == MatchElse(toks, s.pc)
            IN IF tk.t \in WhileKinds
               THEN IF outcome
                    THEN (IF st.ticks >= FMaxTicks THEN {st.ev}                      \* T() raises: the run is cut
                          ELSE RefExec(toks, [st EXCEPT !.pc = s.pc + 1, !.ticks = @ + 1], relaxed))
                    ELSE RefExec(toks, [st EXCEPT !.pc = e + 1], relaxed)
               ELSE IF outcome THEN RefExec(toks, [st EXCEPT !.pc = s.pc + 1], relaxed)
                    ELSE RefExec(toks, [st EXCEPT !.pc = IF m = 0 THEN e + 1 ELSE m + 1], relaxed)
        \* a test whose outcome is decided by the program state (or, relaxed, by choice)
        Decide(st, holds) == IF relaxed THEN UNION {Branch(st, b) : b \in BOOLEAN} ELSE Branch(st, holds)
        used == [s EXCEPT !.ev = Append(@, Ev(s.pc, s.x, s.xd))]
    IN CASE tk.t = "asg" -> RefExec(toks, [next EXCEPT !.x = tk.d, !.xd = s.pc], relaxed)
         [] tk.t = "save" -> IF relaxed THEN UNION {RefExec(toks, [next EXCEPT !.ok = b], relaxed) : b \in {0, 1}}
                             ELSE RefExec(toks, [next EXCEPT !.ok = B2C(CondTrue(tk.c, s.x))], relaxed)
         [] tk.t = "okflag" -> UNION {RefExec(toks, [Spend(next) EXCEPT !.ok = B2C(b)], relaxed) : b \in FlagOutcomes(s)}
         [] tk.t = "use" -> RefExec(toks, [used EXCEPT !.pc = @ + 1], relaxed)
         [] tk.t = "ret" -> {s.ev}
         [] tk.t \in {"ifflag", "whflag"} -> UNION {Branch(Spend(s), b) : b \in FlagOutcomes(s)}
         [] tk.t \in {"ifok", "whok"} -> Decide(s, (s.ok = 1) = (tk.c = NoCond))
         [] tk.t \in {"ifc", "whc"} -> Decide(s, CondTrue(tk.c, s.x))
         [] tk.t = "ifwal" -> IF relaxed THEN UNION {Branch([s EXCEPT !.ok = B2C(b)], b) : b \in BOOLEAN}
                              ELSE LET h == CondTrue(tk.c, s.x) IN Branch([s EXCEPT !.ok = B2C(h)], h)
         \* c and U(x): U runs (and returns True) only when c holds;  c or U(x): U runs only when c does not hold
         \* (relaxed: the result of U is opaque as well)
         [] tk.t = "ifand" -> IF relaxed THEN Branch(used, TRUE) \cup Branch(used, FALSE) \cup Branch(s, FALSE)
                              ELSE IF CondTrue(tk.c, s.x) THEN Branch(used, TRUE) ELSE Branch(s, FALSE)
         [] tk.t = "ifor" -> IF relaxed THEN Branch(used, TRUE) \cup Branch(used, FALSE) \cup Branch(s, TRUE)
                             ELSE IF CondTrue(tk.c, s.x) THEN Branch(s, TRUE) ELSE Branch(used, TRUE)
         \* the end of a then-branch: skip the else-branch
         [] tk.t = "else" -> RefExec(toks, [s EXCEPT !.pc = MatchEnd(toks, MatchOpen(toks, s.pc)) + 1], relaxed)
         [] tk.t = "end" -> LET op == MatchOpen(toks, s.pc)
                            IN IF toks[op].t \in WhileKinds THEN RefExec(toks, [s EXCEPT !.pc = op], relaxed)
                               ELSE RefExec(toks, next, relaxed)

RefStart(arg, nb) == [pc |-> 1, x |-> arg, xd |-> 0, ok |-> 2, nb |-> nb, ticks |-> 0, ev |-> << >>]
\* the argument objects: members of the declared type among a few representatives
FlowArgPool == {I1, BT, SA, NONE}
ArgObjs(case) == {o \in FlowArgPool : Member(o, case.decl)}
RefRuns(case, arg) == RefExec(case.toks, RefStart(arg, FBits), FALSE)
\* all recorded reads <<u, object, assignment>> of a set of runs
EventsOf(runs) == UNION {{r[i] : i \in 1..Len(r)} : r \in runs}
\* seen: the reads of all real runs;  reach: the reads of all paths through the function (every test opaque)
RefSeen(case) == EventsOf(UNION {RefRuns(case, a) : a \in ArgObjs(case)})
RefReach(case) == EventsOf(RefExec(case.toks, RefStart(CHOOSE a \in ArgObjs(case) : TRUE, 1000), TRUE))
RefDefType(case, d) == IF d = 0 THEN case.decl ELSE Known(case.toks[d].d)
RefTestedTypes(case) == {Tested(case.toks[i].c) : i \in {j \in 1..Len(case.toks) : case.toks[j].t \in {"save", "ifc", "whc", "ifwal", "ifand", "ifor"}}}

\* FlowN1: the object x holds at the use u belongs to the type R inferred there, in every run
FlowLost(seen, u, R) == {e.o : e \in {e \in seen : e.u = u /\ ~Member(e.o, R)}}
\* FlowN2: the inferred type has nothing outside the types of the assignments of x (0 = the parameter) that can be the
\* latest one at the use on some path through the function (and the tested types)
RefFlowNoWiden(case, reach, u, R) ==
    LET ds == {e.d : e \in {e \in reach : e.u = u}}
    IN \A o \in NObjects : Member(o, R) =>
          (\E d \in ds : Member(o, RefDefType(case, d))) \/ (\E T \in RefTestedTypes(case) : Member(o, T))

(***************************************************************************)
(* Impl: the scope machine (collecting phase)                              *)
(*   node ids: 0 = the parameter x; i = the assignment at token i (of x or *)
(*   of ok); FakeBase + j = j-th fake definition node (_ConstrainedValue); *)
(*   Uninit = _UNINITIALIZED                                               *)
(*   st.cur   name_to_current_definition_nodes  [x, ok, lv (LEAVES_SCOPE)] *)
(*   st.fk    fake nodes  [key, defs |-> definition nodes restricted, con |-> constraint]; key = (statement, visit tag,   *)
(*            identity of the Constraint object): _add_single_constraint uses (node, constraint) as the dictionary key,    *)
(*            so applying the SAME constraint object at the same statement again (a saved condition tested inside a     *)
(*            loop body, on its second visit) overwrites the node -- its new definition nodes may then reach itself    *)
(*   st.okv   value stored by the assignment of ok at token i: the          *)
(*            ConstraintExtension it carries [null, con, org, id]           *)
(*   st.uses  usage_to_definition_nodes of the recorded reads of x          *)
(*   st.nc    number of Constraint objects created (object identity)        *)
(*   st.fx    names of the proposed repairs assumed applied                 *)
(*   st.dr    number of constraints the origin guard dropped (statistics)   *)
(*   st.ov    number of fake nodes overwritten (statistics)                 *)
(***************************************************************************)
FakeBase == 1000
Uninit == 999
\* a concrete constraint with the origin of its variable; <<id, ninv>> is the identity of the Constraint OBJECT: id numbers the
\* objects created by evaluating a condition, ninv counts .invert() calls (Constraint.invert caches its result on the object,
\* so the inverse of an object is always the same object, and the inverse of that inverse is a third object)
NullAlt == [null |-> TRUE, con |-> NullCon, org |-> {}, id |-> 0, ninv |-> 0]
Leaf(con, org, id) == [null |-> FALSE, con |-> con, org |-> org, id |-> id, ninv |-> 0]

RECURSIVE FUniq(_, _)
FUniq(s, acc) == IF s = << >> THEN acc
                 ELSE FUniq(Tail(s), IF \E i \in 1..Len(acc) : acc[i] = Head(s) THEN acc ELSE Append(acc, Head(s)))
Uniq(s) == FUniq(s, << >>)

ImplInit(case, fixed) ==
    [fx |-> fixed, dr |-> 0, ov |-> 0, cur |-> [x |-> <<0>>, ok |-> << >>, lv |-> FALSE], fk |-> << >>,
     okv |-> [i \in 1..Len(case.toks) |-> NullAlt], uses |-> [i \in 1..Len(case.toks) |-> << >>], nc |-> 0]

\* FunctionScope._resolve_origin (stacked_scopes.py:1082): the real definition nodes behind a list of nodes (work list with
\* a seen set: fake nodes may form cycles)
RECURSIVE ImplResolveOriginW(_, _, _, _)
ImplResolveOriginW(st, pending, seen, out) ==
    IF pending = {} THEN out
    ELSE LET h == CHOOSE x \in pending : TRUE
             rest == pending \ {h}
         IN IF h \in seen THEN ImplResolveOriginW(st, rest, seen, out)
            ELSE IF h >= FakeBase
                 THEN ImplResolveOriginW(st, rest \cup {st.fk[h - FakeBase].defs[k] : k \in 1..Len(st.fk[h - FakeBase].defs)}, seen \cup {h}, out)
                 ELSE ImplResolveOriginW(st, rest, seen \cup {h}, out \cup {h})
ImplResolveOrigin(st, ids) == ImplResolveOriginW(st, {ids[k] : k \in 1..Len(ids)}, {}, {})

\* FunctionScope._add_single_constraint (stacked_scopes.py:1058)
ImplOriginGuard(current, constraint_set) ==
    CASE FBug = "guard_reversed" -> constraint_set \subseteq current        \* seeded-bug family: subset test the wrong way round
      [] FBug = "guard_removed" -> TRUE
      [] OTHER -> current \ constraint_set = {}                             \* :1067 if current_set - constraint_set: return
\* nk = <<token index of the statement, visit tag>>: the `node` argument ("0" an if, "1" / "2" the two visits of a while,
\* "b" the right operand of and / or)
ImplAddSingle(st, leaf, nk) ==
    LET current == ImplResolveOrigin(st, st.cur.x)                          \* :1064 get_origin + _resolve_origin
        \* :1079 node = (node, constraint, len(self.definition_node_to_value)): unique per application since repair a080673
        \* ("fresh_fake_nodes", proposed/C02-fix-5.diff); before it the key was (node, constraint) -- kept as the seeded bug
        \* "shared_fake_nodes" of the sensitivity cfg sens_oldkey
        key == <<nk[1], nk[2], leaf.id, leaf.ninv, IF "fresh_fake_nodes" \in st.fx /\ FBug # "shared_fake_nodes" THEN Len(st.fk) + 1 ELSE 0>>
        old == {j \in 1..Len(st.fk) : st.fk[j].key = key}
        j == IF old = {} THEN Len(st.fk) + 1 ELSE CHOOSE k \in old : TRUE
        node == [key |-> key, defs |-> Uniq(st.cur.x), con |-> leaf.con]    \* :1077 _ConstrainedValue(def_nodes, [constraint])
    IN IF ~ImplOriginGuard(current, leaf.org) THEN [st EXCEPT !.dr = @ + 1]                \* dropped (dr only counts, for the evidence)
       ELSE [st EXCEPT !.fk = IF old = {} THEN Append(@, node) ELSE [@ EXCEPT ![j] = node],  \* :1078 definition_node_to_value[node] = val
                       !.ov = @ + (IF old = {} THEN 0 ELSE 1),
                       !.cur.x = <<FakeBase + j>>]                                           \* :1079
\* FunctionScope.add_constraint (:1041): every concrete constraint of abstract_constraint.apply()
RECURSIVE ImplAddCons(_, _, _)
ImplAddCons(st, leaves, nk) == IF leaves = << >> THEN st ELSE ImplAddCons(ImplAddSingle(st, Head(leaves), nk), Tail(leaves), nk)

InvLeaf(l) == [l EXCEPT !.con.pos = ~@, !.ninv = @ + 1]                     \* Constraint.invert (:308), cached on the object

\* the constraint a condition on x evaluates to, with the origin of x at this moment
\* (composite_from_name: VarnameWithOrigin(node.id, origin); _isinstance_impl / _constraint_from_compare_op; visit_UnaryOp inverts)
ImplCondLeaf(st, c) == Leaf(ImplOfCond(c).con, ImplResolveOrigin(st, st.cur.x), st.nc + 1)

\* the values the current definitions of ok hold (get_local -> _get_value_from_nodes -> unite_values: equal values are
\* merged; the is_truthy constraints on ok never change a bool value, so fake nodes of ok are transparent)
ImplOkAlts(st) == Uniq([i \in 1..Len(st.cur.ok) |-> IF st.cur.ok[i] = Uninit THEN NullAlt ELSE st.okv[st.cur.ok[i]]])

\* The test `ok` / `not ok` (name_check_visitor.py:4197 _visit_possible_constraint, :4582 constraint_from_condition, :3697
\* visit_UnaryOp; stacked_scopes.py:1604 extract_constraints).  k = number of inversions between the condition `ok` and the
\* branch: 0 body of `if ok`, 1 its else branch and the body of `if not ok`, 2 the else branch of `if not ok`.
\*  * ok holds ONE value: the condition is EquivalentConstraint(is_truthy(ok), c): the branch gets c inverted k times
\*    (Constraint.invert caches the inverse on the object: the same objects every time the test is evaluated).
\*  * ok holds a UNION of values: existing = OrConstraint(alternatives); _visit_possible_constraint strips the extension
\*    of the union only, its members keep theirs, so extract_constraints sees the alternatives twice:
\*    AndConstraint(Equivalent(is_truthy(ok), Or), Or).  Not inverted (k even): Or.apply (:601) twice -- each yields a NEW
\*    one_of constraint for the VarnameWithOrigin (name and origin) that every alternative constrains, none if an
\*    alternative is NULL_CONSTRAINT or the origins differ.  Inverted (k odd): OrConstraint(Equivalent(.., And(inverted
\*    alternatives)), And(inverted alternatives)), whose apply yields, per origin, one NEW one_of over the two (identical)
\*    conjunctions of the inverted alternatives of that origin -- i.e. ALL of them are asserted (NULL_CONSTRAINT inverts
\*    to itself and contributes nothing).
RECURSIVE InvN(_, _)
InvN(l, k) == IF k = 0 THEN l ELSE InvN(InvLeaf(l), k - 1)
OneOfLeaf(cons, org, id) == Leaf(ConOneOf("x", cons), org, id)
ImplSavedCons(alts, k, fixed, nc) ==
    LET real == SelectSeq(alts, LAMBDA a : ~a.null)
        ls == [i \in 1..Len(real) |-> InvN(real[i], k)]
        uniform == Len(real) = Len(alts) /\ \A i \in 1..Len(alts) : alts[i].org = alts[1].org
        orgs == Uniq([i \in 1..Len(ls) |-> ls[i].org])
        OfOrg(o) == SelectSeq(ls, LAMBDA l : l.org = o)
        Conj(group) == IF Len(group) = 1 THEN <<group[1].con>>
                       ELSE <<ConAllOf("x", [i \in 1..Len(group) |-> group[i].con]), ConAllOf("x", [i \in 1..Len(group) |-> group[i].con])>>
    IN IF Len(alts) = 1 THEN ls
       ELSE IF k % 2 = 0
       THEN (IF uniform THEN <<OneOfLeaf([i \in 1..Len(ls) |-> ls[i].con], ls[1].org, nc + 1),
                               OneOfLeaf([i \in 1..Len(ls) |-> ls[i].con], ls[1].org, nc + 2)>> ELSE << >>)
       ELSE IF "alternatives_not_conjoined" \in fixed                                       \* proposed/C02-fix-4.diff
       THEN (IF uniform THEN <<OneOfLeaf([i \in 1..Len(ls) |-> ls[i].con], ls[1].org, nc + 1)>> ELSE << >>)
       ELSE [j \in 1..Len(orgs) |-> OneOfLeaf(Conj(OfOrg(orgs[j])), orgs[j], nc + j)]

\* visit_BoolOp (name_check_visitor.py:3424) for `c and U(i, x)` / `c or U(i, x)`: the right operand is visited in a
\* nested subscope under c (and) / c inverted (or); both subscopes are then combined
ImplBoolOp(st, tok, i, leaf) ==
    LET inner == ImplAddSingle(st, IF tok.t = "ifand" THEN leaf ELSE InvLeaf(leaf), <<i, "b">>)
        used == [inner EXCEPT !.uses[i] = @ \o inner.cur.x]
    IN [used EXCEPT !.cur.x = Uniq(st.cur.x \o inner.cur.x), !.nc = st.nc + 1]          \* combine_subscopes([scope1, scope2])

\* the test of an if / while: [st (after evaluating it), pos / neg: constraints to add in the body / the else branch]
ImplEvalCond(st, tok, i) ==
    CASE tok.t \in {"ifflag", "whflag"} -> [st |-> st, pos |-> << >>, neg |-> << >>]
      [] tok.t \in {"ifc", "whc"} ->
           LET l == ImplCondLeaf(st, tok.c) IN [st |-> [st EXCEPT !.nc = @ + 1], pos |-> <<l>>, neg |-> <<InvLeaf(l)>>]
      [] tok.t \in {"ifok", "whok"} ->
           \* _visit_possible_constraint: EquivalentConstraint(is_truthy(ok), extract_constraints(value of ok)); `not ok` inverts it
           LET alts == ImplOkAlts(st)
               k == IF tok.c = NoCond THEN 0 ELSE 1
               w == Len(alts) + 2                                    \* identities for the new one_of objects of either branch
               s2 == [st EXCEPT !.nc = @ + 2 * w]
           IN [st |-> s2, pos |-> ImplSavedCons(alts, k, st.fx, st.nc), neg |-> ImplSavedCons(alts, k + 1, st.fx, st.nc + w)]
      [] tok.t = "ifwal" ->
           \* composite_from_walrus: ok is bound to the value of c; the test is AndConstraint(c, is_truthy(ok)), whose
           \* inverse is an OrConstraint over two different variables: nothing for x in the else branch
           LET l == ImplCondLeaf(st, tok.c)
           IN [st |-> [st EXCEPT !.nc = @ + 1, !.okv[i] = l, !.cur.ok = <<i>>], pos |-> <<l>>, neg |-> << >>]
      [] tok.t = "ifand" ->
           \* AndConstraint.make(reversed([c, NULL])): positive c; inverted: OrConstraint(NULL, not c) yields nothing
           LET l == ImplCondLeaf(st, tok.c) IN [st |-> ImplBoolOp(st, tok, i, l), pos |-> <<l>>, neg |-> << >>]
      [] tok.t = "ifor" ->
           \* the value is the union of both operands' values: OrConstraint(c, NULL) yields nothing; inverted not c
           LET l == ImplCondLeaf(st, tok.c) IN [st |-> ImplBoolOp(st, tok, i, l), pos |-> << >>, neg |-> <<InvLeaf(l)>>]

\* FunctionScope.get_combined_scope / combine_subscopes (:1267): branches that left the function are dropped, the
\* definition nodes of the others are chained (duplicates removed, order kept); a name missing in a branch is _UNINITIALIZED
ImplCombine(outer, scopes) ==
    LET live == SelectSeq(scopes, LAMBDA sc : ~sc.lv)
        OkOf(sc) == IF sc.ok = << >> THEN <<Uninit>> ELSE sc.ok
    IN IF live = << >> THEN [outer EXCEPT !.lv = TRUE]
       ELSE [x |-> Uniq(Concat([k \in 1..Len(live) |-> live[k].x])),
             ok |-> IF \A k \in 1..Len(live) : live[k].ok = << >> THEN << >> ELSE Uniq(Concat([k \in 1..Len(live) |-> OkOf(live[k])])),
             lv |-> outer.lv]

RECURSIVE ImplRange(_, _, _, _)
\* one statement that is not a block
ImplSimple(st, toks, i) ==
    LET tk == toks[i]
    IN CASE tk.t = "asg" -> [st EXCEPT !.cur.x = IF FBug = "assign_appends" THEN Append(@, i) ELSE <<i>>]   \* FunctionScope.set (:1106)
         [] tk.t = "save" -> [st EXCEPT !.okv[i] = ImplCondLeaf(st, tk.c), !.nc = @ + 1, !.cur.ok = <<i>>]
         [] tk.t = "okflag" -> [st EXCEPT !.okv[i] = NullAlt, !.cur.ok = <<i>>]
         [] tk.t = "use" -> [st EXCEPT !.uses[i] = @ \o st.cur.x]                           \* get_local (:1159) usage_to_definition_nodes[key] += definers
         [] tk.t = "ret" -> [st EXCEPT !.cur.lv = TRUE]                                     \* visit_Return: LEAVES_SCOPE
\* visit_If (name_check_visitor.py:4544)
ImplIf(st, toks, i, tlo, thi, elo, ehi) ==
    LET ev == ImplEvalCond(st, toks[i], i)
        outer == ev.st.cur
        sb == ImplRange(ImplAddCons(ev.st, ev.pos, <<i, "0">>), toks, tlo, thi)             \* subscope: a copy of the outer scope
        se == ImplRange(ImplAddCons([sb EXCEPT !.cur = outer], ev.neg, <<i, "0">>), toks, elo, ehi)
    IN [se EXCEPT !.cur = ImplCombine(outer, <<sb.cur, se.cur>>)]
\* visit_While (:4262): test, body under the test, merge with the not-entered path; while collecting the test is
\* evaluated again on the merged scope and the body visited again in a subscope that is thrown away
ImplWhile(st, toks, i, lo, hi) ==
    LET ev1 == ImplEvalCond(st, toks[i], i)
        outer == ev1.st.cur
        s1 == ImplRange(ImplAddCons(ev1.st, ev1.pos, <<i, "1">>), toks, lo, hi)              \* add_constraint((node, 1), constraint)
        merged == ImplCombine(outer, <<s1.cur, outer>>)                                     \* _handle_loop_else: [body_scope, else_scope]
        s2 == [s1 EXCEPT !.cur = merged]
        ev2 == ImplEvalCond(s2, toks[i], i)
        s3 == ImplRange(ImplAddCons(ev2.st, ev2.pos, <<i, "2">>), toks, lo, hi)              \* add_constraint((node, 2), constraint)
    IN IF FBug = "visit_once" THEN s2 ELSE [s3 EXCEPT !.cur = merged]
ImplRange(st, toks, i, j) ==
    IF i > j THEN st
    ELSE IF toks[i].t \in IfKinds
    THEN LET e == MatchEnd(toks, i)
             m == MatchElse(toks, i)
         IN ImplRange(ImplIf(st, toks, i, i + 1, IF m = 0 THEN e - 1 ELSE m - 1, IF m = 0 THEN e ELSE m + 1, e - 1), toks, e + 1, j)
    ELSE IF toks[i].t \in WhileKinds
    THEN LET e == MatchEnd(toks, i) IN ImplRange(ImplWhile(st, toks, i, i + 1, e - 1), toks, e + 1, j)
    ELSE ImplRange(ImplSimple(st, toks, i), toks, i + 1, j)

ImplRunWith(case, fixed) == ImplRange(ImplInit(case, fixed), case.toks, 1, Len(case.toks))
ImplRun(case) == ImplRunWith(case, FFixed)

\* FunctionScope._get_value_from_nodes / _resolve_value (:1293 / :1323): the values of the (de-duplicated) nodes, a fake
\* node being the constrained union of the values of the nodes it restricts; _constrain_value flattens unions first.
\* _resolve_value keeps a cache per (fake node, use): on entry the cache holds NO_RETURN_VALUE ("guard against recursion"),
\* which a definition cycle reads -- and whatever was computed from that placeholder stays cached.
ImplFlowConstrain(vals, cons) ==
    LET r == ImplApplyAll(cons, Flatten(vals)) IN IF r = << >> THEN Never ELSE ImplUnite(r)
RECURSIVE ImplResolveNodes(_, _, _, _)
ImplResolveNodes(case, st, ids, cache) ==
    IF ids = << >> THEN [vals |-> << >>, cache |-> cache]
    ELSE LET h == Head(ids)
             j == h - FakeBase
             one == IF h < FakeBase THEN [v |-> IF h = 0 THEN case.decl ELSE Known(case.toks[h].d), cache |-> cache]
                    ELSE IF cache[j].set THEN [v |-> cache[j].v, cache |-> cache]                          \* :1299
                    ELSE LET r == ImplResolveNodes(case, st, Uniq(st.fk[j].defs), [cache EXCEPT ![j] = [set |-> TRUE, v |-> Never]])   \* :1303
                             v == ImplFlowConstrain(r.vals, <<st.fk[j].con>>)
                         IN [v |-> v, cache |-> [r.cache EXCEPT ![j] = [set |-> TRUE, v |-> v]]]             \* :1318
             rest == ImplResolveNodes(case, st, Tail(ids), one.cache)
         IN [vals |-> <<one.v>> \o rest.vals, cache |-> rest.cache]
ImplInferredAt(case, st, u) ==
    ImplFlowConstrain(ImplResolveNodes(case, st, Uniq(st.uses[u]), [j \in 1..Len(st.fk) |-> [set |-> FALSE, v |-> Never]]).vals, << >>)

(***************************************************************************)
(* Known deviation of the current code                                     *)
(*  A saved condition that is a union of alternatives (ok assigned on two  *)
(*  paths) is turned into OrConstraint(alternatives) by extract_constraints*)
(*  -- right when ok is truthy (one alternative held) -- but `not ok` /    *)
(*  the else branch inverts it to the conjunction of ALL inverted          *)
(*  alternatives, although only the alternative that was evaluated is      *)
(*  known to be false (a NULL alternative, `ok = flag()`, is dropped       *)
(*  altogether).  Class = the objects lost at a use by the model of the    *)
(*  code as found and kept by the model with the repair.                   *)
(***************************************************************************)
FlowKeptWith(case, u, o, fixes) == Member(o, ImplInferredAt(case, ImplRunWith(case, FFixed \cup fixes), u))
Dev_SavedAlternativesConjoined(case, u, o) ==
    ~FlowKeptWith(case, u, o, {}) /\ FlowKeptWith(case, u, o, {"alternatives_not_conjoined"})
\* 2. _add_single_constraint keys a fake definition node by (statement, Constraint object).  A saved condition tested inside a
\*    loop body applies the SAME object on the second visit of the body: the node is overwritten, and the definition nodes it
\*    now restricts (the merged state after the first visit) reach the node itself.  _resolve_value breaks the cycle with a
\*    NO_RETURN_VALUE placeholder and caches what was computed from it, so a read after the inner test can resolve to Never.
\*    Class = the objects lost by the model of the code as found and kept by the model in which every application creates
\*    its own node (proposed/C02-fix-5.diff), alone or together with repair 4.
\*    REPAIRED in /repo by a080673: every real cfg has "fresh_fake_nodes" in FFixed, so this class is empty and excuses
\*    nothing (a regression is viol:FlowN1); the old keying lives on as FBug = "shared_fake_nodes" (sens_oldkey.cfg).
Dev_FakeNodeReusedOnRevisit(case, u, o) ==
    /\ ~FlowKeptWith(case, u, o, {})
    /\ FlowKeptWith(case, u, o, {"fresh_fake_nodes"}) \/ FlowKeptWith(case, u, o, {"fresh_fake_nodes", "alternatives_not_conjoined"})
FlowDevClass(case, u, o) ==
    IF Dev_SavedAlternativesConjoined(case, u, o) THEN "saved-alternatives-negated-as-conjunction"
    ELSE IF Dev_FakeNodeReusedOnRevisit(case, u, o) THEN "constraint-node-reused-on-loop-revisit"
    ELSE ""

\* verdict of FlowN1 at one use given the inferred type R: "ok", "dev:<class>", "viol"
FlowN1Verdict(case, seen, u, R) ==
    LET lost == FlowLost(seen, u, R)
    IN IF lost = {} THEN "ok"
       ELSE IF \A o \in lost : FlowDevClass(case, u, o) # "" THEN "dev:" \o FlowDevClass(case, u, CHOOSE o \in lost : TRUE)
       ELSE "viol"

FlowImplOKSt(case, st, strict) ==
    LET seen == RefSeen(case)
        reach == RefReach(case)
    IN \A u \in UseIds(case) :
          LET R == ImplInferredAt(case, st, u)
              v == FlowN1Verdict(case, seen, u, R)
          IN (IF strict THEN v = "ok" ELSE v # "viol") /\ RefFlowNoWiden(case, reach, u, R)
FlowImplOK(case, strict) == FlowImplOKSt(case, ImplRun(case), strict)

(***************************************************************************)
(* Staged generator: one token per step                                    *)
(*   fblk: stack of open blocks [k (opener kind), els (else seen), okd (ok *)
(*   definitely bound at entry), tret (then-branch returned), tokd (ok     *)
(*   definitely bound at the end of the then-branch)]                      *)
(***************************************************************************)
VARIABLES fdecl, fprog, fblk, fstage, fok
fvars == <<fdecl, fprog, fblk, fstage, fok>>

FInit == /\ fstage = "decl" /\ fdecl = Never /\ fprog = << >> /\ fblk = << >> /\ fok = FALSE
         /\ stage = "flow" /\ ta = Never /\ tb = Never /\ ob = NONE /\ cnd = CTruthy

NStmts == Cardinality({i \in 1..Len(fprog) : fprog[i].t \notin {"else", "end"}})
LastT == IF fprog = << >> THEN "" ELSE fprog[Len(fprog)].t
InLoop == \E k \in 1..Len(fblk) : fblk[k].k \in WhileKinds
\* a statement may be appended: budget left, not directly after `return` (dead code)
CanStmt == fstage = "body" /\ NStmts < FMaxStmts /\ LastT # "ret"
Emit(tok) == fprog' = Append(fprog, tok) /\ UNCHANGED <<fdecl, fstage>>
Frame(k) == [k |-> k, els |-> FALSE, okd |-> fok, tret |-> FALSE, tokd |-> FALSE]
Open(tok, okInside) == /\ Len(fblk) < FMaxDepth /\ NStmts + 1 < FMaxStmts      \* room for at least one statement inside
                       /\ Emit(tok) /\ fblk' = Append(fblk, Frame(tok.t)) /\ fok' = okInside

GDecl == fstage = "decl" /\ \E d \in FDecls : fdecl' = DeclOf(d) /\ fstage' = "body" /\ UNCHANGED <<fprog, fblk, fok>>
\* Assign(x, def): a dead store (x = .. directly followed by x = ..) is not generated
GAssign == CanStmt /\ "asg" \in FKinds /\ LastT # "asg" /\ \E d \in FLits : Emit(Tok("asg", NoCond, LitOf(d))) /\ UNCHANGED <<fblk, fok>>
\* SaveCond(ok, cond on x)
GSaveCond == CanStmt /\ "save" \in FKinds /\ LastT \notin {"save", "okflag"}
             /\ \E c \in FConds : Emit(Tok("save", CondOf(c), NONE)) /\ fok' = TRUE /\ UNCHANGED fblk
GOkFlag == CanStmt /\ "okflag" \in FKinds /\ LastT \notin {"save", "okflag"} /\ Emit(Tok("okflag", NoCond, NONE)) /\ fok' = TRUE /\ UNCHANGED fblk
GUse == CanStmt /\ "use" \in FKinds /\ LastT # "use" /\ Emit(Tok("use", NoCond, NONE)) /\ UNCHANGED <<fblk, fok>>
\* `return` only as the last statement of a branch of an if, and not in both branches
GReturn == /\ CanStmt /\ "ret" \in FKinds /\ fblk # << >> /\ fblk[Len(fblk)].k \in IfKinds
           /\ ~(fblk[Len(fblk)].els /\ fblk[Len(fblk)].tret)
           /\ Emit(Tok("ret", NoCond, NONE)) /\ UNCHANGED <<fblk, fok>>
GEnterIf == CanStmt /\ "ifflag" \in FKinds /\ Open(Tok("ifflag", NoCond, NONE), fok)
GEnterIfSaved == CanStmt /\ "ifok" \in FKinds /\ fok /\ \E c \in {NoCond, NotOk} : Open(Tok("ifok", c, NONE), fok)
GEnterIfCond == CanStmt /\ "ifc" \in FKinds /\ \E c \in FConds : Open(Tok("ifc", CondOf(c), NONE), fok)
GEnterIfWalrus == CanStmt /\ "ifwal" \in FKinds /\ \E c \in FConds : Open(Tok("ifwal", CondOf(c), NONE), TRUE)
GEnterIfAnd == CanStmt /\ "ifand" \in FKinds /\ \E c \in FConds : Open(Tok("ifand", CondOf(c), NONE), fok)
GEnterIfOr == CanStmt /\ "ifor" \in FKinds /\ \E c \in FConds : Open(Tok("ifor", CondOf(c), NONE), fok)
GEnterWhile == CanStmt /\ "whflag" \in FKinds /\ ~InLoop /\ Open(Tok("whflag", NoCond, NONE), fok)
GEnterWhileSaved == CanStmt /\ "whok" \in FKinds /\ ~InLoop /\ fok /\ \E c \in {NoCond, NotOk} : Open(Tok("whok", c, NONE), fok)
GEnterWhileCond == CanStmt /\ "whc" \in FKinds /\ ~InLoop /\ \E c \in FConds : Open(Tok("whc", CondOf(c), NONE), fok)
\* Else: the then-branch is not empty; the walrus binds ok before either branch
GElse == /\ fstage = "body" /\ "else" \in FKinds /\ fblk # << >> /\ NStmts < FMaxStmts
         /\ LET top == fblk[Len(fblk)]
            IN /\ top.k \in IfKinds /\ ~top.els /\ LastT \notin Openers
               /\ Emit(Tok("else", NoCond, NONE))
               /\ fblk' = [fblk EXCEPT ![Len(fblk)] = [top EXCEPT !.els = TRUE, !.tret = (LastT = "ret"), !.tokd = fok]]
               /\ fok' = (top.okd \/ top.k = "ifwal")
\* Merge (combine_subscopes): a block is not empty; ok is definitely bound afterwards if it is on every path that continues
GMerge == /\ fstage = "body" /\ fblk # << >> /\ LastT \notin Openers \cup {"else"}
          /\ LET top == fblk[Len(fblk)]
                 okElse == top.okd \/ top.k = "ifwal"
             IN /\ Emit(Tok("end", NoCond, NONE)) /\ fblk' = SubSeq(fblk, 1, Len(fblk) - 1)
                /\ fok' = IF top.k \in WhileKinds THEN top.okd
                          ELSE IF top.els THEN (IF top.tret THEN fok ELSE IF LastT = "ret" THEN top.tokd ELSE top.tokd /\ fok)
                          ELSE (IF LastT = "ret" THEN okElse ELSE fok /\ okElse)
\* the function is complete: all blocks closed, it ends with a use or a block, and it contains a recorded read of x
GFinish == /\ fstage = "body" /\ fblk = << >> /\ LastT \in {"use", "end"}
           /\ \E i \in 1..Len(fprog) : fprog[i].t \in UseKinds
           /\ fstage' = "done" /\ UNCHANGED <<fdecl, fprog, fblk, fok>>

\* (every action leaves the variables of the extended modules alone)
ADecl == GDecl /\ UNCHANGED nvars
AAssign == GAssign /\ UNCHANGED nvars
ASaveCond == GSaveCond /\ UNCHANGED nvars
AOkFlag == GOkFlag /\ UNCHANGED nvars
AUse == GUse /\ UNCHANGED nvars
AReturn == GReturn /\ UNCHANGED nvars
AEnterIf == GEnterIf /\ UNCHANGED nvars
AEnterIfSaved == GEnterIfSaved /\ UNCHANGED nvars
AEnterIfCond == GEnterIfCond /\ UNCHANGED nvars
AEnterIfWalrus == GEnterIfWalrus /\ UNCHANGED nvars
AEnterIfAnd == GEnterIfAnd /\ UNCHANGED nvars
AEnterIfOr == GEnterIfOr /\ UNCHANGED nvars
AEnterWhile == GEnterWhile /\ UNCHANGED nvars
AEnterWhileSaved == GEnterWhileSaved /\ UNCHANGED nvars
AEnterWhileCond == GEnterWhileCond /\ UNCHANGED nvars
AElse == GElse /\ UNCHANGED nvars
AMerge == GMerge /\ UNCHANGED nvars
AFinish == GFinish /\ UNCHANGED nvars
FNext == ADecl \/ AAssign \/ ASaveCond \/ AOkFlag \/ AUse \/ AReturn
         \/ AEnterIf \/ AEnterIfSaved \/ AEnterIfCond \/ AEnterIfWalrus \/ AEnterIfAnd \/ AEnterIfOr
         \/ AEnterWhile \/ AEnterWhileSaved \/ AEnterWhileCond \/ AElse \/ AMerge \/ AFinish

FCase == [decl |-> fdecl, toks |-> fprog]
FDone == fstage = "done"
InvFlow == FDone => FlowImplOK(FCase, FALSE)
\* without the deviation class: expected to be violated on the model of the current code (self-test)
InvFlowStrict == FDone => FlowImplOK(FCase, TRUE)
=============================================================================
