------------------------------ MODULE Totality ------------------------------
(***************************************************************************)
(* Totality of the checker (property C12).                                 *)
(*                                                                         *)
(* Output side: the life cycle of one check is the machine                 *)
(*      Start --Diag(d)*--> ... --End--> Done                              *)
(* There is no Raise action: a check that raises, or a diagnostic that is  *)
(* not well formed, is not a behaviour of the specification.               *)
(*   WellFormed(d): registered error code other than internal_error, line  *)
(*   inside the file, column inside that line, non-empty message.          *)
(*                                                                         *)
(* Input side: a generator of (deliberately odd / ill-typed) modules: a    *)
(* module is a sequence of fragments, each a fragment kind applied to      *)
(* operand kinds; TLC enumerates the product, the harness renders every    *)
(* fragment to source text (harness/drivers/c12.py FRAGMENTS).             *)
(***************************************************************************)
EXTENDS Naturals, Sequences, FiniteSets, TLC

CONSTANTS MaxFragments

Operands == {"int", "str", "none", "list", "dict", "tuple", "func", "cls", "module", "undefined", "float", "bytes", "set"}

\* fragment kinds and the number of operands they take
FragKinds ==
    [call_arity |-> 1, call_kw |-> 1, binop |-> 2, unary |-> 1, subscript |-> 2, attribute |-> 1, compare |-> 2,
     annotation |-> 1, string_annotation |-> 1, odd_string_annotation |-> 1, mixed_returns |-> 1, decorator |-> 1, class_base |-> 1, class_body |-> 1,
     listcomp |-> 1, dictcomp |-> 1, genexp |-> 1, lambda_call |-> 1, starred_call |-> 1, starred_assign |-> 1,
     fstring |-> 1, percent_format |-> 1, walrus |-> 1, match_stmt |-> 1, async_fn |-> 1, with_stmt |-> 1,
     for_loop |-> 1, unpack |-> 1, augassign |-> 2, delete |-> 1, global_stmt |-> 0, try_stmt |-> 1,
     return_value |-> 1, yield_stmt |-> 1, assert_stmt |-> 1, ifexp |-> 1, boolop |-> 2, slice |-> 1,
     dict_display |-> 2, set_display |-> 1, nested_def |-> 1, typevar_fn |-> 1, overload_fn |-> 1, dataclass_cls |-> 1]

Kinds == DOMAIN FragKinds

Fragment(k, a, b) == [kind |-> k, a |-> a, b |-> b]
FragmentsOf(k) ==
    CASE FragKinds[k] = 0 -> {Fragment(k, "none", "none")}
      [] FragKinds[k] = 1 -> {Fragment(k, a, "none") : a \in Operands}
      [] FragKinds[k] = 2 -> {Fragment(k, a, b) : a \in Operands, b \in {"int", "str", "none", "list", "undefined"}}

VARIABLES prog, stage
gvars == <<prog, stage>>

GInit == prog = << >> /\ stage = "gen"
AddFragment == stage = "gen" /\ Len(prog) < MaxFragments /\ \E k \in Kinds : \E f \in FragmentsOf(k) : prog' = Append(prog, f) /\ UNCHANGED stage
Finish == stage = "gen" /\ Len(prog) >= 1 /\ stage' = "done" /\ UNCHANGED prog
GNext == AddFragment \/ Finish

(***************************************************************************)
(* The output automaton                                                    *)
(***************************************************************************)
WellFormed(d, nlines, linelens, codes) ==
    /\ d.code \in codes /\ d.code # "internal_error"
    /\ d.lineno \in 1..nlines
    /\ d.col \in 0..linelens[d.lineno]
    /\ d.msglen > 0

VARIABLES life, ndiags
lvars == <<life, ndiags>>
LInit == life = "Start" /\ ndiags = 0
Diag(d, nlines, linelens, codes) == life \in {"Start", "Diags"} /\ WellFormed(d, nlines, linelens, codes) /\ life' = "Diags" /\ ndiags' = ndiags + 1
End == life \in {"Start", "Diags"} /\ life' = "Done" /\ UNCHANGED ndiags
\* sanity of the automaton itself (checked on the generator config): Done is only reached through End
TypeOK == life \in {"Start", "Diags", "Done"} /\ ndiags \in Nat
=============================================================================
