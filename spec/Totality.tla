------------------------------ MODULE Totality ------------------------------
(***************************************************************************)
(* Totality of the checker (property C12).                                 *)
(*                                                                         *)
(* Output side: the life cycle of one check is the machine                 *)
(*      Start --Diag(d)*--> ... --End--> Done                              *)
(* There is no Raise action: a check that raises, or a diagnostic that is  *)
(* not well formed, is not a behaviour of the specification.               *)
(*   WellFormed(d): registered error code other than internal_error, line  *)
(*   inside the file, column inside that line, non-empty message.          *)
(* The position part of WellFormed is stated on the POSITION MODEL below:  *)
(* a module is a sequence of physical lines, a diagnostic is attached to   *)
(* an AST node, ImplShow transcribes what BaseNodeVisitor.show_error does  *)
(* with the node (node_visitor.py:654-735), RefWellFormedPos / RefContextOK *)
(* say what the property demands of the result.                            *)
(*                                                                         *)
(* Input side: three staged generators                                     *)
(*   G*  modules = sequences of fragments (fragment kind x operand kinds x *)
(*       scope nesting); harness/c12_fragments.py renders them;            *)
(*   P*  the position model itself: small abstract files x nodes (checked  *)
(*       exhaustively against the Ref operators, PosProperty);             *)
(*   Y*  layouts: where in a real module the diagnosed node sits (site,    *)
(*       padding in front of it, lines around it, line terminators);       *)
(*       harness/drivers/c12.py renders them.                              *)
(***************************************************************************)
EXTENDS Naturals, Integers, Sequences, FiniteSets, TLC

CONSTANTS MaxFragments,    \* fragments per module
          MaxDepth,        \* scope nesting depth of a fragment (1 = a plain function)
          FnScopes         \* the kinds of function scope a fragment may sit in ("def", "async")

Operands == {"int", "str", "none", "list", "dict", "tuple", "func", "cls", "module", "undefined", "float", "bytes", "set"}

\* fragment kinds and the number of operands they take
FragKinds ==
    [call_arity |-> 1, call_kw |-> 1, binop |-> 2, unary |-> 1, subscript |-> 2, attribute |-> 1, compare |-> 2,
     annotation |-> 1, string_annotation |-> 1, odd_string_annotation |-> 1, mixed_returns |-> 1, decorator |-> 1, class_base |-> 1, class_body |-> 1,
     listcomp |-> 1, dictcomp |-> 1, genexp |-> 1, lambda_call |-> 1, starred_call |-> 1, starred_assign |-> 1,
     fstring |-> 1, percent_format |-> 1, walrus |-> 1, match_stmt |-> 1, async_fn |-> 1, with_stmt |-> 1,
     for_loop |-> 1, unpack |-> 1, augassign |-> 2, delete |-> 1, global_stmt |-> 0, try_stmt |-> 1,
     return_value |-> 1, yield_stmt |-> 1, assert_stmt |-> 1, ifexp |-> 1, boolop |-> 2, slice |-> 1,
     dict_display |-> 2, set_display |-> 1, nested_def |-> 1, typevar_fn |-> 1, overload_fn |-> 1, dataclass_cls |-> 1,
     \* second generation: class definitions
     class_deco |-> 1, class_meta_kw |-> 1, class_slots |-> 1, class_property |-> 1, namedtuple_cls |-> 1, typeddict_cls |-> 1,
     enum_cls |-> 1, protocol_cls |-> 1, generic_cls |-> 1, pep695 |-> 1, dataclass_opts |-> 1, dunder_cls |-> 1,
     inherit_odd |-> 1, overload_odd |-> 1,
     \* functions, async, generators, scopes
     async_gen |-> 1, async_odd |-> 1, generator_odd |-> 1, special_returns |-> 1, lambda_defaults |-> 1, nested_scopes |-> 1,
     global_nonlocal |-> 1,
     \* expressions and statements
     comp_all |-> 1, star_expr |-> 1, fstring_nested |-> 1, chained_cmp |-> 1, operators_odd |-> 1, format_odd |-> 1,
     del_forms |-> 1, augassign_targets |-> 1, with_multi |-> 1, try_star |-> 1, match_all |-> 1, control_odd |-> 1, narrow_odd |-> 1,
     \* typing
     odd_annotations |-> 1, string_annotation_errors |-> 1, typing_calls |-> 1, noncallable_deco |-> 1, builtin_arity |-> 1,
     helper_arity |-> 1, callback_arg |-> 1, return_classes |-> 1, return_metaclass |-> 0,
     \* version_info_compare: regression generator of a repaired crash; paramspec_alias: confined to a kind of its own because
     \* the tree deviates on it (Dev_ParamSpecSubstitution below)
     version_info_compare |-> 1, paramspec_alias |-> 1, unhashable_ops |-> 1,
     \* the inputs of four repaired crashes (kept as regression generators)
     match_value_dotted |-> 0, recursive_str_alias |-> 0, pure_call_raises |-> 1]

Kinds == DOMAIN FragKinds

\* scope nestings: 1..MaxDepth scopes, the innermost one a function (nothing of a fragment runs at import)
Scopes == {"def", "async", "class"}
WrapsOfLen(n) == {w \in [1..n -> Scopes] : w[n] \in FnScopes}
Wraps == UNION {WrapsOfLen(n) : n \in 1..MaxDepth}

Fragment(k, a, b, w) == [kind |-> k, a |-> a, b |-> b, w |-> w]
FragmentsOf(k, w) ==
    CASE FragKinds[k] = 0 -> {Fragment(k, "none", "none", w)}
      [] FragKinds[k] = 1 -> {Fragment(k, a, "none", w) : a \in Operands}
      [] FragKinds[k] = 2 -> {Fragment(k, a, b, w) : a \in Operands, b \in {"int", "str", "none", "list", "undefined"}}

\* staged: one component of a fragment per step (kind, operands, scope nesting), so that a simulation step has few successors
VARIABLES prog, stage, cur
gvars == <<prog, stage, cur>>
NoFragment == Fragment("none", "none", "none", << >>)

GInit == prog = << >> /\ stage = "gen" /\ cur = NoFragment
PickKind == stage = "gen" /\ Len(prog) < MaxFragments /\ \E k \in Kinds : cur' = Fragment(k, "none", "none", << >>) /\ stage' = "ops" /\ UNCHANGED prog
PickOperands == stage = "ops" /\ \E f \in FragmentsOf(cur.kind, << >>) : cur' = f /\ stage' = "wrap" /\ UNCHANGED prog
PickWrap == stage = "wrap" /\ \E w \in Wraps : prog' = Append(prog, [cur EXCEPT !.w = w]) /\ stage' = "gen" /\ cur' = NoFragment
Finish == stage = "gen" /\ Len(prog) >= 1 /\ stage' = "done" /\ UNCHANGED <<prog, cur>>
GNext == PickKind \/ PickOperands \/ PickWrap \/ Finish

(***************************************************************************)
(* POSITION MODEL                                                          *)
(*                                                                         *)
(* A module is a sequence of physical lines as CPython's tokenizer counts  *)
(* them (terminated by LF, CRLF or CR -- language reference 2.1.2).        *)
(*   line == [t, c, b, p]                                                  *)
(*     t = the text of the line without terminator (only compared for      *)
(*         equality: a name here, an injective text id in recorded traces) *)
(*     c = its length in code points, b = the length of its UTF-8 encoding *)
(*     p = << >> if str.splitlines() leaves the line in one piece, else    *)
(*         the texts of the pieces it cuts the line into (splitlines also  *)
(*         breaks at FF, VT, FS, GS, RS, NEL, LS, PS, which may legally    *)
(*         occur inside a Python line); only the pre-repair model reads p  *)
(* A node (ast.AST position attributes; col / end_col are UTF-8 byte       *)
(* offsets as CPython reports them):                                       *)
(*   node == [haspos, lineno, col, end_lineno, end_col, fwd, alineno, acol]*)
(*     fwd = TRUE for a node of a string annotation, which pyanalyze parses *)
(*     separately (annotations.py:671): lineno / col are then its position *)
(*     inside the string, alineno / acol the position of the annotation    *)
(*     expression in the file (the context's node, annotations.py:684).    *)
(*                                                                         *)
(* Repaired behaviour is REQUIRED; the switches select the model of the    *)
(* code before the repair and exist for the sensitivity configurations     *)
(* only (every real check runs with TRUE):                                 *)
(*   FixedLines  9834ac5: _lines() splits at CRLF / LF / CR only           *)
(*   FixedFwd    01bc95c: the nodes of a string annotation are given the   *)
(*               annotation's own position before they are evaluated       *)
(***************************************************************************)
CONSTANTS FixedLines, FixedFwd
Max2(a, b) == IF a >= b THEN a ELSE b
Min2(a, b) == IF a <= b THEN a ELSE b

Pieces(line) == IF FixedLines \/ line.p = << >> THEN <<line.t>> ELSE line.p
RECURSIVE ImplLinesFrom(_, _)
ImplLinesFrom(file, i) == IF i > Len(file) THEN << >> ELSE Pieces(file[i]) \o ImplLinesFrom(file, i + 1)
\* node_visitor.py:237-243  _lines(): re.split(r"\r\n|\n|\r", contents) minus a trailing empty string, i.e. the physical
\* lines themselves (before 9834ac5: contents.splitlines(), i.e. their pieces)
ImplLines(file) == ImplLinesFrom(file, 1)
\* (access paths that do not build the whole list when the lines are the physical lines themselves)
ImplLen(file) == IF FixedLines THEN Len(file) ELSE Len(ImplLines(file))
ImplLineAt(file, k) == IF FixedLines THEN file[k].t ELSE ImplLines(file)[k]

NoCtx == << >>
CtxEntry(n, t) == [n |-> n, t |-> t]
\* node_visitor.py:723-735: lines max(lineno - 3, 1) .. min(lineno + 3, len(lines)) of _lines(), each under its number,
\* a caret line after line `lineno` at column 6 + col_offset
ImplContext(file, lineno, col) ==
    LET lo == Max2(lineno - 3, 1)
        hi == Min2(lineno + 3 + 1, ImplLen(file) + 1)
    IN [ctx |-> [i \in 1..Max2(hi - lo, 0) |-> CtxEntry(lo + i - 1, ImplLineAt(file, lo + i - 1))],
        caret |-> IF lineno >= lo /\ lineno < hi THEN 6 + col ELSE -1]

\* the position show_error finds on the node: annotations.py:684-693 copies the location of the annotation expression onto
\* every node of the separately parsed string (before 01bc95c they kept their position inside the string)
NodePos(node) == IF node.fwd /\ FixedFwd THEN [lineno |-> node.alineno, col |-> node.acol]
                 ELSE [lineno |-> node.lineno, col |-> node.col]
\* show_error (node_visitor.py:654-735), one arm per path:
ImplShow(file, node, obey) ==
    LET at == NodePos(node) IN
    IF ~node.haspos
    THEN \* :654-658 node without lineno / col_offset: the failure carries neither, no context is rendered
         [out |-> "diag", haspos |-> FALSE, lineno |-> 0, col |-> 0, ctx |-> NoCtx, caret |-> -1]
    ELSE IF obey /\ at.lineno > ImplLen(file)
    THEN \* :683 this_line = lines[lineno - 1] raises IndexError (caught by the catch-all around the node visit); not
         \* reachable for a node of the file
         [out |-> "raise", haspos |-> TRUE, lineno |-> at.lineno, col |-> at.col, ctx |-> NoCtx, caret |-> -1]
    ELSE LET c == ImplContext(file, at.lineno, at.col)
         IN [out |-> "diag", haspos |-> TRUE, lineno |-> at.lineno, col |-> at.col, ctx |-> c.ctx, caret |-> c.caret]

(***************************************************************************)
(* What the property demands (first principles; no reference to the Impl operators) *)
(***************************************************************************)
\* "a line number inside the file, a column inside that line"
RefWellFormedPos(d, file) == d.haspos /\ d.lineno \in 1..Len(file) /\ d.col \in 0..file[d.lineno].c
\* the rendered context is made of lines of the file, each under its own number, and shows the diagnosed line
RefContextOK(d, file) ==
    /\ \A i \in 1..Len(d.ctx) : d.ctx[i].n \in 1..Len(file) /\ d.ctx[i].t = file[d.ctx[i].n].t
    /\ \E i \in 1..Len(d.ctx) : d.ctx[i].n = d.lineno

(***************************************************************************)
(* Known deviation of the tree (open finding column-is-utf8-byte-offset;   *)
(* the class covers exactly what the deviating mechanism produces).  The   *)
(* former classes context-lines-from-splitlines and                        *)
(* forward-reference-relative-position are repaired: what they excused is  *)
(* a violation now.                                                        *)
(***************************************************************************)
\* col_offset is a UTF-8 byte offset but is reported (and used for the caret) as a column of the str line: with
\* non-ASCII text in front of the node the column lies beyond the end of the line
Dev_ByteColumn(d, file) ==
    /\ d.haspos /\ d.lineno \in 1..Len(file)
    /\ d.col > file[d.lineno].c /\ d.col <= file[d.lineno].b

(***************************************************************************)
(* P*: the position model checked on small abstract files                  *)
(***************************************************************************)
CONSTANTS PosMaxLines,     \* lines per abstract file
          NodesHavePos,    \* TRUE: every diagnosed node has lineno / col_offset (what is observed on the real code)
          DevOn            \* deviation classes of the position model that are taken into account
\* line shapes: plain ASCII, non-ASCII (more bytes than characters), cut by splitlines, short
LineName == <<"L1", "L2", "L3", "L4", "L5", "L6">>
PieceA == <<"L1a", "L2a", "L3a", "L4a", "L5a", "L6a">>
PieceB == <<"L1b", "L2b", "L3b", "L4b", "L5b", "L6b">>
LineShape(i, s) ==
    CASE s = "ascii"  -> [t |-> LineName[i], c |-> 8, b |-> 8,  p |-> << >>]
      [] s = "wide"   -> [t |-> LineName[i], c |-> 8, b |-> 12, p |-> << >>]
      [] s = "broken" -> [t |-> LineName[i], c |-> 8, b |-> 8,  p |-> <<PieceA[i], PieceB[i]>>]
      [] s = "short"  -> [t |-> LineName[i], c |-> 2, b |-> 2,  p |-> << >>]
Shapes == {"ascii", "wide", "broken", "short"}

VARIABLES pfile, pnode, pobey, pstage
pvars == <<pfile, pnode, pobey, pstage>>
NoNode == [haspos |-> FALSE, lineno |-> 0, col |-> 0, end_lineno |-> 0, end_col |-> 0, fwd |-> FALSE, alineno |-> 0, acol |-> 0]
PInit == pfile = << >> /\ pnode = NoNode /\ pobey = TRUE /\ pstage = "lines"
PAddLine == pstage = "lines" /\ Len(pfile) < PosMaxLines /\ \E s \in Shapes : pfile' = Append(pfile, LineShape(Len(pfile) + 1, s)) /\ UNCHANGED <<pnode, pobey, pstage>>
PLinesDone == pstage = "lines" /\ Len(pfile) >= 1 /\ pstage' = "node" /\ UNCHANGED <<pfile, pnode, pobey>>
\* nodes CPython can produce for this file: a node of the file starts on one of its lines at a byte offset inside that
\* line; a node of a separately parsed string may claim any line / column, the annotation expression it belongs to is a
\* node of the file
Cols == {0, 2, 5, 8, 10, 12, 14}
PPickNode ==
    /\ pstage = "node"
    /\ \E fwd \in BOOLEAN, ln \in 1..(PosMaxLines + 2), col \in Cols, has \in (IF NodesHavePos THEN {TRUE} ELSE BOOLEAN), ob \in BOOLEAN :
          /\ fwd \/ (ln <= Len(pfile) /\ col <= pfile[ln].b)
          /\ \E aln \in 1..Len(pfile), acol \in (IF fwd THEN Cols ELSE {col}) :
                /\ acol <= pfile[aln].b /\ (fwd \/ aln = ln)
                /\ pnode' = [haspos |-> has, lineno |-> ln, col |-> col, end_lineno |-> ln, end_col |-> col + 1, fwd |-> fwd,
                              alineno |-> aln, acol |-> acol]
          /\ pobey' = ob
    /\ pstage' = "done" /\ UNCHANGED pfile
PNext == PAddLine \/ PLinesDone \/ PPickNode

PosHolds(file, node, obey) ==
    LET r == ImplShow(file, node, obey)
    IN r.out = "diag" /\ RefWellFormedPos(r, file) /\ RefContextOK(r, file)
\* DevOn: the deviation classes taken into account ({"byte"} in the real check; the sensitivity cfg without it must be violated)
PosDeviates(file, node, obey) ==
    LET r == ImplShow(file, node, obey)
    IN "byte" \in DevOn /\ r.out = "diag" /\ Dev_ByteColumn(r, file) /\ RefContextOK(r, file)
PosProperty == pstage = "done" => PosHolds(pfile, pnode, pobey) \/ PosDeviates(pfile, pnode, pobey)
PosStrict == pstage = "done" => PosHolds(pfile, pnode, pobey)

(***************************************************************************)
(* Y*: layouts of real modules (rendered by the driver)                    *)
(*   site   where the diagnosed node sits                                  *)
(*   pad    what stands in front of it on its line (inside a string        *)
(*          literal): nothing, 2-/3-/4-byte characters, many of them, a    *)
(*          TAB, or a character at which only str.splitlines() breaks     *)
(*   before / after  number of filler lines around the site (0 before =    *)
(*          the site starts on line 1; 0 after + no trailing newline = the *)
(*          diagnostic is on the unterminated last line)                   *)
(*   filler what the filler lines contain; nl = the line terminator        *)
(***************************************************************************)
CONSTANTS YSites, YPads, YBefore, YAfter, YFillers, YNewlines, YTrail
AllSites == {"oneline", "body", "continuation", "mlcall", "decorator", "fstring", "fstring_ml", "fstring_spec", "classbody",
             "nesteddef", "lambda_default", "comprehension", "strannot", "strannot_esc", "strannot_wide", "strannot_ml"}
AllPads == {"none", "u2", "u2x20", "u3", "u4", "tab", "ff", "vt", "fs", "nel", "ls", "ps"}
AllFillers == {"plain", "wide", "ff", "ls", "nel"}
AllNewlines == {"lf", "crlf", "cr"}

VARIABLES lay, ystage
yvars == <<lay, ystage>>
YInit == lay = [site |-> "none", pad |-> "none", before |-> 0, after |-> 0, filler |-> "plain", nl |-> "lf", trail |-> TRUE] /\ ystage = "site"
YPickSite == ystage = "site" /\ \E s \in YSites : lay' = [lay EXCEPT !.site = s] /\ ystage' = "pad"
YPickPad == ystage = "pad" /\ \E x \in YPads : lay' = [lay EXCEPT !.pad = x] /\ ystage' = "around"
\* (a missing final terminator only matters when the site is what the file ends with)
YPickAround == ystage = "around" /\ \E bf \in YBefore, af \in YAfter, tr \in YTrail : (tr \/ af = 0) /\ lay' = [lay EXCEPT !.before = bf, !.after = af, !.trail = tr] /\ ystage' = "filler"
YPickFiller == ystage = "filler" /\ \E f \in YFillers, n \in YNewlines : lay' = [lay EXCEPT !.filler = f, !.nl = n] /\ ystage' = "done"
YNext == YPickSite \/ YPickPad \/ YPickAround \/ YPickFiller

(***************************************************************************)
(* K*: constant folding -- the checker EXECUTES real Python operations on  *)
(* known constants (format(value, spec) for f-string fields, %, str.format,*)
(* operators on literals, allow-listed pure callables on known arguments). *)
(* A case is one operation (family, index into the family's table in       *)
(* harness/c12_constfold.py) together with the menus of first and second   *)
(* operands; the module has one never-called function per pair.  Menus are *)
(* capped so that CPython evaluates every expression instantly: exponents  *)
(* come from KSmall, repeat counts have both operands in KSmall.           *)
(***************************************************************************)
CONSTANTS KSecondFull      \* second operands of the unrestricted binary families: TRUE = KValues, FALSE = the sub-menu KQuick
KFamilies == [fstr |-> 54, fconv |-> 9, fnest |-> 9, pct |-> 32, pctstar |-> 5, fmt |-> 15, fmtfield |-> 12, fmtnest |-> 5, call |-> 80, unop |-> 52, binop |-> 23, binop_small |-> 1, mul |-> 3, bincall |-> 38, bincall_small |-> 4]
\* unary / all (second operand from KSecond) / small (second operand from KSmall) / bothsmall (both from KSmall)
KArity == [fstr |-> "unary", fconv |-> "unary", fnest |-> "all", pct |-> "unary", pctstar |-> "all", fmt |-> "unary", fmtfield |-> "unary", fmtnest |-> "all", call |-> "unary", unop |-> "unary", binop |-> "all", binop_small |-> "small", mul |-> "bothsmall", bincall |-> "all", bincall_small |-> "small"]
KValues == <<"m1", "zero", "one", "u255", "u256", "maxchr", "overchr", "p64", "negp64", "p1024", "f15", "negf", "inf", "nan", "str", "estr", "bytes", "none", "true", "tup", "lst">>
KSmall == <<"m1", "zero", "one", "u255", "f15", "negf", "inf", "nan", "none", "str", "true", "tup", "lst", "bytes">>

KQuick == <<"m1", "zero", "one", "overchr", "p64", "p1024", "f15", "inf", "str", "none", "tup">>
KSecond == IF KSecondFull THEN KValues ELSE KQuick

VARIABLES kcase, kstage
kvars == <<kcase, kstage>>
KInit == kcase = [fam |-> "none", idx |-> 0, xs |-> << >>, ys |-> << >>] /\ kstage = "fam"
KPickFamily == kstage = "fam" /\ \E f \in DOMAIN KFamilies : kcase' = [kcase EXCEPT !.fam = f] /\ kstage' = "idx"
KPickIndex ==
    /\ kstage = "idx"
    /\ \E i \in 1..KFamilies[kcase.fam] :
          kcase' = [kcase EXCEPT !.idx = i,
                                 !.xs = IF KArity[kcase.fam] = "bothsmall" THEN KSmall ELSE KValues,
                                 !.ys = CASE KArity[kcase.fam] = "unary" -> << >>
                                          [] KArity[kcase.fam] = "all" -> KSecond
                                          [] OTHER -> KSmall]
    /\ kstage' = "done"
KNext == KPickFamily \/ KPickIndex

(***************************************************************************)
(* D*: declaration-level class bodies.  The class statement sits at module *)
(* level, so the class is a real object when the module is checked and the *)
(* declaration-level machinery runs (duplicate enum members, dataclass /   *)
(* NamedTuple / TypedDict / Protocol synthesis).  A case is a declaration  *)
(* kind and the value written into it (harness/c12_decls.py renders it);   *)
(* the values include the nominally-hashable-but-unhashable ones (a tuple  *)
(* holding a list / dict / set, a frozen dataclass with a list field) and  *)
(* objects whose __hash__ / __eq__ raise.  A module CPython refuses to     *)
(* import is outside the domain (recorded as a skipped check).             *)
(***************************************************************************)
DKinds == {"enum", "enum_dup", "enum_dup_mixed", "enum_two_targets", "intenum", "intflag", "flag", "strenum",
           "enum_tuple_init", "enum_methods", "enum_new", "enum_auto", "enum_annotated", "enum_unique",
           "enum_functional", "enum_nested", "enum_by_call", "enum_subclass", "enum_in_function", "dc_default",
           "dc_field_default", "dc_factory", "dc_classvar", "dc_frozen", "dc_options", "dc_inherit",
           "namedtuple_class", "namedtuple_functional", "typeddict_class", "typeddict_functional", "protocol",
           "plain_class", "module_const"}
DValues == {"int", "bool", "float", "str", "bytes", "none", "nan", "tuple", "tup_list", "tup_dict", "tup_set",
            "tup_nested", "tup_hashraises", "list", "dict", "set", "frozenset", "lambda", "cls",
            "hash_typeerror", "hash_runtimeerror", "eqraises", "frozen_dc", "auto", "call", "tup_empty"}
VARIABLES dcase, dstage
dvars == <<dcase, dstage>>
DInit == dcase = [kind |-> "none", v |-> "none"] /\ dstage = "kind"
DPickKind == dstage = "kind" /\ \E k \in DKinds : dcase' = [dcase EXCEPT !.kind = k] /\ dstage' = "value"
DPickValue == dstage = "value" /\ \E v \in DValues : dcase' = [dcase EXCEPT !.v = v] /\ dstage' = "done"
DNext == DPickKind \/ DPickValue

(***************************************************************************)
(* The output automaton                                                    *)
(***************************************************************************)
\* d = [code, haspos, lineno, col, msglen, ...]; file = the position model's lines; codes = registered error codes
WellFormed(d, file, codes) ==
    /\ d.code \in codes /\ d.code # "internal_error"
    /\ RefWellFormedPos(d, file)
    /\ d.msglen > 0

VARIABLES life, ndiags
lvars == <<life, ndiags>>
LInit == life = "Start" /\ ndiags = 0
Diag(d, file, codes) == life \in {"Start", "Diags"} /\ WellFormed(d, file, codes) /\ life' = "Diags" /\ ndiags' = ndiags + 1
End == life \in {"Start", "Diags"} /\ life' = "Done" /\ UNCHANGED ndiags
\* sanity of the automaton itself (checked on the generator config): Done is only reached through End
TypeOK == life \in {"Start", "Diags", "Done"} /\ ndiags \in Nat

(***************************************************************************)
(* Input side: the classes on-error-default-detail-ellipsis (1424e7b),     *)
(* match-value-not-literal-internal-error (3c3cadd),                       *)
(* recursive-string-alias-recursion-error (5cbaf61) and                    *)
(* shared-type-of-metaclass-unbound-mro (776c13e) are repaired: there is   *)
(* no excused internal_error any more -- WellFormed rejects every one.     *)
(* The fragment kinds pure_call_raises, match_value_dotted,                *)
(* recursive_str_alias and return_metaclass keep generating the inputs.    *)
(***************************************************************************)

(***************************************************************************)
(* Open deviation on the input side.  exck = the exception type of the    *)
(* "Internal error:" line, site = file:function of the innermost pyanalyze *)
(* frame of the reported traceback, f = the fragment the report falls in.  *)
(***************************************************************************)
\* (repaired and therefore required now: version-info-comparison-raises by 55a5b7d, type-alias-cache-key-unhashable by
\* 918a2c8; the fragment kinds version_info_compare and paramspec_alias keep generating their inputs)
\* signature.py:1784-1786 Signature.substitute_typevars asserts that a ParamSpec is replaced by a callable signature;
\* `Alias[int]` for `type Alias[**P] = Callable[P, int]` substitutes a plain type
Dev_ParamSpecSubstitution(f, d) ==
    /\ d.code = "internal_error" /\ f.kind = "paramspec_alias"
    /\ d.exck = "AssertionError" /\ d.site = "signature.py:substitute_typevars"
\* (hash-exception-in-literal-display -- SequenceValue.make_or_known / visit_Dict catching TypeError only -- is repaired by
\* b889ca7: required behaviour now; the declaration values hash_runtimeerror / tup_hashraises keep generating the input)
=============================================================================
