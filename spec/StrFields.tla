------------------------------ MODULE StrFields ------------------------------
(***************************************************************************)
(* Field-structured generator for property C17, str.format.                *)
(*                                                                         *)
(* StrFormat.tla enumerates templates token by token.  This module builds  *)
(* the template from ITEMS:                                                *)
(*   item  = literal text | "{{" | "}}" | replacement field                *)
(*   field = "{" name accessor-chain conversion format-spec "}"            *)
(*     name        auto (empty) | 0 | 1 | a | b                            *)
(*     chain       up to two of .real  [0]  [a]                            *)
(*     conversion  none | !r | !s | !a | !x (not a conversion)             *)
(*     spec        none | ":" | simple (">10" "d" ".2f" "x") | nested      *)
(*                 field ("{}" "{0}" "{w}") | malformed ("dd" ".")         *)
(* one component per step, rendered to characters as soon as it is chosen, *)
(* so that `case` stays the [t, pos, kw] record of StrFormat.tla and all   *)
(* its operators (RefRun, ImplMsgs, the Dev_ classes, the invariants) and  *)
(* its trace specification apply unchanged.  Nothing here is an oracle:    *)
(* the module only decides WHICH cases are looked at.                      *)
(*                                                                         *)
(* Arguments are drawn around what the template asks for (read off the     *)
(* rendered text by GenNeed / GenNames below -- a generator heuristic):    *)
(*   positional: need - 1, need, need + 1 values, need = max(number of     *)
(*     auto-numbered fields, highest explicit index + 1), nested fields    *)
(*     included -- so auto/manual mixes get enough arguments either way;   *)
(*   keywords: every mentioned name absent or present, plus optionally the *)
(*     first name of XKwNames that the template does not mention.          *)
(***************************************************************************)
EXTENDS StrFormat

CONSTANTS
    XMaxItems,
    XLits, XNames, XChains, XConvs, XSpecs,     \* per position: sets of character sequences
    XPosVals, XExtraVals,
    XKwNames,        \* SEQUENCE of one-letter names considered as keywords, in this order
    XKwVals, XKwExtraVals

VARIABLE kwi
xvars == <<case, stage, ntok, kwi>>

XPos == ntok + 1

\* --- what the rendered template asks for (generator heuristic, not an oracle)
GenAutos(t) == Cardinality({j \in 1..Len(t) : t[j] = "{" /\ At(t, j + 1) \in {"}", ":", "!", ".", "["}})
\* explicit indices: a run of one or two ASCII digits right after "{" (longer runs -- the huge indices -- and
\* the lexical edge forms " 0", "+0", ... ask for no positional argument: they get 0 or 1)
GenIdx(t) == {DigitsVal(SubSeq(t, j + 1, RunEnd(t, j + 1, DigitCh) - 1)) + 1 :
                j \in {i \in 1..Len(t) : t[i] = "{" /\ At(t, i + 1) \in DigitCh /\ RunEnd(t, i + 1, DigitCh) <= i + 3}}
SetMax(S) == IF S = {} THEN 0 ELSE CHOOSE m \in S : \A x \in S : x <= m
GenNeed(t) == SetMax(GenIdx(t) \cup {GenAutos(t)})
\* every non-empty field name as written (up to the first special character), digits and edge forms included:
\* a keyword argument spelled exactly like the field name is tried for each of them
NameEndAt(t, j) == FirstIn(t, j + 1, {".", "[", "!", ":", "}", "{"})
GenNames(t) == { SubSeq(t, j + 1, NameEndAt(t, j) - 1) :
                   j \in {i \in 1..Len(t) : t[i] = "{" /\ NameEndAt(t, i) > i + 1} }

XInit == case = Blank /\ stage = "item" /\ ntok = 0 /\ kwi = 1

\* two steps so that a random walk (TLC -simulate picks uniformly among the successor STATES) chooses
\* literal / field / end of template with equal weight
XBeginLiteral ==
    /\ stage = "item" /\ ntok < XMaxItems /\ XLits[XPos] # {}
    /\ stage' = "x-lit" /\ UNCHANGED <<case, ntok, kwi>>

XAddLiteral ==
    /\ stage = "x-lit"
    /\ \E txt \in XLits[XPos] : case' = [case EXCEPT !.t = @ \o txt]
    /\ ntok' = ntok + 1 /\ stage' = "item" /\ UNCHANGED kwi

XBeginField ==
    /\ stage = "item" /\ ntok < XMaxItems /\ XNames[XPos] # {}
    /\ case' = [case EXCEPT !.t = Append(@, "{")]
    /\ stage' = "x-name" /\ UNCHANGED <<ntok, kwi>>

XNameStep ==
    /\ stage = "x-name"
    /\ \E nm \in XNames[XPos] : case' = [case EXCEPT !.t = @ \o nm]
    /\ stage' = "x-chain" /\ UNCHANGED <<ntok, kwi>>

XChainStep ==
    /\ stage = "x-chain"
    /\ \E ch \in XChains[XPos] : case' = [case EXCEPT !.t = @ \o ch]
    /\ stage' = "x-conv" /\ UNCHANGED <<ntok, kwi>>

XConvStep ==
    /\ stage = "x-conv"
    /\ \E cv \in XConvs[XPos] : case' = [case EXCEPT !.t = @ \o cv]
    /\ stage' = "x-spec" /\ UNCHANGED <<ntok, kwi>>

XSpecStep ==
    /\ stage = "x-spec"
    /\ \E sp \in XSpecs[XPos] : case' = [case EXCEPT !.t = @ \o sp \o <<"}">>]
    /\ ntok' = ntok + 1 /\ stage' = "item" /\ UNCHANGED kwi

XEndTemplate == stage = "item" /\ ntok >= 1 /\ stage' = "pos" /\ UNCHANGED <<case, ntok, kwi>>

XAddPos ==
    /\ stage = "pos" /\ Len(case.pos) < GenNeed(case.t) + 1
    /\ \E v \in (IF Len(case.pos) < GenNeed(case.t) THEN XPosVals ELSE XExtraVals) :
         case' = [case EXCEPT !.pos = Append(@, v)]
    /\ UNCHANGED <<stage, ntok, kwi>>

XEndPos ==
    /\ stage = "pos" /\ Len(case.pos) + 1 >= GenNeed(case.t)
    /\ stage' = "kw" /\ UNCHANGED <<case, ntok, kwi>>

\* keywords in the order of XKwNames: each one absent or present
XKwStep ==
    /\ stage = "kw" /\ kwi <= Len(XKwNames)
    /\ LET nm == XKwNames[kwi]
           mentioned == nm \in GenNames(case.t)
           extras == {j \in 1..Len(case.kw) : case.kw[j].name \notin GenNames(case.t)}
       IN \/ UNCHANGED case
          \/ /\ mentioned \/ (extras = {} /\ \A i \in 1..(kwi - 1) : XKwNames[i] \in GenNames(case.t))
             /\ \E v \in (IF mentioned THEN XKwVals ELSE XKwExtraVals) :
                  case' = [case EXCEPT !.kw = Append(@, [name |-> nm, v |-> v])]
    /\ kwi' = kwi + 1 /\ UNCHANGED <<stage, ntok>>

XFinish == stage = "kw" /\ kwi > Len(XKwNames) /\ stage' = "done" /\ UNCHANGED <<case, ntok, kwi>>

XNext == XBeginLiteral \/ XAddLiteral \/ XBeginField \/ XNameStep \/ XChainStep \/ XConvStep \/ XSpecStep \/ XEndTemplate
         \/ XAddPos \/ XEndPos \/ XKwStep \/ XFinish

(***************************************************************************)
(* Menus                                                                   *)
(***************************************************************************)
None == << >>
AReal == <<".", "r", "e", "a", "l">>
AIdx0 == <<"[", "0", "]">>
AKeyA == <<"[", "a", "]">>
XLitsAll == { <<"z">>, <<"{", "{">>, <<"}", "}">> }
NamesAll == { None, <<"0">>, <<"1">>, <<"a">>, <<"b">> }
ChainsAll == { None, AReal, AIdx0, AKeyA, AReal \o AIdx0, AReal \o AKeyA, AIdx0 \o AReal, AIdx0 \o AKeyA,
               AKeyA \o AReal, AKeyA \o AIdx0 }
ConvsAll == { None, <<"!", "r">>, <<"!", "s">>, <<"!", "a">>, <<"!", "x">> }
SpecsSimple == { <<":", ">", "1", "0">>, <<":", "d">>, <<":", ".", "2", "f">>, <<":", "x">> }
SpecsNested == { <<":", "{", "}">>, <<":", "{", "0", "}">>, <<":", "{", "w", "}">> }
SpecsBad == { <<":", "d", "d">>, <<":", ".">> }
SpecsAll == { None, <<":">> } \cup SpecsSimple \cup SpecsNested \cup SpecsBad
KwABW == << <<"a">>, <<"b">>, <<"w">> >>

\* lexical edge forms of a field name.  CPython (get_integer): positional iff every character is a Unicode
\* decimal digit; the value must fit Py_ssize_t
Nines20 == [j \in 1..20 |-> "9"]                                   \* 99999999999999999999: too many digits
SsizeMax == <<"9","2","2","3","3","7","2","0","3","6","8","5","4","7","7","5","8","0","7">>   \* 2^63-1: an index
SsizeMaxP1 == <<"9","2","2","3","3","7","2","0","3","6","8","5","4","7","7","5","8","0","8">> \* 2^63: too many
EdgeNames == { <<"0", "0">>, <<"0", "1">>, <<" ", "0">>, <<"0", " ">>, <<" ", "0", " ">>, <<"+", "0">>, <<"-", "0">>,
               <<"-", "1">>, <<"0", "_", "0">>, <<"1", "_", "0">>, <<"0", "x", "0">>, <<"<sup2>">>, <<"<ar0>">>,
               <<"a", " ", "b">>, Nines20 }
EdgeNamesAll == EdgeNames \cup { SsizeMax, SsizeMaxP1, <<"+", "1">>, <<"1", "<ar0>">>, <<"<sup2>", "0">> }
ADot0 == <<".", "0">>                                              \* "{0.0}": attribute access on argument 0
ABigIdx == <<"[">> \o Nines20 \o <<"]">>                           \* "[99999999999999999999]": too many digits
KwEdge == << <<"a">>, <<"b">>, <<"w">>, <<"0">>, <<"0", "0">>, <<"0", "1">>, <<" ", "0">>, <<"0", " ">>, <<" ", "0", " ">>,
             <<"+", "0">>, <<"-", "0">>, <<"-", "1">>, <<"0", "_", "0">>, <<"1", "_", "0">>, <<"0", "x", "0">>, <<"<sup2>">>,
             <<"<ar0>">>, <<"a", " ", "b">>, <<"+", "1">>, <<"1", "<ar0>">>, <<"<sup2>", "0">> >>
\* quick, exhaustively replayed: every edge form alone and followed by a plain "{0}" / "{}" field
N1XLits   == << {}, {} >>
N1XNames  == << EdgeNames \cup { <<"0">> }, { None, <<"0">> } >>
N1XChains == << { None, ADot0, AReal }, { None } >>
N1XPlain  == << { None }, { None } >>
\* thorough, exhaustive: every edge form (also 2^63-1, 2^63, +1, mixed Unicode digits) x accessor x conversion x
\* spec, followed by an auto / numbered / named field
N2XNames  == << EdgeNamesAll \cup { <<"0">> }, { None, <<"0">>, <<"a">> } >>
N2XChains == << { None, ADot0, AReal, AIdx0, ABigIdx }, { None } >>
N2XConvs  == << { None, <<"!", "r">> }, { None } >>
N2XSpecs  == << { None, <<":", "d">>, <<":", "{", "}">> }, { None } >>

\* quick, exhaustively replayed: one field
Q1XLits   == << XLitsAll >>
Q1XNames  == << { None, <<"0">>, <<"1">>, <<"a">> } >>
Q1XChains == << { None, AReal, AIdx0, AKeyA } >>
Q1XConvs  == << { None, <<"!", "r">>, <<"!", "x">> } >>
Q1XSpecs  == << { None, <<":", ">", "1", "0">>, <<":", "d">>, <<":", "{", "}">>, <<":", "{", "w", "}">>, <<":", "d", "d">> } >>
Q1XPos    == {"i1", "sx"}
Q1XKw     == {"l1"}
XOne      == {"i1"}

\* quick, exhaustively replayed: two fields (numbering mixes, argument counting over two fields)
Q2XLits   == << { <<"{", "{">> }, { <<"}", "}">> } >>
Q2XNames  == << NamesAll, { None, <<"0">>, <<"1">>, <<"a">> } >>
Q2XChains == << { None }, { None, AIdx0 } >>
Q2XConvs  == << { None }, { None } >>
Q2XSpecs  == << { None, <<":", "{", "}">>, <<":", "{", "0", "}">> }, { None, <<":", "{", "}">> } >>
Q2XPos    == {"i1"}

\* all components: one field over the complete menus
F1XLits   == << XLitsAll >>
F1XNames  == << NamesAll >>
F1XChains == << ChainsAll >>
F1XConvs  == << ConvsAll >>
F1XSpecs  == << SpecsAll >>
F1XPos    == {"i1", "sx", "sd", "l1", "da", "none"}
F1XKw     == {"i1", "sd", "da"}

\* two fields over the complete menus (simulation) / over reduced menus (thorough, exhaustive)
F2XLits   == << XLitsAll, XLitsAll >>
F2XNames  == << NamesAll \cup EdgeNamesAll, NamesAll \cup EdgeNamesAll >>
F2XChains == << ChainsAll \cup { ADot0, ABigIdx }, ChainsAll \cup { ADot0, ABigIdx } >>
F2XConvs  == << ConvsAll, ConvsAll >>
F2XSpecs  == << SpecsAll, SpecsAll >>
T2XNames  == << NamesAll \cup { <<" ", "0">>, <<"-", "1">>, <<"<ar0>">> }, NamesAll >>
T2XChains == << { None, AReal, AIdx0 }, { None, AKeyA } >>
T2XConvs  == << { None, <<"!", "r">> }, { None, <<"!", "x">> } >>
T2XSpecs  == << { None, <<":", "d">>, <<":", "{", "}">>, <<":", "{", "0", "}">>, <<":", "{", "w", "}">> },
                { None, <<":", ">", "1", "0">>, <<":", "{", "}">>, <<":", "d", "d">> } >>
=============================================================================
