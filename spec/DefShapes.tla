------------------------------ MODULE DefShapes ------------------------------
(***************************************************************************)
(* C13, second sentence, for the SHAPES of definition the plain module-    *)
(* level def of DefHeaders.tla does not cover:                             *)
(*   method / classmethod / staticmethod   a def in a class body: the      *)
(*        object reached through the class and through an instance         *)
(*        (CPython's descriptor protocol drops the bound first parameter); *)
(*        the def-derived view of a method is what the checker knows of    *)
(*        the parameters INSIDE the body;                                  *)
(*   wraps      @deco def ..., deco returning a functools.wraps wrapper    *)
(*        ( *args, **kwargs ) with __wrapped__;                              *)
(*   retyped    @retype def ..., retype declared `-> Callable[[str], str]` *)
(*        and returning `def inner(s: str) -> str`: the def-derived view   *)
(*        is the DECLARED type, the runtime view the returned OBJECT;      *)
(*   generator  a def whose body yields (sync or async): the declared      *)
(*        return type is the generator's type, never wrapped in Coroutine. *)
(* A case is [h |-> header of DefHeaders, shape |-> one of the above]; for *)
(* methods h lists the parameters AFTER the implicit first one.            *)
(***************************************************************************)
EXTENDS DefHeaders

CONSTANTS
    ShapeChoices,            \* subset of Shapes
    BugBoundKeepsFirst,      \* sensitivity: the signature of a bound method keeps the first parameter
    BugAsyncGenWrapped,      \* sensitivity: the runtime view wraps an async generator's return type in Coroutine
    FixedDeclaredReturn,     \* FALSE = current code (deviation Dev_DeclaredReturnErasesNames is modelled)
    FixedAsyncGenInferred    \* TRUE = current code (repo b243661): the value inferred for a call of an unannotated async
                             \* generator function is not wrapped in Coroutine; FALSE = the behaviour before that repair
                             \* (kept as a sensitivity switch: DefShapes.oldasyncgen.cfg must be rejected)

Shapes == {"method", "classmethod", "staticmethod", "wraps", "retyped", "generator"}
MethodShapes == {"method", "classmethod", "staticmethod"}
HasFirst(s) == s \in {"method", "classmethod"}
FirstName(s) == IF s = "classmethod" THEN "cls" ELSE "self"
\* `def m(self, a, /)`: a parameter before `/` is positional-only, so the implicit one is too
FirstKind(h) == IF Len(h.params) > 0 /\ h.params[1].kind = "POSITIONAL_ONLY" THEN "POSITIONAL_ONLY" ELSE "POSITIONAL_OR_KEYWORD"

(***************************************************************************)
(* Ref (CPython data model, validated against the real inspect.signature)  *)
(***************************************************************************)
\* through the class: a plain function shows all its parameters; classmethod objects are bound to the class,
\* staticmethod objects are the function
RefInspectClassAccess(h, s) ==
    IF s = "method" THEN <<<<FirstName(s), FirstKind(h), "nodefault">>>> \o RefInspect(h) ELSE RefInspect(h)
\* through an instance: bound, the first parameter is gone
RefInspectInstanceAccess(h, s) == RefInspect(h)
\* functools.wraps copies names and __wrapped__, not the parameters: the object's own signature
\* (inspect.signature(w, follow_wrapped=False)) is the wrapper's
RefInspectWrapper == <<<<"args", "VAR_POSITIONAL", "nodefault">>, <<"kwargs", "VAR_KEYWORD", "nodefault">>>>
\* the function `retype` really returns
InnerHeader == [params |-> <<[name |-> "s", kind |-> "POSITIONAL_OR_KEYWORD", ann |-> Nm("str"), dflt |-> "none"]>>,
                ret |-> Nm("str"), isasync |-> FALSE, future |-> FALSE]

(***************************************************************************)
(* Impl                                                                    *)
(***************************************************************************)
\* functions.py:425-432 (IsGeneratorVisitor) / arg_spec.py:435 + :840 (is_async = asyncio.iscoroutinefunction): only a
\* coroutine function's return type is wrapped; an async def that yields is an async generator function
ShapeRet(h, s, ret0) == IF h.isasync /\ s # "generator" THEN ImplCoro(ret0) ELSE ret0
ShapeRetRt(h, s, ret0) == IF h.isasync /\ (s # "generator" \/ BugAsyncGenWrapped) THEN ImplCoro(ret0) ELSE ret0

SigParams(sig) == SubSeq(sig.a, 1, Len(sig.a) - 1)
SigRet(sig) == sig.a[Len(sig.a)]
\* DefHeaders!ImplSigDef / ImplSigRt with the shape's rule for the return type
ImplShapeSigDef(h, s) ==
    LET plain == ImplSigDef([h EXCEPT !.isasync = FALSE]) IN SigV(SigParams(plain), ShapeRet(h, s, SigRet(plain)))
ImplShapeSigRt(h, s) ==
    LET plain == ImplSigRt([h EXCEPT !.isasync = FALSE]) IN SigV(SigParams(plain), ShapeRetRt(h, s, SigRet(plain)))

\* --- methods.  arg_spec.py:536-565 _get_type_for_parameter: the unannotated first parameter of a function found in
\* a class of its module (via __qualname__) is typed with that class; signature.py:2603 BoundMethodSignature /
\* :2625 get_signature drops the first parameter of a bound method; classmethod objects are bound methods of the class.
ImplFirstParam(h, s) ==
    ParamV(FirstName(s), FirstKind(h), NoDefault, IF s = "classmethod" THEN V("Subclass", "", <<TypedV("C")>>) ELSE TypedV("C"))
ImplSigClassAccess(h, s) ==
    LET sig == ImplShapeSigRt(h, s)
    IN IF s = "method" THEN SigV(<<ImplFirstParam(h, s)>> \o SigParams(sig), SigRet(sig)) ELSE sig
ImplSigInstanceAccess(h, s) ==
    LET sig == ImplShapeSigRt(h, s)
    IN IF BugBoundKeepsFirst /\ HasFirst(s) THEN SigV(<<ImplFirstParam(h, s)>> \o SigParams(sig), SigRet(sig)) ELSE sig
\* the def-derived view inside the body: name_check_visitor.py:2305 sets each parameter to the value
\* compute_parameters gave it (functions.py:262-340); the first parameter of a method is the enclosing class,
\* of a classmethod its SubclassValue (functions.py:282-289 is_self)
ImplBody(h, s) ==
    (IF HasFirst(s) THEN <<ImplFirstParam(h, s).a[3]>> ELSE << >>)
    \o [j \in 1..Len(h.params) |-> Unite(<<ImplDefParam(h.params[j]).a[3]>>)]

\* --- wraps: the runtime object is the wrapper: arg_spec.py:1004 inspect.signature(obj, follow_wrapped=False), and
\* :422 is_wrapped drops the copied return annotation; ( *args, **kwargs ) whose annotations stay Any
AnyArgsSig(src, ret) ==
    SigV(<<ParamV("args", "VAR_POSITIONAL", NoDefault, src), ParamV("kwargs", "VAR_KEYWORD", NoDefault, src)>>, ret)
ImplSigRtWraps == AnyArgsSig(AnyV("inference"), AnyV("unannotated"))
\* the def-derived value: the inferred return of deco -- typeshed's functools._Wrapped[..] around the wrapper's own def
ImplValDefWraps ==
    V("Generic", "functools._Wrapped",
      <<AnyV("generic_argument"), AnyV("generic_argument"),
        CallableV(SigV(<<ParamV("args", "VAR_POSITIONAL", NoDefault, V("Generic", "tuple", <<AnyV("unannotated")>>)),
                         ParamV("kwargs", "VAR_KEYWORD", NoDefault, V("Generic", "dict", <<TypedV("str"), AnyV("unannotated")>>))>>,
                       AnyV("unannotated"))),
        AnyV("unannotated")>>)

\* --- retyped: def view = the declared Callable[[str], str] (annotations.py:1305: positional-only @0); runtime view
\* = the signature of the returned function
ImplSigDefRetyped ==
    IF FixedDeclaredReturn THEN ImplSigRt(InnerHeader)
    ELSE SigV(PosOnlyParams(<<TypedV("str")>>), TypedV("str"))
ImplSigRtRetyped == ImplSigRt(InnerHeader)

(***************************************************************************)
(* Ref: the views agree                                                    *)
(***************************************************************************)
RefSameAnnV(p, v1, v2) ==
    IF p.ann = NoAnn THEN RefUndeclared(p.kind, v1) /\ RefUndeclared(p.kind, v2) ELSE RefSame(v1, v2)
\* binding removes exactly the first parameter and changes nothing else
RefBindingDropsFirst(h, s, sigC, sigI) ==
    LET off == IF s = "method" THEN 1 ELSE 0
        n == Len(h.params)
    IN /\ sigC.t = "Sig" /\ sigI.t = "Sig" /\ Len(sigC.a) = n + off + 1 /\ Len(sigI.a) = n + 1
       /\ \A j \in 1..(n + 1) : sigC.a[j + off] = sigI.a[j]
\* the def-derived view of every parameter (inside the body) is the runtime view's
RefBodyAgrees(h, s, body, sigI, sigC) ==
    LET off == IF HasFirst(s) THEN 1 ELSE 0
        n == Len(h.params)
    IN /\ Len(body) = n + off
       /\ sigI.t = "Sig" /\ Len(sigI.a) = n + 1
       /\ \A j \in 1..n : sigI.a[j].t = "Param" /\ RefSameAnnV(h.params[j], body[j + off], sigI.a[j].a[3])
       /\ (s = "method" => (sigC.t = "Sig" /\ sigC.a[1].t = "Param" /\ RefSame(body[1], sigC.a[1].a[3])))
\* names, kinds and presence of defaults are CPython's
RefMatchesInspect(sig, insp) ==
    /\ sig.t = "Sig" /\ Len(sig.a) = Len(insp) + 1
    /\ \A i \in 1..Len(insp) :
          /\ sig.a[i].t = "Param" /\ sig.a[i].n = insp[i][1] /\ sig.a[i].a[1].n = insp[i][2]
          /\ (sig.a[i].a[2].t = "nodefault") = (insp[i][3] = "nodefault")
\* a view that knows nothing of the parameters: accepts every call, returns "unknown"
RefKnowsNothing(sig) ==
    /\ sig.t = "Sig" /\ Len(sig.a) = 3 /\ RefAnyish(sig.a[3])
    /\ sig.a[1].t = "Param" /\ sig.a[1].a[1].n = "VAR_POSITIONAL" /\ sig.a[2].t = "Param" /\ sig.a[2].a[1].n = "VAR_KEYWORD"
    /\ (RefAnyish(sig.a[1].a[3]) \/ RefUndeclared("VAR_POSITIONAL", sig.a[1].a[3]))
    /\ (RefAnyish(sig.a[2].a[3]) \/ RefUndeclared("VAR_KEYWORD", sig.a[2].a[3]))

\* Known deviation: a decorator's DECLARED return type Callable[[str], str] cannot carry parameter names; the
\* def-derived view of the decorated function is (str, /) -> str, the runtime view is the returned function
\* (s: str) -> str: a keyword call r(s="x") is accepted at module level / from an importer and rejected next to a
\* nested def, although CPython accepts it.
Dev_DeclaredReturnErasesNames(c) == ~FixedDeclaredReturn /\ c.shape = "retyped"
Dev_DeclaredReturnCall(c, kws) == Dev_DeclaredReturnErasesNames(c) /\ "s" \in kws

\* A call's value where the def has NO return annotation: the defining module infers it from the body
\* (name_check_visitor.py:2160 _set_argspec_to_retval) and wraps it in Coroutine for an `async def` that does not yield
\* (:2186-2190; before repo b243661 for every `async def`, also an async generator function: "missing_await" and
\* "Coroutine is not async iterable" in the defining module only).  With a return annotation, and for an importer, the
\* signature's return type is the call's value (ShapeRet / ShapeRetRt).
ImplCallAwaitableDefining(c) ==
    c.h.isasync /\ (c.shape # "generator" \/ (c.h.ret = NoAnn /\ ~FixedAsyncGenInferred))
ImplCallAwaitableImporter(c) == c.h.isasync /\ (c.shape # "generator" \/ BugAsyncGenWrapped)
\* Ref (CPython data model): calling a function yields an awaitable iff it is a coroutine function -- an `async def`
\* whose body does not yield; an async generator function returns an async generator, which cannot be awaited
RefCallAwaitable(c) == c.h.isasync /\ c.shape # "generator"
\* the class of the repaired defect (excuses nothing unless the switch says the old code is being checked)
Dev_AsyncGenInferredCoroutine(c) == ~FixedAsyncGenInferred /\ c.shape = "generator" /\ c.h.isasync /\ c.h.ret = NoAnn

ShapeViewsAgreeModulo(c, devOK) ==
    LET h == c.h s == c.shape
    IN CASE s \in MethodShapes ->
              /\ RefBindingDropsFirst(h, s, ImplSigClassAccess(h, s), ImplSigInstanceAccess(h, s))
              /\ RefBodyAgrees(h, s, ImplBody(h, s), ImplSigInstanceAccess(h, s), ImplSigClassAccess(h, s))
              /\ RefMatchesInspect(ImplSigClassAccess(h, s), RefInspectClassAccess(h, s))
              /\ RefMatchesInspect(ImplSigInstanceAccess(h, s), RefInspectInstanceAccess(h, s))
         [] s = "wraps" -> RefKnowsNothing(ImplSigRtWraps) /\ RefMatchesInspect(ImplSigRtWraps, RefInspectWrapper)
         [] s = "retyped" ->
              /\ RefMatchesInspect(ImplSigRtRetyped, RefInspect(InnerHeader))
              /\ (RefSameSig(InnerHeader, ImplSigDefRetyped, ImplSigRtRetyped) \/ (devOK /\ Dev_DeclaredReturnErasesNames(c)))
         [] s = "generator" ->
              /\ RefSameSig(h, ImplShapeSigDef(h, s), ImplShapeSigRt(h, s))
              /\ RefMatchesInspect(ImplShapeSigRt(h, s), RefInspect(h))

(***************************************************************************)
(* Generator: DefHeaders' AddParam, then the return/flags, then the shape   *)
(***************************************************************************)
ShapeOK(h, s) ==
    /\ (s = "generator" => h.ret \in {NoAnn, AnnExpr(IF h.isasync THEN "AIterInt" ELSE "IterInt")})
    /\ (s # "generator" => h.ret \notin {AnnExpr("IterInt"), AnnExpr("AIterInt")})
    /\ (s \in {"wraps", "retyped"} => ~h.isasync)
    /\ (s = "retyped" => (h.params = << >> /\ h.ret = NoAnn /\ ~h.future))     \* the decorated def does not matter
BlankCase == [h |-> BlankHeader, shape |-> "method"]
SInit == stk = << >> /\ nodes = 0 /\ stage = "params" /\ case = BlankHeader
FinishHeaderS ==
    /\ stage = "params"
    /\ \E r \in RetChoices, a \in AsyncChoices, f \in FutureChoices :
         case' = [case EXCEPT !.ret = AnnExpr(r), !.isasync = a, !.future = f]
    /\ stage' = "shape" /\ UNCHANGED <<stk, nodes>>
ChooseShape ==
    /\ stage = "shape"
    /\ \E s \in ShapeChoices : ShapeOK(case, s) /\ case' = [h |-> case, shape |-> s]
    /\ stage' = "done" /\ UNCHANGED <<stk, nodes>>
SNext == AddParam \/ FinishHeaderS \/ ChooseShape

ShapeViewsAgree == stage = "done" => ShapeViewsAgreeModulo(case, TRUE)
ShapeViewsAgreeStrict == stage = "done" => ShapeViewsAgreeModulo(case, FALSE)
\* a call is awaitable exactly if CPython's is, in the defining module and for an importer alike
CallAwaitableAgrees ==
    (stage = "done" /\ case.shape \in {"generator"} \cup MethodShapes) =>
        (ImplCallAwaitableDefining(case) = RefCallAwaitable(case) /\ ImplCallAwaitableImporter(case) = RefCallAwaitable(case))
=============================================================================
