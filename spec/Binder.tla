------------------------------- MODULE Binder -------------------------------
(***************************************************************************)
(* pyanalyze's argument binder (property C05).                             *)
(*                                                                         *)
(* Impl* transcribes, branch for branch,                                   *)
(*   name_check_visitor.py:5560  the argument list built for a call        *)
(*   signature.py:2000           preprocess_args (step 1: splitting of     *)
(*                               * / ** literals, step 2: merging)         *)
(*   signature.py:802            Signature.bind_arguments (one branch per  *)
(*                               parameter kind x argument source, then    *)
(*                               the four final checks)                    *)
(* as a state machine: the generator builds a case (signature, call) in    *)
(* stages, `Preprocess` computes the ActualArguments, then ONE ACTION PER  *)
(* BRANCH of bind_arguments consumes one parameter per step, and one       *)
(* Finish_* action per final check.  The reference (what CPython does) is  *)
(* CPythonBind.tla; nothing below `Impl` refers to it and vice versa.      *)
(*                                                                         *)
(* Every operator takes the case as a parameter so that BinderTrace.tla    *)
(* applies the same definitions to observations of the real code.          *)
(***************************************************************************)
EXTENDS CPythonBind, TLC

CONSTANTS
    MaxParams,     \* parameters per signature
    MaxPos,        \* plain positional arguments before the star argument
    MaxStarLit,    \* length of a *tuple-literal
    MaxPost,       \* plain positional arguments after the star argument
    MaxKw,         \* plain keyword arguments
    MaxDKeys,      \* keys of a **dict-literal
    Unknowns,      \* TRUE: also star arguments typed list[int] / tuple[int, ...] / dict[str, int]
    MaxExp,        \* expansions of unknown-length star arguments are enumerated up to this length
    Mutant,        \* "none", or a bug switched on in the model (sensitivity self-test):
                   \*   "drop_both_given"       positional + keyword for one parameter not detected
                   \*   "ignore_extra_keywords" the final unexpected-keyword check dropped
    FixStarKw,     \* TRUE: model the repair proposed in proposed/C05-fix-1.diff
    FixExtraKw     \* TRUE: model the repair proposed in proposed/C05-fix-2.diff

(***************************************************************************)
(* Impl, part 1: the ActualArguments of a call                             *)
(***************************************************************************)
Arg(label, val, name, n, keys) == [label |-> label, val |-> val, name |-> name, n |-> n, keys |-> keys]
Rep(n, x) == [j \in 1..n |-> x]
Reverse(s) == [j \in 1..Len(s) |-> s[Len(s) + 1 - j]]

\* name_check_visitor.py:5560-5570: node.args in source order (a Starred one gets the label ARGS),
\* then node.keywords in source order (`**x` gets the label KWARGS)
ImplArgList(call) ==
    Rep(call.pos, Arg("pos", "int", "", 0, << >>))
    \o (IF call.star.kind = "none" THEN << >> ELSE << Arg("ARGS", call.star.kind, "", call.star.n, << >>) >>)
    \o Rep(call.post, Arg("pos", "int", "", 0, << >>))
    \o [j \in 1..Len(call.kws) |-> Arg("kw", "int", call.kws[j], 0, << >>)]
    \o (IF call.dstar = "none" THEN << >> ELSE << Arg("KWARGS", call.dstar, "", 0, call.dkeys) >>)

\* preprocess_args step 1 (signature.py:2011-2100) for ONE argument: the processed arguments it
\* contributes and what it appends to kwargs_requireds
ImplSplitOne(a) ==
    CASE a.label = "ARGS" /\ a.val = "lit" ->
            \* :2037-2041 concrete_values_from_iterable knows the members: separate positionals
            [items |-> Rep(a.n, Arg("pos", "int", "", 0, << >>)), kwreq |-> << >>]
      [] a.label = "ARGS" /\ a.val # "lit" ->
            \* :2031-2036 unknown length: repacked as tuple[T], stays ARGS
            [items |-> << Arg("ARGS", "unknown", "", 0, << >>) >>, kwreq |-> << >>]
      [] a.label = "KWARGS" /\ a.val = "lit" ->
            \* :2069-2090 via _preprocess_kwargs_kv_pairs (:2229 iterates the pairs REVERSED); every key
            \* of a dict literal is required -> plain keyword arguments; no extra value -> no KWARGS left
            [items |-> [j \in 1..Len(a.keys) |-> Arg("kw", "int", Reverse(a.keys)[j], 0, << >>)], kwreq |-> << >>]
      [] a.label = "KWARGS" /\ a.val # "lit" ->
            \* :2091-2098 a Mapping[str, V] without known keys: extra_values = [V], items = {}
            [items |-> << Arg("KWARGS", "unknown", "", 0, << >>) >>, kwreq |-> << TRUE >>]
      [] OTHER -> [items |-> << a >>, kwreq |-> << >>]                          \* :2099-2100

RECURSIVE ImplSplit(_)
ImplSplit(args) ==
    IF args = << >> THEN [items |-> << >>, kwreq |-> << >>]
    ELSE LET h == ImplSplitOne(Head(args))
             t == ImplSplit(Tail(args))
         IN [items |-> h.items \o t.items, kwreq |-> h.kwreq \o t.kwreq]

\* preprocess_args step 2 (signature.py:2119-2174): fold over the processed arguments.
\*   m = [err, npos, star, kws (sequence, insertion order of more_processed_kwargs), skw]
MergeStart == [err |-> "", npos |-> 0, star |-> FALSE, kws |-> << >>, skw |-> FALSE]

ImplMergeOne(m, a) ==
    IF m.err # "" THEN m
    ELSE CASE a.label = "pos" ->
                IF m.kws # << >> \/ m.skw THEN [m EXCEPT !.err = "Pre_PositionalAfterKeyword"]     \* :2123
                ELSE IF m.star THEN m                           \* :2126 dumped into *args (value united)
                ELSE [m EXCEPT !.npos = @ + 1]                  \* :2129
           [] a.label = "ARGS" ->
                IF m.skw THEN [m EXCEPT !.err = "Pre_ArgsAfterKwargs"]                             \* :2133
                ELSE [m EXCEPT !.star = TRUE]                   \* :2136-2141
           [] a.label = "kw" ->
                IF a.name \in ToSet(m.kws) THEN [m EXCEPT !.err = "Pre_MultipleValues"]            \* :2147
                ELSE [m EXCEPT !.kws = Append(@, a.name)]       \* :2150
           [] a.label = "KWARGS" -> [m EXCEPT !.skw = TRUE]     \* :2151-2157

RECURSIVE ImplMerge(_, _)
ImplMerge(m, items) == IF items = << >> THEN m ELSE ImplMerge(ImplMergeOne(m, Head(items)), Tail(items))

\* ActualArguments (:2176): positionals (all definitely provided here), star_args, keywords,
\* star_kwargs, kwargs_required = any(kwargs_requireds)
ImplActuals(call) ==
    LET s == ImplSplit(ImplArgList(call))
        m == ImplMerge(MergeStart, s.items)
    IN [err |-> m.err, npos |-> m.npos, star |-> m.star, kws |-> ToSet(m.kws), skw |-> m.skw,
        kwreq |-> \E j \in 1..Len(s.kwreq) : s.kwreq[j],
        maybe |-> {}]     \* keywords that are only POSSIBLY provided (PossibleArg labels): none for literal / opaque
                          \* star arguments; StarPrep.tla builds actuals in which there are some

(***************************************************************************)
(* Impl, part 2: Signature.bind_arguments (signature.py:802-1136)          *)
(*   st = [idx    index of the parameter the loop is at,                   *)
(*         pidx   positional_index,                                        *)
(*         kwc    keywords_consumed,                                       *)
(*         sac    star_args_consumed,   skc  star_kwargs_consumed,         *)
(*         xkc    (only read when FixExtraKw) a **kwargs PARAMETER was     *)
(*                seen, i.e. extra keywords have somewhere to go,          *)
(*         sax    (only set when FixStarKw) *args cannot reach further     *)
(*                parameters: one was bound by keyword after *args began,  *)
(*         bound  the Position recorded per parameter so far               *)
(*                ("P<i>", "K" = own name, DEFAULT, ARGS, KWARGS, UNKNOWN),*)
(*         verdict "run" | "ok" | "err",  why = the branch that ended it]  *)
(***************************************************************************)
BindStart == [idx |-> 1, pidx |-> 0, kwc |-> {}, sac |-> FALSE, skc |-> FALSE, xkc |-> FALSE, sax |-> FALSE,
              bound |-> << >>,
              verdict |-> "run", why |-> ""]
PosName(i) == <<"P0", "P1", "P2", "P3", "P4", "P5", "P6", "P7">>[i + 1]

\* which branch of the loop body is taken for parameter sig[st.idx]
ImplBranch(sig, a, st) ==
    LET p == sig[st.idx]
        nm == p.name
    IN CASE p.kind = "po" ->                                                    \* :821
              IF st.pidx < a.npos THEN "PO_FromPositional"                      \* :822
              ELSE IF a.star THEN "PO_FromStar"                                 \* :846
              ELSE IF p.dflt THEN "PO_Default"                                  \* :853
              ELSE "PO_Missing"                                                 \* :857
         [] p.kind = "pk" ->                                                    \* :867
              IF st.pidx < a.npos                                               \* :868
              THEN (IF nm \in a.kws /\ Mutant # "drop_both_given"
                    THEN "PK_BothGiven"                                         \* :885-894
                    ELSE "PK_FromPositional")
              ELSE IF a.star /\ ~st.sax                                         \* :895 (sax is always FALSE
                   THEN (IF nm \in a.kws                                        \* :896   unless FixStarKw)
                         THEN (IF FixStarKw /\ st.sac THEN "PK_FromKeyword"     \* only with the proposed repair
                               ELSE "PK_StarAndKeyword")                        \* :897
                         ELSE "PK_FromStar")
              ELSE IF nm \in a.kws                                             \* :918
                   THEN (IF nm \in a.maybe /\ ~p.dflt THEN "PK_MaybeMissing"    \* :921-931 not definitely_provided
                         ELSE "PK_FromKeyword")
              ELSE IF a.skw THEN "PK_FromStarKwargs"                            \* :933
              ELSE IF p.dflt THEN "PK_Default"                                  \* :942
              ELSE "PK_Missing"                                                 \* :946
         [] p.kind = "ko" ->                                                    \* :951
              IF nm \in a.kws                                                  \* :952
              THEN (IF nm \in a.maybe /\ ~p.dflt THEN "KO_MaybeMissing"         \* :962-972 not definitely_provided
                    ELSE "KO_FromKeyword")
              ELSE IF a.skw THEN "KO_FromStarKwargs"                            \* :974
              ELSE IF p.dflt THEN "KO_Default"                                  \* :984
              ELSE "KO_Missing"                                                 \* :988
         [] p.kind = "va" ->                                                    \* :993
              IF st.pidx < a.npos \/ a.star THEN "VA_Some" ELSE "VA_Empty"      \* :1018
         [] p.kind = "vk" ->                                                    \* :1022
              IF a.skw \/ (a.kws \ st.kwc) # {} THEN "VK_Some" ELSE "VK_Empty"  \* :1049

\* the effect of each branch on the loop state
ImplEffect(b, sig, a, st) ==
    LET p == sig[st.idx]
        nm == p.name
        Bound(pos) == [st EXCEPT !.idx = @ + 1, !.bound = Append(@, pos)]
        Fail == [st EXCEPT !.verdict = "err", !.why = b]
        FromStar == IF p.dflt THEN "UNKNOWN" ELSE "ARGS"          \* :847-850, :904-907
        FromKw == IF p.dflt THEN "UNKNOWN" ELSE "KWARGS"          \* :934-937, :975-978
    IN CASE b = "PO_FromPositional" -> [Bound(PosName(st.pidx)) EXCEPT !.pidx = @ + 1]        \* :844-845
         [] b = "PO_FromStar" -> [Bound(FromStar) EXCEPT !.sac = TRUE]                          \* :851-852
         [] b = "PO_Default" -> Bound("DEFAULT")                                                \* :854
         [] b = "PO_Missing" -> Fail                                                            \* :865
         [] b = "PK_FromPositional" -> [Bound(PosName(st.pidx)) EXCEPT !.pidx = @ + 1]        \* :883-884
         [] b = "PK_BothGiven" -> Fail                                                          \* :889
         [] b = "PK_StarAndKeyword" -> Fail                                                     \* :897
         [] b = "PK_FromStar" ->                                                                \* :903-917
                IF a.skw THEN [Bound("UNKNOWN") EXCEPT !.sac = TRUE, !.skc = TRUE]
                ELSE [Bound(FromStar) EXCEPT !.sac = TRUE]
         [] b = "PK_FromKeyword" -> [Bound("K") EXCEPT !.kwc = @ \cup {nm}, !.sax = a.star]    \* :931-932
         [] b = "PK_FromStarKwargs" -> [Bound(FromKw) EXCEPT !.skc = TRUE]                      \* :938-941
         [] b = "PK_Default" -> Bound("DEFAULT")                                                \* :943
         [] b = "PK_Missing" -> Fail                                                            \* :947
         [] b = "PK_MaybeMissing" -> Fail                                                       \* :926 "may not be provided"
         [] b = "KO_MaybeMissing" -> Fail                                                       \* :967
         [] b = "KO_FromKeyword" -> [Bound("K") EXCEPT !.kwc = @ \cup {nm}]                    \* :972-973
         [] b = "KO_FromStarKwargs" -> [Bound(FromKw) EXCEPT !.skc = TRUE, !.kwc = @ \cup {nm}] \* :979-983
         [] b = "KO_Default" -> Bound("DEFAULT")                                                \* :985
         [] b = "KO_Missing" -> Fail                                                            \* :989
         [] b = "VA_Some" ->                                                                    \* :994-1001
                [Bound("ARGS") EXCEPT !.sac = TRUE, !.pidx = IF @ < a.npos THEN a.npos ELSE @]
         [] b = "VA_Empty" -> [Bound("DEFAULT") EXCEPT !.sac = TRUE]                            \* :1020
         [] b = "VK_Some" -> [Bound("KWARGS") EXCEPT !.skc = TRUE, !.xkc = TRUE]                \* :1023, :1034
         [] b = "VK_Empty" -> [Bound("DEFAULT") EXCEPT !.skc = TRUE, !.xkc = TRUE]              \* :1050

\* after the loop (signature.py:1107-1136)
ImplFinishBranch(a, st) ==
    IF ~st.sac /\ st.pidx # a.npos THEN "Finish_TooManyPositional"                             \* :1107
    ELSE IF ~(IF FixExtraKw THEN st.xkc ELSE st.skc) /\ (a.kws \ st.kwc) # {} /\ Mutant # "ignore_extra_keywords"
         THEN "Finish_ExtraKeywords"                                                            \* :1114-1123
    ELSE IF ~st.sac /\ a.star THEN "Finish_StarArgsUnused"                                      \* :1124
    ELSE IF ~st.skc /\ a.skw /\ a.kwreq THEN "Finish_StarKwargsUnused"                          \* :1127
    ELSE "Finish_Ok"                                                                            \* :1136

ImplFinish(b, st) ==
    IF b = "Finish_Ok" THEN [st EXCEPT !.verdict = "ok", !.why = b] ELSE [st EXCEPT !.verdict = "err", !.why = b]

\* the whole of check_call up to the binding, as one function of the case (used by the trace spec
\* and by MachineIsFold)
RECURSIVE ImplLoop(_, _, _)
ImplLoop(sig, a, st) ==
    IF st.verdict # "run" THEN st
    ELSE IF st.idx > Len(sig) THEN ImplFinish(ImplFinishBranch(a, st), st)
    ELSE ImplLoop(sig, a, ImplEffect(ImplBranch(sig, a, st), sig, a, st))

ImplRun(c) ==
    LET a == ImplActuals(c.call)
    IN IF a.err # "" THEN [BindStart EXCEPT !.verdict = "err", !.why = a.err]       \* check_call :1172
       ELSE ImplLoop(c.sig, a, BindStart)

ImplAccepted(c) == ImplRun(c).verdict = "ok"

(***************************************************************************)
(* Known deviation of the implementation (known_findings.jsonl,            *)
(* key "star-args-then-keyword"): a positional-or-keyword parameter that   *)
(* is passed BY KEYWORD is rejected ("may be filled from both *args and a  *)
(* keyword argument") whenever the call also has a *args of unknown        *)
(* length that is not exhausted by explicit positionals -- even when       *)
(* there are earlier positional parameters for *args to fill, so that a    *)
(* non-empty *args binds (def f(a, b): f( *xs, b=1 ) with xs = [1]).         *)
(* The predicate is on the case alone: a pk parameter i passed by keyword  *)
(* with at least one positional slot before it left for the star argument. *)
(***************************************************************************)
Dev_StarArgsThenKeyword(c) ==
    /\ UnknownStar(c.call)
    /\ \E i \in DOMAIN c.sig :
         /\ c.sig[i].kind = "pk"
         /\ c.sig[i].name \in ToSet(c.call.kws) \cup ToSet(c.call.dkeys)
         /\ i >= c.call.pos + c.call.post + 2

(***************************************************************************)
(* Known deviation (key "keyword-hidden-by-star-kwargs"): the final check  *)
(* for unexpected keywords is skipped as soon as ANY parameter was filled  *)
(* from a **mapping of unknown keys (star_kwargs_consumed), not only when  *)
(* the signature has a **kwargs parameter.  So an explicit keyword that    *)
(* names no keyword-capable parameter goes unreported although no          *)
(* expansion of the mapping can bind (def f(a): f(z=1, **kw)).             *)
(***************************************************************************)
Dev_KeywordHiddenByStarKwargs(c) ==
    /\ UnknownDstar(c.call)
    /\ ~Has(c.sig, "vk")
    /\ \E k \in ToSet(c.call.kws) : \A i \in DOMAIN c.sig : c.sig[i].kind \in {"pk", "ko"} => c.sig[i].name # k

(***************************************************************************)
(* The machine: staged generator, then the binder                          *)
(***************************************************************************)
VARIABLES case, stage, act, st, br       \* br: the branch the binder takes next (computed once per state)
vars == <<case, stage, act, st, br>>

NoStar == [kind |-> "none", n |-> 0]
Blank == [sig |-> << >>,
          call |-> [pos |-> 0, star |-> NoStar, post |-> 0, kws |-> << >>, dstar |-> "none", dkeys |-> << >>]]
NoActuals == [err |-> "", npos |-> 0, star |-> FALSE, kws |-> {}, skw |-> FALSE, kwreq |-> FALSE, maybe |-> {}]

Init == case = Blank /\ stage = "params" /\ act = NoActuals /\ st = BindStart /\ br = ""

NextBranch(sig, a, s) ==
    IF s.verdict # "run" THEN "" ELSE IF s.idx > Len(sig) THEN ImplFinishBranch(a, s) ELSE ImplBranch(sig, a, s)

AddParam ==
    /\ stage = "params" /\ Len(case.sig) < MaxParams
    /\ \E k \in ParamKinds, d \in BOOLEAN :
         LET sig2 == Append(case.sig, [kind |-> k, name |-> Names[Len(case.sig) + 1], dflt |-> d])
         IN ValidSig(sig2) /\ case' = [case EXCEPT !.sig = sig2]
    /\ UNCHANGED <<stage, act, st, br>>

EndParams == stage = "params" /\ stage' = "positional" /\ UNCHANGED <<case, act, st, br>>

StarChoices ==
    {NoStar} \cup {[kind |-> "lit", n |-> n] : n \in 0..MaxStarLit}
    \cup (IF Unknowns THEN {[kind |-> "list", n |-> 0], [kind |-> "tuple", n |-> 0]} ELSE {})

ChoosePositional ==
    /\ stage = "positional"
    /\ \E np \in 0..MaxPos, s \in StarChoices, q \in 0..MaxPost :
         /\ (s = NoStar => q = 0)
         /\ case' = [case EXCEPT !.call.pos = np, !.call.star = s, !.call.post = q]
    /\ stage' = "keywords" /\ UNCHANGED <<act, st, br>>

NameUniverse(sig) == {sig[i].name : i \in DOMAIN sig} \cup {Extra}

ChooseKeywords ==
    /\ stage = "keywords"
    /\ \E K \in SUBSET NameUniverse(case.sig) :
         /\ Cardinality(K) <= MaxKw
         /\ case' = [case EXCEPT !.call.kws = NameSeq(K)]
    /\ stage' = "dstar" /\ UNCHANGED <<act, st, br>>

ChooseDstar ==
    /\ stage = "dstar"
    /\ \/ UNCHANGED case
       \/ \E K \in SUBSET NameUniverse(case.sig) :
            /\ Cardinality(K) <= MaxDKeys
            /\ case' = [case EXCEPT !.call.dstar = "lit", !.call.dkeys = NameSeq(K)]
       \/ Unknowns /\ case' = [case EXCEPT !.call.dstar = "dict"]
    /\ stage' = "preprocess" /\ UNCHANGED <<act, st, br>>

\* ---- preprocess_args
Pre_Ok ==
    /\ stage = "preprocess" /\ ImplActuals(case.call).err = ""
    /\ act' = ImplActuals(case.call) /\ stage' = "bind"
    /\ br' = NextBranch(case.sig, act', st) /\ UNCHANGED <<case, st>>

Pre_Error ==           \* "Multiple values provided for argument" is the only reachable one (see PreErrors)
    /\ stage = "preprocess" /\ ImplActuals(case.call).err # ""
    /\ act' = ImplActuals(case.call)
    /\ st' = [st EXCEPT !.verdict = "err", !.why = ImplActuals(case.call).err]
    /\ stage' = "done" /\ UNCHANGED <<case, br>>

\* ---- bind_arguments: one action per branch
Step(b) ==
    /\ stage = "bind" /\ br = b /\ st.idx <= Len(case.sig)
    /\ st' = ImplEffect(b, case.sig, act, st)
    /\ br' = NextBranch(case.sig, act, st')
    /\ stage' = IF st'.verdict = "run" THEN "bind" ELSE "done"
    /\ UNCHANGED <<case, act>>

PosOnly_FromPositional == stage = "bind" /\ Step("PO_FromPositional")
PosOnly_FromStar == stage = "bind" /\ Step("PO_FromStar")
PosOnly_Default == stage = "bind" /\ Step("PO_Default")
PosOnly_Missing == stage = "bind" /\ Step("PO_Missing")
PosOrKw_FromPositional == stage = "bind" /\ Step("PK_FromPositional")
PosOrKw_BothGiven == stage = "bind" /\ Step("PK_BothGiven")
PosOrKw_StarAndKeyword == stage = "bind" /\ Step("PK_StarAndKeyword")
PosOrKw_FromStar == stage = "bind" /\ Step("PK_FromStar")
PosOrKw_FromKeyword == stage = "bind" /\ Step("PK_FromKeyword")
PosOrKw_FromStarKwargs == stage = "bind" /\ Step("PK_FromStarKwargs")
PosOrKw_Default == stage = "bind" /\ Step("PK_Default")
PosOrKw_Missing == stage = "bind" /\ Step("PK_Missing")
PosOrKw_MaybeMissing == stage = "bind" /\ Step("PK_MaybeMissing")      \* only reachable from StarPrep.tla's actuals
KwOnly_MaybeMissing == stage = "bind" /\ Step("KO_MaybeMissing")
KwOnly_FromKeyword == stage = "bind" /\ Step("KO_FromKeyword")
KwOnly_FromStarKwargs == stage = "bind" /\ Step("KO_FromStarKwargs")
KwOnly_Default == stage = "bind" /\ Step("KO_Default")
KwOnly_Missing == stage = "bind" /\ Step("KO_Missing")
VarPositional_Some == stage = "bind" /\ Step("VA_Some")
VarPositional_Empty == stage = "bind" /\ Step("VA_Empty")
VarKeyword_Some == stage = "bind" /\ Step("VK_Some")
VarKeyword_Empty == stage = "bind" /\ Step("VK_Empty")

Fin(b) ==
    /\ stage = "bind" /\ br = b /\ st.idx > Len(case.sig)
    /\ st' = ImplFinish(b, st)
    /\ br' = ""
    /\ stage' = "done" /\ UNCHANGED <<case, act>>

Finish_TooManyPositional == stage = "bind" /\ Fin("Finish_TooManyPositional")
Finish_ExtraKeywords == stage = "bind" /\ Fin("Finish_ExtraKeywords")
Finish_StarArgsUnused == stage = "bind" /\ Fin("Finish_StarArgsUnused")
Finish_StarKwargsUnused == stage = "bind" /\ Fin("Finish_StarKwargsUnused")
Finish_Ok == stage = "bind" /\ Fin("Finish_Ok")

BindActions ==
    \/ PosOnly_FromPositional \/ PosOnly_FromStar \/ PosOnly_Default \/ PosOnly_Missing
    \/ PosOrKw_FromPositional \/ PosOrKw_BothGiven \/ PosOrKw_StarAndKeyword \/ PosOrKw_FromStar
    \/ PosOrKw_FromKeyword \/ PosOrKw_FromStarKwargs \/ PosOrKw_Default \/ PosOrKw_Missing
    \/ KwOnly_FromKeyword \/ KwOnly_FromStarKwargs \/ KwOnly_Default \/ KwOnly_Missing
    \/ VarPositional_Some \/ VarPositional_Empty \/ VarKeyword_Some \/ VarKeyword_Empty
    \/ Finish_TooManyPositional \/ Finish_ExtraKeywords \/ Finish_StarArgsUnused
    \/ Finish_StarKwargsUnused \/ Finish_Ok
    \/ PosOrKw_MaybeMissing \/ KwOnly_MaybeMissing

Next ==
    \/ AddParam \/ EndParams \/ ChoosePositional \/ ChooseKeywords \/ ChooseDstar
    \/ Pre_Ok \/ Pre_Error
    \/ BindActions

(***************************************************************************)
(* Properties                                                              *)
(***************************************************************************)
Accepted == st.verdict = "ok"

\* first sentence of C05: statically known shape => verdict = CPython's
ConcreteAgrees == (stage = "done" /\ IsConcrete(case.call)) => RefConcreteAgrees(case, Accepted)

\* second sentence: unknown-length star arguments
AcceptSound ==
    (stage = "done" /\ ~IsConcrete(case.call))
        => (RefAcceptSound(case, Accepted, MaxExp) \/ Dev_KeywordHiddenByStarKwargs(case))
AcceptSoundStrict == (stage = "done" /\ ~IsConcrete(case.call)) => RefAcceptSound(case, Accepted, MaxExp)
RejectSound ==
    (stage = "done" /\ ~IsConcrete(case.call))
        => (RefRejectSound(case, Accepted, MaxExp) \/ Dev_StarArgsThenKeyword(case))
\* expected to be VIOLATED on the current code (documents the finding; sensitivity self-test)
RejectSoundStrict == (stage = "done" /\ ~IsConcrete(case.call)) => RefRejectSound(case, Accepted, MaxExp)

\* the machine and the fold used by the trace specification are the same function
MachineIsFold == stage = "done" => st = ImplRun(case)

\* the two defensive errors of preprocess_args step 2 cannot occur for argument lists built by the
\* visitor (positional arguments always precede keywords)
PreErrors == stage = "done" => st.why \notin {"Pre_PositionalAfterKeyword", "Pre_ArgsAfterKwargs"}
=============================================================================
