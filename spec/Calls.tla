-------------------------------- MODULE Calls --------------------------------
(***************************************************************************)
(* Call checking (property C06): arguments against parameter types, the    *)
(* type inferred for the call, and the type-variable solution of generic   *)
(* functions.                                                              *)
(*                                                                         *)
(* A case is a call  <function of a fixed library>(literal arguments).     *)
(* The LIBRARY (Lib below) is data of this module: the harness generates   *)
(* the real Python functions from the JSON form of Lib, so the functions   *)
(* the real checker sees and the ones TLC reasons about are the same.      *)
(*                                                                         *)
(* Impl* operators transcribe pyanalyze (file:line as of /repo c410070):   *)
(*   arg_spec.py:857-936      constructor / bound-method signatures        *)
(*   signature.py:802-1138    bind_arguments (values bound to parameters;  *)
(*                            only binding calls are generated, the binder *)
(*                            itself is property C05 / Binder.tla)         *)
(*   signature.py:1241-1381   check_call_with_bound_args: pass 1 (bounds), *)
(*                            resolve_bounds_map, return substitution,     *)
(*                            default return on error, pass 2              *)
(*   signature.py:629-675     _check_param_type_compatibility              *)
(*   value.py                 can_assign with type variables (TypeVarValue *)
(*                            :2192, GenericValue :1042, MultiValuedValue  *)
(*                            :1990, CallableValue :1763 -> signature.py   *)
(*                            :1475-1523), substitute_typevars             *)
(*   typevar.py:34-180        resolve_bounds_map / solve                   *)
(*   type_object.py:141-164   the protocol branch of TypeObject.can_assign *)
(*                            with its positive cache ("sessions": several *)
(*                            calls in one run; one known deviation)       *)
(*   node_visitor.py:636      duplicate suppression (number of diagnostics)*)
(*   signature.py:654-658     "the argument IS the parameter's default" by  *)
(*                            identity (ImplIsDefault); :2610-2618 bound     *)
(*                            methods put the receiver in front (self: T);  *)
(*                            :1378-1388 / :1398-1455 allow_call (NamedTuple)*)
(*   name_check_visitor.py:2160-2198, :5597-5600  return value inferred     *)
(*                            from the body of a def without annotation     *)
(* Assignability of type-variable-free terms is ImplCA of Assign.tla.      *)
(*                                                                         *)
(* Ref* operators are the meaning of the property and never mention the    *)
(* Impl operators: membership of the runtime argument objects in the       *)
(* declared parameter types (Member of Values.tla), CPython's rule for     *)
(* which parameter an argument binds to, existence of an admissible        *)
(* type-variable assignment, and a model of what the library bodies return *)
(* (validated against the real execution on every observation).            *)
(***************************************************************************)
EXTENDS Assign

CONSTANTS
    LitSet,    \* "small" | "full" | "dflt" | "fullplus": the literal arguments calls are built from
    MaxPos,    \* most positional arguments given to a *args function (others: one per parameter)
    MaxKw,     \* most keyword arguments per call
    MaxArgs,   \* most arguments per call
    FnFilter,  \* "all" | "nogeneric3" (first-built entries without the three-argument functions; quick tier)
               \* | "new" (the entries of LibNew: defaults / parameter kinds / call forms / returns) | "old" (first-built)
               \* | "gen" (the entries of LibGen: user-defined generic classes, their constructors and methods)
               \* | "kwn" (the entries of LibKwn: typed **kwargs next to positional-only / *args parameters, keywords
               \*   that reuse parameter names)
    MaxSess,   \* most calls per session (0: no sessions)
    Shapes,    \* how the arguments are written: {"plain"} f(a, k=b) and/or "star" f(*(a,), **{"k": b}),
               \* "mixed" f(a, *(b,), **{"k": c}) (first positional explicit), "mixedk" f(*(a,), k=b) (keywords explicit)
    FixProtoCache,  \* TRUE: model the repair proposed in proposed/C06-fix-1.diff (cache keyed by both values)
    Bug        \* "none"; sensitivity self-tests: "varargs_unchecked", "no_inherent_bounds", "default_by_equality",
               \* "kwargs_drops_bound_names" (a keyword named like ANY already bound parameter is
               \* left out of the value bound to **kwargs, instead of the keywords a named parameter consumed),
               \* "ctor_self_unmatched" (constructor of a class without type parameters of its own binds self without
               \* matching the declared self type against the class)

(***************************************************************************)
(* Terms added to Values.tla                                               *)
(***************************************************************************)
TV(n) == [k |-> "typevar", n |-> n]                       \* TypeVarValue
CallT(ps, r) == [k |-> "callable", ps |-> ps, r |-> r]    \* CallableValue: Callable[[ps...], r]
AnyE == [k |-> "any", src |-> "error"]                    \* AnySource.error
AnyI == [k |-> "any", src |-> "inference"]                \* AnySource.inference
Opt(t) == Union(<<t, Known(NONE)>>)
\* Annotated[t, "meta"] = AnnotatedValue(t, [KnownValue("meta")]) (its can_assign is the inner value's, value.py:2601);
\* dataclasses.InitVar[t] in a dataclass field = t (annotations.py:469-470)
AnnT(t) == [k |-> "ann", t |-> t]
InitVarT(t) == [k |-> "initvar", t |-> t]
Strip(T) == IF T.k \in {"ann", "initvar"} THEN T.t ELSE T
NoAnn == [k |-> "noann"]          \* the def has no return annotation

TInt == Typed("int")    TStr == Typed("str")    TFloat == Typed("float")   TBool == Typed("bool")
TObj == Typed("object")

\* objects outside Values.tla: instances of the library classes K, K2(K), W, D, of the session classes
\* ItI / ItS, and the helper functions
XClasses == {"K", "K2", "W", "D", "function", "ItI", "ItS", "Box", "WN", "DD", "DK", "NT"}
IterClasses == {"ItI", "ItS"}       \* user classes with  def __iter__(self) -> Iterator[int] / Iterator[str]  (sessions)
XSupers(c) == IF c = "K2" THEN {"K2", "K", "object"}                         \* class K2(K)
              ELSE IF c \in IterClasses THEN {c, "Iterable", "object"}       \* structurally an Iterable
              ELSE {c, "object"}
KI == Obj("K", "k")
K2I == Obj("K2", "k2")
WI == Obj("W", "w")
DI == Obj("D", "d")
OItI == Obj("ItI", "i")
OItS == Obj("ItS", "s")
Yields(c) == IF c = "ItI" THEN I1 ELSE SA         \* what iterating an instance produces (iter([1]) / iter(["a"]))
YieldT(c) == IF c = "ItI" THEN Typed("int") ELSE Typed("str")     \* the declared Iterator[...] argument
FnObj(n) == Obj("function", n)
F00 == Obj("float", "0.0")                  \* 0 == False == 0.0 in Python, three different KnownValues (value.py:622-627)
\* dataclasses._HAS_DEFAULT_FACTORY: the default of a field(default_factory=list) parameter in the generated __init__
FACTORY == Obj("dcfactory", "list")

RECURSIVE HasTV(_)
HasTV(T) ==
    CASE T.k = "typevar" -> TRUE
      [] T.k = "generic" -> \E i \in 1..Len(T.args) : HasTV(T.args[i])
      [] T.k = "seq" -> \E i \in 1..Len(T.ms) : HasTV(T.ms[i].t)
      [] T.k = "union" -> \E i \in 1..Len(T.ms) : HasTV(T.ms[i])
      [] T.k = "callable" -> HasTV(T.r) \/ \E i \in 1..Len(T.ps) : HasTV(T.ps[i])
      [] OTHER -> FALSE

(***************************************************************************)
(* The library                                                             *)
(***************************************************************************)
\* helper functions passed where a Callable is declared: def <id>(x: p) -> r: return <body>
Helpers == <<
    [id |-> "i2s", p |-> TInt, r |-> TStr, body |-> "const", o |-> SA],
    [id |-> "o2i", p |-> TObj, r |-> TInt, body |-> "const", o |-> I1],
    [id |-> "s2s", p |-> TStr, r |-> TStr, body |-> "param", o |-> NONE] >>
Helper(n) == CHOOSE h \in {Helpers[i] : i \in 1..Len(Helpers)} : h.id = n

\* type variables: bound = << >> or <<T>>, cons = constraints
TvDecls == <<
    [n |-> "T", bound |-> << >>, cons |-> << >>],
    [n |-> "S", bound |-> << >>, cons |-> << >>],
    [n |-> "TB", bound |-> <<TInt>>, cons |-> << >>],
    [n |-> "TA", bound |-> <<Typed("A")>>, cons |-> << >>],
    [n |-> "TC", bound |-> << >>, cons |-> <<TInt, TStr>>],
    [n |-> "KT", bound |-> << >>, cons |-> << >>],
    [n |-> "VT", bound |-> << >>, cons |-> << >>],
    [n |-> "NB", bound |-> <<TFloat>>, cons |-> << >>] >>
TvDecl(n) == CHOOSE d \in {TvDecls[i] : i \in 1..Len(TvDecls)} : d.n = n

\* parameters: kind "po" positional-only (before `/`) | "pk" positional-or-keyword | "va" *args | "vk" **kwargs
\* | "ko" keyword-only;
\* dflt = << >> or <<default object>>
Param(n, kd, ann, dflt) == [name |-> n, kind |-> kd, ann |-> ann, dflt |-> dflt]
P(n, ann) == Param(n, "pk", ann, << >>)
PD(n, ann, d) == Param(n, "pk", ann, <<d>>)
PO(n, ann) == Param(n, "po", ann, << >>)
POD(n, ann, d) == Param(n, "po", ann, <<d>>)
SELF == P("self", AnyT)      \* unannotated first parameter of methods (its annotation is never read)
CLS == P("cls", AnyT)

\* bodies (indices refer to the parameters after self/cls was bound):
\*   "param" return parameter is[1]              "const" return the object o
\*   "tuple"/"list" container of parameters is   "dict" {is[1]: is[2]}
\*   "call" is[1](is[2])                         "firstor" is[1][0] if is[1] else is[2]
\*   "callc" is[1](o)                            "swapped" (is[1][1], is[1][0])
\*   "elem_list" / "elem_tuple" / "elem_seq"  is[1][0] if isinstance(is[1], list / tuple / Sequence) and is[1] else is[2]
\*   "new" (constructors) the new instance o
\*   "self" return self (o = the receiver)       "raise" raise ValueError("x")  (the call never returns)
\*   "newnt" (NamedTuple) the new instance NT(<every parameter>)
Body(k, is, o) == [k |-> k, is |-> is, o |-> o]
BP(i) == Body("param", <<i>>, NONE)

\* id    unique name of the case family (also how the call is written, see recv)
\* cls   "" or the class the def lives in;  name = name of the def
\* mk    "plain" | "method" | "classmethod" | "staticmethod" | "init" | "dcinit" (dataclass-generated __init__)
\*       | "inherited" (class K2(K): pass -- the constructor is K.__init__) | "new" (__new__(cls, ...))
\*       | "selfmethod" (def m(self: T, ...) -> ...T...) | "ntnew" (class NT(NamedTuple): the generated __new__)
\* recv  how the callee is written: "fn" name(...) | "inst" k0.name(...) (k0 a module-level instance)
\*       | "tinst" K(1).name(...) | "cls" K.name(...) | "ctor" K(...) | "unbound" K.name(k0, ...)
\* decl  parameters as written in the def; ret = declared return (NoAnn: none); tvs = type variables of the signature
\* kws   keyword names the generator may pass
Fn(id, cls, name, mk, recv, decl, ret, body, tvs, kws) ==
    [id |-> id, cls |-> cls, name |-> name, mk |-> mk, recv |-> recv, decl |-> decl, ret |-> ret,
     body |-> body, tvs |-> tvs, kws |-> kws]
F1(id, ann, ret) == Fn(id, "", id, "plain", "fn", <<P("x", ann)>>, ret, BP(1), << >>, << >>)
G(id, decl, ret, body, tvs) == Fn(id, "", id, "plain", "fn", decl, ret, body, tvs, << >>)

LInt == Generic("list", <<TInt>>)
LibOld == <<
    \* ---- plain
    F1("f_int", TInt, TInt),
    F1("f_float", TFloat, TFloat),
    F1("f_str", TStr, TStr),
    F1("f_bool", TBool, TBool),
    F1("f_obj", TObj, TObj),
    F1("f_any", AnyT, AnyT),
    F1("f_opt", Opt(TInt), Opt(TInt)),
    F1("f_union", Union(<<TInt, TStr>>), Union(<<TInt, TStr>>)),
    F1("f_lit", Known(I1), TInt),
    F1("f_none", Known(NONE), Known(NONE)),
    F1("f_list", LInt, LInt),
    F1("f_seq", Generic("Sequence", <<TInt>>), Generic("Sequence", <<TInt>>)),
    F1("f_iter", Generic("Iterable", <<TStr>>), Generic("Iterable", <<TStr>>)),
    F1("f_tup", SeqT("tuple", <<One(TInt), One(TStr)>>), SeqT("tuple", <<One(TInt), One(TStr)>>)),
    F1("f_vtup", Generic("tuple", <<TInt>>), Generic("tuple", <<TInt>>)),
    F1("f_dict", Generic("dict", <<TStr, TInt>>), Generic("dict", <<TStr, TInt>>)),
    F1("f_map", Generic("Mapping", <<TStr, TInt>>), Generic("Mapping", <<TStr, TInt>>)),
    F1("f_set", Generic("set", <<TInt>>), Generic("set", <<TInt>>)),
    F1("f_olist", Opt(LInt), Opt(LInt)),
    G("f_cb", <<P("f", CallT(<<TInt>>, TStr))>>, TStr, Body("callc", <<1>>, I1), << >>),
    F1("f_A", Typed("A"), Typed("A")),
    F1("f_B", Typed("B"), Typed("A")),
    F1("f_color", Typed("Color"), Typed("Color")),
    F1("f_N", NewType("N", "int"), TInt),
    G("f_2", <<P("x", TInt), P("y", TStr)>>, SeqT("tuple", <<One(TInt), One(TStr)>>), Body("tuple", <<1, 2>>, NONE), << >>),
    G("f_3", <<P("x", TInt), P("y", TStr), P("z", TFloat)>>, Generic("list", <<TObj>>), Body("list", <<1, 2, 3>>, NONE), << >>),
    \* ---- defaults
    Fn("f_def", "", "f_def", "plain", "fn", <<P("x", TInt), PD("y", TStr, SA)>>, TStr, BP(2), << >>, <<"y">>),
    Fn("f_def2", "", "f_def2", "plain", "fn", <<PD("x", TInt, I0), PD("y", Opt(TStr), NONE)>>,
       SeqT("tuple", <<One(TInt), One(Opt(TStr))>>), Body("tuple", <<1, 2>>, NONE), << >>, <<"x", "y">>),
    \* ---- *args / **kwargs / keyword-only
    G("f_va", <<Param("args", "va", TInt, << >>)>>, Generic("tuple", <<TInt>>), BP(1), << >>),
    G("f_va2", <<P("x", TStr), Param("args", "va", TInt, << >>)>>, TStr, BP(1), << >>),
    Fn("f_kw", "", "f_kw", "plain", "fn", <<Param("kwargs", "vk", TInt, << >>)>>, Generic("dict", <<TStr, TInt>>), BP(1),
       << >>, <<"a", "ab">>),
    Fn("f_vakw", "", "f_vakw", "plain", "fn",
       <<P("x", TInt), Param("args", "va", TStr, << >>), Param("kwargs", "vk", TFloat, << >>)>>, TInt, BP(1), << >>, <<"a">>),
    Fn("f_ko", "", "f_ko", "plain", "fn", <<P("x", TInt), Param("k", "ko", TStr, <<SA>>)>>, TStr, BP(2), << >>, <<"k">>),
    \* ---- generic
    G("ident", <<P("x", TV("T"))>>, TV("T"), BP(1), <<"T">>),
    G("lst", <<P("x", Generic("list", <<TV("T")>>))>>, Generic("list", <<TV("T")>>), BP(1), <<"T">>),
    G("head", <<P("x", Generic("list", <<TV("T")>>)), P("d", TV("T"))>>, TV("T"), Body("firstor", <<1, 2>>, NONE), <<"T">>),
    G("pair", <<P("x", TV("T")), P("y", TV("T"))>>, TV("T"), BP(1), <<"T">>),
    G("mk_list", <<P("x", TV("T"))>>, Generic("list", <<TV("T")>>), Body("list", <<1>>, NONE), <<"T">>),
    G("mk_dict", <<P("k", TV("T")), P("v", TV("S"))>>, Generic("dict", <<TV("T"), TV("S")>>), Body("dict", <<1, 2>>, NONE),
      <<"T", "S">>),
    G("swap", <<P("x", TV("T")), P("y", TV("S"))>>, SeqT("tuple", <<One(TV("S")), One(TV("T"))>>), Body("tuple", <<2, 1>>, NONE),
      <<"T", "S">>),
    G("opt_t", <<P("x", Opt(TV("T")))>>, Opt(TV("T")), BP(1), <<"T">>),
    G("seq_t", <<P("x", Generic("Sequence", <<TV("T")>>))>>, Generic("Sequence", <<TV("T")>>), BP(1), <<"T">>),
    G("map_t", <<P("x", Generic("Mapping", <<TV("T"), TV("S")>>))>>, Generic("Mapping", <<TV("T"), TV("S")>>), BP(1), <<"T", "S">>),
    G("va_t", <<Param("args", "va", TV("T"), << >>)>>, Generic("tuple", <<TV("T")>>), BP(1), <<"T">>),
    Fn("kw_t", "", "kw_t", "plain", "fn", <<Param("kwargs", "vk", TV("T"), << >>)>>, Generic("dict", <<TStr, TV("T")>>), BP(1),
       <<"T">>, <<"a", "ab">>),
    G("swap_t", <<P("p", SeqT("tuple", <<One(TV("T")), One(TV("S"))>>))>>, SeqT("tuple", <<One(TV("S")), One(TV("T"))>>),
      Body("swapped", <<1>>, NONE), <<"T", "S">>),
    Fn("gen_opt", "", "gen_opt", "plain", "fn", <<P("x", TV("T")), PD("d", Opt(TV("T")), NONE)>>, Opt(TV("T")), BP(2),
       <<"T">>, <<"d">>),
    \* a union parameter with two T-bearing members: an argument that matches both contributes an OrBound
    G("first_or", <<P("xs", Union(<<TV("T"), Generic("list", <<TV("T")>>)>>)), P("d", TV("T"))>>, TV("T"),
      Body("elem_list", <<1, 2>>, NONE), <<"T">>),
    G("first_seq", <<P("xs", Union(<<TV("T"), Generic("Sequence", <<TV("T")>>)>>)), P("d", TV("T"))>>, TV("T"),
      Body("elem_seq", <<1, 2>>, NONE), <<"T">>),
    G("first_tup", <<P("xs", Union(<<TV("T"), Generic("tuple", <<TV("T")>>)>>)), P("d", TV("T"))>>, TV("T"),
      Body("elem_tuple", <<1, 2>>, NONE), <<"T">>),
    G("unwrap", <<P("xs", Union(<<TV("T"), Generic("list", <<TV("T")>>)>>))>>, TV("T"), Body("elem_list", <<1, 1>>, NONE), <<"T">>),
    G("lst_c", <<P("x", Generic("list", <<TV("TC")>>))>>, Generic("list", <<TV("TC")>>), BP(1), <<"TC">>),
    G("apply", <<P("f", CallT(<<TV("T")>>, TV("S"))), P("x", TV("T"))>>, TV("S"), Body("call", <<1, 2>>, NONE), <<"T", "S">>),
    G("apply2", <<P("f", CallT(<<TV("T")>>, TV("S"))), P("g", CallT(<<TV("T")>>, TV("S"))), P("x", TV("T"))>>, TV("S"),
      Body("call", <<1, 3>>, NONE), <<"T", "S">>),
    G("g_mixed", <<P("x", TV("T")), P("n", TInt)>>, TV("T"), BP(1), <<"T">>),
    G("bounded", <<P("x", TV("TB"))>>, TV("TB"), BP(1), <<"TB">>),
    G("bounded2", <<P("x", TV("TB")), P("y", TV("TB"))>>, TV("TB"), BP(2), <<"TB">>),
    G("bounded_A", <<P("x", TV("TA"))>>, TV("TA"), BP(1), <<"TA">>),
    G("lst_b", <<P("x", Generic("list", <<TV("TB")>>))>>, Generic("list", <<TV("TB")>>), BP(1), <<"TB">>),
    G("constrained", <<P("x", TV("TC"))>>, TV("TC"), BP(1), <<"TC">>),
    G("constrained2", <<P("x", TV("TC")), P("y", TV("TC"))>>, TV("TC"), BP(1), <<"TC">>),
    \* ---- methods, classmethods, staticmethods, constructors
    Fn("k0.meth", "K", "meth", "method", "inst", <<SELF, P("x", TInt)>>, TInt, BP(1), << >>, << >>),
    Fn("K(1).meth", "K", "meth", "method", "tinst", <<SELF, P("x", TInt)>>, TInt, BP(1), << >>, << >>),
    Fn("K.cmeth", "K", "cmeth", "classmethod", "cls", <<CLS, P("x", TInt)>>, TInt, BP(1), << >>, << >>),
    Fn("k0.cmeth", "K", "cmeth", "classmethod", "inst", <<CLS, P("x", TInt)>>, TInt, BP(1), << >>, << >>),
    Fn("K.smeth", "K", "smeth", "staticmethod", "cls", <<P("x", TStr)>>, TStr, BP(1), << >>, << >>),
    Fn("k0.smeth", "K", "smeth", "staticmethod", "inst", <<P("x", TStr)>>, TStr, BP(1), << >>, << >>),
    Fn("k0.gmeth", "K", "gmeth", "method", "inst", <<SELF, P("x", TV("T"))>>, TV("T"), BP(1), <<"T">>, << >>),
    Fn("K(1).gmeth", "K", "gmeth", "method", "tinst", <<SELF, P("x", TV("T"))>>, TV("T"), BP(1), <<"T">>, << >>),
    Fn("k0.meth2", "K", "meth2", "method", "inst", <<SELF, P("x", TInt), PD("y", TStr, SA)>>, TStr, BP(2), << >>, <<"y">>),
    Fn("K", "K", "__init__", "init", "ctor", <<SELF, P("x", TInt)>>, Known(NONE), Body("new", << >>, KI), << >>, <<"x">>),
    Fn("K2", "K2", "__init__", "inherited", "ctor", <<SELF, P("x", TInt)>>, Known(NONE), Body("new", << >>, K2I), << >>, << >>),
    Fn("W", "W", "__new__", "new", "ctor", <<CLS, P("x", TInt)>>, Typed("W"), Body("new", << >>, WI), << >>, <<"x">>),
    Fn("D", "D", "__init__", "dcinit", "ctor", <<SELF, P("x", TInt), PD("y", TStr, SA)>>, Known(NONE), Body("new", << >>, DI),
       << >>, <<"y">>) >>

\* ---- the parameter-level mechanisms of _check_param_type_compatibility / check_call_with_bound_args /
\* get_default_return / bind_self the first-built library did not reach
PF(id, decl, ret, body, tvs, kws) == Fn(id, "", id, "plain", "fn", decl, ret, body, tvs, kws)
KO(n, ann, dflt) == Param(n, "ko", ann, dflt)
TDa == TD(<<Ent("a", TRUE, TInt)>>)                 \* class TD(TypedDict): a: int
TObj2 == SeqT("tuple", <<One(TObj), One(TObj)>>)
LibNew == <<
    \* ---- (1) defaults inside / outside the annotation; positional-or-keyword and keyword-only
    PF("d_none", <<PD("x", TInt, NONE)>>, Opt(TInt), BP(1), << >>, <<"x">>),                 \* def d_none(x: int = None)
    PF("d_str0", <<PD("name", TStr, I0)>>, TObj, BP(1), << >>, <<"name">>),                  \* name: str = 0
    PF("d_flag", <<PD("flag", TBool, I1)>>, TInt, BP(1), << >>, << >>),                      \* flag: bool = 1
    PF("d_xs", <<PD("xs", LInt, Cont("tuple", << >>))>>, Generic("Sequence", <<TInt>>), BP(1), << >>, <<"xs">>),   \* xs: list[int] = ()
    PF("d_mix", <<PD("a", TStr, I0), PD("b", TInt, SE)>>, TObj2, Body("tuple", <<1, 2>>, NONE), << >>, <<"a", "b">>),
    PF("d_ok", <<PD("x", TInt, I0), PD("s", TStr, SE)>>, SeqT("tuple", <<One(TInt), One(TStr)>>), Body("tuple", <<1, 2>>, NONE),
       << >>, <<"x", "s">>),                                                                  \* well-typed defaults 0 and ""
    PF("d_ko", <<KO("name", TStr, <<I0>>)>>, TObj, BP(1), << >>, <<"name">>),                \* def d_ko(*, name: str = 0)
    PF("d_ko2", <<P("x", TInt), KO("k", TInt, <<NONE>>)>>, Opt(TInt), BP(2), << >>, <<"k">>),
    \* ---- generic functions: an ill-typed default in the bounds-collecting pass, a type variable only a default reaches,
    \*      a type variable no parameter mentions
    PF("g_def", <<P("x", TV("T")), PD("d", Generic("list", <<TV("T")>>), NONE)>>, TV("T"), BP(1), <<"T">>, <<"d">>),
    PF("pick", <<P("x", TV("T")), PD("d", Opt(TV("S")), NONE)>>, Opt(TV("S")), BP(2), <<"T", "S">>, <<"d">>),
    PF("mk_empty", << >>, Generic("list", <<TV("T")>>), Body("list", << >>, NONE), <<"T">>, << >>),
    \* ---- (2) parameter types of the shared universe the library lacked; typed *args of a union type
    F1("f_type", SubclassT(Typed("A")), SubclassT(Typed("A"))),                               \* x: type[A]
    F1("f_td", TDa, TObj),
    F1("f_ann", AnnT(TInt), TInt),                                                            \* x: Annotated[int, "meta"]
    F1("f_lit2", Union(<<Known(I0), Known(SA)>>), TObj),                                      \* x: Literal[0, "a"]
    PF("va_opt", <<Param("args", "va", Opt(TInt), << >>)>>, Generic("tuple", <<Opt(TInt)>>), BP(1), << >>, << >>),
    \* ---- (3) call forms, defaults in methods and constructors, self-typed methods, dataclass fields, NamedTuple
    Fn("K.meth(k0)", "K", "meth", "method", "unbound", <<SELF, P("x", TInt)>>, TInt, BP(1), << >>, <<"x">>),
    Fn("k0.dmeth", "K", "dmeth", "method", "inst", <<SELF, PD("x", TInt, NONE)>>, Opt(TInt), BP(1), << >>, <<"x">>),
    Fn("K.dmeth(k0)", "K", "dmeth", "method", "unbound", <<SELF, PD("x", TInt, NONE)>>, Opt(TInt), BP(1), << >>, <<"x">>),
    Fn("K.cdef", "K", "cdef", "classmethod", "cls", <<CLS, PD("x", TStr, I0)>>, TObj, BP(1), << >>, <<"x">>),
    Fn("K.sdef", "K", "sdef", "staticmethod", "cls", <<PD("x", TInt, NONE)>>, Opt(TInt), BP(1), << >>, <<"x">>),
    Fn("k0.me", "K", "me", "selfmethod", "inst", <<P("self", TV("T"))>>, TV("T"), Body("self", << >>, KI), <<"T">>, << >>),
    Fn("K(1).me", "K", "me", "selfmethod", "tinst", <<P("self", TV("T"))>>, TV("T"), Body("self", << >>, KI), <<"T">>, << >>),
    Fn("k0.me2", "K", "me2", "selfmethod", "inst", <<P("self", TV("T")), P("x", TInt)>>, TV("T"),
       Body("self", << >>, KI), <<"T">>, <<"x">>),
    Fn("K(1).me2", "K", "me2", "selfmethod", "tinst", <<P("self", TV("T")), P("x", TInt)>>, TV("T"),
       Body("self", << >>, KI), <<"T">>, <<"x">>),
    Fn("Box", "Box", "__init__", "init", "ctor", <<SELF, PD("label", TStr, I0)>>, Known(NONE), Body("new", << >>, Obj("Box", "box")),
       << >>, <<"label">>),
    Fn("WN", "WN", "__new__", "new", "ctor", <<CLS, PD("x", TInt, NONE)>>, Typed("WN"), Body("new", << >>, Obj("WN", "wn")),
       << >>, <<"x">>),
    \* @dataclass class DD: x: int = None; ys: list[int] = field(default_factory=list); iv: InitVar[int] = 0
    Fn("DD", "DD", "__init__", "dcinit", "ctor",
       <<SELF, PD("x", TInt, NONE), PD("ys", LInt, FACTORY), PD("iv", InitVarT(TInt), I0)>>, Known(NONE),
       Body("new", << >>, Obj("DD", "dd")), << >>, <<"x", "iv">>),
    \* @dataclass(kw_only=True) class DK: x: int; y: str = 0
    Fn("DK", "DK", "__init__", "dcinit", "ctor", <<SELF, KO("x", TInt, << >>), KO("y", TStr, <<I0>>)>>, Known(NONE),
       Body("new", << >>, Obj("DK", "dk")), << >>, <<"x", "y">>),
    \* class NT(NamedTuple): x: int; y: str = "a"
    Fn("NT", "NT", "__new__", "ntnew", "ctor", <<CLS, P("x", TInt), PD("y", TStr, SA)>>, Typed("NT"), Body("newnt", << >>, NONE),
       << >>, <<"y">>),
    \* ---- (4) returns: no annotation (the visitor's own inference from the body), -> None, -> NoReturn
    PF("noann", <<P("x", TInt)>>, NoAnn, BP(1), << >>, << >>),
    PF("noann_c", <<P("x", TInt)>>, NoAnn, Body("const", << >>, SA), << >>, << >>),
    PF("p_none", <<P("x", TInt)>>, Known(NONE), Body("const", << >>, NONE), << >>, << >>),
    PF("never", <<P("x", TInt)>>, Never, Body("raise", << >>, NONE), << >>, << >>) >>
(***************************************************************************)
(* User-defined GENERIC CLASSES, their constructors and methods.           *)
(* The classes are data (the harness renders them from it):                *)
(*   n     class name;  tps = its own type parameters (Generic[...])       *)
(*   base  << >> or <<[c, args]>>: the (possibly subscripted) base class   *)
(*   init  "own" (def __init__(self, <iparams>): self.item = item)         *)
(*         | "dataclass" (@dataclass with the fields iparams)              *)
(*         | "inherit" (no __init__ / field of its own)                    *)
(*   meths methods defined in the class, over its first type parameter P:  *)
(*         "get" (self) -> P: return self.item                             *)
(*         "put" (self, x: P) -> None: self.item = x                       *)
(*         "make" @classmethod (cls, x: P) -> n[P]: return cls(x)          *)
(* An instance holding `item` is the object [c |-> class, items |-> <<item>>].*)
(***************************************************************************)
GBase(c, args) == [c |-> c, args |-> args]
GClass(n, tps, base, init, iparams, meths) == [n |-> n, tps |-> tps, base |-> base, init |-> init, iparams |-> iparams, meths |-> meths]
GClasses == <<
    GClass("GBox", <<"T">>, << >>, "own", <<P("item", TV("T"))>>, <<"get", "put", "make">>),
    GClass("IntBox", << >>, <<GBase("GBox", <<TInt>>)>>, "inherit", << >>, << >>),                     \* class IntBox(GBox[int])
    GClass("SmallIntBox", << >>, <<GBase("IntBox", << >>)>>, "inherit", << >>, << >>),                \* depth 2
    GClass("StrBox", << >>, <<GBase("GBox", <<TStr>>)>>, "inherit", << >>, << >>),
    \* class PairBox(GBox[tuple[KT, VT]], Generic[KT, VT]): re-parameterises the base
    GClass("PairBox", <<"KT", "VT">>, <<GBase("GBox", <<SeqT("tuple", <<One(TV("KT")), One(TV("VT"))>>)>>)>>, "inherit", << >>, << >>),
    \* class OwnBox(GBox[int]): def __init__(self, item: int, tag: str = "a"): super().__init__(item)
    GClass("OwnBox", << >>, <<GBase("GBox", <<TInt>>)>>, "own", <<P("item", TInt), PD("tag", TStr, SA)>>, << >>),
    GClass("NumBox", <<"NB">>, << >>, "own", <<P("item", TV("NB"))>>, <<"get">>),                     \* NB bound=float
    GClass("ConBox", <<"TC">>, << >>, "own", <<P("item", TV("TC"))>>, <<"get">>),                     \* TC in (int, str)
    GClass("DBox", <<"T">>, << >>, "dataclass", <<P("item", TV("T"))>>, <<"get">>),
    GClass("IntDBox", << >>, <<GBase("DBox", <<TInt>>)>>, "inherit", << >>, << >>) >>
GNames == {"GBox", "IntBox", "SmallIntBox", "StrBox", "PairBox", "OwnBox", "NumBox", "ConBox", "DBox", "IntDBox"}
GParamNames == GNames \cup {"HasGet"}
ASSUME GNames = {GClasses[i].n : i \in 1..Len(GClasses)}
GC(n) == CHOOSE k \in {GClasses[i] : i \in 1..Len(GClasses)} : k.n = n
GI(c, item) == [c |-> c, v |-> "", items |-> <<item>>]
RECURSIVE GAnc(_)
GAnc(c) == IF GC(c).base = << >> THEN {c} ELSE {c} \cup GAnc(GC(c).base[1].c)
\* the receiver the harness writes for a method call on a constructed instance: C(<a fitting literal>)
GCanon(c) == IF c = "StrBox" THEN SA ELSE I1

\* mk "gctor"    C(args)                 recv "ctor"
\*    "gctorget" C(args).get()           recv "ctorget"   (two calls on one line: the diagnostics of both count)
\*    "gmeth"    C(<canon>).put(args)    recv "ginst"
\*    "gcmeth"   C.make(args)            recv "cls"
\*    "gspec"    GBox[int](args)          recv "spec"      (decl = the parameters the explicit specialisation declares)
\* tvs = the type variables the DECLARED signature leaves open (what the property quantifies over)
GMks == {"gctor", "gctorget", "gmeth", "gcmeth", "gspec"}
GFn(id, cls, name, mk, recv, body, tvs, kws) == Fn(id, cls, name, mk, recv, << >>, NoAnn, body, tvs, kws)
GNew == Body("gnew", <<1>>, NONE)
LibGen == <<
    GFn("GBox", "GBox", "__init__", "gctor", "ctor", GNew, <<"T">>, <<"item">>),
    GFn("IntBox", "IntBox", "__init__", "gctor", "ctor", GNew, << >>, <<"item">>),
    GFn("SmallIntBox", "SmallIntBox", "__init__", "gctor", "ctor", GNew, << >>, <<"item">>),
    GFn("StrBox", "StrBox", "__init__", "gctor", "ctor", GNew, << >>, <<"item">>),
    GFn("PairBox", "PairBox", "__init__", "gctor", "ctor", GNew, <<"KT", "VT">>, <<"item">>),
    GFn("OwnBox", "OwnBox", "__init__", "gctor", "ctor", GNew, << >>, <<"tag">>),
    GFn("NumBox", "NumBox", "__init__", "gctor", "ctor", GNew, <<"NB">>, <<"item">>),
    GFn("ConBox", "ConBox", "__init__", "gctor", "ctor", GNew, <<"TC">>, <<"item">>),
    GFn("DBox", "DBox", "__init__", "gctor", "ctor", GNew, <<"T">>, <<"item">>),
    GFn("IntDBox", "IntDBox", "__init__", "gctor", "ctor", GNew, << >>, <<"item">>),
    GFn("GBox(_).get", "GBox", "get", "gctorget", "ctorget", BP(1), <<"T">>, << >>),
    GFn("IntBox(_).get", "IntBox", "get", "gctorget", "ctorget", BP(1), << >>, <<"item">>),
    GFn("SmallIntBox(_).get", "SmallIntBox", "get", "gctorget", "ctorget", BP(1), << >>, << >>),
    GFn("StrBox(_).get", "StrBox", "get", "gctorget", "ctorget", BP(1), << >>, << >>),
    GFn("PairBox(_).get", "PairBox", "get", "gctorget", "ctorget", BP(1), <<"KT", "VT">>, << >>),
    GFn("OwnBox(_).get", "OwnBox", "get", "gctorget", "ctorget", BP(1), << >>, << >>),
    GFn("NumBox(_).get", "NumBox", "get", "gctorget", "ctorget", BP(1), <<"NB">>, << >>),
    GFn("ConBox(_).get", "ConBox", "get", "gctorget", "ctorget", BP(1), <<"TC">>, << >>),
    GFn("DBox(_).get", "DBox", "get", "gctorget", "ctorget", BP(1), <<"T">>, << >>),
    GFn("IntDBox(_).get", "IntDBox", "get", "gctorget", "ctorget", BP(1), << >>, << >>),
    GFn("IntBox(1).put", "IntBox", "put", "gmeth", "ginst", Body("const", << >>, NONE), << >>, <<"x">>),
    GFn("SmallIntBox(1).put", "SmallIntBox", "put", "gmeth", "ginst", Body("const", << >>, NONE), << >>, << >>),
    GFn("StrBox('a').put", "StrBox", "put", "gmeth", "ginst", Body("const", << >>, NONE), << >>, << >>),
    GFn("GBox.make", "GBox", "make", "gcmeth", "cls", GNew, <<"T">>, <<"x">>),
    GFn("IntBox.make", "IntBox", "make", "gcmeth", "cls", GNew, << >>, << >>),
    Fn("GBox[int]", "GBox", "__init__", "gspec", "spec", <<P("item", TInt)>>, NoAnn, GNew, << >>, <<"item">>),
    \* a generic class / a generic Protocol (class HasGet(Protocol[T]): def get(self) -> T) as a PARAMETER type
    Fn("unbox", "", "unbox", "plain", "fn", <<P("b", Generic("GBox", <<TV("T")>>))>>, TV("T"), Body("unboxitem", <<1>>, NONE), <<"T">>, << >>),
    Fn("first", "", "first", "plain", "fn", <<P("b", Generic("HasGet", <<TV("T")>>))>>, TV("T"), Body("unboxitem", <<1>>, NONE), <<"T">>, << >>) >>
\* ---- typed **kwargs next to parameters that have a NAME but cannot be passed by keyword (positional-only, *args):
\* a keyword that reuses such a name -- or the name `kwargs` itself, or a foreign name -- lands in **kwargs (PEP 570)
\* and must be judged against the declared value type of **kwargs.  Bodies return every parameter, so the slot each
\* argument really lands in is observed (RefResult = CPython's binding, validated on every observation).
VK(n, ann) == Param(n, "vk", ann, << >>)
DSS == Generic("dict", <<TStr, TStr>>)
LibKwn == <<
    \* def po_kw(a: int, /, **kwargs: str) -> tuple[int, dict[str, str]]: return (a, kwargs)
    PF("po_kw", <<PO("a", TInt), VK("kwargs", TStr)>>, SeqT("tuple", <<One(TInt), One(DSS)>>), Body("tuple", <<1, 2>>, NONE),
       << >>, <<"a", "kwargs", "zz">>),
    \* def po_default_kw(a: int = 0, /, flag: bool = False, **kwargs: str)
    PF("po_default_kw", <<POD("a", TInt, I0), PD("flag", TBool, BF), VK("kwargs", TStr)>>,
       SeqT("tuple", <<One(TInt), One(TBool), One(DSS)>>), Body("tuple", <<1, 2, 3>>, NONE), << >>, <<"a", "flag", "kwargs", "zz">>),
    \* def va_kw(*args: int, **kwargs: str)
    PF("va_kw", <<Param("args", "va", TInt, << >>), VK("kwargs", TStr)>>,
       SeqT("tuple", <<One(Generic("tuple", <<TInt>>)), One(DSS)>>), Body("tuple", <<1, 2>>, NONE), << >>, <<"args", "kwargs", "zz">>),
    \* def dunder_kw(__a: int, **kwargs: str): the runtime-signature route to a positional-only parameter
    \* (arg_spec.py:496-505).  CPython takes __a for an ordinary parameter at module level; the keyword __a itself is the
    \* binder's known deviation dunder-parameter-positional-only (C05 / C13) and is not in the menu.
    PF("dunder_kw", <<P("__a", TInt), VK("kwargs", TStr)>>, SeqT("tuple", <<One(TInt), One(DSS)>>), Body("tuple", <<1, 2>>, NONE),
       << >>, <<"kwargs", "zz">>),
    \* def tv_kw(a: T, /, **kwargs: T) -> T: return a
    PF("tv_kw", <<PO("a", TV("T")), VK("kwargs", TV("T"))>>, TV("T"), BP(1), <<"T">>, <<"a", "kwargs", "zz">>) >>
Lib == LibOld \o LibNew \o LibGen \o LibKwn
GenIds == {LibGen[i].id : i \in 1..Len(LibGen)}
KwnIds == {LibKwn[i].id : i \in 1..Len(LibKwn)}
NewIds == {LibNew[i].id : i \in 1..Len(LibNew)} \cup GenIds \cup KwnIds      \* everything that is not first-built

LibSet == {Lib[i] : i \in 1..Len(Lib)}
ThreeArg == {"f_3", "f_vakw"}
ActiveFns == CASE FnFilter = "all" -> LibSet
               [] FnFilter = "new" -> {f \in LibSet : f.id \in NewIds \ (GenIds \cup KwnIds)}
               [] FnFilter = "kwn" -> {f \in LibSet : f.id \in KwnIds}
               [] FnFilter = "gen" -> {f \in LibSet : f.id \in GenIds}
               [] FnFilter = "old" -> {f \in LibSet : f.id \notin NewIds}
               [] OTHER -> {f \in LibSet : f.id \notin ThreeArg \cup NewIds}       \* "nogeneric3"
FnOf(id) == CHOOSE f \in LibSet : f.id = id

\* literal arguments (OA / OB are written A() / B(): expressions whose static value is their type)
LitsSmall == <<I1, BT, SA, NONE, F15, Cont("list", <<I1>>), Cont("tuple", <<I1, SA>>), OA>>
LitsFull == LitsSmall \o <<RED, OB, Cont("list", << >>), Cont("list", <<I1, SA>>), Cont("dict", <<KV(SA, I1)>>),
                           Cont("set", <<I1>>), Cont("tuple", << >>)>>
\* the menu of the defaults slice: every default of LibNew, the values equal to one of them in Python without being the
\* same KnownValue (0 / False / 0.0, 1 / True), and well-typed values
LitsDflt == <<I0, BF, F00, SE, NONE, Cont("tuple", << >>), I1, BT, SA, Cont("list", <<I1>>), OA>>
LitsFullPlus == LitsFull \o <<I0, BF, F00, SE>>
Lits == CASE LitSet = "small" -> LitsSmall [] LitSet = "dflt" -> LitsDflt [] LitSet = "fullplus" -> LitsFullPlus [] OTHER -> LitsFull
\* what is passed where a Callable is declared: every helper function and one non-callable literal
CallableArgs == <<FnObj("i2s"), FnObj("o2i"), FnObj("s2s"), I1>>
\* ... where type[A] is declared: class objects (written A, B, int), an instance, a literal
ClassArgs == <<ClassObj("A"), ClassObj("B"), ClassObj("int"), OA, I1>>
\* ... where the TypedDict {a: int} is declared: dict displays with / without the key, a wrong value type, an undeclared
\* key, a non-string key; a literal that is no dict
TDArgs == <<Cont("dict", <<KV(SA, I1)>>), Cont("dict", <<KV(SA, SA)>>), Cont("dict", << >>),
            Cont("dict", <<KV(SA, I1), KV(SB, SA)>>), Cont("dict", <<KV(SB, I1)>>), Cont("dict", <<KV(I1, SA)>>), I1>>
\* the generic-class slice: a small literal menu; tuples where tuple[K, V] is declared; constructed instances (written
\* IntBox(1), Box('a'), ...) and a literal where a generic class / the protocol HasGet is declared
LitsG == <<I1, BT, SA, F15, NONE>>
LitsK == <<SA, I1, BT>>            \* the keyword-names slice: fits str / fits int / fits bool and int
TupArgs == <<Cont("tuple", <<I1, SA>>), Cont("tuple", <<I1>>), I1>>
BoxArgs == <<GI("IntBox", I1), GI("StrBox", SA), GI("GBox", SA), GI("SmallIntBox", I1), GI("DBox", I1), I1>>
GChoices(ann) == CASE ann.k = "seq" -> TupArgs
                   [] ann.k = "generic" /\ ann.c \in GParamNames -> BoxArgs
                   [] OTHER -> LitsG
ArgChoices(ann) == CASE ann.k = "callable" -> CallableArgs [] ann.k = "subclass" -> ClassArgs
                     [] ann.k = "typeddict" -> TDArgs [] OTHER -> Lits

(***************************************************************************)
(* Calls.  case = [fn |-> id, shape |-> "plain" | "star",                   *)
(*                 pos |-> <<objects>>, kw |-> <<[name, o]>>]              *)
(***************************************************************************)
\* arg_spec.py:917-933 (constructors: make_bound_method + get_signature drop `self`; the declared
\* `-> None` of __init__ is replaced by TypedValue(cls), :870 / :914), signature.py:1929 bind_self
\* (methods looked up on an instance or class; staticmethods keep every parameter)
\* (ImplSigParams / ImplSigRet are defined with Impl part 4 below: they need substitute_typevars)

KwNames(call) == {call.kw[j].name : j \in 1..Len(call.kw)}
KwObj(call, n) == (CHOOSE e \in {call.kw[j] : j \in 1..Len(call.kw)} : e.name = n).o
ParamNames(ps) == {ps[i].name : i \in {j \in 1..Len(ps) : ps[j].kind \in {"pk", "ko"}}}
NPk(ps) == Cardinality({i \in 1..Len(ps) : ps[i].kind \in {"po", "pk"}})  \* the positional parameters come first
HasKind(ps, kd) == \E i \in 1..Len(ps) : ps[i].kind = kd

(***************************************************************************)
(* Ref: which parameter an argument binds to (CPython), and whether the    *)
(* call binds at all.  RefParams is what CPython binds against: the        *)
(* function's parameters without the receiver.                             *)
(***************************************************************************)
\* What a generic class DECLARES for the parameters of its (possibly inherited) __init__ / of the method `put` /
\* `make` defined in its root class: the def found along the bases, with the type parameters of every base replaced
\* by the arguments the subclass gives that base (class IntBox(GBox[int]): item: T becomes item: int; at any depth).
RECURSIVE RSubst(_, _), RefDecl(_, _)
RefDecl(c, what) ==
    LET k == GC(c)
    IN IF what = "init" /\ k.init # "inherit" THEN k.iparams
       ELSE IF what = "x" /\ k.base = << >> THEN <<P("x", TV(k.tps[1]))>>
       ELSE LET b == k.base[1]
                bt == GC(b.c).tps
                sg == [n \in {bt[j] : j \in 1..Len(bt)} |-> b.args[CHOOSE j \in 1..Len(bt) : bt[j] = n]]
                ps == RefDecl(b.c, what)
            IN [i \in 1..Len(ps) |-> [ps[i] EXCEPT !.ann = RSubst(@, sg)]]
RefParams(fn) ==
    CASE fn.mk \in {"gctor", "gctorget"} -> RefDecl(fn.cls, "init")
      [] fn.mk \in {"gmeth", "gcmeth"} -> RefDecl(fn.cls, "x")
      [] fn.mk = "gspec" -> fn.decl
      [] fn.mk = "staticmethod" \/ fn.mk = "plain" -> fn.decl
      [] OTHER -> Tail(fn.decl)

RefBinds(ps, call) ==
    /\ Len(call.pos) <= NPk(ps) \/ HasKind(ps, "va")
    /\ Cardinality(KwNames(call)) = Len(call.kw)
    /\ \A j \in 1..Len(call.kw) :
         LET n == call.kw[j].name
         IN IF n \in ParamNames(ps)
            THEN \A i \in 1..Len(ps) : (ps[i].name = n /\ ps[i].kind = "pk") => i > Len(call.pos)
            ELSE HasKind(ps, "vk")
    /\ \A i \in 1..Len(ps) :
         (ps[i].kind \in {"po", "pk", "ko"} /\ ps[i].dflt = << >>) =>
            ((ps[i].kind \in {"po", "pk"} /\ i <= Len(call.pos)) \/ (ps[i].kind # "po" /\ ps[i].name \in KwNames(call)))

\* the explicit arguments with the declared type of the parameter each binds to
RefPosDecl(ps, i) == IF i <= NPk(ps) THEN ps[i].ann ELSE (CHOOSE p \in {ps[j] : j \in 1..Len(ps)} : p.kind = "va").ann
RefKwDecl(ps, n) ==
    IF n \in ParamNames(ps) THEN (CHOOSE p \in {ps[j] : j \in 1..Len(ps)} : p.name = n).ann
    ELSE (CHOOSE p \in {ps[j] : j \in 1..Len(ps)} : p.kind = "vk").ann
RefExplicit(ps, call) ==
    [i \in 1..Len(call.pos) |-> [o |-> call.pos[i], ann |-> RefPosDecl(ps, i)]]
    \o [j \in 1..Len(call.kw) |-> [o |-> call.kw[j].o, ann |-> RefKwDecl(ps, call.kw[j].name)]]

\* the runtime object each parameter is bound to when the body runs
RefBoundObj(ps, call, i) ==
    LET p == ps[i]
    IN CASE p.kind = "po" -> IF i <= Len(call.pos) THEN call.pos[i] ELSE p.dflt[1]   \* never from a keyword (PEP 570)
         [] p.kind = "pk" -> IF i <= Len(call.pos) THEN call.pos[i]
                             ELSE IF p.name \in KwNames(call) THEN KwObj(call, p.name) ELSE p.dflt[1]
         [] p.kind = "ko" -> IF p.name \in KwNames(call) THEN KwObj(call, p.name) ELSE p.dflt[1]
         [] p.kind = "va" -> Cont("tuple", [j \in 1..(Len(call.pos) - (i - 1)) |-> call.pos[i - 1 + j]])
         [] p.kind = "vk" ->
              LET extra == SelectSeq(call.kw, LAMBDA e : e.name \notin ParamNames(ps))
              IN Cont("dict", [j \in 1..Len(extra) |-> KV(Obj("str", extra[j].name), extra[j].o)])

(***************************************************************************)
(* Ref: membership, substitution, admissible type-variable assignments     *)
(***************************************************************************)
RECURSIVE MemberX(_, _), GMember(_, _)
SubT(S, T) == HasAny(S) \/ HasAny(T) \/ \A o \in Objects : MemberX(o, S) => MemberX(o, T)
\* Member of Values.tla, extended to the library classes and to functions: a function belongs to
\* Callable[[P], R] when it accepts every member of P and everything it returns is a member of R
MemberX(o, T) ==
    IF T.k \in {"ann", "initvar"} THEN MemberX(o, T.t)      \* Annotated[t, ...] and InitVar[t] denote t
    ELSE IF T.k = "any" THEN TRUE
    ELSE IF T.k = "union" THEN \E i \in 1..Len(T.ms) : MemberX(o, T.ms[i])
    ELSE IF o.c \in GNames THEN GMember(o, T)
    ELSE IF T.k \in {"typed", "generic"} /\ T.c \in GParamNames THEN FALSE     \* no instance of a generic class
    ELSE IF T.k = "callable"
         THEN o.c = "function" /\ Len(T.ps) = 1 /\ SubT(T.ps[1], Helper(o.v).p) /\ SubT(Helper(o.v).r, T.r)
    ELSE IF o.c \in XClasses
         THEN \/ T.k = "typed" /\ T.c \in XSupers(o.c)
              \/ T.k = "known" /\ T.o = o
              \/ T.k = "generic" /\ T.c = "Iterable" /\ o.c \in IterClasses /\ MemberX(Yields(o.c), T.args[1])
    ELSE Member(o, T)

\* an instance o of a generic class belongs to C[args] when its class is C or a subclass and the item it holds belongs
\* to what C declares for the item with C's parameters replaced by args; to the protocol HasGet[X] when what get()
\* returns (the item) belongs to X
GMember(o, T) ==
    CASE T.k = "typed" -> T.c \in GAnc(o.c) \cup {"object"}
      [] T.k = "known" -> T.o = o
      [] T.k = "generic" /\ T.c = "HasGet" -> MemberX(o.items[1], T.args[1])
      [] T.k = "generic" /\ T.c \in GAnc(o.c) ->
            LET tp == GC(T.c).tps
            IN MemberX(o.items[1], RSubst(RefDecl(T.c, "init")[1].ann,
                                          [n \in {tp[j] : j \in 1..Len(tp)} |-> T.args[CHOOSE j \in 1..Len(tp) : tp[j] = n]]))
      [] OTHER -> FALSE

\* substitution of type variables by a function name -> term (no simplification: Ref side)
RSubst(T, sg) ==
    CASE T.k = "typevar" -> sg[T.n]
      [] T.k = "generic" -> Generic(T.c, [i \in 1..Len(T.args) |-> RSubst(T.args[i], sg)])
      [] T.k = "seq" -> SeqT(T.c, [i \in 1..Len(T.ms) |-> [many |-> T.ms[i].many, t |-> RSubst(T.ms[i].t, sg)]])
      [] T.k = "union" -> Union([i \in 1..Len(T.ms) |-> RSubst(T.ms[i], sg)])
      [] T.k = "callable" -> CallT([i \in 1..Len(T.ps) |-> RSubst(T.ps[i], sg)], RSubst(T.r, sg))
      [] OTHER -> T

\* Candidate values of a type variable.  Membership is monotone in every position a type variable
\* occupies in the library except the parameter of a Callable and its own bound, so if any value works,
\* one of: object, the bound, a constraint, or the parameter type of a helper function works.
CandClasses == {"object", "int", "str", "bool", "float", "A", "B"}
Cands(n) ==
    LET d == TvDecl(n)
    IN IF d.cons # << >> THEN {d.cons[i] : i \in 1..Len(d.cons)}
       ELSE {t \in {Typed(c) : c \in CandClasses} : d.bound = << >> \/ SubT(t, d.bound[1])}
SeqRange(s) == {s[i] : i \in 1..Len(s)}
Sigmas(fn) == [SeqRange(fn.tvs) -> UNION {Cands(n) : n \in SeqRange(fn.tvs)}]
Admissible(fn, sg) == \A n \in SeqRange(fn.tvs) : sg[n] \in Cands(n)

ArgsFit(ps, call, sg) == \A e \in SeqRange(RefExplicit(ps, call)) : MemberX(e.o, RSubst(e.ann, sg))
\* the receiver of a method whose first parameter is annotated (`self: T`) is an argument too: the instance the
\* method is called on (an instance of the class the def lives in) belongs to the declared type of `self`
RefRecvFits(fn, sg) == fn.mk = "selfmethod" => MemberX(Obj(fn.cls, "k"), RSubst(fn.decl[1].ann, sg))
\* some statically known argument does not belong to the declared type of its parameter -- for a
\* generic function: under no admissible value of the type variables do all arguments belong
RefBad(fn, call) == ~\E sg \in Sigmas(fn) : Admissible(fn, sg) /\ ArgsFit(RefParams(fn), call, sg) /\ RefRecvFits(fn, sg)

\* the solution the checker inferred (a sequence aligned with fn.tvs) makes every argument acceptable
SigmaFn(fn, sols) == [n \in SeqRange(fn.tvs) |-> sols[CHOOSE j \in 1..Len(fn.tvs) : fn.tvs[j] = n]]
RefSolutionFits(fn, call, sols) == ArgsFit(RefParams(fn), call, SigmaFn(fn, sols)) /\ RefRecvFits(fn, SigmaFn(fn, sols))

(***************************************************************************)
(* Ref: what the call returns when executed (model of the library bodies;  *)
(* only meaningful for calls whose arguments fit, validated against the    *)
(* real execution by the trace specification)                              *)
(***************************************************************************)
Ret(o) == [raised |-> FALSE, o |-> o]
Raises == [raised |-> TRUE, o |-> NONE]
Unhashable(o) == o.c \in {"list", "dict", "set"}
RefResult(fn, call) ==
    LET ps == RefParams(fn)
        a(i) == RefBoundObj(ps, call, fn.body.is[i])
        b == fn.body
    IN CASE b.k = "param" -> Ret(a(1))
         [] b.k = "const" -> Ret(b.o)
         [] b.k = "new" -> Ret(b.o)
         [] b.k = "self" -> Ret(b.o)
         [] b.k = "raise" -> Raises
         [] b.k = "newnt" -> Ret(Cont("NT", [i \in 1..Len(ps) |-> RefBoundObj(ps, call, i)]))
         [] b.k = "gnew" -> Ret(GI(fn.cls, a(1)))                                  \* the new instance holding the item
         [] b.k = "unboxitem" -> IF a(1).c \in GNames THEN Ret(a(1).items[1]) ELSE Raises    \* return b.get()
         [] b.k \in {"tuple", "list"} -> Ret(Cont(b.k, [i \in 1..Len(b.is) |-> a(i)]))
         [] b.k = "dict" -> IF Unhashable(a(1)) THEN Raises ELSE Ret(Cont("dict", <<KV(a(1), a(2))>>))
         [] b.k = "call" -> IF a(1).c # "function" THEN Raises
                            ELSE IF Helper(a(1).v).body = "const" THEN Ret(Helper(a(1).v).o) ELSE Ret(a(2))
         [] b.k = "callc" -> IF a(1).c # "function" THEN Raises
                             ELSE IF Helper(a(1).v).body = "const" THEN Ret(Helper(a(1).v).o) ELSE Ret(b.o)
         [] b.k = "swapped" -> IF a(1).c = "tuple" /\ Len(a(1).items) = 2 THEN Ret(Cont("tuple", <<a(1).items[2], a(1).items[1]>>))
                               ELSE Raises
         [] b.k \in {"elem_list", "elem_tuple", "elem_seq"} ->
              \* (strings of the universe have at most one character: the first element of "a" is "a")
              LET x == a(1)
                  isit == CASE b.k = "elem_list" -> x.c = "list" [] b.k = "elem_tuple" -> x.c = "tuple"
                            [] OTHER -> x.c \in {"list", "tuple", "str"}
                  nonempty == IF x.c = "str" THEN x.v # "" ELSE x.items # << >>
              IN IF isit /\ nonempty THEN Ret(IF x.c = "str" THEN x ELSE x.items[1]) ELSE Ret(a(2))
         [] b.k = "firstor" -> IF a(1).c = "list" /\ a(1).items # << >> THEN Ret(a(1).items[1]) ELSE Ret(a(2))

(***************************************************************************)
(* Impl, part 1: the values bound to the parameters                        *)
(***************************************************************************)
\* name_check_visitor: a literal whose members are all literals is a KnownValue; `A()` is TypedValue(A)
TypedExpr(o) == o.c \in {"A", "B", "ItI", "ItS"}
\* an argument written C(item) with a fitting literal: the value of that constructor call (ImplGCall "gctor" below:
\* TypedValue(C) for a class without parameters of its own, C[Literal[item]] for the unbounded one-parameter classes)
ImplArgVal(o) ==
    IF o.c \in GNames THEN (IF GC(o.c).tps = << >> THEN Typed(o.c) ELSE Generic(o.c, <<Known(o.items[1])>>))
    ELSE IF TypedExpr(o) THEN Typed(o.c) ELSE Known(o)

Bnd(v, src) == [val |-> v, src |-> src]
ImplBoundAt(ps, call, i) ==
    LET p == ps[i]
    IN CASE p.kind = "po" ->                                                                      \* signature.py:822-855
              IF i <= Len(call.pos) THEN Bnd(ImplArgVal(call.pos[i]), "arg") ELSE Bnd(Known(p.dflt[1]), "default")
         [] p.kind = "pk" ->
              IF i <= Len(call.pos) THEN Bnd(ImplArgVal(call.pos[i]), "arg")                      \* signature.py:868-884
              ELSE IF p.name \in KwNames(call) THEN Bnd(ImplArgVal(KwObj(call, p.name)), "arg")   \* :918-932
              ELSE Bnd(Known(p.dflt[1]), "default")                                               \* :942-943
         [] p.kind = "ko" ->
              IF p.name \in KwNames(call) THEN Bnd(ImplArgVal(KwObj(call, p.name)), "arg")        \* :952-973
              ELSE Bnd(Known(p.dflt[1]), "default")                                               \* :984-985
         [] p.kind = "va" ->                                                                      \* :993-1021
              Bnd(SeqT("tuple", [j \in 1..(Len(call.pos) - (i - 1)) |-> One(ImplArgVal(call.pos[i - 1 + j]))]), "arg")
         [] p.kind = "vk" ->
              \* :1022-1051 TypedDictValue(items), which is a GenericValue(dict, [str, union of the entry
              \* types]) (value.py:1441-1453) as far as can_assign of dict[K, V] is concerned
              \* (a **{...} literal is split into keywords in REVERSED order, signature.py:2229)
              \* The keywords left for **kwargs are those no named parameter CONSUMED (:1029-1031 keywords_consumed,
              \* filled only where a keyword is bound to a parameter :888 / :933 / :974 / :984): a keyword named like a
              \* positional-only parameter, like *args or like **kwargs itself was consumed by nobody and stays.
              LET taken == IF Bug = "kwargs_drops_bound_names" THEN {ps[j].name : j \in {m \in 1..Len(ps) : ps[m].kind # "vk"}}
                           ELSE ParamNames(ps)
                  ex0 == SelectSeq(call.kw, LAMBDA e : e.name \notin taken)
                  extra == IF call.shape \in {"star", "mixed"} THEN [j \in 1..Len(ex0) |-> ex0[Len(ex0) + 1 - j]] ELSE ex0
              IN Bnd(Generic("dict", <<TStr, IF extra = << >> THEN AnyU
                                             ELSE ImplUnite([j \in 1..Len(extra) |-> ImplArgVal(extra[j].o)])>>), "arg")

(***************************************************************************)
(* Impl, part 2: typevar.solve on the terms of Values.tla                  *)
(***************************************************************************)
Lb(n, v) == [tv |-> n, k |-> "L", v |-> v, vs |-> << >>]
Ub(n, v) == [tv |-> n, k |-> "U", v |-> v, vs |-> << >>]
Ob(n, vs) == [tv |-> n, k |-> "O", v |-> Never, vs |-> vs]
OrB(n) == [tv |-> n, k |-> "R", v |-> Never, vs |-> << >>]   \* OrBound (its alternatives are never read: typevar.py:110-112)

\* TypeVarValue.get_inherent_bounds (value.py:2186-2190)
ImplInherent(n) ==
    IF Bug = "no_inherent_bounds" THEN << >>
    ELSE LET d == TvDecl(n)
         IN (IF d.bound # << >> THEN <<Ub(n, d.bound[1])>> ELSE << >>) \o (IF d.cons # << >> THEN <<Ob(n, d.cons)>> ELSE << >>)
\* TypeVarValue.get_fallback_value (value.py:2224-2229)
ImplFallback(n) ==
    LET d == TvDecl(n)
    IN IF d.bound # << >> THEN d.bound[1] ELSE IF d.cons # << >> THEN ImplUnite(d.cons) ELSE AnyI

\* typevar.py:43 tuple(dict.fromkeys(bounds)): bounds are frozen dataclasses, equal (and hashing alike)
\* when their values are
SameBound(a, b) == a.tv = b.tv /\ a.k = b.k /\ a.vs = b.vs /\ ImplEq(a.v, b.v) /\ ImplSameHash(a.v, b.v)
RECURSIVE DedupB(_, _)
DedupB(bs, acc) ==
    IF bs = << >> THEN acc
    ELSE DedupB(Tail(bs), IF \E j \in 1..Len(acc) : SameBound(acc[j], Head(bs)) THEN acc ELSE Append(acc, Head(bs)))

St0 == [bset |-> FALSE, bot |-> Never, tset |-> FALSE, top |-> Never, oset |-> FALSE, opts |-> << >>]
IsA(x, y) == ImplCA(x, y, FALSE)       \* Value.is_assignable
ImplStep(st, b) ==
    CASE b.k = "L" ->
            IF b.v.k = "any" /\ st.bset THEN st                                           \* typevar.py:91-92
            ELSE IF ~st.bset \/ IsA(b.v, st.bot) THEN [st EXCEPT !.bset = TRUE, !.bot = b.v]   \* :93-95
            ELSE IF IsA(st.bot, b.v) THEN st                                              \* :96-98
            ELSE [st EXCEPT !.bot = ImplUnite(<<st.bot, b.v>>)]                           \* :99-102
      [] b.k = "U" ->
            IF ~st.tset \/ IsA(st.top, b.v) THEN [st EXCEPT !.tset = TRUE, !.top = b.v]   \* :104-105
            ELSE IF IsA(b.v, st.top) THEN st                                              \* :106-107
            ELSE [st EXCEPT !.top = ImplUnite(<<st.top, b.v>>)]                           \* :108-109
      [] b.k = "R" -> st                                                                  \* :110-112 OrBound: continue
      [] b.k = "O" -> [st EXCEPT !.oset = TRUE, !.opts = b.vs]                            \* :113-114
RECURSIVE ImplFold(_, _)
ImplFold(st, bs) == IF bs = << >> THEN st ELSE ImplFold(ImplStep(st, Head(bs)), Tail(bs))

Solved(v) == [ok |-> TRUE, sol |-> v]
Unsolved == [ok |-> FALSE, sol |-> AnyE]       \* typevar.py:49-51: a CanAssignError becomes AnyValue(AnySource.error)

\* remove_redundant_solutions (typevar.py:163-180)
RECURSIVE ImplRedundant(_, _, _)
ImplRedundant(sols, i, removed) ==
    IF i > Len(sols) THEN removed
    ELSE LET kill == \E j \in 1..Len(sols) : j # i /\ j \notin removed /\ IsA(sols[i], sols[j]) /\ ~IsA(sols[j], sols[i])
         IN ImplRedundant(sols, i + 1, IF kill THEN removed \cup {i} ELSE removed)
ImplRemoveRedundant(sols) ==
    LET drop == ImplRedundant(sols, 1, {})
        RECURSIVE keep(_)
        keep(i) == IF i > Len(sols) THEN << >> ELSE (IF i \in drop THEN << >> ELSE <<sols[i]>>) \o keep(i + 1)
    IN keep(1)

ImplSolve(bounds) ==
    LET st == ImplFold(St0, DedupB(bounds, << >>))
        first ==                                                                           \* typevar.py:118-137
            IF ~st.bset THEN (IF ~st.tset THEN Solved(AnyG) ELSE Solved(st.top))
            ELSE IF ~st.tset THEN Solved(st.bot)
            ELSE IF ~IsA(st.top, st.bot) THEN Unsolved
            ELSE Solved(st.bot)
    IN IF ~first.ok \/ ~st.oset THEN first
       ELSE LET av == SelectSeq(st.opts, LAMBDA o : IsA(o, first.sol))                    \* :139-147
            IN IF av = << >> THEN Unsolved                                                 \* :141-142
               ELSE IF Len(av) = 1 THEN Solved(av[1])                                      \* :149-150
               ELSE IF first.sol.k = "any" THEN first                                      \* :153-154
               ELSE IF Len(ImplRemoveRedundant(av)) = 1 THEN Solved(ImplRemoveRedundant(av)[1])   \* :155-157
               ELSE Solved(AnyI)                                                           \* :159

(***************************************************************************)
(* Impl, part 3: can_assign of an annotation that contains type variables  *)
(* -> [ok, bs] (bs = the bounds it contributes, in order)                  *)
(***************************************************************************)
R(ok, bs) == [ok |-> ok, bs |-> bs]
Fail == R(FALSE, << >>)

\* ---- user-defined generic classes
\* substitute_typevars with a PARTIAL map (type variables outside `names` stay)
RECURSIVE PSubst(_, _, _)
PSubst(v, names, vals) ==
    CASE v.k = "typevar" -> IF \E j \in 1..Len(names) : names[j] = v.n THEN vals[CHOOSE j \in 1..Len(names) : names[j] = v.n] ELSE v
      [] v.k = "generic" -> Generic(v.c, [i \in 1..Len(v.args) |-> PSubst(v.args[i], names, vals)])
      [] v.k = "seq" -> SeqT(v.c, [i \in 1..Len(v.ms) |-> [many |-> v.ms[i].many, t |-> PSubst(v.ms[i].t, names, vals)]])
      [] v.k = "union" -> IF v.ms = << >> THEN v ELSE ImplUnite([i \in 1..Len(v.ms) |-> PSubst(v.ms[i], names, vals)])
      [] OTHER -> v
\* ArgSpecCache.get_generic_bases(typ, generic_args) (arg_spec.py:1016-1075): the generic arguments class c -- its own
\* parameters bound to `args` -- gives its ancestor d: the base's subscript with c's parameters substituted, composed
\* along the chain of bases.  NotFound: d is no ancestor of c.
RECURSIVE ImplGBArgs(_, _, _)
ImplGBArgs(c, args, d) ==
    IF c = d THEN Found(args)
    ELSE LET k == GC(c)
         IN IF k.base = << >> THEN NotFound
            ELSE ImplGBArgs(k.base[1].c, [i \in 1..Len(k.base[1].args) |-> PSubst(k.base[1].args[i], k.tps, args)], d)
RECURSIVE ImplRoot(_)
ImplRoot(c) == IF GC(c).base = << >> THEN c ELSE ImplRoot(GC(c).base[1].c)
ImplValArgs(v) == IF v.k = "generic" THEN v.args ELSE << >>
\* what get() of the value's class returns: the provider's `-> P` with the provider's parameters replaced by what the
\* value gives the provider (attributes.py:296-335 _get_attribute_from_typed -> _substitute_typevars)
ImplMethSubst(recv, v) ==
    LET root == ImplRoot(recv.c) IN PSubst(v, GC(root).tps, ImplGBArgs(recv.c, ImplValArgs(recv), root).args)
\* the generic arguments a value gives the generic class / protocol A.c.  GenericValue.can_assign (value.py:1042-1063)
\* asks get_generic_args_for_type; for the protocol HasGet the member `get` is compared (type_object.py:166-203
\* _is_compatible_with_protocol): the argument of HasGet is matched with what the value's get() returns.
ImplGArgsOf(B, c) ==
    IF ~(B.k \in {"typed", "generic"} /\ B.c \in GNames) THEN NotFound        \* a literal: no such base, no `get`
    ELSE IF c = "HasGet" THEN Found(<<ImplMethSubst(B, TV(GC(ImplRoot(B.c)).tps[1]))>>)
    ELSE ImplGBArgs(B.c, ImplValArgs(B), c)
IsGParam(A) == A.k = "generic" /\ A.c \in GParamNames

\* type-variable-free annotation against an argument value.  A Callable accepts a function through
\* Signature.can_assign (return first: signature.py:1475-1481, then the positional parameter: :1505-1523);
\* anything that has no signature is "not a callable type" (value.py:1769-1771)
ImplCAX(A0, B) ==
    LET A == Strip(A0)            \* AnnotatedValue.can_assign -> the inner value's (value.py:2601); InitVar[t] is t
    IN IF IsGParam(A)             \* a generic class / protocol: argument-wise (value.py:1054-1061)
       THEN LET ga == ImplGArgsOf(B, A.c)
            IN ga.found /\ Len(ga.args) = Len(A.args) /\ \A i \in 1..Len(A.args) : ImplCA(A.args[i], ga.args[i], FALSE)
       ELSE IF A.k = "callable"
       THEN /\ B.k = "known" /\ B.o.c = "function" /\ Len(A.ps) = 1
            /\ ImplCA(A.r, Helper(B.o.v).r, FALSE)
            /\ ImplCA(Helper(B.o.v).p, A.ps[1], FALSE)
       ELSE ImplCA(A, B, FALSE)

\* the parameter type PT of a function passed for Callable[[M], ...] is asked to accept M (signature.py:1516)
ImplParamAccepts(PT, M) ==
    IF M.k # "typevar" THEN R(ImplCA(PT, M, FALSE), << >>)
    ELSE CASE PT.k = "any" -> R(TRUE, << >>)                                     \* value.py:424-427
           [] PT.k = "union" -> R(ImplCA(PT, ImplFallback(M.n), FALSE), << >>)   \* value.py:1991-1992
           [] OTHER ->          \* value.py:117-118 -> TypeVarValue.can_be_assigned :2206-2213
                LET bs == <<Ub(M.n, PT)>> \o ImplInherent(M.n)
                IN R(ImplSolve(bs).ok, bs)

RECURSIVE ImplCAB(_, _)
ImplCAB(A, B) ==
    IF ~HasTV(A) THEN R(ImplCAX(A, B), << >>)
    ELSE IF IsGParam(A)                                  \* GBox[T] / HasGet[T]: GenericValue.can_assign value.py:1042-1063
    THEN LET ga == ImplGArgsOf(B, A.c)
         IN IF ~ga.found \/ Len(ga.args) # Len(A.args) THEN Fail
            ELSE LET rs == [i \in 1..Len(A.args) |-> ImplCAB(A.args[i], ga.args[i])]
                     RECURSIVE cat(_)
                     cat(i) == IF i > Len(rs) THEN << >> ELSE rs[i].bs \o cat(i + 1)
                 IN IF \E i \in 1..Len(rs) : ~rs[i].ok THEN Fail ELSE R(TRUE, cat(1))
    ELSE CASE A.k = "typevar" ->                         \* TypeVarValue.can_assign value.py:2192-2199
                LET bs == <<Lb(A.n, B)>> \o ImplInherent(A.n)
                IN R(ImplSolve(bs).ok, bs)               \* make_bounds_map :2215-2222
           [] A.k = "generic" ->                         \* GenericValue.can_assign value.py:1042-1063
                LET B1 == ImplReplaceKnown(B)
                    B2 == IF B1.k = "known" THEN Typed(B1.o.c) ELSE B1
                    ga == ImplGenericArgsFor(B2, A.c)
                IN IF B2.k \notin TypedFamily \/ ~ga.found \/ Len(ga.args) # Len(A.args)
                   THEN R(ImplTypedCA(A, B, FALSE), << >>)                                 \* :1052 / :1063
                   ELSE LET rs == [i \in 1..Len(A.args) |-> ImplCAB(A.args[i], ga.args[i])]
                            RECURSIVE cat(_)
                            cat(i) == IF i > Len(rs) THEN << >> ELSE rs[i].bs \o cat(i + 1)
                        IN IF \E i \in 1..Len(rs) : ~rs[i].ok THEN Fail ELSE R(TRUE, cat(1))   \* :1054-1061
           [] A.k = "seq" ->                             \* SequenceValue.can_assign value.py:1214-1256
                LET B1 == ImplReplaceKnown(B)
                IN IF B1.k # "seq" THEN R(ImplTypedCA(A, B, FALSE), << >>)     \* :1256 -> GenericValue.can_assign: a value
                                                                              \* that is no tuple has no generic base `tuple`
                   ELSE IF ~ImplTObjCA(A.c, B1.c) \/ Len(A.ms) # Len(B1.ms) THEN Fail          \* :1217-1230
                   ELSE LET rs == [i \in 1..Len(A.ms) |-> ImplCAB(A.ms[i].t, B1.ms[i].t)]
                            RECURSIVE cat(_)
                            cat(i) == IF i > Len(rs) THEN << >> ELSE rs[i].bs \o cat(i + 1)
                        IN IF \E i \in 1..Len(rs) : A.ms[i].many # B1.ms[i].many \/ ~rs[i].ok THEN Fail   \* :1234-1254
                           ELSE R(TRUE, cat(1))
           [] A.k = "union" ->                           \* MultiValuedValue.can_assign value.py:2009-2032
                \* Members that reject are ignored; intersect_bounds_maps (value.py:2794-2807) keeps the
                \* bounds of a type variable only if every accepting member produced bounds for it, and
                \* wraps them in ONE OrBound when the accepting members produced different lists.
                LET rs == [i \in 1..Len(A.ms) |-> ImplCAB(A.ms[i], B)]
                    okset == {i \in 1..Len(A.ms) : rs[i].ok}
                    for(i, n) == SelectSeq(rs[i].bs, LAMBDA b : b.tv = n)
                    one(n) == IF \E i \in okset : for(i, n) = << >> THEN << >>
                              ELSE IF Cardinality({for(i, n) : i \in okset}) = 1 THEN for(CHOOSE i \in okset : TRUE, n)
                              ELSE <<OrB(n)>>
                    RECURSIVE cat(_)
                    cat(j) == IF j > Len(TvDecls) THEN << >> ELSE one(TvDecls[j].n) \o cat(j + 1)
                IN IF okset = {} THEN Fail ELSE R(TRUE, cat(1))
           [] A.k = "callable" ->                        \* CallableValue.can_assign value.py:1763-1783
                IF ~(B.k = "known" /\ B.o.c = "function") \/ Len(A.ps) # 1 THEN Fail      \* :1769-1771
                ELSE LET h == Helper(B.o.v)
                         rr == ImplCAB(A.r, h.r)                                           \* signature.py:1477
                         pp == ImplParamAccepts(h.p, A.ps[1])                              \* signature.py:1516
                     IN IF ~rr.ok \/ ~pp.ok THEN Fail ELSE R(TRUE, rr.bs \o pp.bs)

\* substitute_typevars (TypeVarValue value.py:2183, GenericValue :1146, SequenceValue :1258,
\* MultiValuedValue :1985 re-unites, CallableValue :1751)
RECURSIVE CSubst(_, _, _)
CSubst(v, names, vals) ==
    CASE v.k = "typevar" -> vals[CHOOSE j \in 1..Len(names) : names[j] = v.n]
      [] v.k = "generic" -> Generic(v.c, [i \in 1..Len(v.args) |-> CSubst(v.args[i], names, vals)])
      [] v.k = "seq" -> SeqT(v.c, [i \in 1..Len(v.ms) |-> [many |-> v.ms[i].many, t |-> CSubst(v.ms[i].t, names, vals)]])
      [] v.k = "union" -> IF v.ms = << >> THEN v ELSE ImplUnite([i \in 1..Len(v.ms) |-> CSubst(v.ms[i], names, vals)])
      [] v.k = "callable" -> CallT([i \in 1..Len(v.ps) |-> CSubst(v.ps[i], names, vals)], CSubst(v.r, names, vals))
      [] OTHER -> v

(***************************************************************************)
(* Impl: the signature that is called (constructors, bound methods)        *)
(***************************************************************************)
\* A bound method is checked by BoundMethodSignature.check_call (signature.py:2610-2618): the receiver is put in
\* front of the arguments and the UNBOUND signature is checked, so the receiver fills the first parameter.  For an
\* unannotated `self` / `cls` nothing is checked (signature.py:646): the parameters that matter are the others.
\* For `self: T` (mk "selfmethod") the receiver's value is an argument like any other: it contributes the lower bound
\* of T in the bounds-collecting pass -- KnownValue(k0) for the module-level instance k0, TypedValue(K) for K(1).
\* A method fetched from the CLASS and given its receiver explicitly, K.meth(k0, ...) (recv "unbound"), is the plain
\* function: its first parameter is filled by the k0 the harness writes in front.
ImplSelfVal(fn) == IF fn.recv = "inst" THEN Known(KI) ELSE Typed(fn.cls)
ImplSigParams(fn) ==
    IF fn.mk \in {"method", "classmethod", "init", "dcinit", "inherited", "new", "ntnew", "selfmethod"} THEN Tail(fn.decl)
    ELSE fn.decl
\* the bounds the receiver of a `self: T` method contributes (TypeVarValue.can_assign value.py:2192-2199; first
\* parameter, hence first in unify_bounds_maps).  In the second pass the receiver is checked against T := its own
\* value, which succeeds (can_assign is reflexive: Assign!InvRefl, property C04).
ImplRecvBounds(fn) ==
    IF fn.mk = "selfmethod" THEN <<Lb(fn.decl[1].ann.n, ImplSelfVal(fn))>> \o ImplInherent(fn.decl[1].ann.n) ELSE << >>
\* A def without a return annotation: the signature's return value is not used; the visitor substitutes the value it
\* inferred for the body when it visited the def (name_check_visitor.py:2160-2198 _set_argspec_to_retval, :5597-5600),
\* diagnosed call or not.  Inside the body a parameter has its declared type, a constant is a KnownValue.
ImplLocalRet(fn) ==
    CASE fn.body.k = "param" -> Strip(ImplSigParams(fn)[fn.body.is[1]].ann)
      [] fn.body.k = "const" -> Known(fn.body.o)
ImplSigRet(fn) ==
    IF fn.recv = "ctor" THEN Typed(fn.cls)                                       \* arg_spec.py:866-870
    ELSE IF fn.ret.k = "noann" THEN ImplLocalRet(fn)
    ELSE fn.ret

(***************************************************************************)
(* Impl, part 4: Signature.check_call_with_bound_args                      *)
(*   result = [nia  number of incompatible_argument diagnostics,           *)
(*             nic  number of incompatible_call diagnostics,               *)
(*             inferred  value of the call expression,                     *)
(*             solved    the solver was reached,                           *)
(*             sigma     its result per type variable (aligned with tvs)]  *)
(***************************************************************************)
Res(nia, nic, inferred, solved, sigma) ==
    [nia |-> nia, nic |-> nic, inferred |-> inferred, solved |-> solved, sigma |-> sigma]

\* arg_spec.py:531-534 translate_vararg_type: `*args: X` is declared tuple[X, ...], `**kwargs: X` dict[str, X]
ImplParamAnn(p) ==
    CASE p.kind = "va" -> Generic("tuple", <<p.ann>>)
      [] p.kind = "vk" -> Generic("dict", <<TStr, p.ann>>)
      [] OTHER -> p.ann

\* _check_param_type_compatibility (signature.py:646-676): an argument that IS the default is never an error.
\* "Is the default" is object identity (:654, :657 `composite.value is param.default`): bind_arguments binds an omitted
\* parameter to Composite(param.default), the very object of the signature (:855, :944, :986), whereas an argument
\* the caller WRITES is a new Value object even when it equals the default (KnownValue.__eq__ is structural,
\* value.py:622-627) and is checked like any other argument.
\* (Bug = "default_by_equality": the sensitivity self-test -- identity replaced by equality with the default)
ImplIsDefault(p, b) ==
    \/ b.src = "default"
    \/ Bug = "default_by_equality" /\ p.dflt # << >> /\ b.val.k = "known" /\ KVEq(b.val.o, p.dflt[1])
ImplParamOK(p, ann, b) ==
    \/ ImplIsDefault(p, b)                                       \* :654-658
    \/ Bug = "varargs_unchecked" /\ p.kind = "va"
    \/ ImplCAX(ann, b.val)

\* number of diagnostics shown for the set `bad` of failing parameters: each plain argument has its own
\* node, but the composites built for *args / **kwargs have none (signature.py:1021, :1051), so their
\* errors are reported on the call node (signature.py:670) and the second one is dropped as a duplicate
\* (node_visitor.py:636 seen_errors is keyed by (node, code))
\* The members of a *(...) / **{...} literal are split into separate arguments by preprocess_args
\* (signature.py:2037-2041, :2069-2090) as composites without a node: every error lands on the call node.
\* In the mixed shapes only the arguments written on their own keep a node: the first positional of
\* f(a, *(b,), **{"k": c}) ("mixed"), the keywords of f(*(a,), k=b) ("mixedk").
ImplOwnNode(ps, call, i) ==
    /\ ps[i].kind \in {"po", "pk", "ko"}
    /\ IF ps[i].kind \in {"po", "pk"} /\ i <= Len(call.pos)
       THEN call.shape = "plain" \/ (call.shape = "mixed" /\ i = 1)     \* bound from a positional argument
       ELSE call.shape \in {"plain", "mixedk"}                          \* bound from a keyword
ImplNDiag(ps, bad, call) ==
    Cardinality({i \in bad : ImplOwnNode(ps, call, i)}) + (IF \E i \in bad : ~ImplOwnNode(ps, call, i) THEN 1 ELSE 0)

\* Signature._maybe_perform_call (signature.py:1378-1388, :1398-1455).  A NamedTuple class is a tuple subclass, hence
\* "safe to instantiate" (arg_spec.py:766-768 allow_call): when every argument is a KnownValue the checker really
\* calls the class and the call's value is KnownValue(result) -- diagnosed or not (:1378 is outside `if not
\* had_error`).  An argument such as A() (a TypedValue) prevents the call (:1408-1410).
ImplPerformed(fn, call) ==
    /\ fn.mk = "ntnew"
    /\ \A i \in 1..Len(call.pos) : ~TypedExpr(call.pos[i])
    /\ \A j \in 1..Len(call.kw) : ~TypedExpr(call.kw[j].o)

\* check_call_with_bound_args on the signature (ps, ret) whose type variables are tvs
ImplCallCore(fn, call, ps, ret, tvs) ==
    LET an == [i \in 1..Len(ps) |-> ImplParamAnn(ps[i])]
        bd == [i \in 1..Len(ps) |-> ImplBoundAt(ps, call, i)]
        n == Len(tvs)
        \* get_default_return (signature.py:1152-1157)
        dflt == IF HasTV(ret) THEN CSubst(ret, tvs, [j \in 1..n |-> AnyE]) ELSE ret
    IN IF n = 0                                                              \* signature.py:1271
       THEN Res(ImplNDiag(ps, {i \in 1..Len(ps) : ~ImplParamOK(ps[i], an[i], bd[i])}, call), 0,    \* :1302-1315
                IF ImplPerformed(fn, call) THEN Known(Cont("NT", [i \in 1..Len(ps) |-> bd[i].val.o])) ELSE ret,
                FALSE, << >>)
       ELSE LET p1 == [i \in 1..Len(ps) |->                                  \* pass 1, :1258-1268
                         IF ~HasTV(an[i]) THEN R(TRUE, << >>)
                         ELSE LET r == ImplCAB(an[i], bd[i].val)
                              IN IF ~r.ok /\ ImplIsDefault(ps[i], bd[i]) THEN R(TRUE, << >>) ELSE r]   \* :657-658
            IN IF \E i \in 1..Len(ps) : ~p1[i].ok
               THEN Res(1, 0, dflt, FALSE, << >>)                            \* :1265-1266 (first failure only)
               ELSE LET RECURSIVE cat(_)
                        cat(i) == IF i > Len(ps) THEN << >> ELSE p1[i].bs \o cat(i + 1)   \* unify_bounds_maps value.py:2786
                        allbs == ImplRecvBounds(fn) \o cat(1)
                        solve(tv) == LET bs == SelectSeq(allbs, LAMBDA b : b.tv = tv)
                                     IN IF bs = << >> THEN Solved(AnyG)      \* typevar.py:40
                                        ELSE ImplSolve(bs)
                        sols == [j \in 1..n |-> solve(tvs[j])]
                        sg == [j \in 1..n |-> sols[j].sol]
                    IN IF \E j \in 1..n : ~sols[j].ok
                       THEN Res(0, 1, dflt, TRUE, sg)                        \* :1274-1280 "Cannot resolve type variables"
                       ELSE Res(ImplNDiag(ps, {i \in 1..Len(ps) :            \* pass 2, :1287-1300
                                               ~ImplParamOK(ps[i], CSubst(an[i], tvs, sg), bd[i])}, call),
                                0,
                                IF HasTV(ret) THEN CSubst(ret, tvs, sg) ELSE ret,    \* :1281-1282
                                TRUE, sg)

(***************************************************************************)
(* Impl: constructors and methods of user-defined generic classes          *)
(***************************************************************************)
ImplTpVals(c) == [i \in 1..Len(GC(c).tps) |-> TV(GC(c).tps[i])]
\* the class whose __init__ the class attribute lookup finds (first along the MRO); a dataclass defines one
RECURSIVE ImplInitOwner(_)
ImplInitOwner(c) == IF GC(c).init # "inherit" THEN c ELSE ImplInitOwner(GC(c).base[1].c)
\* ArgSpecCache._uncached_get_argspec, the inspect.isclass branch (arg_spec.py:857-936):
\*   type_params = the class's own parameters (:770 get_type_parameters); the call returns C[type_params] or
\*   TypedValue(C) (:866-870); the constructor is __init__ found on the class (:897), i.e. the one of owner d, whose
\*   unannotated `self` was given the type d[parameters of d] (arg_spec.py:556-564) and whose other parameters are
\*   written over d's parameters; make_bound_method + get_signature(self_annotation_value = C[type_params] or
\*   TypedValue(C)) (:917-933) -> bind_self (signature.py:1946-2002): get_tv_map(d[..], that value) (:1977) asks the
\*   value for its generic arguments for d (GenericValue.can_assign value.py:1042-1061 -> get_generic_bases) and every
\*   parameter of d gets that argument as its only lower bound; the solution is substituted into the remaining
\*   parameters and the return value (:1984-1988).  Type variables left afterwards (the class's own) are solved per call.
\*   (Bug = "ctor_self_unmatched": for a class without parameters of its own the match is skipped -- sensitivity)
ImplCtorSig(c) ==
    LET d == ImplInitOwner(c)
        unmatched == Bug = "ctor_self_unmatched" /\ GC(c).tps = << >>
        ga == ImplGBArgs(c, ImplTpVals(c), d)
        names == IF unmatched THEN << >> ELSE GC(d).tps
        vals == [i \in 1..Len(names) |-> ImplSolve(<<Lb(names[i], ga.args[i])>>).sol]
        ips == GC(d).iparams
        ret0 == IF GC(c).tps # << >> THEN Generic(c, ImplTpVals(c)) ELSE Typed(c)
    IN [ps |-> [i \in 1..Len(ips) |-> [ips[i] EXCEPT !.ann = PSubst(@, names, vals)]],
        ret |-> PSubst(ret0, names, vals),
        tvs |-> IF unmatched THEN GC(d).tps ELSE GC(c).tps]
\* The value of GBox[int] is no class value the checker has a signature for: signature_from_value gives ANY_SIGNATURE
\* and the call is not checked (name_check_visitor.py:5567-5571): nothing is reported, the value is Any.
AnyFA == [k |-> "any", src |-> "from_another"]
ImplGSig(fn) ==
    CASE fn.mk \in {"gctor", "gctorget"} -> ImplCtorSig(fn.cls)
      \* put looked up on the constructed receiver: Box.put with Box's parameter replaced by what the receiver's class
      \* gives Box (attributes.py:296-335); the receiver C(<canon>) has the value ImplArgVal gives it
      [] fn.mk = "gmeth" -> [ps |-> <<P("x", ImplMethSubst(ImplArgVal(GI(fn.cls, GCanon(fn.cls))), TV("T")))>>,
                             ret |-> Known(NONE), tvs |-> << >>]
      \* the classmethod fetched from a class object is Box.make's own signature whatever subclass it is fetched
      \* from: nothing replaces T by what the subclass gives Box (known deviation below)
      [] fn.mk = "gcmeth" -> [ps |-> <<P("x", TV("T"))>>, ret |-> Generic("GBox", <<TV("T")>>), tvs |-> <<"T">>]
      [] fn.mk = "gspec" -> [ps |-> fn.decl, ret |-> AnyFA, tvs |-> << >>]
ImplGCall(fn, call) ==
    LET sig == ImplGSig(fn)
        r == ImplCallCore(fn, call, sig.ps, sig.ret, sig.tvs)
    IN CASE fn.mk = "gspec" -> Res(0, 0, AnyFA, FALSE, << >>)
         \* C(args).get(): the constructor call, then get() on its value (a second, parameterless call on the same
         \* line: the solution of the first is not observed separately)
         [] fn.mk = "gctorget" ->
              Res(r.nia, r.nic, ImplMethSubst(r.inferred, TV(GC(ImplRoot(fn.cls)).tps[1])), FALSE, << >>)
         [] OTHER -> r
\* the type variables whose solution the harness can observe for a call of fn
ImplTvs(fn) == IF fn.mk \in GMks THEN (IF fn.mk = "gctorget" THEN << >> ELSE ImplGSig(fn).tvs) ELSE fn.tvs

ImplCall(fn, call) ==
    IF fn.mk \in GMks THEN ImplGCall(fn, call)
    ELSE ImplCallCore(fn, call, ImplSigParams(fn), ImplSigRet(fn), fn.tvs)

(***************************************************************************)
(* The property, per case                                                  *)
(***************************************************************************)
IsGeneric(fn) == fn.tvs # << >>
Diagnosed(r) == r.nia + r.nic > 0
\* Known deviation (the C15 finding orbound-ignored seen through a call): an argument that belongs to more
\* than one type-variable-bearing member of a union parameter (e.g. a list passed for Union[T, list[T]])
\* contributes an OrBound, which typevar.solve skips; T is then fixed by the other arguments alone and the
\* second pass rejects the argument (false positive, e.g. first_or([1], "a") although T = int | str fits),
\* the type inferred for the diagnosed call being the too narrow solution.  A predicate over Ref notions only.
AllObject(fn) == [n \in SeqRange(fn.tvs) |-> TObj]
MultiMatch(fn, e) ==
    e.ann.k = "union" /\
    Cardinality({i \in 1..Len(e.ann.ms) : HasTV(e.ann.ms[i]) /\ MemberX(e.o, RSubst(e.ann.ms[i], AllObject(fn)))}) >= 2
Dev_OrBoundIgnored(fn, call) == \E e \in SeqRange(RefExplicit(RefParams(fn), call)) : MultiMatch(fn, e)
\* Known deviation: a classmethod fetched from a subclass that fixes the base's type parameter (IntBox.make, class
\* IntBox(GBox[int]), make(cls, x: T) -> GBox[T]) keeps the free T: IntBox.make('a') is accepted although the declared
\* parameter type is int.  Known deviation: a call of an explicitly specialised class, GBox[int]('a'), is not checked at all.
\* Both are predicates over the case only; they excuse only an ACCEPTED call whose arguments do not fit.
Dev_ClassmethodKeepsFreeTypeVar(fn, call) == fn.mk = "gcmeth" /\ GC(fn.cls).tps = << >>
Dev_SubscriptedClassCallUnchecked(fn, call) == fn.mk = "gspec"
DevClass(fn, call) ==
    IF Dev_OrBoundIgnored(fn, call) THEN "orbound-ignored"
    ELSE IF Dev_ClassmethodKeepsFreeTypeVar(fn, call) THEN "classmethod-on-specialised-class-keeps-free-typevar"
    ELSE IF Dev_SubscriptedClassCallUnchecked(fn, call) THEN "subscripted-generic-class-call-unchecked"
    ELSE ""
\* the deviation only explains a diagnostic on a call whose arguments fit (and what is inferred for that
\* diagnosed call); an ACCEPTED call is never excused
Excused(fn, call, r) ==
    LET c == DevClass(fn, call)
    IN IF c = "orbound-ignored" THEN Diagnosed(r) /\ ~RefBad(fn, call)
       ELSE IF c # "" THEN ~Diagnosed(r) /\ RefBad(fn, call)
       ELSE FALSE

\* (1) diagnosed exactly when some argument does not fit; for a non-generic function the
\*     diagnostic is the incompatible-argument one
DiagnosisOK(fn, call, r) ==
    /\ Diagnosed(r) <=> RefBad(fn, call)
    /\ ~IsGeneric(fn) => r.nic = 0
\* (2) the inferred type contains what the call returns (for calls whose arguments fit)
\*     The clause presumes that the library body respects its own annotation.  The bodies
\*     `xs[0] if isinstance(xs, list) and xs else d` (declared -> T for xs: Union[T, list[T]]) do not when the
\*     list passed for xs is itself taken as T -- i.e. when it is a member of the value inferred for T: the
\*     isinstance test cannot tell T from list[T] then.  Those calls are outside the clause.
ElemKind(b, x) == CASE b.k = "elem_list" -> x.c = "list" [] b.k = "elem_tuple" -> x.c = "tuple"
                    [] b.k = "elem_seq" -> x.c \in {"list", "tuple", "str"} [] OTHER -> FALSE
BodyAmbiguous(fn, call, r) ==
    /\ fn.body.k \in {"elem_list", "elem_tuple", "elem_seq"} /\ r.solved
    /\ LET x == RefBoundObj(RefParams(fn), call, fn.body.is[1])
       IN ElemKind(fn.body, x) /\ MemberX(x, RSubst(fn.ret, SigmaFn(fn, r.sigma)))
ResultOK(fn, call, r, real) == (~RefBad(fn, call) /\ ~real.raised /\ ~BodyAmbiguous(fn, call, r)) => MemberX(real.o, r.inferred)
\* (3) generic functions: the solution makes every argument acceptable, or an error is reported
SolutionOK(fn, call, r) == (IsGeneric(fn) /\ ~Diagnosed(r) /\ r.solved) => RefSolutionFits(fn, call, r.sigma)

(***************************************************************************)
(* Sessions: several calls checked in ONE run of the checker.              *)
(*                                                                         *)
(* TypeObject.can_assign (type_object.py:141-164) remembers every positive *)
(* protocol match in _protocol_positive_cache, keyed by the OTHER value    *)
(* only.  The TypeObject of a generic protocol is shared by all its        *)
(* parametrisations, so once  Iterable[int]  has accepted a class,         *)
(* Iterable[str]  accepts it too, for the rest of the run.  A session is a *)
(* sequence of calls (each in a function of its own, checked in order)     *)
(* it_<x>(arg)  of                                                         *)
(*     def it_obj(x: Iterable[object]) / it_int(x: Iterable[int]) /        *)
(*         it_str(x: Iterable[str]) -> same: return x                      *)
(* with arguments ItI() / ItS() (classes that only define __iter__),       *)
(* A() (no __iter__) and the literal [1].                                  *)
(***************************************************************************)
ProtoFns == << [id |-> "it_obj", x |-> TObj], [id |-> "it_int", x |-> TInt], [id |-> "it_str", x |-> TStr] >>
ProtoArgs == << OItI, OItS, OA, Cont("list", <<I1>>) >>
ProtoFn(id) == CHOOSE f \in SeqRange(ProtoFns) : f.id = id
IterOf(x) == Generic("Iterable", <<x>>)
SessCalls == [i \in 1..(Len(ProtoFns) * Len(ProtoArgs)) |->
                [fn |-> ProtoFns[((i - 1) \div Len(ProtoArgs)) + 1].id, arg |-> ProtoArgs[((i - 1) % Len(ProtoArgs)) + 1]]]

\* Ref: the argument does not belong to the declared Iterable[x]
RefSessBad(c) == ~MemberX(c.arg, IterOf(ProtoFn(c.fn).x))

\* Impl: the verdict of a call that finds nothing in the cache.  A class that only defines __iter__ has no
\* generic base Iterable (value.py:1048-1052 -> TypedValue.can_assign :831-834 -> TypeObject.can_assign,
\* protocol branch): _is_compatible_with_protocol (type_object.py:166-203) compares the return type of
\* __iter__, Iterator[x] against Iterator[<declared>].  Everything else is Assign!ImplCA.
ImplSessFresh(c) ==
    IF c.arg.c \in IterClasses THEN ImplCA(ProtoFn(c.fn).x, YieldT(c.arg.c), FALSE)
    ELSE ImplCA(IterOf(ProtoFn(c.fn).x), ImplArgVal(c.arg), FALSE)
\* type_object.py:162-163: classes with a positive match so far in the run (key = TypedValue(cls)); a hit
\* adds nothing new, so the cache is the set of classes with a FRESH positive match
ImplSessCache(calls) == {calls[i].arg.c : i \in {j \in 1..Len(calls) : calls[j].arg.c \in IterClasses /\ ImplSessFresh(calls[j])}}
\* type_object.py:146-148: a cache hit returns the remembered (positive) result
\* (with the proposed repair a hit needs the same protocol parametrisation, for which the fresh verdict is the same)
ImplSessAccepted(calls, i) ==
    ImplSessFresh(calls[i]) \/ (~FixProtoCache /\ calls[i].arg.c \in ImplSessCache(SubSeq(calls, 1, i - 1)))

\* Known deviation: the argument's class was passed EARLIER in the same run where a parametrisation of the
\* same protocol it does belong to is declared (a precise predicate over Ref notions only: any OTHER wrong
\* verdict is still a violation)
Dev_ProtocolCacheIgnoresTypeArgs(calls, i) ==
    /\ calls[i].arg.c \in IterClasses
    /\ \E j \in 1..(i - 1) : calls[j].arg.c = calls[i].arg.c /\ ~RefSessBad(calls[j])
SessDevClass(calls, i) == IF Dev_ProtocolCacheIgnoresTypeArgs(calls, i) THEN "protocol-cache-ignores-type-arguments" ELSE ""

SessDiagnosisOK(calls, i, accepted) == accepted = ~RefSessBad(calls[i])
\* the deviation only explains "accepted although the argument does not belong"
SessExcused(calls, i, accepted) == accepted /\ RefSessBad(calls[i]) /\ SessDevClass(calls, i) # ""
SessResultOK(calls, i, inferred, real) == (~RefSessBad(calls[i]) /\ ~real.raised) => MemberX(real.o, inferred)

(***************************************************************************)
(* Generator.  Single calls: stages "fn" -> "args" -> "done"; sessions:     *)
(* "fn" -> "sess" -> "sdone".  Assign's variables ta, tb, ob are carried    *)
(* along unchanged.                                                        *)
(***************************************************************************)
VARIABLE case
cvars == <<stage, ta, tb, ob, case>>

Blank == [fn |-> "", shape |-> "plain", pos |-> << >>, kw |-> << >>]
CInit == stage = "fn" /\ ta = Never /\ tb = Never /\ ob = NONE /\ case = Blank

ChooseFn ==
    /\ stage = "fn"
    /\ \E f \in ActiveFns, sh \in Shapes : case' = [case EXCEPT !.fn = f.id, !.shape = sh]
    /\ stage' = "args" /\ UNCHANGED <<ta, tb, ob>>

NArgs(c) == Len(c.pos) + Len(c.kw)
PosChoices(ps, i) == IF i <= NPk(ps) THEN ArgChoices(ps[i].ann) ELSE Lits
AddPos ==
    /\ stage = "args" /\ case.kw = << >> /\ NArgs(case) < MaxArgs
    /\ LET ps == RefParams(FnOf(case.fn))
           i == Len(case.pos) + 1
       IN /\ i <= (IF HasKind(ps, "va") THEN NPk(ps) + MaxPos ELSE NPk(ps))
          /\ LET ch == IF case.fn \in GenIds THEN (IF i <= NPk(ps) THEN GChoices(ps[i].ann) ELSE LitsG)
                      ELSE IF case.fn \in KwnIds THEN LitsK ELSE PosChoices(ps, i)
             IN \E j \in 1..Len(ch) : case' = [case EXCEPT !.pos = Append(@, ch[j])]
    /\ UNCHANGED <<stage, ta, tb, ob>>

\* keywords are added in the order of fn.kws (one representative per set of keyword names)
KwIndex(fn, n) == CHOOSE j \in 1..Len(fn.kws) : fn.kws[j] = n
AddKw ==
    /\ stage = "args" /\ Len(case.kw) < MaxKw /\ NArgs(case) < MaxArgs
    /\ LET fn == FnOf(case.fn)
           last == IF case.kw = << >> THEN 0 ELSE KwIndex(fn, case.kw[Len(case.kw)].name)
       IN \E j \in (last + 1)..Len(fn.kws) :
            LET ch == IF fn.id \in GenIds THEN GChoices(RefKwDecl(RefParams(fn), fn.kws[j]))
                      ELSE IF fn.id \in KwnIds THEN LitsK ELSE Lits
            IN \E m \in 1..Len(ch) : case' = [case EXCEPT !.kw = Append(@, [name |-> fn.kws[j], o |-> ch[m]])]
    /\ UNCHANGED <<stage, ta, tb, ob>>

Finish ==
    /\ stage = "args" /\ RefBinds(RefParams(FnOf(case.fn)), case)
    /\ case.shape = "star" => NArgs(case) >= 1
    /\ case.shape = "mixed" => (Len(case.pos) >= 1 /\ NArgs(case) >= 2)
    /\ case.shape = "mixedk" => (Len(case.pos) >= 1 /\ Len(case.kw) >= 1)
    /\ stage' = "done" /\ UNCHANGED <<ta, tb, ob, case>>

\* ---- sessions: stage "fn" -> "sess" -> "sdone"; case = [sess |-> <<distinct indices into SessCalls>>]
StartSess ==
    /\ stage = "fn" /\ MaxSess > 0
    /\ case' = [sess |-> << >>] /\ stage' = "sess" /\ UNCHANGED <<ta, tb, ob>>
AddSessCall ==
    /\ stage = "sess" /\ Len(case.sess) < MaxSess
    /\ \E k \in (1..Len(SessCalls)) \ SeqRange(case.sess) : case' = [sess |-> Append(case.sess, k)]
    /\ UNCHANGED <<stage, ta, tb, ob>>
FinishSess ==
    /\ stage = "sess" /\ case.sess # << >>
    /\ stage' = "sdone" /\ UNCHANGED <<ta, tb, ob, case>>

CNext == ChooseFn \/ AddPos \/ AddKw \/ Finish \/ StartSess \/ AddSessCall \/ FinishSess

(***************************************************************************)
(* Invariants                                                              *)
(***************************************************************************)
CDone == stage = "done"
TheFn == FnOf(case.fn)
TheRes == ImplCall(TheFn, case)

InvDiagnosis == CDone => (DiagnosisOK(TheFn, case, TheRes) \/ Excused(TheFn, case, TheRes))
InvResult == CDone => (ResultOK(TheFn, case, TheRes, RefResult(TheFn, case)) \/ Excused(TheFn, case, TheRes))
\* strict versions (no deviation class): expected to be VIOLATED (document the finding; sensitivity self-test)
InvDiagnosisStrict == CDone => DiagnosisOK(TheFn, case, TheRes)
InvSolution == CDone => SolutionOK(TheFn, case, TheRes)
\* the two descriptions of binding agree on which parameters a call fills (the model binds what CPython binds)
ParamShape(ps) == [i \in 1..Len(ps) |-> <<ps[i].name, ps[i].kind, ps[i].dflt>>]
InvBindAgree == (CDone /\ TheFn.mk \notin GMks) => ImplSigParams(TheFn) = RefParams(TheFn)
\* (kept apart: Calls.cov.cfg checks InvBindAgree under -coverage, whose bookkeeping inlines every operator it reaches)
InvGBindAgree == (CDone /\ TheFn.mk \in GMks) => ParamShape(ImplGSig(TheFn).ps) = ParamShape(RefParams(TheFn))

SDone == stage = "sdone"
TheSess == [i \in 1..Len(case.sess) |-> SessCalls[case.sess[i]]]
InvSessDiagnosis ==
    SDone => \A i \in 1..Len(case.sess) :
                SessDiagnosisOK(TheSess, i, ImplSessAccepted(TheSess, i)) \/ SessExcused(TheSess, i, ImplSessAccepted(TheSess, i))
InvSessResult ==
    SDone => \A i \in 1..Len(case.sess) :
                ImplSessAccepted(TheSess, i) => SessResultOK(TheSess, i, IterOf(ProtoFn(TheSess[i].fn).x), Ret(TheSess[i].arg))
\* a call alone in its run is always judged correctly
InvSessAlone == (SDone /\ Len(case.sess) = 1) => SessDiagnosisOK(TheSess, 1, ImplSessAccepted(TheSess, 1))
\* strict version (no deviation class): expected to be VIOLATED (documents the finding; sensitivity self-test)
InvSessDiagnosisStrict ==
    SDone => \A i \in 1..Len(case.sess) : SessDiagnosisOK(TheSess, i, ImplSessAccepted(TheSess, i))
=============================================================================
