-------------------------------- MODULE CFG --------------------------------
(***************************************************************************)
(* Oracle for property C09: reaching definitions of a statement skeleton,  *)
(* computed as a collecting semantics over the control-flow structure      *)
(* with opaque conditions.  It shares nothing with the model of            *)
(* pyanalyze's scope machinery (Scopes.tla).                               *)
(*                                                                         *)
(* Skeleton statements (records, field k):                                 *)
(*   assign(v, id)  use(v, id)  call(id)  return(id)  raise(id)            *)
(*   break(id)  continue(id)                                               *)
(*   if(body, orelse)          -- `if cond():`                             *)
(*   while(true, body, orelse) -- `while cond():` / `while True:`          *)
(*   for(body, orelse)         -- `for _ in it():`                         *)
(*   try(body, handlers, orelse, final)                                    *)
(*   with(supp, body)          -- context manager that may (supp) or may   *)
(*                                not swallow exceptions                   *)
(*   defg(v, id)   -- `def g<id>(): v`            nested function reading v *)
(*   defn(v, id)   -- `def g<id>(): nonlocal v; v = <id>`   ... assigning v *)
(*   callg(t, v, w, id) -- `g<t>()`: a call of the nested function defined  *)
(*                    by statement t (w: it is a defn); the use / the      *)
(*                    assignment inside g<t> happens here, at the call     *)
(* An environment maps each variable to the id of the assignment that      *)
(* last bound it, 0 = unbound.  Exec(block, envs, mode) returns, for the   *)
(* set of environments in which the block may start, the environments of   *)
(* each outcome (normal / break / continue / return / exception) and the   *)
(* set `seen` of <<use id, def id>> pairs observed at uses.                *)
(*                                                                         *)
(* mode = "strict":  exceptions arise only at calls (cond(), it(), cm(),   *)
(*   call statements) and raise statements; an exception raised inside a   *)
(*   try body is caught by the first handler; `while True` is only left    *)
(*   by break.                                                             *)
(* mode = "liberal": every statement may raise before it executes, any     *)
(*   handler (or none) may catch, every loop may exit after any iteration. *)
(***************************************************************************)
EXTENDS Integers, Sequences, FiniteSets, TLC

Vars == {"x", "y"}
Unbound == 0

Out(norm, brk, cont, ret, exc, seen) ==
    [norm |-> norm, brk |-> brk, cont |-> cont, ret |-> ret, exc |-> exc, seen |-> seen]
NoOut == Out({}, {}, {}, {}, {}, {})

Merge(a, b) == Out(a.norm \cup b.norm, a.brk \cup b.brk, a.cont \cup b.cont, a.ret \cup b.ret,
                   a.exc \cup b.exc, a.seen \cup b.seen)

\* outcome of running `second` after the normal completion of `first`
Then(first, second) == Out(second.norm, first.brk \cup second.brk, first.cont \cup second.cont,
                           first.ret \cup second.ret, first.exc \cup second.exc, first.seen \cup second.seen)

RECURSIVE Exec(_, _, _), ExecStmt(_, _, _), LoopHeads(_, _, _, _), ExecHandlers(_, _, _, _)

MayRaiseAnywhere(mode) == mode = "liberal"

Exec(block, envs, mode) ==
    IF block = << >> THEN Out(envs, {}, {}, {}, {}, {})
    ELSE LET first == ExecStmt(Head(block), envs, mode)
         IN Then(first, Exec(Tail(block), first.norm, mode))

\* environments that can stand at the head of a loop: the least fixpoint of one more iteration.  Returns the
\* fixpoint together with the outcome of the body started from it (so that the body is not executed once more).
LoopHeads(body, heads, mode, fuel) ==
    LET b == Exec(body, heads, mode)
        next == heads \cup b.norm \cup b.cont
    IN IF next = heads \/ fuel = 0 THEN [heads |-> heads, b |-> b] ELSE LoopHeads(body, next, mode, fuel - 1)

\* which handlers may run for an exception raised in the try body
ExecHandlers(handlers, envs, mode, idx) ==
    IF idx > Len(handlers) THEN NoOut
    ELSE IF mode = "strict" THEN (IF idx = 1 THEN Exec(handlers[1], envs, mode) ELSE NoOut)
    ELSE Merge(Exec(handlers[idx], envs, mode), ExecHandlers(handlers, envs, mode, idx + 1))

ExecStmt(s, envs, mode) ==
    LET pre == IF MayRaiseAnywhere(mode) THEN envs ELSE {}      \* exception before the statement executes
        assigned == {[e EXCEPT ![s.v] = s.id] : e \in envs}
    IN
    \* (liberal: an interrupted assignment may or may not have taken effect)
    \* (an assignment that is reached at all is recorded as <<0 - id, 0>>: the oracle's notion of live code)
    CASE s.k = "assign" -> Out(assigned, {}, {}, {}, IF MayRaiseAnywhere(mode) THEN envs \cup assigned ELSE {},
                               IF envs = {} THEN {} ELSE {<<0 - s.id, 0>>})
      [] s.k = "use"    -> Out(envs, {}, {}, {}, pre, {<<s.id, e[s.v]>> : e \in envs})
      [] s.k = "call"   -> Out(envs, {}, {}, {}, envs, {})
      \* defining a nested function neither reads nor binds the variable
      [] s.k \in {"defg", "defn"} -> Out(envs, {}, {}, {}, pre, {})
      [] s.k = "callg" ->
            IF s.w
            THEN LET asg == {[e EXCEPT ![s.v] = s.t] : e \in envs}
                 IN Out(asg, {}, {}, {}, IF MayRaiseAnywhere(mode) THEN envs \cup asg ELSE {},
                        IF envs = {} THEN {} ELSE {<<0 - s.t, 0>>})
            ELSE LET bound == {e \in envs : e[s.v] # Unbound}       \* reading an unbound cell raises NameError
                 IN Out(bound, {}, {}, {}, IF MayRaiseAnywhere(mode) THEN envs ELSE envs \ bound,
                        {<<s.t, e[s.v]>> : e \in envs})
      [] s.k = "return" -> Out({}, {}, {}, envs, pre, {})
      [] s.k = "raise"  -> Out({}, {}, {}, {}, envs, {})
      [] s.k = "break"  -> Out({}, envs, {}, {}, pre, {})
      [] s.k = "continue" -> Out({}, {}, envs, {}, pre, {})
      [] s.k = "if" ->
            LET b == Exec(s.body, envs, mode)
                o == Exec(s.orelse, envs, mode)
            IN Merge(Merge(b, o), Out({}, {}, {}, {}, envs, {}))            \* cond() is a call
      [] s.k \in {"while", "for"} ->
            LET infinite == s.k = "while" /\ s.true /\ mode = "strict"
                fix == LoopHeads(s.body, envs, mode, 12)
                heads == fix.heads
                b == fix.b
                exits == IF infinite THEN {} ELSE heads                     \* condition false / iterator exhausted
                o == Exec(s.orelse, exits, mode)
                condraise == IF s.k = "while" /\ s.true THEN pre ELSE heads  \* cond() / it() / next() are calls
            IN Out(o.norm \cup b.brk, o.brk, o.cont, b.ret \cup o.ret, b.exc \cup o.exc \cup condraise,
                   b.seen \cup o.seen)
      [] s.k = "with" ->
            LET b == Exec(s.body, envs, mode)
            IN Out(b.norm \cup (IF s.supp THEN b.exc ELSE {}), b.brk, b.cont, b.ret,
                   b.exc \cup envs,                                           \* cm() / __enter__ / __exit__ are calls
                   b.seen)
      [] s.k = "try" ->
            LET b == Exec(s.body, envs, mode)
                h == ExecHandlers(s.handlers, b.exc, mode, 1)
                o == Exec(s.orelse, b.norm, mode)
                uncaught == IF s.handlers = << >> \/ mode = "liberal" THEN b.exc ELSE {}
                \* outcome of try/except/else before the finally clause
                t == Out(h.norm \cup o.norm, b.brk \cup h.brk \cup o.brk, b.cont \cup h.cont \cup o.cont,
                         b.ret \cup h.ret \cup o.ret, uncaught \cup h.exc \cup o.exc, b.seen \cup h.seen \cup o.seen)
            IN IF s.final = << >> THEN t
               ELSE \* the finally clause runs on every way out and then resumes that way out
                    LET fn == Exec(s.final, t.norm, mode)
                        fb == Exec(s.final, t.brk, mode)
                        fc == Exec(s.final, t.cont, mode)
                        fr == Exec(s.final, t.ret, mode)
                        fe == Exec(s.final, t.exc, mode)
                        abrupt == Merge(Merge(fn, fb), Merge(fc, Merge(fr, fe)))
                    IN Out(fn.norm,
                           fb.norm \cup abrupt.brk, fc.norm \cup abrupt.cont, fr.norm \cup abrupt.ret,
                           fe.norm \cup abrupt.exc, t.seen \cup abrupt.seen)

\* Reaching definitions per use of a function body (every variable starts unbound)
Env0 == [v \in Vars |-> Unbound]
Reaching(prog, mode) == Exec(prog, {Env0}, mode).seen
\* assignments that can execute at all (everything else is dead code)
LiveDefs(pairs) == {0 - p[1] : p \in {q \in pairs : q[1] < 0}}
ReachingAt(prog, mode, useid) == {p[2] : p \in {q \in Reaching(prog, mode) : q[1] = useid}}
=============================================================================
