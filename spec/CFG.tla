-------------------------------- MODULE CFG --------------------------------
(***************************************************************************)
(* Oracle for property C09: reaching definitions of a statement skeleton,  *)
(* computed as a collecting semantics over the control-flow structure      *)
(* with opaque conditions.  It shares nothing with the model of            *)
(* pyanalyze's scope machinery (Scopes.tla).                               *)
(*                                                                         *)
(* Skeleton statements (records, field k):                                 *)
(*   assign(v, id)  use(v, id)  call(id)  return(id)  raise(id)            *)
(*   break(id)  continue(id)                                               *)
(*   if(body, orelse)          -- `if cond():`                             *)
(*   while(true, body, orelse) -- `while cond():` / `while True:`          *)
(*   for(body, orelse)         -- `for _ in it():`                         *)
(*   try(body, handlers, orelse, final)                                    *)
(*   with(supp, body)          -- context manager that may (supp) or may   *)
(*                                not swallow exceptions                   *)
(*   defg(v, id)   -- `def g<id>(): v`            nested function reading v *)
(*   defn(v, id)   -- `def g<id>(): nonlocal v; v = <id>`   ... assigning v *)
(*   callg(t, v, w, id) -- `g<t>()`: a call of the nested function defined  *)
(*                    by statement t (w: it is a defn); the use / the      *)
(*                    assignment inside g<t> happens here, at the call     *)
(* Binding forms other than plain assignment (slice "binders"):             *)
(*   aug(v, id)     -- `v += 1`: reads v (use id), then binds v (def id)    *)
(*   import(v, id)  -- `import os as v`                                    *)
(*   ifw(v, id, body, orelse)   -- `if (v := cond()):`  walrus, then if    *)
(*   withas(supp, v, id, body)  -- `with cm() as v:`  bound after __enter__ *)
(*   forv(v, id, body, orelse)  -- `for v in it():`  bound per iteration   *)
(*   exas(v, id)    -- first pseudo-statement of a handler block:           *)
(*                     `except Exception as v:`; v is bound on entry and    *)
(*                     UNBOUND again on every way out of the handler        *)
(*   match(v, id, cases) -- `match subj():` with cases [pat, guard, id, body]: *)
(*                     pat "cap" = `case v` (always matches, binds v),      *)
(*                     "seq" = `case [v]` (may fail; binds v on success),   *)
(*                     "wild" = `case _`; guard = `if cond()`.  A capture   *)
(*                     is bound BEFORE the guard runs and stays bound when  *)
(*                     the guard fails and a later case (or none) is taken  *)
(* Inner scopes inside the function (slice "inner"):                       *)
(*   cuse(v, id)    -- v read inside a comprehension element / the body of  *)
(*                     a lambda that is called at once: a use now          *)
(*   citer(v, id)   -- v read in the FIRST iterable of a comprehension      *)
(*                     (evaluated in the enclosing function): a use now    *)
(*   cbind(v, id)   -- a comprehension target / lambda parameter / class-  *)
(*                     body assignment named v: does not bind the          *)
(*                     function's v                                        *)
(*   cwal(v, id)    -- `[(v := 0) for _ in it()]`: binds the FUNCTION's v,  *)
(*                     once per iteration (possibly never)                 *)
(* An environment maps each variable to the id of the assignment that      *)
(* last bound it, 0 = unbound.  Exec(block, envs, mode) returns, for the   *)
(* set of environments in which the block may start, the environments of   *)
(* each outcome (normal / break / continue / return / exception) and the   *)
(* set `seen` of <<use id, def id>> pairs observed at uses.                *)
(*                                                                         *)
(* mode = "strict":  exceptions arise only at calls (cond(), it(), cm(),   *)
(*   call statements) and raise statements; an exception raised inside a   *)
(*   try body is caught by the first handler; `while True` is only left    *)
(*   by break.                                                             *)
(* mode = "liberal": every statement may raise before it executes, any     *)
(*   handler (or none) may catch, every loop may exit after any iteration. *)
(***************************************************************************)
EXTENDS Integers, Sequences, FiniteSets, TLC

Vars == {"x", "y"}
Unbound == 0

\* statement kinds that share a block structure
IfKinds == {"if", "ifw"}
LoopKinds == {"while", "for", "forv", "whilev"}
\* whilev(t, id, body, orelse) -- `while s:` where s is a local bound right before the loop: t = "mlist" `s = [0]` and the
\* body starts with `s.pop()`; "elist" `s = []`; "tuple" `s = (0,)`; "one" `s = 1`; "zero" `s = 0`
AlwaysTrueTests == {"tuple", "one"}      \* really always true: the loop is left by break only
NeverTrueTests == {"elist", "zero"}       \* the body never runs
WithKinds == {"with", "withas"}

Out(norm, brk, cont, ret, exc, seen) ==
    [norm |-> norm, brk |-> brk, cont |-> cont, ret |-> ret, exc |-> exc, seen |-> seen]
NoOut == Out({}, {}, {}, {}, {}, {})

Merge(a, b) == Out(a.norm \cup b.norm, a.brk \cup b.brk, a.cont \cup b.cont, a.ret \cup b.ret,
                   a.exc \cup b.exc, a.seen \cup b.seen)

\* outcome of running `second` after the normal completion of `first`
Then(first, second) == Out(second.norm, first.brk \cup second.brk, first.cont \cup second.cont,
                           first.ret \cup second.ret, first.exc \cup second.exc, first.seen \cup second.seen)

RECURSIVE Exec(_, _, _), ExecStmt(_, _, _), LoopHeads(_, _, _, _), ExecHandlers(_, _, _, _), ExecHandler(_, _, _),
          ExecCases(_, _, _, _)

MayRaiseAnywhere(mode) == mode = "liberal"

Exec(block, envs, mode) ==
    IF block = << >> THEN Out(envs, {}, {}, {}, {}, {})
    ELSE LET first == ExecStmt(Head(block), envs, mode)
         IN Then(first, Exec(Tail(block), first.norm, mode))

\* environments that can stand at the head of a loop: the least fixpoint of one more iteration.  Returns the
\* fixpoint together with the outcome of the body started from it (so that the body is not executed once more).
LoopHeads(body, heads, mode, fuel) ==
    LET b == Exec(body, heads, mode)
        next == heads \cup b.norm \cup b.cont
    IN IF next = heads \/ fuel = 0 THEN [heads |-> heads, b |-> b] ELSE LoopHeads(body, next, mode, fuel - 1)

\* one handler block.  `except E as v:` (first pseudo-statement exas) binds v when the handler is entered and
\* deletes it on EVERY way out of the handler (language reference 8.4: the body is wrapped in try/finally: del v)
ExecHandler(h, envs, mode) ==
    IF h # << >> /\ h[1].k = "exas"
    THEN LET v == h[1].v
             r == Exec(Tail(h), {[e EXCEPT ![v] = h[1].id] : e \in envs}, mode)
             U(E) == {[e EXCEPT ![v] = Unbound] : e \in E}
         IN Out(U(r.norm), U(r.brk), U(r.cont), U(r.ret), U(r.exc),
                r.seen \cup (IF envs = {} THEN {} ELSE {<<0 - h[1].id, 0>>}))
    ELSE Exec(h, envs, mode)

\* which handlers may run for an exception raised in the try body
ExecHandlers(handlers, envs, mode, idx) ==
    IF idx > Len(handlers) THEN NoOut
    ELSE IF mode = "strict" THEN (IF idx = 1 THEN ExecHandler(handlers[1], envs, mode) ELSE NoOut)
    ELSE Merge(ExecHandler(handlers[idx], envs, mode), ExecHandlers(handlers, envs, mode, idx + 1))

\* the cases of a match statement from case idx on, for the environments E in which all earlier cases failed
\* (language reference 8.6: cases are tried in order; a successful pattern binds its names, then the guard is
\* evaluated; if the guard is false the next case is tried WITH the bindings in place; no case: fall through)
ExecCases(s, idx, E, mode) ==
    IF idx > Len(s.cases) THEN Out(E, {}, {}, {}, {}, {})
    ELSE LET c == s.cases[idx]
             binds == c.pat \in {"cap", "seq"}
             matched == IF binds THEN {[e EXCEPT ![s.v] = c.id] : e \in E} ELSE E
             failed == IF c.pat = "seq" THEN E ELSE {}
             b == Exec(c.body, matched, mode)
             rest == ExecCases(s, idx + 1, failed \cup (IF c.guard THEN matched ELSE {}), mode)
             raises == (IF c.guard THEN matched ELSE {}) \cup (IF MayRaiseAnywhere(mode) THEN E \cup matched ELSE {})
         IN Merge(Merge(b, rest), Out({}, {}, {}, {}, raises, IF binds /\ E # {} THEN {<<0 - c.id, 0>>} ELSE {}))

ExecStmt(s, envs, mode) ==
    LET pre == IF MayRaiseAnywhere(mode) THEN envs ELSE {}      \* exception before the statement executes
        assigned == {[e EXCEPT ![s.v] = s.id] : e \in envs}
    IN
    \* (liberal: an interrupted assignment may or may not have taken effect)
    \* (an assignment that is reached at all is recorded as <<0 - id, 0>>: the oracle's notion of live code)
    CASE s.k = "assign" -> Out(assigned, {}, {}, {}, IF MayRaiseAnywhere(mode) THEN envs \cup assigned ELSE {},
                               IF envs = {} THEN {} ELSE {<<0 - s.id, 0>>})
      [] s.k = "use"    -> Out(envs, {}, {}, {}, pre, {<<s.id, e[s.v]>> : e \in envs})
      [] s.k = "call"   -> Out(envs, {}, {}, {}, envs, {})
      \* defining a nested function neither reads nor binds the variable
      [] s.k \in {"defg", "defn"} -> Out(envs, {}, {}, {}, pre, {})
      [] s.k = "callg" ->
            IF s.w
            THEN LET asg == {[e EXCEPT ![s.v] = s.t] : e \in envs}
                 IN Out(asg, {}, {}, {}, IF MayRaiseAnywhere(mode) THEN envs \cup asg ELSE {},
                        IF envs = {} THEN {} ELSE {<<0 - s.t, 0>>})
            ELSE LET bound == {e \in envs : e[s.v] # Unbound}       \* reading an unbound cell raises NameError
                 IN Out(bound, {}, {}, {}, IF MayRaiseAnywhere(mode) THEN envs ELSE envs \ bound,
                        {<<s.t, e[s.v]>> : e \in envs})
      \* ---- other binding forms ----
      \* `v += 1`: reading an unbound v raises NameError, so only the bound environments go on (strict); the liberal
      \* graph lets every environment go on
      [] s.k = "aug" ->
            LET bound == {e \in envs : e[s.v] # Unbound}
                src == IF mode = "strict" THEN bound ELSE envs
                asg == {[e EXCEPT ![s.v] = s.id] : e \in src}
            IN Out(asg, {}, {}, {}, IF MayRaiseAnywhere(mode) THEN envs \cup asg ELSE envs \ bound,
                   {<<s.id, e[s.v]>> : e \in envs} \cup (IF src = {} THEN {} ELSE {<<0 - s.id, 0>>}))
      \* an import statement is a call (it may raise before it binds)
      [] s.k = "import" -> Out(assigned, {}, {}, {}, IF MayRaiseAnywhere(mode) THEN envs \cup assigned ELSE envs,
                               IF envs = {} THEN {} ELSE {<<0 - s.id, 0>>})
      \* `if (v := cond()):` -- cond() is a call, then v is bound, then one of the branches runs
      [] s.k = "ifw" ->
            LET b == Exec(s.body, assigned, mode)
                o == Exec(s.orelse, assigned, mode)
            IN Merge(Merge(b, o), Out({}, {}, {}, {}, IF MayRaiseAnywhere(mode) THEN envs \cup assigned ELSE envs,
                                      IF envs = {} THEN {} ELSE {<<0 - s.id, 0>>}))
      \* `with cm() as v:` -- cm() and __enter__ are calls, then v is bound, then the body runs
      [] s.k = "withas" ->
            LET b == Exec(s.body, assigned, mode)
            IN Out(b.norm \cup (IF s.supp THEN b.exc ELSE {}), b.brk, b.cont, b.ret,
                   b.exc \cup envs \cup (IF MayRaiseAnywhere(mode) THEN assigned ELSE {}),
                   b.seen \cup (IF envs = {} THEN {} ELSE {<<0 - s.id, 0>>}))
      \* `for v in it():` -- v is bound at the start of every iteration, after next() returned
      [] s.k = "forv" ->
            ExecStmt([k |-> "for", id |-> s.id, body |-> <<[k |-> "assign", v |-> s.v, id |-> s.id]>> \o s.body,
                      orelse |-> s.orelse], envs, mode)
      \* `match subj():` -- subj() is a call
      [] s.k = "match" -> Merge(ExecCases(s, 1, envs, mode), Out({}, {}, {}, {}, envs, {}))
      \* `while s:` with a known local s.  Liberal: an ordinary loop (opaque, or `while True` for the always-true tests).
      \* Strict: always-true tests behave like `while True`; never-true tests skip the body and run the else clause;
      \* the one-element list that the body pops first runs the body exactly once (s.pop() is a call)
      [] s.k = "whilev" ->
            IF mode = "liberal" \/ s.t \in AlwaysTrueTests
            THEN ExecStmt([k |-> "while", id |-> s.id, true |-> s.t \in AlwaysTrueTests, body |-> s.body, orelse |-> s.orelse], envs, mode)
            ELSE IF s.t \in NeverTrueTests THEN Exec(s.orelse, envs, mode)
            ELSE LET b == Exec(s.body, envs, mode)
                     o == Exec(s.orelse, b.norm \cup b.cont, mode)
                 IN Out(o.norm \cup b.brk, o.brk, o.cont, b.ret \cup o.ret, b.exc \cup o.exc \cup envs, b.seen \cup o.seen)
      \* ---- inner scopes ----
      \* a read of v from a comprehension element / an immediately called lambda / a class body happens now; the
      \* statement contains a call (it(), the lambda, the metaclass)
      [] s.k \in {"cuse", "citer"} -> Out(envs, {}, {}, {}, envs, {<<s.id, e[s.v]>> : e \in envs})
      \* a comprehension target or a class-body assignment named v does not touch the function's v
      [] s.k = "cbind" -> Out(envs, {}, {}, {}, envs, {})
      \* a walrus inside a comprehension binds the function's v once per iteration: never, if it() is empty
      [] s.k = "cwal" -> Out(envs \cup assigned, {}, {}, {}, envs \cup assigned,
                             IF envs = {} THEN {} ELSE {<<0 - s.id, 0>>})
      [] s.k = "return" -> Out({}, {}, {}, envs, pre, {})
      [] s.k = "raise"  -> Out({}, {}, {}, {}, envs, {})
      [] s.k = "break"  -> Out({}, envs, {}, {}, pre, {})
      [] s.k = "continue" -> Out({}, {}, envs, {}, pre, {})
      [] s.k = "if" ->
            LET b == Exec(s.body, envs, mode)
                o == Exec(s.orelse, envs, mode)
            IN Merge(Merge(b, o), Out({}, {}, {}, {}, envs, {}))            \* cond() is a call
      [] s.k \in {"while", "for"} ->
            LET infinite == s.k = "while" /\ s.true /\ mode = "strict"
                fix == LoopHeads(s.body, envs, mode, 12)
                heads == fix.heads
                b == fix.b
                exits == IF infinite THEN {} ELSE heads                     \* condition false / iterator exhausted
                o == Exec(s.orelse, exits, mode)
                condraise == IF s.k = "while" /\ s.true THEN pre ELSE heads  \* cond() / it() / next() are calls
            IN Out(o.norm \cup b.brk, o.brk, o.cont, b.ret \cup o.ret, b.exc \cup o.exc \cup condraise,
                   b.seen \cup o.seen)
      [] s.k = "with" ->
            LET b == Exec(s.body, envs, mode)
            IN Out(b.norm \cup (IF s.supp THEN b.exc ELSE {}), b.brk, b.cont, b.ret,
                   b.exc \cup envs,                                           \* cm() / __enter__ / __exit__ are calls
                   b.seen)
      [] s.k = "try" ->
            LET b == Exec(s.body, envs, mode)
                h == ExecHandlers(s.handlers, b.exc, mode, 1)
                o == Exec(s.orelse, b.norm, mode)
                uncaught == IF s.handlers = << >> \/ mode = "liberal" THEN b.exc ELSE {}
                \* outcome of try/except/else before the finally clause
                t == Out(h.norm \cup o.norm, b.brk \cup h.brk \cup o.brk, b.cont \cup h.cont \cup o.cont,
                         b.ret \cup h.ret \cup o.ret, uncaught \cup h.exc \cup o.exc, b.seen \cup h.seen \cup o.seen)
            IN IF s.final = << >> THEN t
               ELSE \* the finally clause runs on every way out and then resumes that way out
                    LET fn == Exec(s.final, t.norm, mode)
                        fb == Exec(s.final, t.brk, mode)
                        fc == Exec(s.final, t.cont, mode)
                        fr == Exec(s.final, t.ret, mode)
                        fe == Exec(s.final, t.exc, mode)
                        abrupt == Merge(Merge(fn, fb), Merge(fc, Merge(fr, fe)))
                    IN Out(fn.norm,
                           fb.norm \cup abrupt.brk, fc.norm \cup abrupt.cont, fr.norm \cup abrupt.ret,
                           fe.norm \cup abrupt.exc, t.seen \cup abrupt.seen)

\* Reaching definitions per use of a function body (every variable starts unbound)
Env0 == [v \in Vars |-> Unbound]
Reaching(prog, mode) == Exec(prog, {Env0}, mode).seen
\* assignments that can execute at all (everything else is dead code)
LiveDefs(pairs) == {0 - p[1] : p \in {q \in pairs : q[1] < 0}}
ReachingAt(prog, mode, useid) == {p[2] : p \in {q \in Reaching(prog, mode) : q[1] = useid}}
=============================================================================
