----------------------------- MODULE Boolability -----------------------------
(***************************************************************************)
(* Truthiness classification (property C02, clause N3).                     *)
(*                                                                         *)
(* Impl*: transcription of pyanalyze/boolability.py get_boolability over   *)
(* the term universe of Values.tla.                                        *)
(* Ref:   Truthy(o) -- what bool(o) returns in CPython for an object of    *)
(* the universe (validated against real bool() in every run by the trace   *)
(* specification NarrowingTrace.tla).                                      *)
(***************************************************************************)
EXTENDS Assign

CONSTANT NFixed   \* names of the proposed repairs (proposed/C02-fix-*.diff) that have been applied to the code under test:
                  \* "isinstance_runtime", "issubclass_tuple", "abc_boolable"; {} = the code as found

(***************************************************************************)
(* Objects added for C02 (falsy float, a third int, a two-character str)   *)
(***************************************************************************)
F00 == Obj("float", "0.0")
I2 == Obj("int", "2")
SAB == Obj("str", "ab")
\* ... and int sequences of length 2 and 3 for the sequence patterns of `match`
T3I == Cont("tuple", <<I1, I0, I1>>)
L2I == Cont("list", <<I1, I0>>)
L3I == Cont("list", <<I1, I0, I1>>)
XObjs == {F00, I2, SAB, T3I, L2I, L3I}
NObjects == Objects \cup XObjs

RECURSIVE SetToSeq(_)
SetToSeq(S) == IF S = {} THEN << >> ELSE LET x == CHOOSE y \in S : TRUE IN <<x>> \o SetToSeq(S \ {x})
\* the object universe in a fixed order: observations carry one recorded CPython outcome per entry
ObjSeq == SetToSeq(NObjects)

(***************************************************************************)
(* Ref: bool(o) in CPython                                                 *)
(***************************************************************************)
Truthy(o) ==
    CASE o.c = "NoneType" -> FALSE
      [] o.c = "int"      -> o.v # "0"
      [] o.c = "bool"     -> o.v = "True"
      [] o.c = "float"    -> o.v # "0.0"
      [] o.c = "str"      -> o.v # ""
      [] o.c \in {"list", "tuple", "set", "dict"} -> o.items # << >>
      [] OTHER            -> TRUE      \* instances of A / B, enum members, class objects: no __bool__ / __len__

(***************************************************************************)
(* Impl: boolability.py                                                    *)
(***************************************************************************)
\* Boolability enum values (boolability.py:33): the rank is the enum's integer value
BoolRank(b) ==
    CASE b = "erroring_bool" -> 1
      [] b = "boolable" -> 2
      [] b = "value_always_false_mutable" -> 3
      [] b = "value_always_true_mutable" -> 4
      [] b = "value_always_false" -> 5
      [] b = "value_always_true" -> 6
      [] b = "type_always_true" -> 7
TrueBoolabilities == {"value_always_true", "value_always_true_mutable", "type_always_true"}   \* boolability.py:59
FalseBoolabilities == {"value_always_false", "value_always_false_mutable"}                    \* boolability.py:64
ImplSafelyTrue(b) == b \in TrueBoolabilities            \* is_safely_true (boolability.py:50)
ImplSafelyFalse(b) == b = "value_always_false"          \* is_safely_false (boolability.py:53)

\* which classes of the universe have __len__ / __bool__ visible through hasattr on the class (an Enum class
\* also shows the __len__ of its metaclass)
ClsHasLen(c) == c \in {"str", "list", "tuple", "dict", "set", "Sequence", "Mapping", "Color"}
ClsHasBool(c) == c \in {"int", "bool", "float", "complex", "NoneType"}

\* _get_type_boolability (boolability.py:180)
IsAbstractClass(c) == c \in {"Sequence", "Iterable", "Mapping"}
ImplTypeBoolability(c, exact) ==
    IF c = "object" /\ ~exact THEN "boolable"
    ELSE IF "abc_boolable" \in NFixed /\ ~exact /\ IsAbstractClass(c) THEN "boolable"      \* C02-fix-3
    ELSE IF ClsHasLen(c) THEN "boolable"
    ELSE IF ~ClsHasBool(c) THEN "type_always_true"
    ELSE "boolable"

\* bool(value.val) as pyanalyze computes it on the literal (the code calls the real bool())
ImplKnownBool(o) == Truthy(o)

\* _get_boolability_no_mvv (boolability.py:99)
ImplBoolabilityNoMvv(v0) ==
    LET v == IF v0.k = "known" /\ v0.o.c \in {"list", "tuple", "set"} THEN ImplReplaceKnown(v0) ELSE v0   \* :102
    IN CASE v.k = "any" -> "boolable"                                                          \* :103
         [] v.k = "seq" ->                                                                     \* :118
              IF v.ms = << >> THEN (IF v.c = "tuple" THEN "value_always_false" ELSE "value_always_false_mutable")
              ELSE IF \A i \in 1..Len(v.ms) : v.ms[i].many THEN "boolable"
              ELSE IF v.c = "tuple" THEN "type_always_true"
              ELSE "value_always_true_mutable"
         [] v.k = "known" /\ v.o.c = "dict" ->                                                 \* :136 (DictIncompleteValue)
              IF v.o.items # << >> THEN "value_always_true_mutable" ELSE "value_always_false_mutable"
         [] v.k = "subclass" -> "type_always_true"                                             \* :143
         [] v.k = "known" /\ v.o.c # "dict" ->                                                 \* :147
              LET tyb == ImplTypeBoolability(v.o.c, TRUE)
              IN IF ImplKnownBool(v.o)
                 THEN (IF tyb = "boolable" THEN "value_always_true" ELSE "type_always_true")
                 ELSE "value_always_false"
         [] v.k \in {"typed", "newtype", "generic"} -> ImplTypeBoolability(v.c, FALSE)         \* :175

MinRank(S) == CHOOSE b \in S : \A c \in S : BoolRank(b) <= BoolRank(c)

\* get_boolability (boolability.py:72)
ImplBoolability(v) ==
    IF v.k = "union"
    THEN LET bs == {ImplBoolabilityNoMvv(v.ms[i]) : i \in 1..Len(v.ms)}
         IN IF "erroring_bool" \in bs THEN "erroring_bool"
            ELSE IF "boolable" \in bs THEN "boolable"
            ELSE IF bs \cap TrueBoolabilities # {} /\ bs \cap FalseBoolabilities # {} THEN "boolable"
            ELSE IF bs # {} THEN MinRank(bs)
            ELSE "boolable"
    ELSE ImplBoolabilityNoMvv(v)

(***************************************************************************)
(* N3: an always-true / always-false verdict is right for every object     *)
(***************************************************************************)
RefVerdictRight(v, b) ==
    /\ b \in TrueBoolabilities => \A o \in NObjects : Member(o, v) => Truthy(o)
    /\ b \in FalseBoolabilities => \A o \in NObjects : Member(o, v) => ~Truthy(o)

\* Known deviation: a class that defines neither __bool__ nor __len__ is classified "always true", although
\* the type is an abstract base (Iterable) whose instances (lists, strs, ...) can be empty and falsy.
RECURSIVE Dev_AbcAlwaysTrue(_)
Dev_AbcAlwaysTrue(v) ==
    CASE v.k \in {"typed", "generic"} -> v.c = "Iterable"
      [] v.k = "union" -> \E i \in 1..Len(v.ms) : Dev_AbcAlwaysTrue(v.ms[i])
      [] OTHER -> FALSE

N3(v) == RefVerdictRight(v, ImplBoolability(v)) \/ Dev_AbcAlwaysTrue(v)
N3Strict(v) == RefVerdictRight(v, ImplBoolability(v))
=============================================================================
