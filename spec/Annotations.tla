----------------------------- MODULE Annotations -----------------------------
(***************************************************************************)
(* Static and runtime views of a type annotation agree (property C13,      *)
(* first sentence).                                                        *)
(*                                                                         *)
(* A case is an annotation EXPRESSION e (a syntax tree).  pyanalyze reads  *)
(* it along three routes, each with its own evaluator:                     *)
(*   rt   type_from_runtime(eval(e))      annotations.py:402 _type_from_-  *)
(*        runtime, :1141 _value_of_origin_args -- applied to the OBJECT    *)
(*        CPython builds for e (typing's own normalisation comes first);   *)
(*   str  type_from_runtime("e")          annotations.py:663 _eval_for-    *)
(*        ward_ref, :966 _Visitor, :677 _type_from_value, :721 _type_from_ *)
(*        subscripted_value -- a separate evaluator over the ast;          *)
(*   ast  `def f(x: e): reveal_type(x)`   name_check_visitor.py:2483       *)
(*        value_of_annotation: the checker's expression evaluator executes *)
(*        the subscripts (allow_call) and hands the object to route rt.    *)
(*                                                                         *)
(* Three universes of uniform records (uniform so that TLC never compares  *)
(* values of different shape):                                             *)
(*   expressions   X(k, id, args)   k: name const str ellipsis empty plist *)
(*                                     star or sub                         *)
(*   objects       X(k, id, args)   the runtime objects CPython builds     *)
(*                                  (PyEval = the CPython model, validated *)
(*                                  against real eval() in every run)      *)
(*   values        V(t, n, a)       pyanalyze Values (value.py)            *)
(*                                                                         *)
(* Impl* transcribe pyanalyze; PyEval* model CPython's typing module;      *)
(* Ref* (RefCanon / RefSame) say when two Values mean the same type and    *)
(* are written from the set-of-values semantics of types only.             *)
(***************************************************************************)
EXTENDS Naturals, Sequences, FiniteSets, TLC

CONSTANTS
    Leaves,       \* leaf forms (names and closed forms such as Literal[1])
    Unary,        \* one-hole forms
    Binary,       \* two-hole forms
    TopOnly,      \* one-hole forms only legal at the outermost level (Final, ClassVar)
    MaxNodes,     \* size bound of the expression (number of forms)
    MaxStack,     \* bound of the generator's stack (depth of right nesting)
    BugOptionalDropsNone,  \* sensitivity switch: a plausible bug in the string route
    \* One switch per known deviation: FALSE = the behaviour of the current code (the deviation is
    \* modelled and named), TRUE = the behaviour after the proposed repair (/verif/proposed/C13-fix-*.diff);
    \* when a repair is committed its switch is set to TRUE in spec/mc/*.cfg and the finding closed.
    FixedStar, FixedFinalInString, FixedNestedLiteral,
    BugBuiltinsFirst       \* sensitivity switch: get_name_from_globals looks in builtins before the module

X(k, id, args) == [k |-> k, id |-> id, args |-> args]
V(t, n, a) == [t |-> t, n |-> n, a |-> a]

(***************************************************************************)
(* Expressions                                                             *)
(***************************************************************************)
Nm(id) == X("name", id, << >>)
Cn(c) == X("const", c, << >>)               \* c = "int:1", "str:a", "bool:True", "None", "int:-1"
Ell == X("ellipsis", "", << >>)
Emp == X("empty", "", << >>)                \* the expression ()
Sub(root, args) == X("sub", root, args)     \* root[args...]
Or(l, r) == X("or", "", <<l, r>>)           \* l | r
Quote(e) == X("str", "", <<e>>)             \* the string literal whose text is the source of e
PList(args) == X("plist", "", args)         \* [a, b]  (parameter list of Callable)
Star(e) == X("star", "", <<e>>)             \* *e

NameLeaves == {"int", "str", "None", "A", "B", "object", "Any", "NT", "TD", "P", "T", "TB", "TC",
               "list", "dict", "tuple", "type", "List", "Dict", "Tuple", "Type", "Callable", "Sequence",
               "TimeoutError", "Warning"}
\* TimeoutError and Warning are classes the realised module DEFINES; they shadow the builtins of the same
\* name.  The class object named "builtins.X" is the builtin one (never written in an expression; it is what
\* a wrong lookup order would find).
ShadowingNames == {"TimeoutError", "Warning"}

LeafExpr(l) ==
    CASE l = "Lit1"      -> Sub("Literal", <<Cn("int:1")>>)
      [] l = "Lit1a"     -> Sub("Literal", <<Cn("int:1"), Cn("str:a")>>)
      [] l = "LitNested" -> Sub("Literal", <<Sub("Literal", <<Cn("int:1")>>), Cn("int:2")>>)
      [] l = "LitTrue"   -> Sub("Literal", <<Cn("bool:True")>>)
      [] l = "LitNone"   -> Sub("Literal", <<Cn("None")>>)
      [] l = "LitNeg"    -> Sub("Literal", <<Cn("int:-1")>>)
      [] l = "LitDup"    -> Sub("Literal", <<Cn("int:1"), Cn("int:1")>>)
      [] l = "tuple0"    -> Sub("tuple", <<Emp>>)
      [] l = "Tuple0"    -> Sub("Tuple", <<Emp>>)
      [] OTHER           -> Nm(l)

Build1(f, x) ==
    CASE f = "Quote"          -> Quote(x)
      [] f = "Optional"       -> Sub("Optional", <<x>>)
      [] f = "Union1"         -> Sub("Union", <<x>>)
      [] f = "list"           -> Sub("list", <<x>>)
      [] f = "List"           -> Sub("List", <<x>>)
      [] f = "TList"          -> Sub("typing.List", <<x>>)
      [] f = "Sequence"       -> Sub("Sequence", <<x>>)
      [] f = "type"           -> Sub("type", <<x>>)
      [] f = "Type"           -> Sub("Type", <<x>>)
      [] f = "tupleEll"       -> Sub("tuple", <<x, Ell>>)
      [] f = "TupleEll"       -> Sub("Tuple", <<x, Ell>>)
      [] f = "tuple1"         -> Sub("tuple", <<x>>)
      [] f = "Tuple1"         -> Sub("Tuple", <<x>>)
      [] f = "Annotated1"     -> Sub("Annotated", <<x, Cn("int:1")>>)
      [] f = "CallableEll"    -> Sub("Callable", <<Ell, x>>)
      [] f = "Callable0"      -> Sub("Callable", <<PList(<< >>), x>>)
      [] f = "CallableToNone" -> Sub("Callable", <<PList(<<x>>), Nm("None")>>)
      [] f = "AbcCallable"    -> Sub("collections.abc.Callable", <<PList(<<x>>), Nm("int")>>)
      [] f = "dictStr"        -> Sub("dict", <<Nm("str"), x>>)
      [] f = "StarTail"       -> Sub("tuple", <<Nm("int"), Star(Sub("tuple", <<x, Ell>>))>>)
      [] f = "StarOnly"       -> Sub("tuple", <<Star(Sub("tuple", <<x, Ell>>))>>)
      [] f = "UnpackTail"     -> Sub("Tuple", <<Nm("int"), Sub("Unpack", <<Sub("Tuple", <<x, Ell>>)>>)>>)
      [] f = "Final"          -> Sub("Final", <<x>>)
      [] f = "ClassVar"       -> Sub("ClassVar", <<x>>)

Build2(f, x, y) ==
    CASE f = "Or"        -> Or(x, y)
      [] f = "Union2"    -> Sub("Union", <<x, y>>)
      [] f = "tuple2"    -> Sub("tuple", <<x, y>>)
      [] f = "Tuple2"    -> Sub("Tuple", <<x, y>>)
      [] f = "dict2"     -> Sub("dict", <<x, y>>)
      [] f = "Dict2"     -> Sub("Dict", <<x, y>>)
      [] f = "Callable1" -> Sub("Callable", <<PList(<<x>>), y>>)

StrConsts == {"str:a"}
RECURSIVE StrDepth(_)
\* nesting of string literals (a str constant inside a quoted expression counts): the realisation
\* has two quote characters, so the generator keeps this <= 2
StrDepth(e) ==
    LET kids == {StrDepth(e.args[i]) : i \in 1..Len(e.args)}
        m == IF kids = {} THEN 0 ELSE CHOOSE x \in kids : \A y \in kids : y <= x
    IN IF e.k = "str" THEN m + 1
       ELSE IF e.k = "const" /\ e.id \in StrConsts THEN 1
       ELSE m

RECURSIVE HasKind(_, _)
HasKind(e, k) == e.k = k \/ \E i \in 1..Len(e.args) : HasKind(e.args[i], k)

RECURSIVE HasSubRoot(_, _)
HasSubRoot(e, roots) == (e.k = "sub" /\ e.id \in roots) \/ \E i \in 1..Len(e.args) : HasSubRoot(e.args[i], roots)

RECURSIVE HasNestedLiteral(_)
HasNestedLiteral(e) ==
    \/ e.k = "sub" /\ e.id = "Literal" /\ \E i \in 1..Len(e.args) : e.args[i].k = "sub"
    \/ \E i \in 1..Len(e.args) : HasNestedLiteral(e.args[i])

(***************************************************************************)
(* Runtime objects.                                                        *)
(*   class(name) none nonetype any td newtype typevar(name)                *)
(*   bare(List|Dict|Tuple|Type|Callable|Sequence)  unsubscripted typing    *)
(*        aliases;  special(name) unsubscripted special forms;             *)
(*   abccallable   the class collections.abc.Callable                      *)
(*   alias(root, args)  subscripted generic; root is the canonical         *)
(*        spelling and tells typing aliases (List) from builtin ones       *)
(*        (list); unpackedalias = *tuple[...]                              *)
(*   union(flavour, args)  flavour "t" typing.Union / "c" types.UnionType  *)
(*   literal annotated final(Final|ClassVar) unpack                        *)
(*   fwd(e) ForwardRef; strobj(e) a plain str; const ellipsis emptytuple   *)
(*   pylist;  raise = evaluation raised TypeError                          *)
(***************************************************************************)
ClassNames == {"int", "str", "object", "A", "B", "P", "list", "dict", "tuple", "type",
               "TimeoutError", "Warning", "builtins.TimeoutError", "builtins.Warning",
               \* classes of the two-module world of AnnotationContext.tla: "<module>.<class>" (never leaves)
               "A.K", "B.K", "A.Solo"}
\* what a name lookup that finds nothing yields (annotations.py:169 handle_undefined_name / :962): an
\* AnyValue whose source says whether errors were suppressed; only AnnotationContext.tla writes these ids
UndefinedIds == {"undefined:error", "undefined:inference"}
BareNames == {"List", "Dict", "Tuple", "Type", "Callable", "Sequence",
              "Iterator", "AsyncIterator"}      \* return annotations of generators (DefShapes.tla); never leaves
SpecialNames == {"Optional", "Union", "Literal", "Annotated", "Final", "ClassVar", "Unpack"}

NameObj(id) ==
    CASE id \in ClassNames -> X("class", id, << >>)
      [] id = "None" -> X("none", "", << >>)
      [] id = "undefined:error" -> X("undefined", "error", << >>)
      [] id = "undefined:inference" -> X("undefined", "inference", << >>)
      [] id = "Any" -> X("any", "", << >>)
      [] id = "TD" -> X("td", "TD", << >>)
      [] id = "TDN" -> X("td", "TDN", << >>)        \* class TDN(TypedDict): p: int; q: NotRequired[str]  (DefVarargs.tla)
      [] id = "NT" -> X("newtype", "NT", << >>)
      [] id \in {"T", "TB", "TC"} -> X("typevar", id, << >>)
      [] id \in BareNames -> X("bare", id, << >>)
      [] id \in SpecialNames -> X("special", id, << >>)

CanonRoot(root) == IF root = "typing.List" THEN "List" ELSE root

RootObj(root) ==
    IF root = "collections.abc.Callable" THEN X("abccallable", "", << >>) ELSE NameObj(CanonRoot(root))

RaiseObj == X("raise", "", << >>)
AnyRaise(s) == \E i \in 1..Len(s) : s[i].k = "raise"

RECURSIVE DedupSeq(_)
DedupSeq(s) ==
    IF s = << >> THEN << >>
    ELSE LET r == DedupSeq(SubSeq(s, 1, Len(s) - 1))
             x == s[Len(s)]
         IN IF \E i \in 1..Len(r) : r[i] = x THEN r ELSE Append(r, x)

RECURSIVE FlattenKind(_, _)
\* splice the args of every element of kind k into the sequence (typing._flatten_literal_params,
\* typing._remove_dups_flatten, unionobject.c flatten_args)
FlattenKind(s, k) ==
    IF s = << >> THEN << >>
    ELSE (IF Head(s).k = k THEN Head(s).args ELSE <<Head(s)>>) \o FlattenKind(Tail(s), k)

\* typing._type_convert: None -> NoneType, str -> ForwardRef
TConv(r) ==
    IF r.k = "none" THEN X("nonetype", "", << >>)
    ELSE IF r.k = "strobj" THEN X("fwd", "", r.args)
    ELSE r

\* typing.Union[...] (typing.py _UnionGenericAlias via Union.__getitem__): convert, flatten,
\* remove duplicates, a single remaining member is returned itself
PyMkUnion(flavour, members) ==
    LET d == DedupSeq(FlattenKind(members, "union"))
    IN IF Len(d) = 1 THEN d[1] ELSE X("union", flavour, d)

\* objects whose type implements __or__/__ror__ in typing.py (result: typing.Union[left, right])
PyIsTypingObj(r) ==
    \/ r.k \in {"bare", "newtype", "typevar", "literal", "annotated", "final", "unpack", "fwd"}
    \/ r.k = "alias" /\ r.id \in BareNames
    \/ r.k = "union" /\ r.id = "t"
\* objects accepted by unionobject.c is_unionable (None, types, types.GenericAlias, types.UnionType)
PyIsCUnionable(r) ==
    \/ r.k \in {"class", "any", "td", "nonetype", "none", "abccallable", "unpackedalias"}
    \/ r.k = "alias" /\ r.id \notin BareNames
    \/ r.k = "union" /\ r.id = "c"

PyOr(a, b) ==
    IF PyIsTypingObj(a) \/ PyIsTypingObj(b)
    THEN (IF (PyIsTypingObj(a) \/ PyIsCUnionable(a) \/ a.k = "strobj")
             /\ (PyIsTypingObj(b) \/ PyIsCUnionable(b) \/ b.k = "strobj")
          THEN PyMkUnion("t", <<TConv(a), TConv(b)>>) ELSE RaiseObj)
    ELSE IF PyIsCUnionable(a) /\ PyIsCUnionable(b) /\ ~(a.k = "none" /\ b.k = "none")
    THEN PyMkUnion("c", <<TConv(a), TConv(b)>>)
    ELSE RaiseObj

PySubscript(root, as) ==
    LET r == CanonRoot(root)
        conv == [i \in 1..Len(as) |-> TConv(as[i])]
    IN CASE r = "Optional" -> PyMkUnion("t", <<conv[1], X("nonetype", "", << >>)>>)
         [] r = "Union" -> PyMkUnion("t", conv)
         [] r = "Literal" -> X("literal", "", DedupSeq(FlattenKind(as, "literal")))
         [] r = "Annotated" ->          \* nested Annotated is flattened (typing.Annotated.__class_getitem__)
                IF conv[1].k = "annotated" THEN X("annotated", "", conv[1].args \o Tail(as))
                ELSE X("annotated", "", <<conv[1]>> \o Tail(as))
         [] r \in {"Final", "ClassVar"} -> X("final", r, <<conv[1]>>)
         [] r = "Unpack" -> X("unpack", "", <<conv[1]>>)
         [] r \in {"list", "dict", "type"} -> X("alias", r, as)               \* types.GenericAlias keeps its args as given
         [] r = "tuple" -> IF Len(as) = 1 /\ as[1].k = "emptytuple" THEN X("alias", r, << >>) ELSE X("alias", r, as)
         [] r = "Tuple" -> IF Len(as) = 1 /\ as[1].k = "emptytuple" THEN X("alias", r, << >>) ELSE X("alias", r, conv)
         [] r \in {"List", "Dict", "Type", "Sequence", "Iterator", "AsyncIterator"} -> X("alias", r, conv)
         [] r = "Callable" ->           \* as typing.get_args presents it: ([params], ret) or (..., ret)
                X("alias", r, <<IF as[1].k = "pylist" THEN X("pylist", "", [i \in 1..Len(as[1].args) |-> TConv(as[1].args[i])])
                                 ELSE as[1], conv[2]>>)
         [] r = "collections.abc.Callable" -> X("alias", r, as)

RECURSIVE PyEval(_)
PyEval(e) ==
    CASE e.k = "name" -> NameObj(e.id)
      [] e.k = "const" -> X("const", e.id, << >>)
      [] e.k = "str" -> X("strobj", "", e.args)
      [] e.k = "ellipsis" -> X("ellipsis", "", << >>)
      [] e.k = "empty" -> X("emptytuple", "", << >>)
      [] e.k = "plist" -> LET as == [i \in 1..Len(e.args) |-> PyEval(e.args[i])]
                          IN IF AnyRaise(as) THEN RaiseObj ELSE X("pylist", "", as)
      [] e.k = "star" -> LET a == PyEval(e.args[1])          \* iterating tuple[...] yields the unpacked alias
                         IN IF a.k = "alias" THEN X("unpackedalias", a.id, a.args) ELSE RaiseObj
      [] e.k = "or" -> LET a == PyEval(e.args[1]) b == PyEval(e.args[2])
                       IN IF a.k = "raise" \/ b.k = "raise" THEN RaiseObj ELSE PyOr(a, b)
      [] e.k = "sub" -> LET as == [i \in 1..Len(e.args) |-> PyEval(e.args[i])]
                        IN IF AnyRaise(as) THEN RaiseObj ELSE PySubscript(e.id, as)

(***************************************************************************)
(* Values (value.py) and the helpers shared by the routes                  *)
(***************************************************************************)
Raised == V("Raised", "NotImplementedError", << >>)
HasRaised(a) == \E i \in 1..Len(a) : a[i].t = "Raised"
Mk(t, n, a) == IF HasRaised(a) THEN Raised ELSE V(t, n, a)      \* an exception propagates to the caller

AnyV(src) == V("Any", src, << >>)
KnownV(c) == V("Known", c, << >>)
TypedV(c) == V("Typed", c, << >>)
KnownNone == KnownV("None")
One(v) == Mk("one", "", <<v>>)
Many(v) == Mk("many", "", <<v>>)
NoDefault == V("nodefault", "", << >>)
ParamV(name, kind, dflt, ann) == Mk("Param", name, <<V("kind", kind, << >>), dflt, ann>>)
SigV(params, ret) == Mk("Sig", "", params \o <<ret>>)
CallableV(sig) == Mk("Callable", "", <<sig>>)
EllipsisParam == ParamV("...", "ELLIPSIS", NoDefault, AnyV("unannotated"))      \* signature.py:1994
AnySig == SigV(<<EllipsisParam>>, AnyV("explicit"))                             \* signature.py:1995
TDValue == V("TypedDict", "a:int:required,b:str:required", << >>)
TDNValue == V("TypedDict", "p:int:required,q:str:optional", << >>)
TypeVarV(id) ==
    V("TypeVar", id,
      CASE id = "TB" -> <<V("bound", "", <<TypedV("int")>>)>>                   \* make_type_var_value :550
        [] id = "TC" -> <<V("constraint", "", <<TypedV("int")>>), V("constraint", "", <<TypedV("str")>>)>>
        [] OTHER -> << >>)

\* value.py:2808 annotate_value
Annotate(origin, metadata) ==
    IF origin.t = "Raised" THEN Raised
    ELSE IF metadata = << >> THEN origin
    ELSE IF origin.t = "Annotated"
         THEN V("Annotated", "", <<origin.a[1]>> \o DedupSeq(Tail(origin.a) \o metadata))
         ELSE V("Annotated", "", <<origin>> \o DedupSeq(metadata))

RECURSIVE UniteFlatten(_)
UniteFlatten(vs) ==
    IF vs = << >> THEN << >>
    ELSE LET v == Head(vs)
             sub == IF v.t = "Union" THEN v.a
                    ELSE IF v.t = "Annotated" /\ v.a[1].t = "Union"
                         THEN [i \in 1..Len(v.a[1].a) |-> Annotate(v.a[1].a[i], Tail(v.a))]
                         ELSE <<v>>
         IN sub \o UniteFlatten(Tail(vs))

\* value.py:2873 unite_values (no unreachable values occur here)
Unite(vs) ==
    IF HasRaised(vs) THEN Raised
    ELSE LET d == DedupSeq(UniteFlatten(vs))
         IN IF Len(d) = 1 THEN d[1] ELSE V("Union", "", d)

TypedFamily == {"Typed", "Generic", "Seq", "NewType", "TypedDict", "Callable"}   \* TypedValue and subclasses

RECURSIVE SubclassMake(_)
\* value.py:1929 SubclassValue.make
SubclassMake(v) ==
    CASE v.t = "Raised" -> Raised
      [] v.t = "Union" -> Unite([i \in 1..Len(v.a) |-> SubclassMake(v.a[i])])
      [] v.t = "Any" -> TypedV("type")
      [] v.t = "TypeVar" \/ v.t \in TypedFamily -> V("Subclass", "", <<v>>)
      [] OTHER -> AnyV("inference")

\* value.py:2661 UnpackedValue.get_elements + annotations.py:1289 _make_sequence_value
SeqPairs(v) ==
    IF v.t = "Unpacked"
    THEN LET u == v.a[1]
         IN CASE u.t = "Seq" /\ u.n = "tuple" -> u.a
              [] u.t = "Generic" /\ u.n = "tuple" -> <<Many(u.a[1])>>
              [] u.t = "Typed" /\ u.n = "tuple" -> <<Many(AnyV("generic_argument"))>>
              [] OTHER -> <<Many(AnyV("error"))>>
    ELSE <<One(v)>>

RECURSIVE ConcatPairs(_)
ConcatPairs(vs) == IF vs = << >> THEN << >> ELSE SeqPairs(Head(vs)) \o ConcatPairs(Tail(vs))
MakeSeq(vs) == IF HasRaised(vs) THEN Raised ELSE Mk("Seq", "tuple", ConcatPairs(vs))

\* annotations.py:1279 _maybe_typed_value
MaybeTyped(r) ==
    CASE r.k = "nonetype" -> KnownNone
      [] r.k = "abccallable" -> CallableV(AnySig)
      [] OTHER -> TypedV(r.id)

PosOnlyParams(types) == [i \in 1..Len(types) |-> ParamV("@" \o ToString(i - 1), "POSITIONAL_ONLY", NoDefault, types[i])]

\* which class a (bare or subscripted) generic alias stands for
OriginOf(root) ==
    CASE root \in {"list", "List"} -> "list"
      [] root \in {"dict", "Dict"} -> "dict"
      [] root \in {"tuple", "Tuple"} -> "tuple"
      [] root \in {"type", "Type"} -> "type"
      [] root = "Sequence" -> "Sequence"
      [] root \in {"Iterator", "AsyncIterator"} -> root
      [] root \in {"Callable", "collections.abc.Callable"} -> "Callable"

(***************************************************************************)
(* Impl: the three evaluators.  au = allow_unpack.                         *)
(***************************************************************************)
RECURSIVE ImplRt(_, _), ImplOriginArgs(_, _), ImplFwd(_, _), ImplStrVisit(_), ImplTypeFromIV(_, _),
          ImplSubscripted(_, _, _)

\* annotations.py:402 _type_from_runtime -- one arm per branch of the elif chain, in its order
ImplRt(r, au) ==
    CASE r.k = "strobj" -> ImplFwd(r.args[1], au)                                           \* :405 str
      [] r.k = "unpackedalias" /\ FixedStar /\ au                                             \* (C13-fix-3) *tuple[...] = Unpack[tuple[...]]
                          -> Mk("Unpacked", "", <<ImplOriginArgs(r, FALSE)>>)
      [] r.k \in {"alias", "unpackedalias", "bare", "union", "literal", "annotated", "final", "unpack"}
                          -> ImplOriginArgs(r, au)                                            \* :413 get_origin(val) is not None
      [] r.k = "td" -> IF r.id = "TDN" THEN TDNValue ELSE TDValue                                                                \* :421 _TypedDictMeta
      [] r.k = "any" -> AnyV("explicit")                                                      \* :469
      [] r.k \in {"class", "nonetype", "abccallable"} -> MaybeTyped(r)                        \* :471 isinstance(val, type)
      [] r.k = "none" -> KnownNone                                                            \* :473
      [] r.k = "newtype" -> V("NewType", r.id, << >>)                                         \* :481 __supertype__
      [] r.k = "typevar" -> TypeVarV(r.id)                                                    \* :492
      [] r.k = "special" /\ r.id \in {"Final", "ClassVar"} -> AnyV("incomplete_annotation")   \* :497
      [] r.k = "fwd" -> ImplFwd(r.args[1], FALSE)                                             \* :499 (allow_unpack is not forwarded)
      [] r.k = "ellipsis" -> AnyV("explicit")                                                 \* :518
      [] r.k = "undefined" -> AnyV(r.id)                                                      \* :726 an AnyValue passes through _type_from_value
      [] OTHER -> AnyV("error")                                                               \* :545 "Invalid type annotation"

\* annotations.py:1141 _value_of_origin_args
ImplOriginArgs(r, au) ==
    LET args == r.args
        origin == CASE r.k \in {"alias", "unpackedalias", "bare"} -> OriginOf(r.id)
                    [] OTHER -> r.k
        rt(i) == ImplRt(args[i], FALSE)
    IN CASE origin = "type" ->                                                                \* :1150
                IF args = << >> THEN TypedV("type") ELSE SubclassMake(rt(1))
         [] origin = "tuple" ->                                                               \* :1154
                IF args = << >> THEN V("Seq", "tuple", << >>)
                ELSE IF Len(args) = 2 /\ args[2].k = "ellipsis" THEN Mk("Generic", "tuple", <<rt(1)>>)
                ELSE IF Len(args) = 1 /\ args[1].k = "emptytuple" THEN V("Seq", "tuple", << >>)
                ELSE MakeSeq([i \in 1..Len(args) |-> ImplRt(args[i], TRUE)])
         [] origin = "union" -> Unite([i \in 1..Len(args) |-> rt(i)])                         \* :1166
         [] origin = "Callable" ->                                                            \* :1168
                IF args = << >> THEN CallableV(AnySig)
                ELSE LET ret == rt(2)
                     IN IF args[1].k = "pylist"                                               \* :1172 / :578 list of types
                        THEN CallableV(SigV(PosOnlyParams([i \in 1..Len(args[1].args) |-> ImplRt(args[1].args[i], FALSE)]), ret))
                        ELSE CallableV(SigV(<<EllipsisParam>>, ret))                          \* :576 [Ellipsis]
         [] origin = "annotated" ->                                                           \* :1177
                Annotate(ImplRt(args[1], au), [i \in 1..(Len(args) - 1) |-> KnownV(args[i + 1].id)])
         [] origin \in {"list", "dict", "Sequence", "Iterator", "AsyncIterator"} ->           \* :1186 isinstance(origin, type)
                IF args = << >> THEN TypedV(origin) ELSE Mk("Generic", origin, [i \in 1..Len(args) |-> rt(i)])
         [] origin = "literal" ->                                                             \* :1193
                IF Len(args) = 1 THEN KnownV(args[1].id) ELSE Unite([i \in 1..Len(args) |-> KnownV(args[i].id)])
         [] origin = "final" -> rt(1)                                                         \* :1212 / :1218
         [] origin = "unpack" -> IF ~au THEN AnyV("error") ELSE Mk("Unpacked", "", <<rt(1)>>)  \* :1253

\* annotations.py:663 _eval_forward_ref -> :389 _type_from_ast -> :378 value_from_ast
ImplFwd(e, au) ==
    LET iv == ImplStrVisit(e)
    IN IF iv.k = "raised" THEN Raised ELSE ImplTypeFromIV(iv, au)

\* annotations.py:966 _Visitor; results: known(obj) | subscripted(root, members...) | seq(tuple|list, elts) | raised
ImplStrVisit(e) ==
    CASE e.k = "name" -> X("known", "", <<NameObj(e.id)>>)                                    \* :973 via ctx.get_name
      [] e.k = "const" -> X("known", "", <<X("const", e.id, << >>)>>)                         \* :1019 (:1033 for -1)
      [] e.k = "str" -> X("known", "", <<X("strobj", "", e.args)>>)                           \* :1019
      [] e.k = "ellipsis" -> X("known", "", <<X("ellipsis", "", << >>)>>)
      [] e.k = "empty" -> X("seq", "tuple", << >>)                                            \* :993
      [] e.k = "plist" -> LET elts == [i \in 1..Len(e.args) |-> ImplStrVisit(e.args[i])]      \* :997
                          IN IF \E i \in 1..Len(elts) : elts[i].k = "raised" THEN X("raised", "", << >>)
                             ELSE X("seq", "list", elts)
      [] e.k = "star" ->
            IF ~FixedStar THEN X("raised", "", << >>)                                         \* :970 generic_visit raises
            ELSE LET x == ImplStrVisit(e.args[1])                                             \* (C13-fix-3) visit_Starred
                 IN IF x.k = "raised" THEN x ELSE X("subscripted", "", <<X("known", "", <<NameObj("Unpack")>>), x>>)
      [] e.k = "or" -> LET l == ImplStrVisit(e.args[1]) r == ImplStrVisit(e.args[2])          \* :1025
                       IN IF l.k = "raised" \/ r.k = "raised" THEN X("raised", "", << >>)
                          ELSE X("subscripted", "", <<X("known", "", <<NameObj("Union")>>), l, r>>)
      [] e.k = "sub" ->                                                                       \* :976
            LET root == X("known", "", <<RootObj(e.id)>>)                                     \* visit_Name / visit_Attribute
                ms == [i \in 1..Len(e.args) |-> ImplStrVisit(e.args[i])]
                \* a SequenceValue index (the tuple of several indices, or the empty tuple) is unpacked
                members == IF Len(ms) = 1 /\ ms[1].k = "seq" THEN ms[1].args ELSE ms
            IN IF \E i \in 1..Len(ms) : ms[i].k = "raised" THEN X("raised", "", << >>)
               ELSE X("subscripted", "", <<root>> \o members)

\* annotations.py:677 _type_from_value
ImplTypeFromIV(iv, au) ==
    CASE iv.k = "known" -> ImplRt(iv.args[1], au)                                             \* :684
      [] iv.k = "subscripted" -> ImplSubscripted(iv.args[1].args[1], Tail(iv.args), au)       \* :701
      [] OTHER -> AnyV("error")                                                               \* :717 "Unrecognized annotation"

RECURSIVE FlattenLiteralIV(_)
FlattenLiteralIV(ms) ==
    IF ms = << >> THEN << >>
    ELSE LET m == Head(ms)
             nested == m.k = "subscripted" /\ m.args[1] = X("known", "", <<NameObj("Literal")>>)
         IN (IF nested THEN FlattenLiteralIV(Tail(m.args)) ELSE <<m>>) \o FlattenLiteralIV(Tail(ms))

\* annotations.py:721 _type_from_subscripted_value (root is always a KnownValue here)
ImplSubscripted(root, members, au) ==
    LET tv(i) == ImplTypeFromIV(members[i], FALSE)
        n == Len(members)
        isTuple == (root.k = "class" /\ root.id = "tuple") \/ (root.k = "bare" /\ root.id = "Tuple")
        isType == (root.k = "class" /\ root.id = "type") \/ (root.k = "bare" /\ root.id = "Type")
        isCallable == root.k = "abccallable" \/ (root.k = "bare" /\ root.id = "Callable")
        special(s) == root.k = "special" /\ root.id = s
    IN CASE special("Union") -> Unite([i \in 1..n |-> tv(i)])                                 \* :767
         [] special("Literal") ->                                                             \* :769
                LET ms == IF FixedNestedLiteral THEN FlattenLiteralIV(members) ELSE members     \* (C13-fix-2)
                IN IF \A i \in 1..Len(ms) : ms[i].k = "known"
                   THEN Unite([i \in 1..Len(ms) |-> KnownV(ms[i].args[1].id)])
                   ELSE AnyV("error")
         [] isTuple ->                                                                        \* :775
                IF n = 2 /\ members[2] = X("known", "", <<X("ellipsis", "", << >>)>>)
                THEN Mk("Generic", "tuple", <<tv(1)>>)
                ELSE MakeSeq([i \in 1..n |-> ImplTypeFromIV(members[i], TRUE)])
         [] special("Optional") ->                                                            \* :786
                IF n # 1 THEN AnyV("error")
                ELSE IF BugOptionalDropsNone THEN tv(1)
                ELSE Unite(<<KnownNone, tv(1)>>)
         [] isType -> IF n # 1 THEN AnyV("error") ELSE SubclassMake(tv(1))                    \* :791
         [] special("Annotated") ->                                                           \* :797; :1377 only KnownValue metadata is kept
                Annotate(tv(1), [i \in 1..(n - 1) |-> KnownV(members[i + 1].args[1].id)])
         [] special("Unpack") ->                                                              \* :844
                IF ~au \/ n # 1 THEN AnyV("error") ELSE Mk("Unpacked", "", <<tv(1)>>)
         [] FixedFinalInString /\ (special("Final") \/ special("ClassVar")) ->                 \* (C13-fix-1)
                IF n # 1 THEN AnyV("error") ELSE tv(1)
         [] isCallable ->                                                                     \* :852 -> :1305 _make_callable_from_value
                IF n # 2 THEN AnyV("error")
                ELSE IF members[1] = X("known", "", <<X("ellipsis", "", << >>)>>)
                THEN CallableV(SigV(<<EllipsisParam>>, tv(2)))
                ELSE IF members[1].k = "seq"
                THEN CallableV(SigV(PosOnlyParams([i \in 1..Len(members[1].args) |-> ImplTypeFromIV(members[1].args[i], FALSE)]), tv(2)))
                ELSE AnyV("error")
         [] root.k = "class" -> Mk("Generic", root.id, [i \in 1..n |-> tv(i)])                \* :864 isinstance(root, type)
         [] root.k = "bare" -> Mk("Generic", OriginOf(root.id), [i \in 1..n |-> tv(i)])       \* :867 get_origin(root) is a type
         [] OTHER -> AnyV("error")                                                            \* :870 Final, ClassVar land here

\* --- route "rt": type_from_runtime(eval(e))
ImplRuntimeRoute(e) == ImplRt(PyEval(e), FALSE)
\* --- route "str": type_from_runtime("e")
ImplStringRoute(e) == ImplFwd(e, FALSE)

\* --- routes "sigrt" / "sig563": get_argspec(f).parameters[x].annotation (arg_spec.py:508) evaluates the
\* annotation found on the function object -- the object, or under PEP 563 its source text -- with
\* arg_spec.AnnotationsContext, whose get_name (arg_spec.py:188) is Context.get_name_from_globals
\* (annotations.py:176): the function's module globals first, then builtins.  (Routes rt / str use
\* _DefaultContext.get_name, annotations.py:918, with the same order; the checker's visitor resolves names
\* through its scopes.)  Names are only looked up by pyanalyze INSIDE strings; elsewhere CPython did it.
\* Ref: the meaning of a name is Python's -- module globals before builtins (typing.get_type_hints) -- which
\* is NameObj(id).  ImplSigNames(e, instr) is e with every name replaced by what that lookup finds.
RECURSIVE ImplSigNames(_, _)
ImplSigNames(e, instr) ==
    IF e.k = "name"
    THEN (IF instr /\ BugBuiltinsFirst /\ e.id \in ShadowingNames THEN Nm("builtins." \o e.id) ELSE e)
    ELSE X(e.k, e.id, [i \in 1..Len(e.args) |-> ImplSigNames(e.args[i], instr \/ e.k = "str")])
ImplSigRuntimeRoute(e) == ImplRt(PyEval(ImplSigNames(e, FALSE)), FALSE)
ImplSigStringRoute(e) == ImplFwd(ImplSigNames(e, TRUE), FALSE)

\* --- route "ast".  name_check_visitor.py:2483 value_of_annotation evaluates the expression with the
\* checker's ordinary expression visitor; every name of the vocabulary is a KnownValue and the
\* subscripts are executed (composite_from_subscript :4985-5000, check_call(allow_call=True)), so the
\* result is KnownValue(<the object CPython builds>) with two special cases:
\*   `l | r` in an annotation is typing.Union[l, r] (:3725), whatever the operands are;
\*   an index that is not a KnownValue (a starred element) makes __class_getitem__ un-executable and
\*   the visitor substitutes root[Any] (:5017).
RECURSIVE ImplVisitorEval(_)
ImplVisitorEval(e) ==
    CASE e.k = "or" -> PyMkUnion("t", <<TConv(ImplVisitorEval(e.args[1])), TConv(ImplVisitorEval(e.args[2]))>>)
      [] e.k = "sub" ->
            IF ~FixedStar /\ \E i \in 1..Len(e.args) : e.args[i].k = "star"
            THEN X("alias", CanonRoot(e.id), <<X("any", "", << >>)>>)
            ELSE PySubscript(e.id, [i \in 1..Len(e.args) |-> ImplVisitorEval(e.args[i])])
      [] e.k = "star" -> LET a == ImplVisitorEval(e.args[1])                   \* (C13-fix-3) list(alias) = [*alias]
                         IN IF a.k = "alias" THEN X("unpackedalias", a.id, a.args) ELSE RaiseObj
      [] e.k = "plist" -> X("pylist", "", [i \in 1..Len(e.args) |-> ImplVisitorEval(e.args[i])])
      [] OTHER -> PyEval(e)

\* the annotation as compute_parameters sees it (functions.py:262 ctx.value_of_annotation)
ImplAstAnnotation(e, au) == ImplRt(ImplVisitorEval(e), au)
\* reading the parameter inside the body: scopes.set(param, annotation) (name_check_visitor.py:2305) and
\* the variable's value is the union of its definitions (stacked_scopes: unite_values)
ImplAstRoute(e) == Unite(<<ImplAstAnnotation(e, FALSE)>>)

(***************************************************************************)
(* Ref: when do two Values mean the same type?  A type denotes a set of    *)
(* runtime objects; the canonical form below identifies Values that denote *)
(* the same set for reasons of notation only:                              *)
(*   - a union is the SET of its alternatives (order, nesting, repetition  *)
(*     are notation); a one-member union is that member;                   *)
(*   - Annotated[U1 | U2, m] = Annotated[U1, m] | Annotated[U2, m], nested *)
(*     Annotated merge, metadata is a set;                                 *)
(*   - where an Any came from is notation -- except that Any[error] is not *)
(*     a declared Any: it says the route did not understand the annotation.*)
(* RefCanon(v) is a set of atoms V(t, n, <<sets of atoms>>).               *)
(***************************************************************************)
RECURSIVE RefCanon(_)
RefAnnAtom(x, metas) ==
    IF x.t = "Annotated" THEN V("Annotated", "", <<x.a[1], x.a[2] \cup metas>>)
    ELSE V("Annotated", "", <<{x}, metas>>)
RefCanon(v) ==
    CASE v.t = "Union" -> UNION {RefCanon(v.a[i]) : i \in 1..Len(v.a)}
      [] v.t = "Annotated" ->
            LET metas == UNION {RefCanon(v.a[i]) : i \in 2..Len(v.a)}
            IN {RefAnnAtom(x, metas) : x \in RefCanon(v.a[1])}
      [] v.t = "Any" -> {V("Any", IF v.n = "error" THEN "error" ELSE "", << >>)}
      [] OTHER -> {V(v.t, v.n, [i \in 1..Len(v.a) |-> RefCanon(v.a[i])])}

RefSame(v, w) == v.t # "Raised" /\ w.t # "Raised" /\ RefCanon(v) = RefCanon(w)

(***************************************************************************)
(* The property on one expression, and the known deviation classes         *)
(***************************************************************************)
Valid(e) == PyEval(e).k # "raise"      \* CPython can evaluate e (needed to have a runtime object at all)

AllSame(vs) == \A i \in 1..Len(vs) : RefSame(vs[1], vs[i])
RoutesAgree(e) == AllSame(<<ImplRuntimeRoute(e), ImplStringRoute(e), ImplAstRoute(e),
                            ImplSigRuntimeRoute(e), ImplSigStringRoute(e)>>)

\* (a) a starred element inside a subscript (PEP 646 tuple[int, *tuple[str, ...]]): the string route has
\*     no visit_Starred (NotImplementedError), the runtime route drops the unpacking, the checker's own
\*     visitor cannot execute the subscript and substitutes tuple[Any]
Dev_StarInSubscript(e) == ~FixedStar /\ HasKind(e, "star")
\* (b) Final[X] / ClassVar[X] read from a string: _type_from_subscripted_value has no branch for them
Dev_FinalInString(e) == ~FixedFinalInString /\ HasSubRoot(e, {"Final", "ClassVar"})
\* (c) Literal[Literal[1], 2] read from a string: only KnownValue members are accepted
Dev_NestedLiteralInString(e) == ~FixedNestedLiteral /\ HasNestedLiteral(e)

KnownDeviation(e) == Dev_StarInSubscript(e) \/ Dev_FinalInString(e) \/ Dev_NestedLiteralInString(e)

(***************************************************************************)
(* Generator: expressions are built bottom-up in postfix order on a stack; *)
(* `nodes` counts the forms used.  Only stage = "done" states are cases.   *)
(***************************************************************************)
VARIABLES stk, nodes, stage, case
vars == <<stk, nodes, stage, case>>

Blank == Nm("int")
Init == stk = << >> /\ nodes = 0 /\ stage = "build" /\ case = Blank

\* after this step the forest can still be reduced to one tree within the node bound
Feasible(len, used) == used + (len - 1) <= MaxNodes

PushLeaf ==
    /\ stage = "build" /\ Len(stk) < MaxStack /\ Feasible(Len(stk) + 1, nodes + 1)
    /\ \E l \in Leaves : stk' = Append(stk, LeafExpr(l))
    /\ nodes' = nodes + 1 /\ UNCHANGED <<stage, case>>

ApplyUnary ==
    /\ stage = "build" /\ Len(stk) >= 1 /\ Feasible(Len(stk), nodes + 1)
    /\ \E f \in Unary :
         LET t == Build1(f, stk[Len(stk)])
         IN StrDepth(t) <= 2 /\ stk' = [stk EXCEPT ![Len(stk)] = t]
    /\ nodes' = nodes + 1 /\ UNCHANGED <<stage, case>>

ApplyBinary ==
    /\ stage = "build" /\ Len(stk) >= 2 /\ Feasible(Len(stk) - 1, nodes + 1)
    /\ \E f \in Binary :
         stk' = Append(SubSeq(stk, 1, Len(stk) - 2), Build2(f, stk[Len(stk) - 1], stk[Len(stk)]))
    /\ nodes' = nodes + 1 /\ UNCHANGED <<stage, case>>

ApplyTop ==           \* Final / ClassVar: outermost only, optionally as a string
    /\ stage = "build" /\ Len(stk) = 1 /\ nodes + 1 <= MaxNodes
    /\ \E f \in TopOnly, q \in BOOLEAN :
         LET t == Build1(f, stk[1])
             u == IF q THEN Quote(t) ELSE t
         IN StrDepth(u) <= 2 /\ case' = u
    /\ stage' = "done" /\ stk' = << >> /\ nodes' = nodes + 1

Finish ==
    /\ stage = "build" /\ Len(stk) = 1
    /\ case' = stk[1] /\ stage' = "done" /\ stk' = << >> /\ UNCHANGED nodes

Next == PushLeaf \/ ApplyUnary \/ ApplyBinary \/ ApplyTop \/ Finish

(***************************************************************************)
(* Invariants                                                              *)
(***************************************************************************)
\* C13 on the model: the routes mean the same type, outside the named deviations.  An expression CPython
\* cannot evaluate (e.g. int | "A") is still a legal annotation in a PEP 563 module, where only the string
\* route and the checker's visitor see it.
RoutesAgreeWhereDefined(e) ==
    IF Valid(e) THEN RoutesAgree(e) ELSE AllSame(<<ImplStringRoute(e), ImplAstRoute(e), ImplSigStringRoute(e)>>)
AnnotationRoutesAgree == stage = "done" => (RoutesAgreeWhereDefined(case) \/ KnownDeviation(case))
\* the strict property is violated (sensitivity / documentation of the findings)
AnnotationRoutesAgreeStrict == stage = "done" => RoutesAgreeWhereDefined(case)
\* no route raises outside deviation (a)
NoRouteRaises == (stage = "done" /\ ~Dev_StarInSubscript(case)) =>
    /\ (Valid(case) => ImplRuntimeRoute(case).t # "Raised")
    /\ ImplStringRoute(case).t # "Raised" /\ ImplAstRoute(case).t # "Raised"
=============================================================================
