------------------------------ MODULE StarPrep ------------------------------
(***************************************************************************)
(* Property C05, first mechanism: argument preprocessing of INFERRED star  *)
(* arguments (Binder.tla models it for */** literals and opaque            *)
(* list[int] / dict[str, int] only).  A case is [sig, call] with           *)
(*   call = [pos, stars, post, kws, dstars]:                               *)
(*     f(1, .., pos, *S1, *S2, 20, .., post, k=0, .., **D1, **D2)          *)
(* where each *S is an abstract tuple value and each **D an abstract dict  *)
(* value, written as the checker infers them:                              *)
(*   StarArg  [form |-> "exact", n, m |-> 0]   tuple of exactly n elements *)
(*            [form |-> "many",  n, m]         SequenceValue with an       *)
(*                          unpacked segment: n elements, *xs, m elements  *)
(*            [form |-> "union", n, m]         tuple[n ints] | tuple[m ..] *)
(*                          (n = m: same length, different element types)  *)
(*            [form |-> "list",  n |-> 0, m |-> 0]   list[int]             *)
(*   KwArg    [form |-> "pairs", pairs, alt |-> << >>]  DictIncompleteValue*)
(*                          (a dict display) with the kv pairs in source   *)
(*                          order; a display of required literal pairs     *)
(*                          only is a KnownValue dict, which               *)
(*                          replace_known_sequence_value turns into the    *)
(*                          same pairs)                                    *)
(*            [form |-> "td", pairs, alt |-> << >>]     TypedDictValue:    *)
(*                          literal keys, req = not NotRequired            *)
(*            [form |-> "union", pairs, alt]   D1 if cond() else D2, both  *)
(*                          dict literals (required literal pairs)         *)
(*   Pair     [key, req, many]:                                            *)
(*            key "a" | "b" | "z"  a literal key; req = FALSE: the pair    *)
(*                          comes from spreading a dict-or-empty union     *)
(*                          (is_required=False)                            *)
(*            key "str", many = FALSE   k: 0 with k: str (one unknown key) *)
(*            key "ab"                  k2: 0 with k2: Literal["a", "b"]   *)
(*            key "str", many = TRUE    **other with other: dict[str, int] *)
(*                                                                         *)
(* Impl* transcribes signature.py:2017 preprocess_args (step 1 :2028-2117, *)
(* step 2 :2136-2191), :2205 _preprocess_kwargs_no_mvv, :2240              *)
(* _preprocess_kwargs_kv_pairs and value.py:2943                           *)
(* concrete_values_from_iterable into the ActualArguments the binder       *)
(* (ImplLoop of Binder.tla, with the "may not be provided" branches)       *)
(* consumes.  Ref* is the set of concrete calls the source can perform:    *)
(* every combination of the opaque conditions (which optional pairs are    *)
(* present, which string an unknown key is, which keys an unknown mapping  *)
(* has, how long an unknown segment is, which member of a union a value    *)
(* is), each decided by RefBinds of CPythonBind.tla.  Every run validates  *)
(* the set of expansions and which of them bind against REALLY EXECUTING   *)
(* the same source text for every combination (StarPrepTrace.tla).         *)
(***************************************************************************)
EXTENDS Binder

CONSTANTS
    MaxStars,     \* star arguments per call
    MaxDstars,    \* ** arguments per call
    MaxPairs,     \* kv pairs in all ** arguments of a call together
    MaxStarArgs,  \* star and ** arguments per call together
    PMutant       \* "none", or a bug switched on in the Impl model (sensitivity self-tests):
                  \*   "last_pair_decides"   covered_keys is filled: the LAST pair for a literal key decides
                  \*                         whether the key is definitely provided
                  \*   "many_keeps_length"   an unpacked segment contributes no element

LitKeys == {"a", "b", "z"}
LitPair(k, r) == [key |-> k, req |-> r, many |-> FALSE]
StrPair == [key |-> "str", req |-> TRUE, many |-> FALSE]
AbPair == [key |-> "ab", req |-> TRUE, many |-> FALSE]
ManyPair == [key |-> "str", req |-> TRUE, many |-> TRUE]
AllPairs == {LitPair(k, r) : k \in LitKeys, r \in BOOLEAN} \cup {StrPair, AbPair, ManyPair}
IsLit(p) == p.key \in LitKeys

StarMenu ==
    {[form |-> "exact", n |-> n, m |-> 0] : n \in 0..2}
    \cup {[form |-> "many", n |-> n, m |-> m] : n \in 0..1, m \in 0..1}
    \cup {[form |-> "union", n |-> 1, m |-> 2], [form |-> "union", n |-> 2, m |-> 2], [form |-> "union", n |-> 0, m |-> 1]}
    \cup {[form |-> "list", n |-> 0, m |-> 0]}

KeysOf(ps) == {ps[i].key : i \in DOMAIN ps}
Distinct(ps) == \A i, j \in DOMAIN ps : i # j => ps[i].key # ps[j].key

(***************************************************************************)
(* Ref: the concrete calls the source can perform                          *)
(***************************************************************************)
\* the strings an unknown key can be / an unknown mapping can contain: every name that can matter
KeyUniverse(c) == LitKeys \cup {c.sig[i].name : i \in DOMAIN c.sig}

StarLens(s, bound) ==
    CASE s.form = "exact" -> {s.n}
      [] s.form = "many" -> {s.n + s.m + k : k \in 0..bound}
      [] s.form = "union" -> {s.n, s.m}
      [] s.form = "list" -> 0..bound

\* the key sets a dict display can evaluate to: the pairs are evaluated in order and each adds its key(s)
RECURSIVE PairsKeySets(_, _, _)
PairsKeySets(ps, U, bound) ==
    IF ps = << >> THEN {{}}
    ELSE LET p == ps[Len(ps)]
             before == PairsKeySets(SubSeq(ps, 1, Len(ps) - 1), U, bound)
         IN CASE IsLit(p) /\ p.req -> {K \cup {p.key} : K \in before}
              [] IsLit(p) /\ ~p.req -> before \cup {K \cup {p.key} : K \in before}     \* the spread dict may be empty
              [] p.key = "ab" -> {K \cup {x} : K \in before, x \in {"a", "b"}}
              [] p.key = "str" /\ ~p.many -> {K \cup {x} : K \in before, x \in U}
              [] p.key = "str" /\ p.many ->
                    {K \cup S : K \in before, S \in {T \in SUBSET U : Cardinality(T) <= bound}}

KwKeySets(d, U, bound) ==
    CASE d.form = "pairs" -> PairsKeySets(d.pairs, U, bound)
      [] d.form = "td" ->          \* a TypedDict value has every required key and any of the NotRequired ones
            {KeysOf(SelectSeq(d.pairs, LAMBDA p : p.req)) \cup O :
                O \in SUBSET KeysOf(SelectSeq(d.pairs, LAMBDA p : ~p.req))}
      [] d.form = "union" -> {KeysOf(d.pairs), KeysOf(d.alt)}

\* an expansion: one length per star argument, one key set per ** argument
RECURSIVE LenSeqs(_, _)
LenSeqs(stars, bound) ==
    IF stars = << >> THEN {<< >>}
    ELSE {Append(t, n) : t \in LenSeqs(SubSeq(stars, 1, Len(stars) - 1), bound), n \in StarLens(stars[Len(stars)], bound)}
RECURSIVE KeySeqs(_, _, _)
KeySeqs(ds, U, bound) ==
    IF ds = << >> THEN {<< >>}
    ELSE {Append(t, K) : t \in KeySeqs(SubSeq(ds, 1, Len(ds) - 1), U, bound), K \in KwKeySets(ds[Len(ds)], U, bound)}

PExpansions(c, bound) ==
    {[lens |-> l, keys |-> k] : l \in LenSeqs(c.call.stars, bound), k \in KeySeqs(c.call.dstars, KeyUniverse(c), bound)}

RECURSIVE SumSeq(_)
SumSeq(s) == IF s = << >> THEN 0 ELSE s[Len(s)] + SumSeq(SubSeq(s, 1, Len(s) - 1))
UnionSeq(s) == UNION {s[i] : i \in DOMAIN s}

\* 6.3.4: the elements of every *iterable are further positional arguments; the items of every **mapping are
\* further keyword arguments, and a key that repeats an explicit keyword or a key of another **mapping is a
\* TypeError ("got multiple values for keyword argument")
PConcrete(c, e) ==
    [npos |-> c.call.pos + SumSeq(e.lens) + c.call.post,
     kws |-> ToSet(c.call.kws) \cup UnionSeq(e.keys),
     dup |-> \/ \E i \in DOMAIN e.keys : e.keys[i] \cap ToSet(c.call.kws) # {}
             \/ \E i, j \in DOMAIN e.keys : i # j /\ e.keys[i] \cap e.keys[j] # {}]

PBinds(c, e) == RefBinds(c.sig, PConcrete(c, e))

\* "takes at least one element from every star-argument" (for those that can have one)
TakesFromEvery(c, e, bound) ==
    /\ \A i \in DOMAIN e.lens : e.lens[i] >= 1 \/ StarLens(c.call.stars[i], bound) = {0}
    /\ \A i \in DOMAIN e.keys : e.keys[i] # {} \/ KwKeySets(c.call.dstars[i], KeyUniverse(c), bound) = {{}}

PDefinite(c, bound) == Cardinality(PExpansions(c, bound)) = 1

\* what C05 demands of the verdict `accepted`
PRefConcrete(c, accepted, bound) == accepted <=> \A e \in PExpansions(c, bound) : PBinds(c, e)
PRefAcceptSound(c, accepted, bound) == accepted => \E e \in PExpansions(c, bound) : PBinds(c, e)
PRefRejectSound(c, accepted, bound) ==
    ~accepted => \A e \in PExpansions(c, bound) : TakesFromEvery(c, e, bound) => ~PBinds(c, e)
\* weaker facts used to tell the named deviation classes apart
AlwaysBinds(c, bound) == \A e \in PExpansions(c, bound) : PBinds(c, e)

(***************************************************************************)
(* Impl, step 1 for one ** argument: {argument: required?} and "extra"     *)
(*   s = [dom, req, extra]                                                 *)
(***************************************************************************)
KvStart == [dom |-> {}, req |-> {}, extra |-> FALSE]

\* _preprocess_kwargs_kv_pairs (:2240) for ONE pair; the caller iterates the pairs REVERSED (:2246)
ImplKvOne(s, p) ==
    CASE ~p.many /\ IsLit(p) ->                                   \* :2247-2257 a literal str key
            IF PMutant = "last_pair_decides" /\ p.key \in s.dom THEN s            \* (covered_keys is never filled)
            ELSE [s EXCEPT !.dom = @ \cup {p.key},                 \* out_items[key] = (is_required, value): an entry
                           !.req = IF p.req THEN @ \cup {p.key} ELSE @ \ {p.key}]   \* written for a LATER pair is overwritten
      [] p.key = "ab" ->                                           \* :2264-2287 a union of literal keys: every member
            [s EXCEPT !.dom = @ \cup {"a", "b"}, !.req = @ \ {"a", "b"}]   \* (False, value), overwriting as well
      [] OTHER -> [s EXCEPT !.extra = TRUE]                        \* :2288-2289 a non-literal key: possible_values

RECURSIVE ImplKvFold(_, _)
ImplKvFold(s, ps) ==                                               \* ps already reversed
    IF ps = << >> THEN s ELSE ImplKvFold(ImplKvOne(s, Head(ps)), Tail(ps))

ImplKvPairs(ps) == ImplKvFold(KvStart, Reverse(ps))

AllRequired(ps) == [dom |-> KeysOf(ps), req |-> KeysOf(ps), extra |-> FALSE]

\* _preprocess_kwargs_no_mvv (:2205) and the union loop of preprocess_args (:2086-2102)
ImplKwItems(d) ==
    CASE d.form = "td" ->                                          \* :2222 {key: (entry.required, entry.typ)}, no extra
            [dom |-> KeysOf(d.pairs), req |-> KeysOf(SelectSeq(d.pairs, LAMBDA p : p.req)), extra |-> FALSE]
      [] d.form = "pairs" -> ImplKvPairs(d.pairs)                   \* :2226 (a KnownValue dict via :2221)
      [] d.form = "union" ->                                        \* :2086 one result per union member, merged:
            LET x == ImplKvPairs(d.pairs)                          \*   key in both: required only if required in both
                y == ImplKvPairs(d.alt)                            \*   (:2094-2100); key in ONE member: as it is there
            IN [dom |-> x.dom \cup y.dom,                          \*   (:2101-2102)
                req |-> (x.req \cap y.req) \cup (x.req \ y.dom) \cup (y.req \ x.dom),
                extra |-> x.extra \/ y.extra]

\* concrete_values_from_iterable (value.py:2943): a sequence of separate positionals (known), or "a single Value"
ImplStarKnown(s) ==
    CASE s.form = "exact" -> TRUE                                   \* :2980-2984 members known
      [] s.form = "many" -> PMutant = "many_keeps_length"           \* :2982 get_member_sequence() is None
      [] s.form = "union" -> s.n = s.m                              \* :2977 all members of the same length: zipped
      [] s.form = "list" -> FALSE                                   \* :3004 an iterable of unknown length
ImplStarCount(s) == IF s.form = "many" THEN s.n + s.m ELSE s.n     \* only read when known

\* preprocess_args: the ActualArguments
\*   positionals: everything before the first star argument of unknown length; after it (:2143) positionals
\*   are dumped into star_args
FirstUnknown(stars) ==
    IF \E i \in DOMAIN stars : ~ImplStarKnown(stars[i])
    THEN CHOOSE i \in DOMAIN stars : ~ImplStarKnown(stars[i]) /\ \A j \in 1..(i - 1) : ImplStarKnown(stars[j])
    ELSE 0

RECURSIVE KnownBefore(_, _)
KnownBefore(stars, upto) == IF upto = 0 THEN 0 ELSE ImplStarCount(stars[upto]) + KnownBefore(stars, upto - 1)

ImplPrepActuals(call) ==
    LET fu == FirstUnknown(call.stars)
        items == [i \in DOMAIN call.dstars |-> ImplKwItems(call.dstars[i])]
        explicit == ToSet(call.kws)
        clash == \/ \E i \in DOMAIN items : items[i].dom \cap explicit # {}                \* :2164 (PossibleArg
                 \/ \E i, j \in DOMAIN items : i # j /\ items[i].dom \cap items[j].dom # {}   \* labels count too)
    IN [err |-> IF clash THEN "Pre_MultipleValues" ELSE "",
        npos |-> IF fu = 0 THEN call.pos + KnownBefore(call.stars, Len(call.stars)) + call.post
                 ELSE call.pos + KnownBefore(call.stars, fu - 1),
        star |-> fu # 0,
        kws |-> explicit \cup UNION {items[i].dom : i \in DOMAIN items},
        maybe |-> UNION {items[i].dom \ items[i].req : i \in DOMAIN items},                 \* :2106 PossibleArg(key)
        skw |-> \E i \in DOMAIN items : items[i].extra,                                     \* :2108-2115
        kwreq |-> \E i \in DOMAIN items : items[i].extra /\ items[i].dom = {}]              \* :2109 not items

ImplPrepRun(c) ==
    LET a == ImplPrepActuals(c.call)
    IN IF a.err # "" THEN [BindStart EXCEPT !.verdict = "err", !.why = a.err]
       ELSE ImplLoop(c.sig, a, BindStart)

ImplPrepAccepted(c) == ImplPrepRun(c).verdict = "ok"

(***************************************************************************)
(* Named deviations of the unchanged tree on this route.  Each is a        *)
(* predicate on the case and the verdict; the trace spec excuses a real    *)
(* observation only if its verdict is the one ImplPrepRun predicts.        *)
(***************************************************************************)
\* key "required-key-shadowed-by-earlier-optional-pair": _preprocess_kwargs_kv_pairs lets the EARLIEST pair for
\* a key decide whether the key is definitely provided (later entries are overwritten), although a key is
\* certainly present as soon as ANY pair for it is required: {**opt, "a": 1} is "a may not be provided"
ShadowedKeysIn(ps) ==
    {k \in LitKeys : \E i, j \in DOMAIN ps :
        /\ i < j /\ IsLit(ps[j]) /\ ps[j].req /\ ps[j].key = k
        /\ \/ (IsLit(ps[i]) /\ ~ps[i].req /\ ps[i].key = k)
           \/ (ps[i].key = "ab" /\ k \in {"a", "b"})}
ShadowedKeys(c) ==
    UNION {ShadowedKeysIn(c.call.dstars[d].pairs) : d \in {x \in DOMAIN c.call.dstars : c.call.dstars[x].form = "pairs"}}
Dev_RequiredKeyShadowed(c) == ShadowedKeys(c) # {}
\* the rejection a run `r` of the Impl model ends in IS this class: "may not be provided" for a shadowed key
ShadowRejection(c, r) ==
    /\ r.verdict = "err" /\ r.why \in {"PK_MaybeMissing", "KO_MaybeMissing"}
    /\ r.idx \in DOMAIN c.sig /\ c.sig[r.idx].name \in ShadowedKeys(c)

\* key "possibly-present-key-treated-pessimistically" (deliberate strictness, recorded): a key that is present in
\* some expansions only is treated as missing where a parameter needs it ("may not be provided") AND as present
\* where it is surplus / repeated -- so a call is rejected although the expansion that takes every element binds,
\* because ANOTHER expansion does not
OptionalLiteral(d) ==
    \/ d.form = "union"
    \/ \E i \in DOMAIN d.pairs : (IsLit(d.pairs[i]) /\ ~d.pairs[i].req) \/ d.pairs[i].key = "ab"
HasPossibleKeys(c) == \E i \in DOMAIN c.call.dstars : OptionalLiteral(c.call.dstars[i])
Dev_PossibleKeyPessimism(c, bound) == HasPossibleKeys(c) /\ ~AlwaysBinds(c, bound)

\* key "star-length-bounds-lost": a tuple with an unpacked segment, or a union of tuples of different lengths,
\* becomes a star argument of ANY length (concrete_values_from_iterable returns a single Value), so a call is
\* accepted although every possible length is too short or too long
\* (and likewise a dict display with ONE non-literal key, {k: 0}, becomes a mapping with any number of keys)
BoundedStar(s) == s.form = "many" \/ (s.form = "union" /\ s.n # s.m)
SingleUnknownKey(d) == \E i \in DOMAIN d.pairs : d.pairs[i].key = "str" /\ ~d.pairs[i].many
\* (and positional arguments AFTER a star argument of unknown length are united into it, signature.py:2143)
Dev_StarLengthBoundsLost(c) ==
    \/ \E i \in DOMAIN c.call.stars : BoundedStar(c.call.stars[i])
    \/ \E i, j \in DOMAIN c.call.stars : i < j /\ c.call.stars[i].form = "list" /\ c.call.stars[j].form # "list"
    \/ (c.call.post > 0 /\ \E i \in DOMAIN c.call.stars : c.call.stars[i].form = "list")
    \/ \E i \in DOMAIN c.call.dstars : SingleUnknownKey(c.call.dstars[i])

\* key "union-member-key-counted-as-provided": the union loop of preprocess_args (:2101-2102) takes a key that only
\* ONE member of a union of dicts has with that member's flag -- definitely provided --, so the keys of all members
\* count as present together: f(**({"a": 0} if c else {"b": 0})) is accepted for def f(*, a, b)
Dev_UnionKeysMerged(c) ==
    \E i \in DOMAIN c.call.dstars : c.call.dstars[i].form = "union"

\* the two classes of Binder.tla in this vocabulary
PUnknownStar(c) == ImplPrepActuals(c.call).star
PUnknownDstar(c) == ImplPrepActuals(c.call).skw
Dev_PStarArgsThenKeyword(c) ==
    /\ PUnknownStar(c)
    /\ \E i \in DOMAIN c.sig : c.sig[i].kind = "pk" /\ c.sig[i].name \in ImplPrepActuals(c.call).kws
Dev_PKeywordHidden(c) ==
    /\ PUnknownDstar(c) /\ ~Has(c.sig, "vk")
    /\ \E k \in ImplPrepActuals(c.call).kws : \A i \in DOMAIN c.sig : c.sig[i].kind \in {"pk", "ko"} => c.sig[i].name # k

(***************************************************************************)
(* The machine                                                             *)
(***************************************************************************)
PBlank == [sig |-> << >>, call |-> [pos |-> 0, stars |-> << >>, post |-> 0, kws |-> << >>, dstars |-> << >>]]

PInit == case = PBlank /\ stage = "params" /\ act = NoActuals /\ st = BindStart /\ br = ""

\* AddParam / EndParams of Binder.tla build the signature (stage "params" -> "positional")
PChoosePositional ==
    /\ stage = "positional"
    /\ \E np \in 0..MaxPos : case' = [case EXCEPT !.call.pos = np]
    /\ stage' = "stars" /\ UNCHANGED <<act, st, br>>

AddStar ==
    /\ stage = "stars" /\ Len(case.call.stars) < MaxStars /\ Len(case.call.stars) < MaxStarArgs
    /\ \E s \in StarMenu : case' = [case EXCEPT !.call.stars = Append(@, s)]
    /\ UNCHANGED <<stage, act, st, br>>

EndStars ==
    /\ stage = "stars"
    /\ \E q \in 0..MaxPost : (case.call.stars = << >> => q = 0) /\ case' = [case EXCEPT !.call.post = q]
    /\ stage' = "keywords" /\ UNCHANGED <<act, st, br>>

PChooseKeywords ==
    /\ stage = "keywords"
    /\ \E K \in SUBSET NameUniverse(case.sig) :
         /\ Cardinality(K) <= MaxKw
         /\ case' = [case EXCEPT !.call.kws = NameSeq(K)]
    /\ stage' = "dstars" /\ UNCHANGED <<act, st, br>>

TotalPairs(ds) == SumSeq([i \in DOMAIN ds |-> Len(ds[i].pairs) + Len(ds[i].alt)])
RoomForDstar == Len(case.call.dstars) < MaxDstars /\ Len(case.call.stars) + Len(case.call.dstars) < MaxStarArgs
LastD == case.call.dstars[Len(case.call.dstars)]

NewDstar ==
    /\ stage = "dstars" /\ RoomForDstar
    /\ \/ case' = [case EXCEPT !.call.dstars = Append(@, [form |-> "pairs", pairs |-> << >>, alt |-> << >>])]
       \/ /\ TotalPairs(case.call.dstars) < MaxPairs
          /\ \E f \in {"td", "union"}, k \in LitKeys, r \in BOOLEAN :
               /\ (f = "union" => r)
               /\ case' = [case EXCEPT !.call.dstars = Append(@, [form |-> f, pairs |-> << LitPair(k, r) >>, alt |-> << >>])]
    /\ UNCHANGED <<stage, act, st, br>>

AddPair ==
    /\ stage = "dstars" /\ case.call.dstars # << >> /\ TotalPairs(case.call.dstars) < MaxPairs /\ LastD.alt = << >>
    /\ \E p \in AllPairs :
         /\ (LastD.form = "td" => IsLit(p) /\ p.key \notin KeysOf(LastD.pairs))
         /\ (LastD.form = "union" => IsLit(p) /\ p.req /\ p.key \notin KeysOf(LastD.pairs))
         /\ case' = [case EXCEPT !.call.dstars[Len(case.call.dstars)].pairs = Append(@, p)]
    /\ UNCHANGED <<stage, act, st, br>>

AddAlt ==
    /\ stage = "dstars" /\ case.call.dstars # << >> /\ TotalPairs(case.call.dstars) < MaxPairs /\ LastD.form = "union"
    /\ \E k \in LitKeys :
         /\ k \notin KeysOf(LastD.alt)
         /\ case' = [case EXCEPT !.call.dstars[Len(case.call.dstars)].alt = Append(@, LitPair(k, TRUE))]
    /\ UNCHANGED <<stage, act, st, br>>

\* a union of two equal dicts is not a union
DstarsOk(ds) == \A i \in DOMAIN ds : ds[i].form = "union" => KeysOf(ds[i].pairs) # KeysOf(ds[i].alt)

EndDstars ==
    /\ stage = "dstars" /\ DstarsOk(case.call.dstars)
    /\ stage' = "prep" /\ UNCHANGED <<case, act, st, br>>

\* preprocess_args + bind_arguments; one action per way the call ends, so that coverage shows each occurs
Ends(w) ==
    /\ stage = "prep"
    /\ act' = ImplPrepActuals(case.call)
    /\ st' = ImplPrepRun(case)
    /\ br' = st'.why
    /\ (IF w = "Other" THEN st'.why \notin {"Finish_Ok", "Pre_MultipleValues", "PK_MaybeMissing", "KO_MaybeMissing",
                                            "PK_StarAndKeyword", "Finish_ExtraKeywords"}
        ELSE st'.why = w)
    /\ stage' = "done" /\ UNCHANGED case

Ends_Ok == stage = "prep" /\ Ends("Finish_Ok")
Ends_MultipleValues == stage = "prep" /\ Ends("Pre_MultipleValues")
Ends_PosOrKwMaybeMissing == stage = "prep" /\ Ends("PK_MaybeMissing")
Ends_KwOnlyMaybeMissing == stage = "prep" /\ Ends("KO_MaybeMissing")
Ends_StarAndKeyword == stage = "prep" /\ Ends("PK_StarAndKeyword")
Ends_ExtraKeywords == stage = "prep" /\ Ends("Finish_ExtraKeywords")
Ends_OtherError == stage = "prep" /\ Ends("Other")

PNext ==
    \/ AddParam \/ EndParams \/ PChoosePositional \/ AddStar \/ EndStars \/ PChooseKeywords
    \/ NewDstar \/ AddPair \/ AddAlt \/ EndDstars
    \/ Ends_Ok \/ Ends_MultipleValues \/ Ends_PosOrKwMaybeMissing \/ Ends_KwOnlyMaybeMissing
    \/ Ends_StarAndKeyword \/ Ends_ExtraKeywords \/ Ends_OtherError

(***************************************************************************)
(* Properties                                                              *)
(***************************************************************************)
PDone == stage = "done"

\* a single concrete call: reported <=> CPython raises
ShadowRejected == ~Accepted /\ ShadowRejection(case, st)
PrepConcrete == (PDone /\ PDefinite(case, MaxExp)) => (PRefConcrete(case, Accepted, MaxExp) \/ ShadowRejected)
PrepConcreteStrict == (PDone /\ PDefinite(case, MaxExp)) => PRefConcrete(case, Accepted, MaxExp)

PrepAcceptSound ==
    (PDone /\ ~PDefinite(case, MaxExp))
        => \/ PRefAcceptSound(case, Accepted, MaxExp)
           \/ Dev_StarLengthBoundsLost(case) \/ Dev_PKeywordHidden(case) \/ Dev_UnionKeysMerged(case)
PrepAcceptSoundStrict == (PDone /\ ~PDefinite(case, MaxExp)) => PRefAcceptSound(case, Accepted, MaxExp)

PrepRejectSound ==
    (PDone /\ ~PDefinite(case, MaxExp))
        => \/ PRefRejectSound(case, Accepted, MaxExp)
           \/ ShadowRejected
           \/ Dev_PossibleKeyPessimism(case, MaxExp)
           \/ Dev_PStarArgsThenKeyword(case)
PrepRejectSoundStrict == (PDone /\ ~PDefinite(case, MaxExp)) => PRefRejectSound(case, Accepted, MaxExp)

\* the point of the seeded family: outside the shadowed-key class, a call that EVERY expansion binds is accepted
\* unless an unknown-length star argument meets a keyword (Binder.tla's class)
AlwaysBindingAccepted ==
    (PDone /\ AlwaysBinds(case, MaxExp) /\ ~Dev_RequiredKeyShadowed(case) /\ ~Dev_PStarArgsThenKeyword(case)) => Accepted
=============================================================================
