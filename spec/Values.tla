------------------------------- MODULE Values -------------------------------
(***************************************************************************)
(* The shared universe of runtime objects and type terms, and the          *)
(* ground-truth membership relation Member(o, T) that every soundness      *)
(* property (C01-C04, C06, C14) is stated against.                         *)
(*                                                                         *)
(* Nothing in this module refers to pyanalyze's algorithms: Member is the  *)
(* structural meaning of a static type (typing spec): nominal membership   *)
(* through the class hierarchy plus the numeric promotions int -> float -> *)
(* complex, literal identity *with type* (True is not 1), element-wise     *)
(* containers, fixed and variadic tuple shapes, type[...], unions.         *)
(*                                                                         *)
(* Runtime objects:  [c |-> class, v |-> payload, items |-> <<objects>>]   *)
(*   scalars have items = <<>>; a class object is [c |-> "type", v |-> C]; *)
(*   a dict has items = << [key |-> k, val |-> v], ... >>.                 *)
(* Type terms (mirror pyanalyze/value.py):                                 *)
(*   [k |-> "any", src |-> source]          AnyValue                       *)
(*   [k |-> "known", o |-> obj]             KnownValue / Literal           *)
(*   [k |-> "typed", c |-> cls]             TypedValue                     *)
(*   [k |-> "newtype", n |-> name, c |-> cls]  NewTypeValue                *)
(*   [k |-> "generic", c |-> cls, args |-> <<T..>>]  GenericValue          *)
(*         (generic tuple with one argument = tuple[T, ...])               *)
(*   [k |-> "seq", c |-> "tuple"|"list", ms |-> <<[many, t]..>>]  SequenceValue *)
(*   [k |-> "subclass", t |-> T]            SubclassValue / type[T]        *)
(*   [k |-> "union", ms |-> <<T..>>]        MultiValuedValue; Never = <<>> *)
(*   [k |-> "typeddict", c |-> "dict", items |-> <<[key, req, ro, t]..>>]  *)
(*         TypedDictValue (open: no extra_keys); req / ro = Required /     *)
(*         ReadOnly                                                        *)
(***************************************************************************)
EXTENDS Naturals, Sequences, FiniteSets, TLC

(***************************************************************************)
(* Classes.  Supers(c) = strict nominal superclasses as Python's           *)
(* issubclass reports them (including ABC registrations); the harness      *)
(* self-test compares this table with the real classes.                    *)
(***************************************************************************)
Classes == {"object", "int", "bool", "float", "complex", "str", "NoneType", "list", "tuple", "dict",
            "set", "type", "A", "B", "Color", "Sequence", "Iterable", "Mapping"}

Supers(c) ==
    CASE c = "object"   -> {}
      [] c = "int"      -> {"object"}
      [] c = "bool"     -> {"int", "object"}
      [] c = "float"    -> {"object"}
      [] c = "complex"  -> {"object"}
      [] c = "str"      -> {"Sequence", "Iterable", "object"}
      [] c = "NoneType" -> {"object"}
      [] c = "list"     -> {"Sequence", "Iterable", "object"}
      [] c = "tuple"    -> {"Sequence", "Iterable", "object"}
      [] c = "dict"     -> {"Mapping", "Iterable", "object"}
      [] c = "set"      -> {"Iterable", "object"}
      [] c = "type"     -> {"object"}
      [] c = "A"        -> {"object"}
      [] c = "B"        -> {"A", "object"}
      [] c = "Color"    -> {"object"}
      [] c = "Sequence" -> {"Iterable", "object"}
      [] c = "Iterable" -> {"object"}
      [] c = "Mapping"  -> {"Iterable", "object"}

IsSubclass(c, d) == c = d \/ d \in Supers(c)

\* PEP 484 numeric tower: an int is acceptable where float/complex is expected, a float where complex is
Promotes(c, d) ==
    \/ IsSubclass(c, "int") /\ d \in {"float", "complex"}
    \/ IsSubclass(c, "float") /\ d = "complex"

(***************************************************************************)
(* Objects                                                                 *)
(***************************************************************************)
Obj(c, v) == [c |-> c, v |-> v, items |-> << >>]
Cont(c, items) == [c |-> c, v |-> "", items |-> items]
ClassObj(cls) == [c |-> "type", v |-> cls, items |-> << >>]
KV(kk, vv) == [key |-> kk, val |-> vv]

I0 == Obj("int", "0")      I1 == Obj("int", "1")
BT == Obj("bool", "True")  BF == Obj("bool", "False")
F15 == Obj("float", "1.5") SA == Obj("str", "a")  SE == Obj("str", "")
FLT1 == Obj("float", "1.0")
NONE == Obj("NoneType", "None")
RED == Obj("Color", "RED") GREEN == Obj("Color", "GREEN")
OA == Obj("A", "a")        OB == Obj("B", "b")

ScalarObjs == {I0, I1, BT, BF, F15, FLT1, SA, SE, NONE, RED, GREEN, OA, OB}
ClassObjs == {ClassObj(c) : c \in {"int", "bool", "str", "A", "B", "object"}}
ContainerObjs ==
    {Cont("list", << >>), Cont("list", <<I1>>), Cont("list", <<SA>>), Cont("list", <<I1, SA>>), Cont("list", <<BT>>),
     Cont("tuple", << >>), Cont("tuple", <<I1>>), Cont("tuple", <<SA>>), Cont("tuple", <<I1, SA>>),
     Cont("tuple", <<I1, I0>>), Cont("tuple", <<BT, SA>>), Cont("tuple", <<NONE>>), Cont("tuple", <<I1, SA, SA>>),
     Cont("set", << >>), Cont("set", <<I1>>), Cont("set", <<SA>>),
     Cont("dict", << >>), Cont("dict", <<KV(SA, I1)>>), Cont("dict", <<KV(I1, SA)>>),
     Cont("dict", <<KV(SA, I1), KV(SE, BT)>>),
     Cont("list", <<Cont("list", <<I1>>)>>), Cont("tuple", <<Cont("list", <<SA>>), I1>>),
     \* sibling elements that compare equal in Python although their types differ (1 == 1.0 == True)
     Cont("list", <<Cont("tuple", <<I1>>), Cont("tuple", <<FLT1>>)>>), Cont("list", <<Cont("tuple", <<FLT1>>), Cont("tuple", <<I1>>)>>),
     Cont("list", <<Cont("list", <<I1>>), Cont("list", <<FLT1>>)>>), Cont("list", <<Cont("list", <<BT>>), Cont("list", <<I1>>)>>),
     Cont("dict", <<KV(SA, Cont("list", <<BT>>)), KV(SE, Cont("list", <<I1>>))>>), Cont("tuple", <<I1, FLT1>>)}
Objects == ScalarObjs \cup ClassObjs \cup ContainerObjs

StrObjs == {o \in ScalarObjs : o.c = "str"}

\* dicts with the string keys "a" / "b" (objects for the TypedDict terms; used by Assign.tla only)
SB == Obj("str", "b")
TDObjs == {Cont("dict", <<KV(SA, NONE)>>), Cont("dict", <<KV(SA, SA)>>), Cont("dict", <<KV(SB, SA)>>),
           Cont("dict", <<KV(SA, I1), KV(SB, SA)>>), Cont("dict", <<KV(SA, I1), KV(SB, NONE)>>),
           Cont("dict", <<KV(SA, NONE), KV(SB, SA)>>), Cont("dict", <<KV(SA, BT), KV(SB, SA)>>)}

IsInstance(o, c) == IsSubclass(o.c, c)

\* Python's == on the objects of the universe: numbers compare by value across int / bool / float, containers
\* element-wise, everything else by class and payload
NumericClasses == {"int", "bool", "float"}
KVNumKey(o) == CASE o.v \in {"1", "True", "1.0"} -> "1"
               [] o.v \in {"0", "False"} -> "0"
               [] OTHER -> o.v
RECURSIVE KVLooseEq(_, _)
KVLooseEq(a, b) ==
    IF a.c \in NumericClasses /\ b.c \in NumericClasses THEN KVNumKey(a) = KVNumKey(b)
    ELSE /\ a.c = b.c /\ a.v = b.v /\ Len(a.items) = Len(b.items)
         /\ \A i \in 1..Len(a.items) :
               IF a.c = "dict" THEN KVLooseEq(a.items[i].key, b.items[i].key) /\ KVLooseEq(a.items[i].val, b.items[i].val)
               ELSE KVLooseEq(a.items[i], b.items[i])
\* KnownValue equality (value.py:622): same outer type and == on the values
KVEq(a, b) == a.c = b.c /\ KVLooseEq(a, b)

\* elements an object yields when iterated (None = not iterable handled by caller)
RECURSIVE SeqToSet(_)
SeqToSet(s) == IF s = << >> THEN {} ELSE {Head(s)} \cup SeqToSet(Tail(s))
DictKeys(o) == {o.items[i].key : i \in 1..Len(o.items)}
DictVals(o) == {o.items[i].val : i \in 1..Len(o.items)}

(***************************************************************************)
(* Type terms                                                              *)
(***************************************************************************)
AnyT == [k |-> "any", src |-> "explicit"]
AnyU == [k |-> "any", src |-> "unreachable"]        \* AnySource.unreachable (element type of an empty display)
AnyG == [k |-> "any", src |-> "generic_argument"]   \* missing generic argument of a bare generic class
Known(o) == [k |-> "known", o |-> o]
Typed(c) == [k |-> "typed", c |-> c]
NewType(n, c) == [k |-> "newtype", n |-> n, c |-> c]
Generic(c, args) == [k |-> "generic", c |-> c, args |-> args]
SeqT(c, ms) == [k |-> "seq", c |-> c, ms |-> ms]
One(t) == [many |-> FALSE, t |-> t]
Many(t) == [many |-> TRUE, t |-> t]
SubclassT(t) == [k |-> "subclass", t |-> t]
Union(ms) == [k |-> "union", ms |-> ms]
Never == Union(<< >>)
TD(items) == [k |-> "typeddict", c |-> "dict", items |-> items]
EntX(key, req, ro, t) == [key |-> key, req |-> req, ro |-> ro, t |-> t]
Ent(key, req, t) == EntX(key, req, FALSE, t)
\* DictIncompleteValue: [k |-> "dictinc", c |-> "dict", kvs |-> <<[key, val, many, req]..>>] (KVPair: is_many, is_required)
DictInc(kvs) == [k |-> "dictinc", c |-> "dict", kvs |-> kvs]
Pair(key, val, many, req) == [key |-> key, val |-> val, many |-> many, req |-> req]

(***************************************************************************)
(* Member(o, T)                                                            *)
(***************************************************************************)
RECURSIVE Member(_, _), MatchShape(_, _, _), AllMembers(_, _), ClassWithin(_, _)

\* items[i..] matches the member pattern ms[j..] (fixed entries consume one element, unpacked
\* entries any number)
MatchShape(items, ms, T) ==      \* T unused placeholder keeps arity uniform for RECURSIVE
    IF ms = << >> THEN items = << >>
    ELSE IF ~Head(ms).many
         THEN items # << >> /\ Member(Head(items), Head(ms).t) /\ MatchShape(Tail(items), Tail(ms), T)
         ELSE \/ MatchShape(items, Tail(ms), T)
              \/ items # << >> /\ Member(Head(items), Head(ms).t) /\ MatchShape(Tail(items), ms, T)

AllMembers(S, T) == \A x \in S : Member(x, T)

\* every instance of class cls belongs to T (the meaning of "cls is in type[T]")
ClassWithin(cls, T) ==
    CASE T.k = "any"   -> TRUE
      [] T.k = "typed" -> IsSubclass(cls, T.c)
      [] T.k = "union" -> \E i \in 1..Len(T.ms) : ClassWithin(cls, T.ms[i])
      [] OTHER         -> FALSE

Member(o, T) ==
    CASE T.k = "any"     -> TRUE
      [] T.k = "known"   -> o = T.o
      [] T.k = "typed"   -> IsInstance(o, T.c) \/ Promotes(o.c, T.c)
      [] T.k = "newtype" -> o.c = T.c          \* runtime representation: exactly the supertype
      [] T.k = "generic" ->
            IF Len(T.args) = 1
            THEN /\ IsInstance(o, T.c)
                 /\ CASE o.c \in {"list", "tuple", "set"} -> AllMembers(SeqToSet(o.items), T.args[1])
                      [] o.c = "dict" -> AllMembers(DictKeys(o), T.args[1])
                      [] o.c = "str"  -> AllMembers(StrObjs, T.args[1])     \* str is declared Sequence[str]
                      [] OTHER -> FALSE
            ELSE /\ IsInstance(o, T.c) /\ o.c = "dict"
                 /\ AllMembers(DictKeys(o), T.args[1]) /\ AllMembers(DictVals(o), T.args[2])
      [] T.k = "seq"     -> IsInstance(o, T.c) /\ o.c \in {"list", "tuple", "set"} /\ MatchShape(o.items, T.ms, T)
      [] T.k = "subclass" -> o.c = "type" /\ ClassWithin(o.v, T.t)
      [] T.k = "union"   -> \E i \in 1..Len(T.ms) : Member(o, T.ms[i])
      \* an (open) TypedDict: a dict with string keys in which every declared key that is present holds a member of
      \* the declared type and every required key is present; undeclared keys may hold anything
      [] T.k = "typeddict" ->
            /\ o.c = "dict" /\ \A kk \in DictKeys(o) : kk.c = "str"
            /\ \A i \in 1..Len(T.items) :
                  LET e == T.items[i]
                      hits == {j \in 1..Len(o.items) : o.items[j].key.c = "str" /\ o.items[j].key.v = e.key}
                  IN IF hits = {} THEN ~e.req ELSE \A j \in hits : Member(o.items[j].val, e.t)

Members(T) == {o \in Objects : Member(o, T)}

(***************************************************************************)
(* Bounded sets of type terms (enumerated in two or three generator steps) *)
(***************************************************************************)
TypedAtoms == {Typed(c) : c \in Classes}
KnownAtoms == {Known(o) : o \in ScalarObjs \cup {ClassObj("int"), ClassObj("A"), ClassObj("B"),
                                                  Cont("list", <<I1>>), Cont("tuple", <<I1, SA>>), Cont("tuple", << >>),
                                                  Cont("dict", <<KV(SA, I1)>>)}}
Small == {Typed("int"), Typed("str"), Typed("bool"), Typed("float"), Typed("object"), Typed("A"), Typed("B"),
          Known(NONE), Known(I1), Known(SA)}
Tiny == {Typed("int"), Typed("str"), Typed("bool"), Known(I1), Known(NONE)}

GenericTerms ==
    {Generic(c, <<s>>) : c \in {"list", "set", "Sequence", "Iterable", "tuple"}, s \in Small}
    \cup {Generic(d, <<kk, vv>>) : d \in {"dict", "Mapping"}, kk \in {Typed("str"), Typed("int")},
                                   vv \in {Typed("int"), Typed("str"), Typed("bool"), Typed("object"), Known(I1)}}
SeqTerms ==
    {SeqT("tuple", << >>), SeqT("list", << >>)}
    \cup {SeqT(c, <<[many |-> m, t |-> s]>>) : c \in {"tuple", "list"}, m \in BOOLEAN, s \in Tiny}
    \cup {SeqT("tuple", <<[many |-> m1, t |-> s1], [many |-> m2, t |-> s2]>>) :
             m1 \in BOOLEAN, m2 \in BOOLEAN, s1 \in Tiny, s2 \in Tiny}
SubclassTerms == {SubclassT(Typed(c)) : c \in {"int", "bool", "str", "A", "B", "object"}}
UnionTerms == {Union(<<a, b>>) : a \in Small, b \in Small} \ {Union(<<a, a>>) : a \in Small}

\* a literal union with more than ten members (MultiValuedValue switches to a set-based fast path at 10 members)
BigLiteral == Union(<<Known(I0), Known(I1), Known(BT), Known(BF), Known(F15), Known(SA), Known(SE), Known(NONE), Known(RED),
                      Known(GREEN), Known(Obj("int", "2")), Known(Obj("str", "ab"))>>)
D1Static == TypedAtoms \cup KnownAtoms \cup GenericTerms \cup SeqTerms \cup SubclassTerms \cup UnionTerms
            \cup {NewType("N", "int"), Never, BigLiteral}
D1 == D1Static \cup {AnyT}

\* TypedDict terms over the keys a (int or Optional[int]; required or not; read-only or not) and b (absent, required
\* str, non-required str)
OptInt == Union(<<Typed("int"), Known(NONE)>>)
TDTerms == {TD(<<EntX("a", r, ro, ty)>> \o bs) : r \in BOOLEAN, ro \in BOOLEAN, ty \in {Typed("int"), OptInt},
                                                 bs \in {<< >>, <<Ent("b", TRUE, Typed("str"))>>, <<Ent("b", FALSE, Typed("str"))>>}}

\* depth-2 terms: containers/unions over depth-1 composites (used by simulation / thorough runs)
Mid == {Generic("list", <<Typed("int")>>), Generic("tuple", <<Typed("str")>>), Generic("tuple", <<Typed("int")>>),
        SeqT("tuple", <<One(Typed("int"))>>), Generic("list", <<Typed("bool")>>), SeqT("tuple", <<One(Typed("int")), One(Typed("str"))>>),
        Union(<<Typed("int"), Known(NONE)>>), Union(<<Typed("int"), Typed("str")>>), SubclassT(Typed("A")),
        Generic("dict", <<Typed("str"), Typed("int")>>), Typed("int"), Known(I1), Typed("B")}
D2Static ==
    {Generic(c, <<s>>) : c \in {"list", "Sequence", "Iterable", "tuple"}, s \in Mid}
    \cup {SeqT("tuple", <<[many |-> m, t |-> s]>>) : m \in BOOLEAN, s \in Mid}
    \cup {SeqT("tuple", <<One(s1), One(s2)>>) : s1 \in Mid, s2 \in Mid}
    \cup {Union(<<a, b>>) : a \in Mid, b \in Mid}
    \cup {Generic("dict", <<Typed("str"), s>>) : s \in Mid}

(***************************************************************************)
(* Wide term space for the totality checks (C12).  Add-only: nothing below *)
(* is part of D1 / D2 / TDTerms, Member is not defined on these terms (they *)
(* are inputs of "returns instead of raising", not of a soundness claim).  *)
(*   [k |-> "known", o |-> [c |-> "odd", v |-> name]]   KnownValue of an   *)
(*        odd object (function, module, class, unhashable object, objects   *)
(*        whose __eq__ / __hash__ / __bool__ raise, ...; harness/universe   *)
(*        ODD gives the real objects)                                       *)
(*   [k |-> "tvar", n, bound |-> << >> | <<T>>, cons |-> <<T..>>]           *)
(*        TypeVarValue with bound / constraints; n = "PSPEC" is a ParamSpec,*)
(*        n = "TVT" a TypeVarTuple                                          *)
(*   [k |-> "callable", ps |-> <<[n, kind, t |-> << >> | <<T>>, d]..>>,    *)
(*        ret |-> T]    CallableValue(Signature); kind in pos / pk / kw /   *)
(*        var / varkw / pspec / ellipsis; d = has a default                 *)
(*   [k |-> "annotated", t |-> T, md |-> <<[x |-> ext kind, t |-> T]..>>]   *)
(*        AnnotatedValue; x = "value" is plain metadata, the other kinds    *)
(*        are pyanalyze Extension objects                                   *)
(*   [k |-> "unpacked", t |-> T]  UnpackedValue; [k |-> "psargs"] /         *)
(*   [k |-> "pskwargs"]  P.args / P.kwargs; [k |-> "special", n |-> name]   *)
(*        remaining Value classes (void, uninitialized, synthetic module /  *)
(*        stub-only types, unbound method, variable name, async task,       *)
(*        KnownValueWithTypeVars)                                           *)
(***************************************************************************)
OddObj(n) == [c |-> "odd", v |-> n, items |-> << >>]
\* callables: bound methods of a class whose methods have odd parameter lists (no parameters, keyword-only first, **kwargs
\* only, *args only, annotated self), class / static methods, builtin bound methods, partial objects, an overloaded
\* function, callable instances and classes, descriptors
OddCallables == {"bm_plain", "bm_noparams", "bm_kwonly", "bm_kwargs", "bm_varargs", "bm_selfann", "bm_defaults", "bm_classmethod",
                 "fn_static", "fn_unbound", "fn_unbound_noparams", "bm_builtin", "bm_strjoin", "partial", "partial_bm", "overloaded",
                 "callable_obj", "callable_cls", "builtin_cls", "method_descriptor", "wrapper_descriptor", "bm_dunder"}
OddNames == {"function", "lambda", "builtin", "method", "module", "class", "genericalias", "unhashable", "eqraises",
             "hashraises", "hashraises_rt", "boolraises", "eqodd", "nan", "ellipsis", "notimplemented", "bytearray",
             "slice", "frozenset", "range"} \cup OddCallables
OddKnown == {Known(OddObj(n)) : n \in OddNames}
TVar(n, bound, cons) == [k |-> "tvar", n |-> n, bound |-> bound, cons |-> cons]
SigParam(n, kind, t, d) == [n |-> n, kind |-> kind, t |-> t, d |-> d]
CallableT(ps, ret) == [k |-> "callable", ps |-> ps, ret |-> ret]
AnnotatedT(t, md) == [k |-> "annotated", t |-> t, md |-> md]
ExtT(x, t) == [x |-> x, t |-> t]
UnpackedT(t) == [k |-> "unpacked", t |-> t]
PSArgs == [k |-> "psargs"]
PSKwargs == [k |-> "pskwargs"]
SpecialT(n) == [k |-> "special", n |-> n]

TV_T == TVar("T", << >>, << >>)
TV_B == TVar("TB", <<Typed("int")>>, << >>)
TV_C == TVar("TC", << >>, <<Typed("int"), Typed("str")>>)
TV_P == TVar("PSPEC", << >>, << >>)
TV_Ts == TVar("TVT", << >>, << >>)
TVarTerms == {TV_T, TV_B, TV_C, TV_P, TV_Ts}

CallableTerms ==
    {CallableT(<< >>, Typed("int")),
     CallableT(<<SigParam("x", "pos", <<Typed("int")>>, FALSE)>>, Typed("int")),
     CallableT(<<SigParam("x", "pk", <<Typed("int")>>, TRUE), SigParam("a", "var", <<Typed("str")>>, FALSE),
                 SigParam("k", "kw", <<Typed("int")>>, FALSE), SigParam("kw", "varkw", <<AnyT>>, FALSE)>>, Typed("str")),
     CallableT(<<SigParam("x", "pk", << >>, FALSE), SigParam("y", "kw", << >>, TRUE)>>, AnyT),
     CallableT(<<SigParam("e", "ellipsis", << >>, FALSE)>>, AnyT),
     CallableT(<<SigParam("p", "pspec", <<TV_P>>, FALSE)>>, TV_T),
     CallableT(<<SigParam("x", "pk", <<TV_T>>, FALSE)>>, TV_T),
     CallableT(<<SigParam("x", "pos", <<TV_B>>, FALSE), SigParam("y", "pos", <<TV_C>>, TRUE)>>, Generic("list", <<TV_B>>)),
     CallableT(<<SigParam("a", "var", <<TV_Ts>>, FALSE)>>, AnyT),
     CallableT(<<SigParam("a", "var", <<PSArgs>>, FALSE), SigParam("k", "varkw", <<PSKwargs>>, FALSE)>>, AnyT),
     CallableT(<<SigParam("f", "pos", <<CallableT(<<SigParam("x", "pos", <<Typed("int")>>, FALSE)>>, Typed("str"))>>, FALSE)>>,
               CallableT(<< >>, Known(NONE)))}

AnnotatedTerms ==
    {AnnotatedT(Typed("int"), <<ExtT("value", Known(I1))>>), AnnotatedT(Typed("int"), <<ExtT("literalonly", AnyT)>>),
     AnnotatedT(AnyT, <<ExtT("noany", AnyT)>>), AnnotatedT(Typed("A"), <<ExtT("hasattr", Typed("int"))>>),
     AnnotatedT(Typed("bool"), <<ExtT("typeguard", Typed("int"))>>), AnnotatedT(Typed("bool"), <<ExtT("typeis", TV_T)>>),
     AnnotatedT(Typed("bool"), <<ExtT("paramguard", Typed("int"))>>), AnnotatedT(Typed("int"), <<ExtT("alwayspresent", AnyT)>>),
     AnnotatedT(Typed("bool"), <<ExtT("definite", AnyT)>>), AnnotatedT(Typed("bool"), <<ExtT("sysplatform", AnyT)>>),
     AnnotatedT(Typed("int"), <<ExtT("deprecated", AnyT)>>),
     AnnotatedT(AnnotatedT(Typed("int"), <<ExtT("literalonly", AnyT)>>), <<ExtT("value", Known(OddObj("unhashable")))>>),
     AnnotatedT(Union(<<Typed("int"), Known(I1)>>), <<ExtT("value", Known(OddObj("eqraises"))), ExtT("value", Known(SA))>>),
     AnnotatedT(Generic("list", <<TV_T>>), <<ExtT("value", TV_T)>>)}

OddShapes ==
    {SeqT("tuple", <<Many(Typed("int"))>>), SeqT("tuple", <<One(Typed("int")), Many(TV_Ts)>>),
     SeqT("tuple", <<Many(Typed("int")), Many(Typed("str"))>>), SeqT("list", <<Many(AnyT), One(Known(I1))>>),
     SeqT("tuple", <<One(UnpackedT(TV_Ts))>>), UnpackedT(SeqT("tuple", <<One(Typed("int"))>>)), UnpackedT(Typed("int")),
     PSArgs, PSKwargs, NewType("N", "int"), NewType("N2", "str"),
     SubclassT(TV_T), SubclassT(TV_B), SubclassT(AnyT), SubclassT(Union(<<Typed("int"), Typed("str")>>)),
     Generic("list", <<TV_T>>), Generic("dict", <<TV_T, Known(OddObj("unhashable"))>>), Generic("list", << >>),
     Generic("int", <<Typed("int")>>), Generic("dict", <<Typed("int")>>), Generic("tuple", <<Typed("int"), Typed("str")>>),
     Union(<<Known(OddObj("unhashable")), Known(OddObj("eqraises"))>>), Union(<<TV_T, Known(I1)>>),
     Union(<<Known(OddObj("hashraises")), Known(OddObj("boolraises")), Known(OddObj("eqodd")), Known(OddObj("nan"))>>),
     TD(<<Ent("a", TRUE, TV_T)>>), DictInc(<<Pair(Known(OddObj("unhashable")), Known(OddObj("eqraises")), FALSE, TRUE)>>),
     DictInc(<<Pair(Typed("str"), TV_T, TRUE, FALSE)>>)}
\* UnboundMethodValue(name, receiver of type OddMethods): what the visitor infers for `obj.method`
UnboundMethodNames == {"um_plain", "um_noparams", "um_kwonly", "um_kwargs_only", "um_varargs", "um_selfann", "um_defaults", "um_cm",
                       "um_sm", "um___call__", "um_known_receiver", "um_missing"}
SpecialTerms == {SpecialT(n) : n \in {"void", "uninitialized", "synthmodule", "unboundmethod", "varname", "synthtyped",
                                         "synthgeneric", "asynctask", "knowntv", "typedcallable", "callbackproto"} \cup UnboundMethodNames}
\* the callable-compatibility family: everything callable-like against everything callable-like
CallFamily == CallableTerms \cup {Known(OddObj(n)) : n \in OddCallables \cup {"function", "lambda", "builtin", "method", "class"}}
              \cup {SpecialT(n) : n \in UnboundMethodNames \cup {"unboundmethod", "typedcallable", "callbackproto", "knowntv"}}
\* a literal union of odd objects with more than ten members (set-based fast paths of MultiValuedValue)
BigOdd == Union(<<Known(OddObj("function")), Known(OddObj("module")), Known(OddObj("class")), Known(OddObj("unhashable")),
                  Known(OddObj("eqraises")), Known(OddObj("hashraises")), Known(OddObj("boolraises")), Known(OddObj("eqodd")),
                  Known(OddObj("nan")), Known(OddObj("ellipsis")), Known(OddObj("slice")), Known(I1)>>)
OddTerms == OddKnown \cup TVarTerms \cup CallableTerms \cup AnnotatedTerms \cup OddShapes \cup SpecialTerms \cup {BigOdd}
=============================================================================
