------------------------------ MODULE StrFormat ------------------------------
(***************************************************************************)
(* str.format diagnostics agree with CPython's formatter (property C17,    *)
(* second half).                                                           *)
(*                                                                         *)
(* A case is [t, pos, kw]:                                                 *)
(*   t    sequence of 1-character strings: the literal template            *)
(*   pos  sequence of value atoms: the positional arguments                *)
(*   kw   sequence of [name |-> characters, v |-> value atom]              *)
(*                                                                         *)
(* Impl* transcribes pyanalyze/format_strings.py:552-676 (the parser, a    *)
(* character-level machine) and implementation.py:1392-1473                *)
(* (_str_format_impl).  Ref* models CPython 3.12's                         *)
(* Objects/stringlib/unicode_format.h (MarkupIterator_next, parse_field,   *)
(* field_name_split, get_field_object, FieldNameIterator_next,             *)
(* render_field, build_string) and Python/formatter_unicode.c              *)
(* (parse_internal_render_format_spec, format_string_internal,             *)
(* format_long_internal) from the C source and the "Format String Syntax"  *)
(* section of the library reference; it never refers to Impl*.             *)
(* RefOutcome is validated against the real call in every observation.     *)
(***************************************************************************)
EXTENDS Integers, Sequences, FiniteSets, TLC

CONSTANT FBug            \* "none" | name of a seeded model bug (sensitivity self-tests only)

DigitCh == {"0", "1", "2", "3", "4", "5", "6", "7", "8", "9"}
\* Two non-ASCII characters are written as named one-element tokens (the driver's codec maps them):
\*   "<ar0>"  U+0660 ARABIC-INDIC DIGIT ZERO: a Unicode DECIMAL digit (Py_UNICODE_TODECIMAL = 0, str.isdigit)
\*   "<sup2>" U+00B2 SUPERSCRIPT TWO: str.isdigit() is true, but it is no decimal digit (int() rejects it)
DecCh == DigitCh \cup {"<ar0>"}
IsDigitCh == DecCh \cup {"<sup2>"}
AlignCh == {"<", ">", "=", "^"}
SignCh  == {"+", "-", " "}

At(t, p) == IF p >= 1 /\ p <= Len(t) THEN t[p] ELSE "EOF"
Has(t, ch) == \E j \in 1..Len(t) : t[j] = ch

RECURSIVE RunEnd(_, _, _)
RunEnd(t, p, S) == IF p <= Len(t) /\ t[p] \in S THEN RunEnd(t, p + 1, S) ELSE p

RECURSIVE FirstIn(_, _, _)
\* first position >= p whose character is in S, 0 if none
FirstIn(t, p, S) == IF p > Len(t) THEN 0 ELSE IF t[p] \in S THEN p ELSE FirstIn(t, p + 1, S)

DigitVal(ch) == CASE ch = "0" -> 0 [] ch = "1" -> 1 [] ch = "2" -> 2 [] ch = "3" -> 3 [] ch = "4" -> 4
                  [] ch = "5" -> 5 [] ch = "6" -> 6 [] ch = "7" -> 7 [] ch = "8" -> 8 [] ch = "9" -> 9
                  [] ch = "<ar0>" -> 0
RECURSIVE DigitsVal(_)
DigitsVal(s) == IF s = << >> THEN 0 ELSE 10 * DigitsVal(SubSeq(s, 1, Len(s) - 1)) + DigitVal(s[Len(s)])
\* TLC integers are 32 bit: values are capped at BigIdx (every argument list here is far shorter)
BigIdx == 999999
RECURSIVE StripZeros(_)
StripZeros(s) == IF s # << >> /\ DigitVal(s[1]) = 0 THEN StripZeros(Tail(s)) ELSE s
CapVal(s) == LET z == StripZeros(s) IN IF Len(z) > 6 THEN BigIdx ELSE DigitsVal(z)
\* PY_SSIZE_T_MAX = 2^63 - 1
MaxSsize == <<9, 2, 2, 3, 3, 7, 2, 0, 3, 6, 8, 5, 4, 7, 7, 5, 8, 0, 7>>
RECURSIVE DigitsGT(_, _, _)
DigitsGT(z, m, i) == IF i > Len(z) THEN FALSE
                     ELSE IF DigitVal(z[i]) # m[i] THEN DigitVal(z[i]) > m[i] ELSE DigitsGT(z, m, i + 1)
ExceedsSsize(s) == LET z == StripZeros(s) IN
                   IF Len(z) # Len(MaxSsize) THEN Len(z) > Len(MaxSsize) ELSE DigitsGT(z, MaxSsize, 1)
\* get_integer() (unicode_format.h): scans left to right; a character that is not a Unicode decimal digit
\* (Py_UNICODE_TODECIMAL < 0; so a sign, a space, "_" or a superscript digit) -> -1 "not an integer"; as soon
\* as the accumulated value would exceed PY_SSIZE_T_MAX -> ValueError("Too many decimal digits in format
\* string").  -1: not an integer (or empty), -2: the ValueError, otherwise the value (capped at BigIdx)
IntOf(s) ==
    LET p == RunEnd(s, 1, DecCh) - 1 IN          \* length of the decimal prefix
    IF s = << >> THEN -1
    ELSE IF p >= 1 /\ ExceedsSsize(SubSeq(s, 1, p)) THEN -2
    ELSE IF p < Len(s) THEN -1
    ELSE CapVal(s)

(***************************************************************************)
(* Value atoms: literals passed to .format()                               *)
(***************************************************************************)
Chars_None == <<"N", "o", "n", "e">>
Chars_da   == <<"{", "'", "a", "'", ":", " ", "1", "}">>
ValTy(v) ==
    CASE v \in {"i1", "i2"} -> "int"
      [] v \in {"sx", "sd", "s1", "sgt"} -> "str"
      [] v \in {"l1", "da", "none"} -> "obj"          \* object.__format__
StrOf(v) ==
    CASE v = "i1" -> <<"1">> [] v = "i2" -> <<"2">>
      [] v = "sx" -> <<"x">> [] v = "sd" -> <<"d">> [] v = "s1" -> <<"1">> [] v = "sgt" -> <<">">>
      [] v = "l1" -> <<"[", "1", "]">> [] v = "da" -> Chars_da [] v = "none" -> Chars_None
ReprOf(v) == IF ValTy(v) = "str" THEN <<"'">> \o StrOf(v) \o <<"'">> ELSE StrOf(v)

Obj(v) == [ty |-> ValTy(v), txt |-> StrOf(v)]

\* getattr(v, name): only int.real is reachable from the template alphabets
RGetAttr(v, name) ==
    IF ValTy(v) = "int" /\ name = <<"r", "e", "a", "l">> THEN [exc |-> "ok", v |-> v]
    ELSE [exc |-> "AttributeError", v |-> v]

\* v[name]: an all-digit name is an integer index, anything else a str key
RGetItem(v, name) ==
    LET idx == IntOf(name) IN
    IF idx = -2 THEN [exc |-> "ValueError", v |-> v]                                 \* Too many decimal digits
    ELSE IF ValTy(v) = "int" \/ v = "none" THEN [exc |-> "TypeError", v |-> v]            \* not subscriptable
    ELSE IF v = "da" THEN (IF idx = -1 /\ name = <<"a">> THEN [exc |-> "ok", v |-> "i1"]
                           ELSE [exc |-> "KeyError", v |-> v])
    ELSE IF idx = -1 THEN [exc |-> "TypeError", v |-> v]                             \* list/str indices must be integers
    ELSE IF idx # 0 THEN [exc |-> "IndexError", v |-> v]
    ELSE [exc |-> "ok", v |-> IF v = "l1" THEN "i1" ELSE v]                          \* 'x'[0] = 'x'

(***************************************************************************)
(* Ref: the format-spec mini-language                                      *)
(* (parse_internal_render_format_spec + the per-type checks)               *)
(***************************************************************************)
IntTypes   == {"b", "c", "d", "o", "x", "X", "n"}
FloatTypes == {"e", "E", "f", "F", "g", "G", "%"}
Unknown == <<"?">>                \* rendered text that is not modelled

Rep(ch, n) == [j \in 1..n |-> ch]
Pad(body, width, fill, align) ==
    LET n == Len(body) IN
    IF width <= n THEN body
    ELSE CASE align = "<" -> body \o Rep(fill, width - n)
           [] align \in {">", "="} -> Rep(fill, width - n) \o body
           [] align = "^" -> Rep(fill, (width - n) \div 2) \o body \o Rep(fill, (width - n) - ((width - n) \div 2))

ParseSpec(spec, defalign) ==
    LET n == Len(spec)
        hasFA == n >= 2 /\ spec[2] \in AlignCh
        hasA == ~hasFA /\ n >= 1 /\ spec[1] \in AlignCh
        p1 == IF hasFA THEN 3 ELSE IF hasA THEN 2 ELSE 1
        sign == IF At(spec, p1) \in SignCh THEN spec[p1] ELSE ""
        p2 == IF sign # "" THEN p1 + 1 ELSE p1
        z == At(spec, p2) = "z"
        p3 == IF z THEN p2 + 1 ELSE p2
        alt == At(spec, p3) = "#"
        p4 == IF alt THEN p3 + 1 ELSE p3
        zero == ~hasFA /\ At(spec, p4) = "0"
        p5 == IF zero THEN p4 + 1 ELSE p4
        p6 == RunEnd(spec, p5, DigitCh)
        comma == At(spec, p6) = ","
        p7 == IF comma THEN p6 + 1 ELSE p6
        under == At(spec, p7) = "_"
        p8 == IF under THEN p7 + 1 ELSE p7
        comma2 == At(spec, p8) = ","
        dot == At(spec, p8) = "."
        p9 == IF dot THEN RunEnd(spec, p8 + 1, DigitCh) ELSE p8
        left == n - p9 + 1
    IN [err |-> IF (comma /\ under) \/ (under /\ comma2) THEN "spec-separators"
                ELSE IF dot /\ p9 = p8 + 1 THEN "spec-missing-precision"
                ELSE IF left > 1 THEN "spec-invalid"
                ELSE IF (comma \/ under) /\ left = 1
                        /\ spec[p9] \notin ({"d", "e", "f", "g", "E", "G", "%", "F"}
                                            \cup (IF under /\ ~comma THEN {"b", "o", "x", "X"} ELSE {}))
                     THEN "spec-separator-type"
                ELSE "",
        fill |-> IF hasFA THEN spec[1] ELSE IF zero THEN "0" ELSE " ",
        align |-> IF hasFA THEN spec[2] ELSE IF hasA THEN spec[1]
                  ELSE IF zero /\ defalign = ">" THEN "=" ELSE defalign,
        sign |-> sign, z |-> z, alt |-> alt, sep |-> comma \/ under,
        width |-> IF p6 > p5 THEN DigitsVal(SubSeq(spec, p5, p6 - 1)) ELSE 0,
        prec |-> IF dot THEN DigitsVal(SubSeq(spec, p8 + 1, p9 - 1)) ELSE -1,
        type |-> IF left = 1 THEN spec[p9] ELSE ""]

FOk(text) == [exc |-> "ok", cause |-> "", text |-> text]
FErr(exc, cause) == [exc |-> exc, cause |-> cause, text |-> << >>]

\* format(obj, spec) for obj = [ty, txt]
RFormat(obj, spec) ==
    IF spec = << >> THEN FOk(obj.txt)
    ELSE IF Has(spec, "?") THEN FErr("unmodelled", "unmodelled")
    ELSE IF obj.ty = "obj" THEN FErr("TypeError", "spec-unsupported")        \* object.__format__
    ELSE IF obj.ty = "str" THEN
        LET f == ParseSpec(spec, "<") IN
        IF f.err # "" THEN FErr("ValueError", f.err)
        ELSE IF f.type \notin {"", "s"} THEN FErr("ValueError", "spec-type")
        ELSE IF f.sign # "" \/ f.z \/ f.alt \/ f.align = "=" \/ f.sep THEN FErr("ValueError", "spec-not-allowed")
        ELSE FOk(Pad(IF f.prec >= 0 /\ f.prec < Len(obj.txt) THEN SubSeq(obj.txt, 1, f.prec) ELSE obj.txt,
                     f.width, f.fill, f.align))
    ELSE \* int
        LET f == ParseSpec(spec, ">") IN
        IF f.err # "" THEN FErr("ValueError", f.err)
        ELSE IF f.type \in IntTypes \cup {""} THEN
            IF f.prec >= 0 \/ f.z THEN FErr("ValueError", "spec-not-allowed")
            ELSE IF f.type = "c" /\ (f.sign # "" \/ f.alt) THEN FErr("ValueError", "spec-not-allowed")
            ELSE IF f.type = "c" \/ f.alt \/ f.sep THEN FOk(Unknown)
            ELSE FOk(Pad((IF f.sign \in {"+", " "} THEN <<f.sign>> ELSE << >>) \o obj.txt, f.width, f.fill, f.align))
        ELSE IF f.type \in FloatTypes THEN FOk(Unknown)
        ELSE FErr("ValueError", "spec-type")

(***************************************************************************)
(* Ref: parse_field and the field name                                     *)
(***************************************************************************)
RECURSIVE NameEnd(_, _)
\* scan of the field name: <<"term", i>> at "}", ":" or "!"; <<"open", i>>; <<"eof", 0>>
NameEnd(s, i) ==
    IF i > Len(s) THEN <<"eof", 0>>
    ELSE IF s[i] = "{" THEN <<"open", i>>
    ELSE IF s[i] = "[" THEN
        LET j == FirstIn(s, i + 1, {"]"}) IN IF j = 0 THEN <<"eof", 0>> ELSE NameEnd(s, j + 1)
    ELSE IF s[i] \in {"}", ":", "!"} THEN <<"term", i>>
    ELSE NameEnd(s, i + 1)

RECURSIVE SpecEnd(_, _, _)
\* position of the "}" closing the format spec (braces counted, no escapes), 0 if none
SpecEnd(s, i, count) ==
    IF i > Len(s) THEN 0
    ELSE IF s[i] = "{" THEN SpecEnd(s, i + 1, count + 1)
    ELSE IF s[i] = "}" THEN (IF count = 1 THEN i ELSE SpecEnd(s, i + 1, count - 1))
    ELSE SpecEnd(s, i + 1, count)

PF(err, name, conv, spec, next) == [err |-> err, name |-> name, conv |-> conv, spec |-> spec, next |-> next]

\* parse_field: q = first character after "{"
ParseField(s, q) ==
    LET ne == NameEnd(s, q) IN
    IF ne[1] = "open" THEN PF("open-in-name", << >>, "", << >>, 0)
    ELSE IF ne[1] = "eof" THEN PF("eof-brace", << >>, "", << >>, 0)
    ELSE LET e == ne[2]
             name == SubSeq(s, q, e - 1)
             WithSpec(conv, sp) ==
                 LET se == SpecEnd(s, sp, 1) IN
                 IF se = 0 THEN PF("unmatched-in-spec", name, conv, << >>, 0)
                 ELSE PF("", name, conv, SubSeq(s, sp, se - 1), se + 1)
         IN IF s[e] = "}" THEN PF("", name, "", << >>, e + 1)
            ELSE IF s[e] = ":" THEN WithSpec("", e + 1)
            ELSE \* "!"
                IF e + 1 > Len(s) THEN PF("conv-eof", name, "", << >>, 0)
                ELSE IF e + 2 > Len(s) THEN WithSpec(s[e + 1], e + 2)
                ELSE IF s[e + 2] = "}" THEN PF("", name, s[e + 1], << >>, e + 3)
                ELSE IF s[e + 2] # ":" THEN PF("conv-colon", name, s[e + 1], << >>, 0)
                ELSE WithSpec(s[e + 1], e + 3)

RECURSIVE RPath(_, _, _)
\* FieldNameIterator over the rest of the field name, applied to atom v
RPath(v, rest, i) ==
    IF i > Len(rest) THEN [exc |-> "ok", cause |-> "", v |-> v]
    ELSE IF rest[i] = "." THEN
        LET j == FirstIn(rest, i + 1, {".", "["})
            e == IF j = 0 THEN Len(rest) + 1 ELSE j
            name == SubSeq(rest, i + 1, e - 1)
        IN IF name = << >> THEN [exc |-> "ValueError", cause |-> "path-syntax", v |-> v]
           ELSE LET r == RGetAttr(v, name)
                IN IF r.exc # "ok" THEN [exc |-> r.exc, cause |-> "path-lookup", v |-> v]
                   ELSE RPath(r.v, rest, e)
    ELSE IF rest[i] = "[" THEN
        LET j == FirstIn(rest, i + 1, {"]"}) IN
        IF j = 0 THEN [exc |-> "ValueError", cause |-> "path-syntax", v |-> v]       \* Missing ']'
        ELSE LET name == SubSeq(rest, i + 1, j - 1)
             IN IF name = << >> THEN [exc |-> "ValueError", cause |-> "path-syntax", v |-> v]
                ELSE LET r == RGetItem(v, name)
                     IN IF r.exc # "ok" THEN [exc |-> r.exc, cause |-> "path-lookup", v |-> v]
                        ELSE RPath(r.v, rest, j + 1)
    ELSE [exc |-> "ValueError", cause |-> "path-syntax", v |-> v]       \* Only '.' or '[' may follow ']'

(***************************************************************************)
(* Ref: build_string / output_markup                                       *)
(* st = [an, next, upos, ukw]: auto-numbering state and the arguments used *)
(* result = [exc, cause, text, st]                                         *)
(***************************************************************************)
RRes(exc, cause, text, st) == [exc |-> exc, cause |-> cause, text |-> text, st |-> st]

KwHits(c, name) == {j \in 1..Len(c.kw) : c.kw[j].name = name}

RECURSIVE RBuild(_, _, _, _, _, _), RField(_, _, _, _, _, _)

\* MarkupIterator_next loop over s from p; depth = recursion_depth of this build_string
RBuild(c, s, p, depth, st, acc) ==
    IF p > Len(s) THEN RRes("ok", "", acc, st)
    ELSE LET b == FirstIn(s, p, {"{", "}"}) IN
    IF b = 0 THEN RRes("ok", "", acc \o SubSeq(s, p, Len(s)), st)
    ELSE IF s[b] = "}" /\ At(s, b + 1) # "}" THEN RRes("ValueError", "single-close", acc, st)
    ELSE IF s[b] = "{" /\ b = Len(s) THEN RRes("ValueError", "single-open", acc, st)
    ELSE IF s[b + 1] = s[b] THEN RBuild(c, s, b + 2, depth, st, acc \o SubSeq(s, p, b))     \* {{ or }}
    ELSE RField(c, s, b + 1, depth, st, acc \o SubSeq(s, p, b - 1))

RField(c, s, q, depth, st, acc) ==
    LET f == ParseField(s, q) IN
    IF f.err # "" THEN RRes("ValueError", f.err, acc, st)
    ELSE
    \* field_name_split
    LET j == FirstIn(f.name, 1, {".", "["})
        first == IF j = 0 THEN f.name ELSE SubSeq(f.name, 1, j - 1)
        rest == IF j = 0 THEN << >> ELSE SubSeq(f.name, j, Len(f.name))
        empty == first = << >>
        numeric == empty \/ IntOf(first) # -1
        toomany == IntOf(first) = -2          \* field_name_split: get_integer() failed with an exception
        an1 == IF st.an = "init" /\ numeric THEN (IF empty THEN "auto" ELSE "manual") ELSE st.an
    IN
    IF toomany THEN RRes("ValueError", "too-many-digits", acc, st)
    ELSE IF numeric /\ an1 = "manual" /\ empty THEN RRes("ValueError", "manual-to-auto", acc, st)
    ELSE IF numeric /\ an1 = "auto" /\ ~empty THEN RRes("ValueError", "auto-to-manual", acc, st)
    ELSE
    LET idx == IF empty THEN st.next ELSE IntOf(first)
        st1 == [st EXCEPT !.an = an1, !.next = IF empty THEN @ + 1 ELSE @]
    IN
    \* get_field_object: the argument ...
    IF idx = -1 /\ KwHits(c, first) = {} THEN RRes("KeyError", "kw-missing", acc, st1)
    ELSE IF idx # -1 /\ idx >= Len(c.pos) THEN RRes("IndexError", "index-range", acc, st1)
    ELSE
    LET v0 == IF idx = -1 THEN c.kw[CHOOSE h \in KwHits(c, first) : TRUE].v ELSE c.pos[idx + 1]
        st2 == IF idx = -1 THEN [st1 EXCEPT !.ukw = @ \cup {first}] ELSE [st1 EXCEPT !.upos = @ \cup {idx}]
        pr == RPath(v0, rest, 1)                    \* ... then attributes and items
    IN
    IF pr.exc # "ok" THEN RRes(pr.exc, pr.cause, acc, st2)
    ELSE IF f.conv \notin {"", "r", "s", "a"} THEN RRes("ValueError", "bad-conv", acc, st2)
    ELSE
    LET obj == IF f.conv = "" THEN Obj(pr.v)
               ELSE [ty |-> "str", txt |-> IF f.conv = "s" THEN StrOf(pr.v) ELSE ReprOf(pr.v)]
    IN
    \* the format spec, expanded if it contains "{"
    IF Has(f.spec, "{") /\ depth - 1 <= 0 THEN RRes("ValueError", "depth", acc, st2)
    ELSE
    LET sub == IF Has(f.spec, "{") THEN RBuild(c, f.spec, 1, depth - 1, st2, << >>)
               ELSE RRes("ok", "", f.spec, st2)
    IN
    IF sub.exc # "ok" THEN RRes(sub.exc, sub.cause, acc, sub.st)
    ELSE LET r == RFormat(obj, sub.text)
         IN IF r.exc # "ok" THEN RRes(r.exc, r.cause, acc, sub.st)
            ELSE RBuild(c, s, f.next, depth, sub.st, acc \o r.text)

RInit == [an |-> "init", next |-> 0, upos |-> {}, ukw |-> {}]
RefRun(c) == RBuild(c, c.t, 1, 2, RInit, << >>)
RefOutcome(c) == RefRun(c).exc
RefRaises(c) == RefOutcome(c) # "ok"
RefType(c) == "str"

(***************************************************************************)
(* The documented stricter rule: arguments that the template does not use  *)
(* (implementation.py:1456-1472).                                          *)
(***************************************************************************)
LintKinds == {"unused-pos", "unused-kw"}
LintCond(c, k) ==
    CASE k = "unused-pos" -> \E i \in 0..(Len(c.pos) - 1) : i \notin RefRun(c).st.upos
      [] k = "unused-kw" -> \E j \in 1..Len(c.kw) : c.kw[j].name \notin RefRun(c).st.ukw
      [] OTHER -> FALSE

(***************************************************************************)
(* Impl: the parser of format_strings.py:552-676 as the character machine  *)
(* it is.  ps = [i, errs, fields]: i = _ParserState.current_index (0-based *)
(* count of next() calls), errs = sequence of <<index, kind>>, fields =    *)
(* arg names in iter_replacement_fields order, each <<"auto">> |           *)
(* <<"int", chars>> | <<"str", chars>>.                                    *)
(***************************************************************************)
Specials == {"}", ".", "[", "!", ":"}                                              \* :601
Letters == {"a", "b", "c", "d", "e", "f", "g", "h", "i", "j", "k", "l", "m", "n", "o", "p", "q", "r", "s", "t",
            "u", "v", "w", "x", "y", "z", "N", "_"}
IsIdent(name) ==                                                                  \* _IDENTIFIER_REGEX :52
    /\ name # << >> /\ name[1] \in Letters
    /\ \A j \in 2..Len(name) : name[j] \in Letters \cup DigitCh

\* peek(): the character at 0-based index i
Peek(t, i) == At(t, i + 1)
AddErr(ps, kind) == [ps EXCEPT !.errs = Append(@, <<ps.i, kind>>)]                \* add_error :499

RECURSIVE IChildren(_, _, _), IField(_, _, _, _, _), IAttr(_, _, _), IIndex(_, _)

\* _parse_children :558-593; endat = "" for the top level, "}" inside a format spec
IChildren(t, ps, endat) ==
    LET ch == Peek(t, ps.i)
        ps1 == [ps EXCEPT !.i = @ + 1]                                            \* next() :494
    IN IF ch = "EOF" THEN (IF endat = "" THEN ps1 ELSE AddErr(ps1, "p-eof-brace"))  \* :563-569
       ELSE IF ch = endat THEN ps1                                                \* :570
       ELSE IF ch = "{" THEN
            IF Peek(t, ps1.i) = "{" THEN IChildren(t, [ps1 EXCEPT !.i = @ + 1], endat)       \* :576
            ELSE IChildren(t, IField(t, ps1, << >>, Specials, Len(ps1.fields) + 1), endat)   \* :583
       ELSE IF ch = "}" THEN
            IF Peek(t, ps1.i) = "}" THEN IChildren(t, [ps1 EXCEPT !.i = @ + 1], endat)       \* :586
            ELSE IChildren(t, AddErr(ps1, "p-single-close"), endat)                          \* :590
       ELSE IChildren(t, ps1, endat)

\* attribute name after "." :619-634: characters up to the next special (peeked, not consumed)
IAttr(t, ps, acc) ==
    LET ch == Peek(t, ps.i) IN
    IF ch = "EOF" THEN [ps |-> AddErr(ps, "p-eof-brace"), ok |-> FALSE]
    ELSE IF ch \in Specials THEN
        (IF IsIdent(acc) THEN [ps |-> ps, ok |-> TRUE] ELSE [ps |-> AddErr(ps, "p-attr"), ok |-> FALSE])
    ELSE IAttr(t, [ps EXCEPT !.i = @ + 1], Append(acc, ch))

\* index after "[" :635-646: characters up to "]" (consumed)
IIndex(t, ps) ==
    LET ch == Peek(t, ps.i)
        ps1 == [ps EXCEPT !.i = @ + 1]
    IN IF ch = "EOF" THEN [ps |-> AddErr(ps1, "p-eof-bracket"), ok |-> FALSE]
       ELSE IF ch = "]" THEN [ps |-> ps1, ok |-> TRUE]
       ELSE IIndex(t, ps1)

\* the field record is inserted at position `slot` when the field is complete (a field precedes the
\* fields nested in its format spec in iter_replacement_fields :543-549)
InsertAt(s, k, x) == SubSeq(s, 1, k - 1) \o <<x>> \o SubSeq(s, k, Len(s))
\* int(str) as far as the alphabets reach (seeded model bug "int-semantics" only): surrounding spaces are
\* stripped, an optional sign, decimal digits with single "_" between digits
RECURSIVE LStrip(_), RStrip(_)
LStrip(s) == IF s # << >> /\ s[1] = " " THEN LStrip(Tail(s)) ELSE s
RStrip(s) == IF s # << >> /\ s[Len(s)] = " " THEN RStrip(SubSeq(s, 1, Len(s) - 1)) ELSE s
IntBody(chars) == LET s == RStrip(LStrip(chars)) IN IF s # << >> /\ s[1] \in {"+", "-"} THEN Tail(s) ELSE s
IntAccepts(chars) ==
    LET b == IntBody(chars) IN
    /\ b # << >> /\ b[1] \in DecCh /\ b[Len(b)] \in DecCh
    /\ \A j \in 1..Len(b) : b[j] \in DecCh \cup {"_"}
    /\ \A j \in 1..(Len(b) - 1) : ~(b[j] = "_" /\ b[j + 1] = "_")
IntNegative(chars) == LET s == LStrip(chars) IN s # << >> /\ s[1] = "-"
\* the tail of _parse_replacement_field :669-676: "" -> None; str.isdecimal() -> int(name); else the name
\* (repo 0e517b7; before it the test was str.isdigit(), kept as seeded model bug "isdigit-name")
NameOf(chars) == IF chars = << >> THEN <<"auto">>
                 ELSE IF FBug = "int-semantics" THEN (IF IntAccepts(chars) THEN <<"int", chars>> ELSE <<"str", chars>>)
                 ELSE IF FBug = "isdigit-name"
                      THEN (IF \A j \in 1..Len(chars) : chars[j] \in IsDigitCh THEN <<"int", chars>> ELSE <<"str", chars>>)
                 ELSE IF \A j \in 1..Len(chars) : chars[j] \in DecCh THEN <<"int", chars>>     \* isdecimal :672
                 ELSE <<"str", chars>>
\* int(name) :673 cannot raise for an isdecimal() string; under the seeded bug "isdigit-name" it raises
\* ValueError for an isdigit() string with a non-decimal digit ("\u00b2")
NameCrashes(chars) == /\ FBug = "isdigit-name" /\ chars # << >>
                      /\ \A j \in 1..Len(chars) : chars[j] \in IsDigitCh
                      /\ \E j \in 1..Len(chars) : chars[j] \notin DecCh
\* the index an "int" field denotes (Python ints are unbounded: capped at BigIdx, see CapVal)
ImplIdx(chars) == LET v == CapVal(SelectSeq(chars, LAMBDA ch : ch \in DecCh)) IN
                  IF FBug = "int-semantics" /\ IntNegative(chars) THEN 0 - v ELSE v
Done(ps, name, slot) == [ps EXCEPT !.fields = InsertAt(@, slot, NameOf(name)), !.crash = @ \/ NameCrashes(name)]

\* _parse_replacement_field :596-676
IField(t, ps, name, allowed, slot) ==
    LET ch == Peek(t, ps.i)
        ps1 == [ps EXCEPT !.i = @ + 1]
    IN IF ch = "EOF" THEN AddErr(ps1, "p-eof-brace")                               \* :605
       ELSE IF ch \in Specials THEN
            IF ch \notin allowed THEN AddErr(ps1, "p-expected")                   \* :609
            ELSE IF ch = "}" THEN Done(ps1, name, slot)                           \* :616
            ELSE IF ch = "." THEN
                LET a == IAttr(t, ps1, << >>) IN
                IF a.ok THEN IField(t, a.ps, name, allowed, slot) ELSE a.ps
            ELSE IF ch = "[" THEN
                LET x == IIndex(t, ps1) IN
                IF x.ok THEN IField(t, x.ps, name, allowed, slot) ELSE x.ps
            ELSE IF ch = "!" THEN                                                 \* :647-660
                LET conv == Peek(t, ps1.i)
                    ps2 == [ps1 EXCEPT !.i = @ + 1]
                IN IF conv \notin {"r", "s", "a"} THEN AddErr(ps2, "p-conv")
                   ELSE IF Peek(t, ps2.i) \notin {":", "}"} THEN AddErr(ps2, "p-expected")
                   ELSE IField(t, ps2, name, {":", "}"}, slot)
            ELSE \* ":" :661
                Done(IChildren(t, ps1, "}"), name, slot)
       ELSE IF ch = "{" THEN AddErr(ps1, "p-open-in-name")                         \* :664
       ELSE IField(t, ps1, Append(name, ch), allowed, slot)                        \* :668

ImplParse(t) == IChildren(t, [i |-> 0, errs |-> << >>, fields |-> << >>, crash |-> FALSE], "")
\* the exception leaves parse_format_string: no error list at all
ImplParseErrs(t) == IF ImplParse(t).crash THEN << <<0, "CRASH">> >> ELSE ImplParse(t).errs

\* _str_format_impl, implementation.py:1417-1473
RECURSIVE IFields(_, _, _, _, _)
\* walks the fields: cur = current_index; returns [msgs, upos, ukw]
IFields(c, fs, j, cur, acc) ==
    IF j > Len(fs) THEN acc
    ELSE LET f == fs[j] IN
         IF f[1] = "auto" THEN                                                    \* :1428
            IFields(c, fs, j + 1, cur + 1,
                    [acc EXCEPT !.msgs = IF cur >= Len(c.pos) THEN Append(@, "too-few") ELSE @,
                                !.upos = @ \cup {cur}])
         ELSE IF f[1] = "int" THEN                                                \* :1437
            LET idx == ImplIdx(f[2]) IN
            IFields(c, fs, j + 1, cur,
                    [acc EXCEPT !.msgs = IF idx >= Len(c.pos) THEN Append(@, "index-range") ELSE @,
                                !.upos = @ \cup {idx}])
         ELSE                                                                     \* :1445
            IFields(c, fs, j + 1, cur,
                    [acc EXCEPT !.msgs = IF KwHits(c, f[2]) = {} THEN Append(@, "named-missing") ELSE @,
                                !.ukw = @ \cup {f[2]}])

ImplMsgs(c) ==
    LET P == ImplParse(c.t) IN
    IF P.crash THEN << >>                                                          \* internal error, no report
    ELSE IF P.errs # << >> THEN << P.errs[1][2] >>                                      \* :1422-1425
    ELSE LET r == IFields(c, P.fields, 1, 0, [msgs |-> << >>, upos |-> {}, ukw |-> {}])
         IN r.msgs
            \o (IF \E i \in 0..(Len(c.pos) - 1) : i \notin r.upos THEN <<"unused-pos">> ELSE << >>)   \* :1457
            \o (IF \E k \in 1..Len(c.kw) : c.kw[k].name \notin r.ukw THEN <<"unused-kw">> ELSE << >>) \* :1465
\* ctx.show_error on one node with one code: only the first is emitted (node_visitor.py:635)
ImplFirst(c) == LET m == ImplMsgs(c) IN IF m = << >> THEN "none" ELSE m[1]
ImplCrashes(c) == ImplParse(c.t).crash
ImplType(c) == IF ImplCrashes(c) THEN "any" ELSE "str"                             \* :1473; Any[error] after a crash

(***************************************************************************)
(* Known deviations (see known_findings.jsonl): _str_format_impl only      *)
(* counts arguments ("TODO validate conversion specifiers, attributes,     *)
(* etc.", implementation.py:1427).  Each class is the set of cases in      *)
(* which the FIRST thing CPython raises on is of the named sort and        *)
(* nothing is reported (k = "none").                                       *)
(***************************************************************************)
Cause(c) == RefRun(c).cause
Dev_AutoManualMix(c, k)  == k = "none" /\ Cause(c) \in {"manual-to-auto", "auto-to-manual"}
Dev_PathUnchecked(c, k)  == k = "none" /\ Cause(c) \in {"path-lookup", "path-syntax"}
Dev_SpecUnchecked(c, k)  == k = "none" /\ Cause(c) \in {"spec-unsupported", "spec-invalid", "spec-type", "spec-not-allowed",
                                                          "spec-missing-precision", "spec-separators", "spec-separator-type"}
Dev_NestingDepth(c, k)   == k = "none" /\ Cause(c) = "depth"
\* "{:{{}": inside a format spec "{{" is not an escape for CPython, the parser treats it as one
Dev_EscapeInSpec(c, k)   == k = "none" /\ Cause(c) = "unmatched-in-spec"

\* "{[]a}".format(a=1): characters after "]" are appended to the argument name by the parser
\* (format_strings.py:668), CPython rejects them or resolves a different argument
TextAfterBracket(t) == \E j \in 1..Len(t) : t[j] = "]" /\ At(t, j + 1) \notin {".", "[", "}", "!", ":", "EOF"}
Dev_TextAfterBracket(c, k) == k = "none" /\ RefRaises(c) /\ TextAfterBracket(c.t)

DevMissed(c, k) ==
    CASE Dev_AutoManualMix(c, k) -> "format-auto-manual-mix"
      [] Dev_PathUnchecked(c, k) -> "format-field-path-unchecked"
      [] Dev_SpecUnchecked(c, k) -> "format-spec-unchecked"
      [] Dev_NestingDepth(c, k) -> "format-nesting-depth"
      [] Dev_EscapeInSpec(c, k) -> "format-brace-escape-in-spec"
      [] Dev_TextAfterBracket(c, k) -> "format-text-after-bracket"
      [] OTHER -> "no"
DevFalse(c, k) == "no"

(***************************************************************************)
(* The property                                                            *)
(***************************************************************************)
Excused(c, k) == k \in LintKinds /\ LintCond(c, k)
ReportsWhenRaises(c, k) == RefRaises(c) => k # "none"
SilentWhenOk(c, k) == ~RefRaises(c) => (k = "none" \/ Excused(c, k))
TypeIsResultType(c, ty) == ~RefRaises(c) => ty = RefType(c)

(***************************************************************************)
(* Staged generator                                                        *)
(***************************************************************************)
CONSTANTS
    FTokens, MaxFTokens,
    PosVals, MaxPos,
    KwNames, KwVals, MaxKw

VARIABLES case, stage, ntok
vars == <<case, stage, ntok>>

Blank == [t |-> << >>, pos |-> << >>, kw |-> << >>]
Init == case = Blank /\ stage = "tmpl" /\ ntok = 0

AddToken ==
    /\ stage = "tmpl" /\ ntok < MaxFTokens
    /\ \E tok \in FTokens : case' = [case EXCEPT !.t = @ \o tok]
    /\ ntok' = ntok + 1 /\ UNCHANGED stage

EndTemplate == stage = "tmpl" /\ stage' = "pos" /\ UNCHANGED <<case, ntok>>

AddPos ==
    /\ stage = "pos" /\ Len(case.pos) < MaxPos
    /\ \E v \in PosVals : case' = [case EXCEPT !.pos = Append(@, v)]
    /\ UNCHANGED <<stage, ntok>>

EndPos == stage = "pos" /\ stage' = "kw" /\ UNCHANGED <<case, ntok>>

AddKw ==
    /\ stage = "kw" /\ Len(case.kw) < MaxKw
    /\ \E nm \in KwNames, v \in KwVals :
         /\ \A j \in 1..Len(case.kw) : case.kw[j].name # nm
         /\ case' = [case EXCEPT !.kw = Append(@, [name |-> nm, v |-> v])]
    /\ UNCHANGED <<stage, ntok>>

Finish == stage = "kw" /\ stage' = "done" /\ UNCHANGED <<case, ntok>>

Next == AddToken \/ EndTemplate \/ AddPos \/ EndPos \/ AddKw \/ Finish

MFirst(c) ==
    IF FBug = "ignore-index-range" /\ ImplFirst(c) = "index-range" THEN "none"
    ELSE IF FBug = "single-close-ok" /\ ImplFirst(c) = "p-single-close" THEN "none"
    ELSE ImplFirst(c)

Modelled == stage = "done" => RefOutcome(case) # "unmodelled"
Soundness == stage = "done" =>
    (ReportsWhenRaises(case, MFirst(case)) \/ DevMissed(case, MFirst(case)) # "no")
Precision == stage = "done" =>
    (SilentWhenOk(case, MFirst(case)) \/ DevFalse(case, MFirst(case)) # "no")
ResultType == stage = "done" => TypeIsResultType(case, ImplType(case))
NoCrash == stage = "done" => ~ImplCrashes(case)
SoundnessStrict == stage = "done" => ReportsWhenRaises(case, MFirst(case))

(***************************************************************************)
(* Menus for the configurations                                            *)
(***************************************************************************)
FTokCore == { <<"{">>, <<"}">>, <<"0">>, <<"1">>, <<"a">>, <<".">>, <<"[">>, <<"]">>, <<"!">>, <<"r">>,
              <<":">>, <<"d">>, <<">">>, <<"z">> }
FTokFull == FTokCore \cup { <<"s">>, <<"x">>, <<"r", "e", "a", "l">>, <<"b">>, <<"<">>, <<"+">>, <<"#">> }
\* composite tokens: whole fields per step, for long templates
FTokSpec == { <<"{", "}">>, <<"{", "0", "}">>, <<"{", "1", "}">>, <<"{", "a", "}">>, <<"{">>, <<"}">>, <<"{", "{">>,
              <<"}", "}">>, <<":">>, <<"!", "r">>, <<"[", "0", "]">>, <<"[", "a", "]">>, <<".", "r", "e", "a", "l">>,
              <<"0">>, <<"a">>, <<"d">>, <<">", "1">>, <<"z">>, <<".">> }
NamesAB == { <<"a">>, <<"b">> }
FValsCore == {"i1", "sx", "l1"}
FValsFull == {"i1", "sx", "sd", "l1", "da", "none"}
\* nested format specs: composite tokens around ":" and the spec alphabet
FTokNest == { <<"{", ":">>, <<"{">>, <<"}">>, <<"{", "}">>, <<">">>, <<"1">>, <<"d">>, <<"!", "r">>, <<".">>, <<"0">>,
              <<"s">>, <<"x">>, <<"{", "0">>, <<"{", "1">>, <<"+">>, <<"z">> }
FValsNest == {"i1", "i2", "sx", "sd", "sgt"}
FTokQuick == FTokCore \ { <<"z">>, <<"1">> }
NamesA == { <<"a">> }
FValsKw == {"i1", "l1"}
\* deep nesting and text after "]"
FTokDeep == { <<"{", ":">>, <<"{", "}">>, <<"}">>, <<"{">>, <<"[", "]">>, <<"a">> }
FValsOne == {"i1"}
FTokSim == FTokFull \cup FTokSpec
\* lexical edge forms of field names: sign, space, "_", non-ASCII digits.  Openers and closers are composite
\* tokens so that three tokens reach "{ 0 }", "{+0}", "{0_0}", "{-1}" and their unterminated prefixes
FTokNames == { <<"{">>, <<"{", " ">>, <<"{", "+">>, <<"{", "-">>, <<"{", "0">>, <<"{", "<ar0>">>, <<"{", "<sup2>">>,
               <<"0">>, <<"1">>, <<" ">>, <<"_">>, <<"<ar0>">>, <<"}">>, <<"0", "}">>, <<" ", "}">> }
KwNamesEdge == { <<" ", "0">>, <<"0", " ">>, <<" ", "0", " ">>, <<"+", "0">>, <<"-", "0">>, <<"-", "1">>, <<"0", "_", "0">>,
                 <<"<sup2>">>, <<"<ar0>">>, <<"0">> }
=============================================================================
