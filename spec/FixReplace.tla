------------------------------ MODULE FixReplace ------------------------------
(***************************************************************************)
(* Replacement fixes (property C16, first sentence): applying a            *)
(* replacement that pyanalyze proposes leaves a file that still parses,    *)
(* whose only semantic change is the intended one, and the diagnostic that *)
(* proposed it is no longer reported.                                      *)
(*                                                                         *)
(* A program is a sequence of fragments [kind, ctx]: kind = the fixable    *)
(* diagnostic the fragment raises (missing_f, use_fstrings,                *)
(* unused_variable, too_many_positional_args, unused_ignore, missing_await,*)
(* unused comprehension variable, asynq's task_needs_yield and             *)
(* impure_async_call), ctx = the                                           *)
(* syntactic context it is placed in (plain, inside an if block, spread    *)
(* over several lines, followed by a comment, nested in a dict display    *)
(* with ** unpacking / a lambda with keyword-only parameters / a call with *)
(* star arguments / a list comprehension -- the enclosing statement is     *)
(* rebuilt by the decompiler in those cases).  The fixer                  *)
(* (node_visitor.py _apply_changes_to_lines) applies only the FIRST        *)
(* proposed change per run; the machine below iterates check-and-fix until *)
(* nothing fixable is reported.  The facts of each real step (parses,      *)
(* proposer gone, other diagnostics unchanged, AST/behaviour delta is the  *)
(* allowed one) are recorded by harness/drivers/c16b.py and judged here.   *)
(***************************************************************************)
EXTENDS Naturals, Sequences, FiniteSets, TLC

Kinds == {"missing_f", "use_fstrings", "unused_variable", "too_many_positional_args", "unused_ignore",
          "missing_await", "unused_comp",     \* unused_comp: unused comprehension variable, replaced by `_`
          "task_needs_yield", "impure_async_call"}   \* asynq: `f.asynq(x)` -> `yield f.asynq(x)`, `f(x)` -> `yield f.asynq(x)`
Contexts == {"plain", "in_if", "multiline", "comment", "dict_unpack", "kwonly_lambda", "starred_call", "listcomp"}
\* contexts that make sense for a kind
ExprContexts == {"multiline", "dict_unpack", "kwonly_lambda", "starred_call", "listcomp"}   \* the fixable expression is nested
\* (missing_f is only raised where the names of the string are plain locals of the enclosing function:
\*  not inside a lambda or a comprehension)
Allowed(k, c) == /\ ~(c \in ExprContexts /\ k \in {"unused_variable", "unused_ignore"})
                 /\ ~(k = "missing_f" /\ c \in {"kwonly_lambda", "listcomp"})
                 \* (missing_await is raised on an expression STATEMENT: only the statement-level contexts)
                 /\ ~(k \in {"missing_await", "task_needs_yield", "impure_async_call"} /\ c \in ExprContexts \ {"multiline"})

Later == {"missing_await", "unused_comp", "task_needs_yield", "impure_async_call"}
CONSTANTS MaxFragments

VARIABLES prog, stage, pending, steps
vars == <<prog, stage, pending, steps>>

Init == prog = << >> /\ stage = "gen" /\ pending = << >> /\ steps = 0
AddFragment ==
    /\ stage = "gen" /\ Len(prog) < MaxFragments
    /\ \E k \in Kinds, c \in Contexts :
          /\ Allowed(k, c)
          \* the kinds added later are combined with each other only (their layouts are the subject of FixLayout.tla)
          /\ (prog # << >>) => ((k \in Later) <=> (prog[1].kind \in Later))
          /\ (prog # << >> /\ k \in Later) => c = "plain"
          /\ prog' = Append(prog, [kind |-> k, ctx |-> c])
    /\ UNCHANGED <<stage, pending, steps>>
\* order in which the diagnostics are emitted (and hence fixed): unused_ignore is reported after the whole
\* file has been visited (name_check_visitor.py:1333), everything else in file order
EmissionOrder(p) ==
    LET idx == [i \in 1..Len(p) |-> i]
    IN SelectSeq(idx, LAMBDA i : p[i].kind # "unused_ignore") \o SelectSeq(idx, LAMBDA i : p[i].kind = "unused_ignore")
Start ==
    /\ stage = "gen" /\ Len(prog) >= 1
    /\ stage' = "fixing" /\ pending' = EmissionOrder(prog) /\ UNCHANGED <<prog, steps>>
\* one run of the checker with the fixer: the first fixable diagnostic in file order is repaired
FixFirst ==
    /\ stage = "fixing" /\ pending # << >>
    /\ pending' = Tail(pending) /\ steps' = steps + 1 /\ UNCHANGED <<prog, stage>>
Finish == stage = "fixing" /\ pending = << >> /\ stage' = "done" /\ UNCHANGED <<prog, pending, steps>>
Next == AddFragment \/ Start \/ FixFirst \/ Finish

\* design-level properties of the loop
Converges == stage = "done" => steps = Len(prog)
EachStepFixesOne == stage = "fixing" => Len(pending) + steps = Len(prog)

\* what every real step must satisfy
StepOK(s) == s.parses /\ s.gone /\ s.others_same /\ s.delta_ok
=============================================================================
