---------------------------- MODULE Determinism ----------------------------
(***************************************************************************)
(* Determinism and history-independence of diagnostics (property C10).     *)
(*                                                                         *)
(* Two sources of nondeterminism are modelled as schedules:                *)
(*  (a) every place where the code iterates a `set` on the way to output   *)
(*      is a site; if the code does not impose an order there (Ordered[s]  *)
(*      = FALSE) the order is chosen by the hash seed / memory layout of   *)
(*      the run;                                                           *)
(*  (b) the Checker is a machine whose state is its caches and whose       *)
(*      actions are Check(p) for programs p of a pool; all caches are      *)
(*      memoisations of pure functions of their key.                       *)
(* Property: Render(Check(p)) is the same in every reachable cache state   *)
(* and under every seed.                                                   *)
(*                                                                         *)
(* Sites (file:line at the pinned commit):                                 *)
(*   extra_kwargs      signature.py:1115   set difference of keyword names *)
(*   or_constraint     stacked_scopes.py:616 list(set(constraints))        *)
(*   protocol_members  type_object.py:176 / :318  set of member names      *)
(*   constrained_nodes stacked_scopes.py:1084 frozenset of definition nodes *)
(*                     of a constrained variable (identity-hashed AST nodes)*)
(*   definition_nodes  stacked_scopes.py:1218 / :1146 name_to_all_definition_nodes: *)
(*                     sets of identity-hashed AST nodes listed by          *)
(*                     suppressing_subscope (try bodies, suppressing with)  *)
(*                     and by lookups from nested functions                 *)
(*   set_display       a set display evaluated to a real `set`: KnownValue *)
(*                     renders it with repr() and iterates it in hash order*)
(***************************************************************************)
EXTENDS Naturals, Sequences, FiniteSets, TLC

Sites == {"extra_kwargs", "or_constraint", "protocol_members", "constrained_nodes", "definition_nodes", "set_display"}

CONSTANTS Pinned,      \* TRUE: behaviour of the pinned commit (no site imposes an order)
          NSeeds, MaxHist

\* which sites impose a deterministic order in the current code (after the "fix:" commits)
Ordered(s) == IF Pinned THEN FALSE ELSE s # "set_display"

\* the program pool: abstract families and the sites their output passes through
Families == {"kwargs", "orchain", "proto", "setlit", "litunion", "dictkeys", "attrs", "typeddict", "overload",
             "generic", "narrow", "scopes", "gentwin", "trymulti", "closure",
             "corpus", "sharedsig", "attrchecker"}   \* "corpus": the repository's own test snippets (no modelled unordered site: must be deterministic)
Exercises(p) ==
    CASE p = "kwargs" -> {"extra_kwargs"}
      [] p = "orchain" -> {"or_constraint"}
      [] p = "proto" -> {"protocol_members"}
      [] p = "setlit" -> {"set_display"}
      [] p = "narrow" -> {"constrained_nodes", "or_constraint"}
      [] p \in {"trymulti", "closure"} -> {"definition_nodes"}
      [] OTHER -> {}

\* caches a check populates (keys only; the cached values are functions of the key alone)
CacheKeys(p) == {<<p, "type_object">>, <<p, "argspec">>}

\* the rendering of p in a run: for every site it passes through, either the canonical order or the
\* order the run's seed happens to produce
Render(p, seed) == [s \in Exercises(p) |-> IF Ordered(s) THEN 0 ELSE seed]
Canonical(p) == [s \in Exercises(p) |-> 0]

\* known deviation: a set display is evaluated to a real set whose iteration order is the interpreter's
Dev_SetDisplay(p) == "set_display" \in Exercises(p)

VARIABLES seed, hist, cache, out
vars == <<seed, hist, cache, out>>

Init == seed = 0 /\ hist = << >> /\ cache = {} /\ out = [none |-> 0]
ChooseSeed == hist = << >> /\ seed = 0 /\ \E s \in 1..NSeeds : seed' = s /\ UNCHANGED <<hist, cache, out>>
Check(p) ==
    /\ seed # 0 /\ Len(hist) < MaxHist /\ \A i \in 1..Len(hist) : hist[i] # p
    /\ hist' = Append(hist, p)
    /\ cache' = cache \cup CacheKeys(p)
    /\ out' = Render(p, seed)
    /\ UNCHANGED seed
Next == ChooseSeed \/ \E p \in Families : Check(p)

Last == hist[Len(hist)]
Deterministic == (hist # << >>) => (out = Canonical(Last) \/ Dev_SetDisplay(Last))
DeterministicStrict == (hist # << >>) => out = Canonical(Last)
=============================================================================
