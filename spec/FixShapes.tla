------------------------------ MODULE FixShapes ------------------------------
(***************************************************************************)
(* What the fix PRODUCERS decide and generate (property C16, part B):      *)
(* for every producer, over the statement / literal / call SHAPES that     *)
(* matter for its decision -- does it report, does it OFFER a replacement, *)
(* and is the offered replacement "the intended semantic change only"?     *)
(*                                                                         *)
(* Two families of cases:                                                  *)
(*  (1) fam = "assign": an assignment statement enumerated structurally    *)
(*      targets : sequence of target kinds                                 *)
(*                  "nu"/"nU"          a name, unused / used later         *)
(*                  "tuu"/"tuU"/"tUU"  a 2-tuple of names (u = unused)     *)
(*                  "sub"              a subscript store  box[i] = ...     *)
(*      inner   : a walrus-bound name inside the value: "none" / "unused"  *)
(*                / "used"                                                 *)
(*      rhs     : "pure" / "effect" (a call with an observable effect)     *)
(*  (2) fam = "table": a named shape of a producer with the attributes its *)
(*      decision procedure looks at (Attr).                                *)
(*                                                                         *)
(* Impl*: name_check_visitor.py _check_function_unused_vars (:2396-2490),  *)
(*   _maybe_show_missing_f_error (:3176-3216), format_strings.py           *)
(*   maybe_replace_with_fstring (:409-462), signature.py                   *)
(*   maybe_show_too_many_pos_args_error (:1182-1220), node_visitor.py      *)
(*   show_errors_for_unused_ignores (:274-289); and the fixer's rule that  *)
(*   only the FIRST reported change is applied (_apply_changes_to_lines).  *)
(* Ref*: the documented intent of each fix, from first principles:         *)
(*   removing a statement is "removing a dead binding" only if everything  *)
(*   the statement binds is unused and it has no other effect; adding `f`  *)
(*   is meaningful only for a plain str literal that is not already part   *)
(*   of an f-string; %-to-f-string and positional-to-keyword conversion    *)
(*   must not change the value / the call; removing an ignore marker must  *)
(*   touch only that marker inside a comment.                              *)
(* The real outcome (parses, diagnostic gone, no new diagnostic kind, the  *)
(* function really executed before/after on sample inputs, reaching        *)
(* definitions) is recorded by harness/drivers/c16d.py and judged by       *)
(* FixShapesTrace.tla.                                                     *)
(***************************************************************************)
EXTENDS Naturals, Sequences, FiniteSets, TLC

CONSTANTS MaxTargets,       \* assignment statements with 1..MaxTargets targets
          ChainAny,         \* TRUE only in the sensitivity cfg: a seeded-bug Impl of the removal decision
          FlagBlind         \* TRUE only in the sensitivity cfg: a seeded-bug Impl of the %-specifier guard

(***************************************************************************)
(* Family 1: assignment statements                                         *)
(***************************************************************************)
TargetKinds == {"nu", "nU", "tuu", "tuU", "tUU", "sub"}
IsTuple(k) == k \in {"tuu", "tuU", "tUU"}
\* used-flags of the names a target binds, left to right
NamesOf(k) == CASE k = "nu" -> <<FALSE>> [] k = "nU" -> <<TRUE>> [] k = "tuu" -> <<FALSE, FALSE>>
                [] k = "tuU" -> <<FALSE, TRUE>> [] k = "tUU" -> <<TRUE, TRUE>> [] k = "sub" -> << >>
AnyUsed(s) == \E j \in 1..Len(s) : s[j]
AllUnusedSeq(s) == \A j \in 1..Len(s) : ~s[j]

\* ---- Impl: one entry [offer |-> BOOLEAN] per reported unused name, in source order (targets left to right,
\*      then the walrus name inside the value)
\* :2443-2453 a name inside an unpacking target of which another member is used is not reported
Reported(k, j) == ~NamesOf(k)[j] /\ ~(IsTuple(k) /\ AnyUsed(NamesOf(k)))
\* :2454-2457 `if len(statement.targets) == 1 and not isinstance(statement.targets[0], (ast.List, ast.Tuple))`:
\* the statement is the nearest enclosing statement of the unused Name node -- for a walrus inside the value or
\* inside a subscript target that is the assignment, too; the test does not ask whether the unused name IS the target.
\* ChainAny = TRUE is the seeded variant `any(target is unused for target in statement.targets)`.
ImplOffers(c, i, isTargetItself) ==
    IF ChainAny THEN isTargetItself
    ELSE Len(c.targets) = 1 /\ ~IsTuple(c.targets[1])
RECURSIVE ImplTargetReports(_, _)
ImplTargetReports(c, i) ==
    IF i > Len(c.targets) THEN << >>
    ELSE LET k == c.targets[i]
             mine == SelectSeq([j \in 1..Len(NamesOf(k)) |-> j], LAMBDA j : Reported(k, j))
         IN [x \in 1..Len(mine) |-> [offer |-> ImplOffers(c, i, k = "nu")]] \o ImplTargetReports(c, i + 1)
ImplAssignReports(c) ==
    ImplTargetReports(c, 1) \o (IF c.inner = "unused" THEN << [offer |-> ImplOffers(c, 0, FALSE)] >> ELSE << >>)

\* ---- Ref: deleting the whole statement is the intended change ("remove the dead binding") exactly when
\*      every name it binds is unused, it stores into nothing else and evaluating the value has no effect
AllBoundUnused(c) == (\A i \in 1..Len(c.targets) : AllUnusedSeq(NamesOf(c.targets[i]))) /\ c.inner # "used"
NoStore(c) == \A i \in 1..Len(c.targets) : c.targets[i] # "sub"
RefRemovalIntended(c) == AllBoundUnused(c) /\ NoStore(c) /\ c.rhs = "pure"

(***************************************************************************)
(* Family 2: named shapes of the other producers (and of the unused-       *)
(* variable producer on statements that are not plain assignments)         *)
(***************************************************************************)
Producers == {"unused", "missing_f", "use_fstrings", "too_many_positional_args", "unused_ignore"}
ShapesOf(p) ==
    CASE p = "unused" -> {"ann_value", "ann_novalue", "aug", "walrus_expr", "for_target", "with_as", "except_as",
                          "comp_name", "comp_tuple_wholly", "comp_tuple_partly", "import_alias", "from_import",
                          "reassigned", "list_wholly"}
      [] p = "missing_f" -> {"plain", "raw", "bytes", "u_prefix", "concat", "concat_lines", "concat_one_plain",
                             "escaped_braces", "spec", "single_in_double", "double_in_single", "both_quotes",
                             "newline_escape", "triple", "in_fstring_escaped", "fstring_concat_plain", "expr_inside",
                             "unknown_name", "format_call", "docstring_like", "call_keyword"}
      [] p = "use_fstrings" -> {"single", "tuple", "mapping", "percent", "conv_r", "conv_d", "width", "precision",
                                "needs_parens", "attribute", "single_quote_inside", "double_quote_inside",
                                "both_quotes", "trailing_text", "newline_end", "newline_end_notext", "newline_mid",
                                "tab_escape", "brace", "tuple_var", "bytes", "str_of_tuple", "two_trailing_newline",
                                "double_newline_end"}
      [] p = "too_many_positional_args" -> {"plain", "defaults", "kwonly", "varargs", "posonly", "starred", "mixed_kw",
                                            "below_limit"}
      [] p = "unused_ignore" -> {"own_line", "own_line_bare", "trailing", "trailing_text_after", "trailing_text_before",
                                 "trailing_two_markers", "in_string", "trailing_comment_after"}

\* ---- unused-variable producer on other statement types.  Attributes: what kind of statement is the nearest
\*      enclosing one, is the binding a Name node at all, how many unused names
UnusedAttr(s) ==
    CASE s = "ann_value"         -> [stmt |-> "AnnAssign", isname |-> TRUE, n |-> 1, partly |-> FALSE]
      [] s = "ann_novalue"       -> [stmt |-> "AnnAssign", isname |-> TRUE, n |-> 1, partly |-> FALSE]
      [] s = "aug"               -> [stmt |-> "AugAssign", isname |-> TRUE, n |-> 1, partly |-> FALSE]
      [] s = "walrus_expr"       -> [stmt |-> "Expr", isname |-> TRUE, n |-> 1, partly |-> FALSE]
      [] s = "for_target"        -> [stmt |-> "For", isname |-> TRUE, n |-> 1, partly |-> FALSE]
      [] s = "with_as"           -> [stmt |-> "With", isname |-> TRUE, n |-> 1, partly |-> FALSE]
      [] s = "except_as"         -> [stmt |-> "ExceptHandler", isname |-> FALSE, n |-> 1, partly |-> FALSE]
      [] s = "comp_name"         -> [stmt |-> "comprehension", isname |-> TRUE, n |-> 1, partly |-> FALSE]
      [] s = "comp_tuple_wholly" -> [stmt |-> "comprehension_tuple", isname |-> TRUE, n |-> 2, partly |-> FALSE]
      [] s = "comp_tuple_partly" -> [stmt |-> "comprehension_tuple", isname |-> TRUE, n |-> 1, partly |-> TRUE]
      [] s = "import_alias"      -> [stmt |-> "Import", isname |-> FALSE, n |-> 1, partly |-> FALSE]
      [] s = "from_import"       -> [stmt |-> "ImportFrom", isname |-> FALSE, n |-> 1, partly |-> FALSE]
      [] s = "reassigned"        -> [stmt |-> "Assign1", isname |-> TRUE, n |-> 1, partly |-> FALSE]
      [] s = "list_wholly"       -> [stmt |-> "AssignList", isname |-> TRUE, n |-> 2, partly |-> FALSE]
\* :2414 not a Name node -> skipped; :2472 AnnAssign -> continue; :2459-2470 comprehension; otherwise the diagnostic
\* carries no replacement
ImplUnusedReports(a) ==
    IF ~a.isname \/ a.stmt = "AnnAssign" \/ a.partly THEN << >>
    ELSE [x \in 1..a.n |-> [offer |-> a.stmt \in {"comprehension", "Assign1"}]]
\* Ref: renaming a comprehension variable to `_` and deleting a pure single-name assignment are always the intended change

\* ---- missing_f.  Attributes of the literal
MissingFAttr(s) ==
    LET D == [bytes |-> FALSE, brace |-> TRUE, names |-> TRUE, exist |-> TRUE, fpart |-> FALSE, parent |-> "assign",
              refire |-> FALSE]
    IN CASE s = "bytes"                -> [D EXCEPT !.bytes = TRUE]
         [] s = "unknown_name"         -> [D EXCEPT !.exist = FALSE]
         [] s = "in_fstring_escaped"   -> [D EXCEPT !.fpart = TRUE]      \* the constant part " {n}" of f"{name} {{n}}"
         [] s = "fstring_concat_plain" -> [D EXCEPT !.fpart = TRUE]      \* f"{n} " "and {name}" is ONE JoinedStr
         [] s = "escaped_braces"       -> [D EXCEPT !.refire = TRUE]     \* after the fix the literal part "{n}" fires again
         [] s = "format_call"          -> [D EXCEPT !.parent = "format"]
         [] s = "docstring_like"       -> [D EXCEPT !.parent = "expr"]
         [] s = "call_keyword"         -> [D EXCEPT !.parent = "call_kw"]
         [] OTHER -> D
\* :3178 bytes; :3180 no brace; :3183 f+repr must parse; :3196 names exist; :3199-3211 parents
ImplMissingFReports(a) ==
    IF a.bytes \/ ~a.brace \/ ~a.names \/ ~a.exist \/ a.parent \in {"format", "expr", "call_kw"} THEN << >>
    ELSE << [offer |-> TRUE] >>
\* Ref: adding `f` is only defined for a literal that is not already a piece of an f-string
RefMissingFIntended(a) == ~a.fpart /\ ~a.refire

\* ---- use_fstrings
PercentAttr(s) ==
    LET D == [bytes |-> FALSE, brace |-> FALSE, special |-> FALSE, convok |-> TRUE, simple |-> TRUE, literal |-> TRUE,
              tailnl |-> FALSE]
    IN CASE s = "mapping"    -> [D EXCEPT !.special = TRUE]
         [] s = "percent"    -> [D EXCEPT !.convok = FALSE]       \* %% is a specifier of conversion type "%"
         [] s = "conv_r"     -> [D EXCEPT !.convok = FALSE]
         [] s = "width"      -> [D EXCEPT !.special = TRUE]
         [] s = "precision"  -> [D EXCEPT !.special = TRUE]
         [] s = "needs_parens" -> [D EXCEPT !.simple = FALSE]
         [] s = "brace"      -> [D EXCEPT !.brace = TRUE]
         [] s = "tuple_var"  -> [D EXCEPT !.simple = TRUE, !.literal = FALSE]   \* two specifiers, one non-tuple argument
         [] s = "bytes"      -> [D EXCEPT !.bytes = TRUE]
         [] s = "newline_end" -> [D EXCEPT !.tailnl = TRUE]       \* text between the last specifier and a final newline
         [] s = "two_trailing_newline" -> [D EXCEPT !.tailnl = TRUE]
         [] s = "double_newline_end" -> [D EXCEPT !.tailnl = TRUE]   \* "a %s\n\n": the text before the final newline is "\n"
         [] OTHER -> D
\* format_strings.py:414 bytes, :418 braces, :423-435 special specifiers, :437 conversion types, :440-449 arguments
ImplPercentReports(a) ==
    IF a.bytes \/ a.brace \/ a.special \/ ~a.convok \/ ~a.simple \/ ~a.literal THEN << >> ELSE << [offer |-> TRUE] >>
RefPercentIntended(a) == ~a.tailnl      \* (the conversion itself is value-preserving for %s / %d of simple names)

\* ---- too_many_positional_args
CallAttr(s) ==
    LET D == [atlimit |-> TRUE, varargs |-> FALSE, starred |-> FALSE, posonly |-> FALSE]
    IN CASE s = "varargs" -> [D EXCEPT !.varargs = TRUE]
         [] s = "starred" -> [D EXCEPT !.starred = TRUE]
         [] s = "posonly" -> [D EXCEPT !.posonly = TRUE]
         [] s = "below_limit" -> [D EXCEPT !.atlimit = FALSE]
         [] OTHER -> D
\* signature.py:1192 limit; :1203-1209 every positional argument must be bound to a named parameter by position
ImplCallReports(a) == IF ~a.atlimit \/ a.varargs \/ a.starred THEN << >> ELSE << [offer |-> TRUE] >>
RefCallIntended(a) == ~a.posonly      \* a positional-only parameter cannot be passed by keyword

\* ---- unused_ignore
IgnoreAttr(s) ==
    LET D == [own |-> FALSE, incomment |-> TRUE, after |-> "none"]      \* after: what follows the marker on the line
    IN CASE s \in {"own_line", "own_line_bare"} -> [D EXCEPT !.own = TRUE]
         [] s = "trailing_text_after"    -> [D EXCEPT !.after = "text"]
         [] s = "trailing_comment_after" -> [D EXCEPT !.after = "comment"]
         [] s = "trailing_two_markers"   -> [D EXCEPT !.after = "comment"]
         [] s = "in_string"              -> [D EXCEPT !.incomment = FALSE]
         [] OTHER -> D
\* node_visitor.py:270 every LINE containing the marker that no diagnostic used; :277-283 own line -> delete, else regex
ImplIgnoreReports(a) == << [offer |-> TRUE] >>
RefIgnoreIntended(a) == a.incomment /\ a.after # "text"

(***************************************************************************)
(* Family 3 (fam = "pct"): the FIELDS of a %-conversion specifier          *)
(*   flag  "" / "+" / " " / "-" / "0" / "#";  width "none" / "5";          *)
(*   prec  "none" / "0" / "2";  conv d s r x f;  two: a second plain %s    *)
(* The use_fstrings replacement writes `{arg}` for the specifier, i.e. it  *)
(* DROPS every field.                                                      *)
(***************************************************************************)
PctFlags == {"", "+", " ", "-", "0", "#"}
PctWidths == {"none", "5"}
PctPrecs == {"none", "0", "2"}
PctConvs == {"d", "s", "r", "x", "f"}
\* format_strings.py:423-435: a TRUTHINESS test over [mapping_key, conversion_flags, field_width, precision,
\* length_modifier] -- a parsed precision of 0 is falsy; :437 only d / s.  FlagBlind = TRUE is the seeded variant that
\* leaves conversion_flags out of the test.
ImplPctSpecial(c) == (~FlagBlind /\ c.flag # "") \/ c.width # "none" \/ c.prec = "2"
ImplPctReports(c) == IF ImplPctSpecial(c) \/ c.conv \notin {"d", "s"} THEN << >> ELSE << [offer |-> TRUE] >>
\* Ref (CPython's % operator): writing the argument with str() gives the same text for every value only when the
\* specifier has no flag and no width, the conversion is d or s, and there is no precision -- except `.0` on d, which
\* asks for at least zero digits and changes nothing
RefPctPlain(c) == c.flag = "" /\ c.width = "none" /\ c.conv \in {"d", "s"} /\ (c.prec = "none" \/ (c.prec = "0" /\ c.conv = "d"))

(***************************************************************************)
(* Common: reports, application (first change only), Ref, deviations       *)
(***************************************************************************)
Reports(c) ==
    IF c.fam = "assign" THEN ImplAssignReports(c)
    ELSE IF c.fam = "pct" THEN ImplPctReports(c)
    ELSE CASE c.producer = "unused" -> ImplUnusedReports(UnusedAttr(c.shape))
           [] c.producer = "missing_f" -> ImplMissingFReports(MissingFAttr(c.shape))
           [] c.producer = "use_fstrings" -> ImplPercentReports(PercentAttr(c.shape))
           [] c.producer = "too_many_positional_args" -> ImplCallReports(CallAttr(c.shape))
           [] c.producer = "unused_ignore" -> ImplIgnoreReports(IgnoreAttr(c.shape))
\* _apply_changes_to_lines: only changes[0]; a first diagnostic without replacement blocks the rest
Applied(c) == Reports(c) # << >> /\ Reports(c)[1].offer
Intended(c) ==
    IF c.fam = "assign" THEN RefRemovalIntended(c)
    ELSE IF c.fam = "pct" THEN RefPctPlain(c)
    ELSE CASE c.producer = "unused" -> TRUE
           [] c.producer = "missing_f" -> RefMissingFIntended(MissingFAttr(c.shape))
           [] c.producer = "use_fstrings" -> RefPercentIntended(PercentAttr(c.shape))
           [] c.producer = "too_many_positional_args" -> RefCallIntended(CallAttr(c.shape))
           [] c.producer = "unused_ignore" -> RefIgnoreIntended(IgnoreAttr(c.shape))

\* Known deviations of the unchanged implementation (known_findings.jsonl): precise predicates on the case
Dev_RemovalDropsCall(c) ==       \* `y = f()` with y unused is deleted together with the call
    c.fam = "assign" /\ Applied(c) /\ Len(c.targets) = 1 /\ AllBoundUnused(c) /\ NoStore(c) /\ c.rhs = "effect"
Dev_RemovalOfOtherBinding(c) ==  \* an unused walrus name inside `x = (k := ..)` / `box[i] = (k := ..)`, or an unused
                                 \* target whose value binds a used walrus name: the whole statement is deleted
    c.fam = "assign" /\ Applied(c) /\ Len(c.targets) = 1 /\ c.inner # "none" /\ ~(AllBoundUnused(c) /\ NoStore(c))
Dev_MissingFOnFStringPart(c) ==
    c.fam = "table" /\ c.producer = "missing_f" /\ Applied(c) /\ ~RefMissingFIntended(MissingFAttr(c.shape))
Dev_PercentDropsTail(c) ==
    c.fam = "table" /\ c.producer = "use_fstrings" /\ Applied(c) /\ PercentAttr(c.shape).tailnl
Dev_KeywordForPositionalOnly(c) ==
    c.fam = "table" /\ c.producer = "too_many_positional_args" /\ Applied(c) /\ CallAttr(c.shape).posonly
Dev_IgnoreRemovalLeavesText(c) ==
    c.fam = "table" /\ c.producer = "unused_ignore" /\ IgnoreAttr(c.shape).incomment /\ IgnoreAttr(c.shape).after = "text"
Dev_IgnoreRemovalInString(c) ==
    c.fam = "table" /\ c.producer = "unused_ignore" /\ ~IgnoreAttr(c.shape).incomment

Dev_PercentZeroPrecision(c) ==   \* `'%.0s' % x` (always the empty string) is rewritten to f'{x}'
    c.fam = "pct" /\ Applied(c) /\ c.conv = "s" /\ c.prec = "0" /\ c.flag = "" /\ c.width = "none"

Known(c) ==
    {k \in {"use-fstrings-drops-zero-precision", "unused-removal-drops-call", "unused-removal-deletes-other-binding", "missing-f-on-part-of-fstring",
            "use-fstrings-drops-text-before-final-newline", "too-many-positional-keywords-positional-only",
            "unused-ignore-removal-leaves-text", "unused-ignore-removal-edits-string"} :
        CASE k = "use-fstrings-drops-zero-precision" -> Dev_PercentZeroPrecision(c)
          [] k = "unused-removal-drops-call" -> Dev_RemovalDropsCall(c)
          [] k = "unused-removal-deletes-other-binding" -> Dev_RemovalOfOtherBinding(c)
          [] k = "missing-f-on-part-of-fstring" -> Dev_MissingFOnFStringPart(c)
          [] k = "use-fstrings-drops-text-before-final-newline" -> Dev_PercentDropsTail(c)
          [] k = "too-many-positional-keywords-positional-only" -> Dev_KeywordForPositionalOnly(c)
          [] k = "unused-ignore-removal-leaves-text" -> Dev_IgnoreRemovalLeavesText(c)
          [] k = "unused-ignore-removal-edits-string" -> Dev_IgnoreRemovalInString(c)}
ClausesOf(k) ==
    CASE k = "use-fstrings-drops-zero-precision" -> {"OnlyIntendedChange"}
      [] k = "unused-removal-drops-call" -> {"OnlyIntendedChange"}
      [] k = "unused-removal-deletes-other-binding" -> {"OnlyIntendedChange", "NoNewDiagnosticKind"}
      [] k = "missing-f-on-part-of-fstring" -> {"StillParses", "ProposingDiagnosticGone"}
      [] k = "use-fstrings-drops-text-before-final-newline" -> {"OnlyIntendedChange"}
      [] k = "too-many-positional-keywords-positional-only" -> {"OnlyIntendedChange", "NoNewDiagnosticKind"}
      [] k = "unused-ignore-removal-leaves-text" -> {"StillParses"}
      [] k = "unused-ignore-removal-edits-string" -> {"OnlyIntendedChange"}

(***************************************************************************)
(* Staged generator                                                        *)
(***************************************************************************)
VARIABLES c, stage
vars == <<c, stage>>
EmptyAssign == [fam |-> "assign", targets |-> << >>, inner |-> "none", rhs |-> "pure"]
Init == c = [fam |-> ""] /\ stage = "fam"
PickFam ==
    /\ stage = "fam"
    /\ \/ c' = EmptyAssign /\ stage' = "targets"
       \/ \E p \in Producers : c' = [fam |-> "table", producer |-> p, shape |-> ""] /\ stage' = "shape"
       \/ \E fl \in PctFlags, w \in PctWidths, pr \in PctPrecs, cv \in PctConvs, tw \in BOOLEAN :
             c' = [fam |-> "pct", flag |-> fl, width |-> w, prec |-> pr, conv |-> cv, two |-> tw] /\ stage' = "done"
AddTarget ==
    /\ stage = "targets" /\ Len(c.targets) < MaxTargets
    /\ \E k \in TargetKinds : c' = [c EXCEPT !.targets = Append(@, k)]
    /\ UNCHANGED stage
EndTargets == stage = "targets" /\ Len(c.targets) >= 1 /\ stage' = "inner" /\ UNCHANGED c
PickInner == stage = "inner" /\ \E x \in {"none", "unused", "used"} : c' = [c EXCEPT !.inner = x] /\ stage' = "rhs"
PickRhs == stage = "rhs" /\ \E x \in {"pure", "effect"} : c' = [c EXCEPT !.rhs = x] /\ stage' = "done"
PickShape == stage = "shape" /\ \E s \in ShapesOf(c.producer) : c' = [c EXCEPT !.shape = s] /\ stage' = "done"
Next == PickFam \/ AddTarget \/ EndTargets \/ PickInner \/ PickRhs \/ PickShape
Done == stage = "done"

(***************************************************************************)
(* Properties                                                              *)
(***************************************************************************)
\* the replacement that gets applied is the intended change, outside the named deviations -- and each case of a
\* deviation class really is not the intended change
AppliedIsIntended == (Done /\ Applied(c)) => (Intended(c) <=> Known(c) = {})
\* strict version, expected to be violated (the deviations are real on the model)
AppliedIsIntendedStrict == (Done /\ Applied(c)) => Intended(c)
=============================================================================
