---------------------------- MODULE CPythonBind ----------------------------
(***************************************************************************)
(* CPython's argument-to-parameter binding (oracle of properties C05/C07). *)
(*                                                                         *)
(* This module contains ONLY the vocabulary of cases and the reference     *)
(* (Ref...) operators.  It is written from the Python language reference,  *)
(* section 6.3.4 "Calls" and section 8.7 "Function definitions", and never *)
(* refers to pyanalyze or to the Impl* operators of Binder.tla.  Every run *)
(* of the harness validates it against real CPython: each observation      *)
(* carries the outcome of really executing the call.                       *)
(*                                                                         *)
(* A signature is a sequence of parameters [kind, name, dflt]:             *)
(*    kind "po" positional-only, "pk" positional-or-keyword, "va" *args,   *)
(*         "ko" keyword-only, "vk" **kwargs;  dflt = has a default.        *)
(* Names are distinct strings; keywords are names.  For C05 the i-th       *)
(* parameter is called Names[i] and "z" is a name that no parameter has.   *)
(*                                                                         *)
(* A call is                                                               *)
(*    f(1, .., pos,  *STAR,  1, .., post,  k1=0, .., **DSTAR)              *)
(*  pos, post : number of plain positional arguments before / after *STAR  *)
(*  star  : [kind |-> "none"]                    no star argument          *)
(*          [kind |-> "lit", n]                  a tuple literal of n ints *)
(*          [kind |-> "list" | "tuple"]          a value typed list[int] / *)
(*                                               tuple[int, ...]           *)
(*  kws   : the plain keywords (sequence of names, ascending)              *)
(*  dstar : "none" | "lit" (dict literal with the keys dkeys) |            *)
(*          "dict" (a value typed dict[str, int])                          *)
(***************************************************************************)
EXTENDS Naturals, Sequences, FiniteSets

Names == <<"a", "b", "c", "d", "e", "f">>
Extra == "z"
AllNames == Names \o <<Extra>>
ToSet(s) == {s[j] : j \in 1..Len(s)}
NameSeq(S) == SelectSeq(AllNames, LAMBDA x : x \in S)       \* a set of names as ascending sequence

ParamKinds == {"po", "pk", "va", "ko", "vk"}
KindRank(k) == CASE k = "po" -> 1 [] k = "pk" -> 2 [] k = "va" -> 3 [] k = "ko" -> 4 [] k = "vk" -> 5

(***************************************************************************)
(* Which parameter lists are function definitions at all (8.7): kinds in   *)
(* the order po* pk* va? ko* vk?, no parameter without default after a     *)
(* positional parameter with default; *args / **kwargs have no default.    *)
(* (The real `def` is compiled by CPython in every run: a SyntaxError is a *)
(* machinery error.)                                                       *)
(***************************************************************************)
ValidSig(sig) ==
    /\ \A i \in 1..(Len(sig) - 1) : KindRank(sig[i].kind) <= KindRank(sig[i + 1].kind)
    /\ Cardinality({i \in DOMAIN sig : sig[i].kind = "va"}) <= 1
    /\ Cardinality({i \in DOMAIN sig : sig[i].kind = "vk"}) <= 1
    /\ \A i \in DOMAIN sig : sig[i].kind \in {"va", "vk"} => ~sig[i].dflt
    /\ \A i, j \in DOMAIN sig : i # j => sig[i].name # sig[j].name
    /\ \A i, j \in DOMAIN sig :
         (i < j /\ sig[i].kind \in {"po", "pk"} /\ sig[j].kind \in {"po", "pk"} /\ sig[i].dflt) => sig[j].dflt

Has(sig, k) == \E i \in DOMAIN sig : sig[i].kind = k

(***************************************************************************)
(* Binding of a CONCRETE call (6.3.4).  cc = [npos, kws, dup]:             *)
(*   npos positional arguments, the set kws of keyword names, dup = some   *)
(*   keyword name was given twice (explicitly and through ** ).            *)
(*                                                                         *)
(* "A list of unfilled slots is created for the formal parameters.  If     *)
(* there are N positional arguments, they are placed in the first N slots  *)
(* [more than there are positional slots: TypeError unless *identifier].   *)
(* Next, for each keyword argument, the identifier is used to determine    *)
(* the corresponding slot.  If the slot is already filled, TypeError.      *)
(* [no such slot: TypeError unless **identifier; positional-only           *)
(* parameters have no keyword slot.]  When all arguments have been         *)
(* processed, the slots that are still unfilled are filled with the        *)
(* default value; if there are unfilled slots for which no default is      *)
(* specified, TypeError."                                                  *)
(***************************************************************************)
PositionalSlots(sig) == {i \in DOMAIN sig : sig[i].kind \in {"po", "pk"}}     \* these are 1..k (ValidSig)
KeywordSlots(sig) == {i \in DOMAIN sig : sig[i].kind \in {"pk", "ko"}}
FilledPositionally(sig, cc) == {i \in PositionalSlots(sig) : i <= cc.npos}
FilledByKeyword(sig, cc) == {i \in KeywordSlots(sig) : sig[i].name \in cc.kws}

RefBinds(sig, cc) ==
    /\ ~cc.dup
    /\ (cc.npos > Cardinality(PositionalSlots(sig)) => Has(sig, "va"))
    /\ FilledPositionally(sig, cc) \cap FilledByKeyword(sig, cc) = {}
    /\ \A k \in cc.kws : (\E i \in KeywordSlots(sig) : sig[i].name = k) \/ Has(sig, "vk")
    /\ \A i \in DOMAIN sig :
         (sig[i].kind \in {"po", "pk", "ko"} /\ ~sig[i].dflt)
            => i \in FilledPositionally(sig, cc) \cup FilledByKeyword(sig, cc)

(***************************************************************************)
(* From a call shape to concrete calls.  A star argument of unknown length *)
(* is expanded to n elements, a ** argument of unknown keys to the key set *)
(* K ("expansion" e = [n, K]).                                             *)
(***************************************************************************)
UnknownStar(call) == call.star.kind \in {"list", "tuple"}
UnknownDstar(call) == call.dstar = "dict"
IsConcrete(call) == ~UnknownStar(call) /\ ~UnknownDstar(call)

Expand(call, e) ==
    [npos |-> call.pos + (IF UnknownStar(call) THEN e.n ELSE IF call.star.kind = "lit" THEN call.star.n ELSE 0)
              + call.post,
     kws |-> ToSet(call.kws) \cup ToSet(call.dkeys) \cup e.K,
     dup |-> ToSet(call.kws) \cap (ToSet(call.dkeys) \cup e.K) # {}]

NoExpansion == [n |-> 0, K |-> {}]

\* the key names a dict[str, int] is expanded over: every name that can matter
ExpNames(c) == {c.sig[i].name : i \in DOMAIN c.sig} \cup ToSet(c.call.kws) \cup {Extra}

Expansions(c, maxexp, nonempty) ==
    LET lo == IF nonempty THEN 1 ELSE 0
        ns == IF UnknownStar(c.call) THEN lo..maxexp ELSE {0}
        Ks == IF UnknownDstar(c.call)
              THEN {S \in SUBSET ExpNames(c) : Cardinality(S) >= lo /\ Cardinality(S) <= maxexp}
              ELSE {{}}
    IN {[n |-> n, K |-> K] : n \in ns, K \in Ks}

(***************************************************************************)
(* What property C05 demands of the verdict `accepted` (no                 *)
(* incompatible_call diagnostic) that a checker gives for case c.          *)
(***************************************************************************)
RefConcreteAgrees(c, accepted) == accepted <=> RefBinds(c.sig, Expand(c.call, NoExpansion))

\* The property enumerates expansions "up to length 4".  A signature with more than 4 required
\* parameters cannot be bound by any expansion that short, so the EXISTENTIAL clause enumerates up to
\* max(maxexp, number of parameters) -- otherwise `def f(a, b, c, d, e): ...; f(*xs)` would count as
\* "accepted although no expansion binds", which is an artefact of the bound, not of the checker.
\* The universal clause (rejected => no non-empty expansion binds) keeps the stated bound.
ExpBound(c, maxexp) == IF Len(c.sig) > maxexp THEN Len(c.sig) ELSE maxexp

RefAcceptSound(c, accepted, maxexp) ==
    accepted => \E e \in Expansions(c, ExpBound(c, maxexp), FALSE) : RefBinds(c.sig, Expand(c.call, e))

RefRejectSound(c, accepted, maxexp) ==
    ~accepted => \A e \in Expansions(c, maxexp, TRUE) : ~RefBinds(c.sig, Expand(c.call, e))
=============================================================================
