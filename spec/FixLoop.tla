------------------------------ MODULE FixLoop ------------------------------
(***************************************************************************)
(* The add-ignores fix loop (property C16, second sentence).               *)
(*                                                                         *)
(* `python -m pyanalyze --add-ignores -r` / check_for_test(apply_changes)  *)
(* repeatedly: checks the file (the Suppression.tla machine), takes the    *)
(* FIRST change that was proposed (node_visitor.py:516                     *)
(* _apply_changes_to_lines) -- with add_ignores every emitted diagnostic   *)
(* proposes "insert `# static analysis: ignore[code]` on a line of its own *)
(* above the offending line" (node_visitor.py:737) -- applies it and       *)
(* starts again, until a run reports nothing.                              *)
(*                                                                         *)
(* State: the current file as a sequence of tracked lines                  *)
(*   [ln |-> abstract line, id |-> original line number (0 if inserted),   *)
(*    tgt |-> <<code, id>> of the diagnostic an inserted comment was added *)
(*    for (<<"", 0>> for original lines)]                                  *)
(* and the iteration counter.                                              *)
(***************************************************************************)
EXTENDS Suppression

Track(ln, k) == [ln |-> ln, id |-> k, tgt |-> <<"", 0>>]
Inserted(code, id) == [ln |-> [kind |-> "own", diags |-> NoDiags, ign |-> code], id |-> 0, tgt |-> <<code, id>>]
Plain(fl) == [k \in 1..Len(fl) |-> fl[k].ln]
AsCase(fl, c) == [c EXCEPT !.lines = Plain(fl)]

\* ---- one complete run of the checker on the current file: fold ImplShow over the raw diagnostics
RECURSIVE ImplFold(_, _, _, _)
ImplFold(c, raw, k, m) ==
    IF k > Len(raw) THEN m
    ELSE ImplFold(c, raw, k + 1, ImplShow(c, m, raw[k].code, raw[k].line, Pinned).ms)

ImplRun(c) ==
    LET m == ImplFold(c, Raw(c), 1, BlankMS)
    IN m.out \o ImplUnusedFrom(c, m.used, 1) \o ImplBare(c)

\* ---- _apply_changes_to_lines: only the first proposed change is applied
ImplFixStep(fl, c) ==
    LET out == ImplRun(AsCase(fl, c))
    IN IF out = << >> THEN fl
       ELSE LET d == out[1]
                L == d.line
            IN SubSeq(fl, 1, L - 1) \o << Inserted(d.code, fl[L].id) >> \o SubSeq(fl, L, Len(fl))

(***************************************************************************)
(* What the property demands of the file the loop ends with                *)
(***************************************************************************)
\* diagnostics of the current file, identified by <<code, original line id>>
DiagIds(fl, c) == {<<d.code, fl[d.line].id>> : d \in RefEnabledRaw(AsCase(fl, c))}

\* the diagnostics a comment on line k suppresses (applies to), by identity
CommentCovers(fl, c, k) ==
    {<<d.code, fl[d.line].id>> : d \in {e \in RefEnabledRaw(AsCase(fl, c)) : RefApplies(AsCase(fl, c), k, e.code, e.line)}}

InsertedLines(fl) == {k \in 1..Len(fl) : fl[k].id = 0}

EachIgnoreTargetsOne(fl, c) == \A k \in InsertedLines(fl) : CommentCovers(fl, c, k) \subseteq {fl[k].tgt}
OnlyCommentsInserted(fl, orig) ==          \* hence the syntax tree is unchanged
    /\ \A k \in InsertedLines(fl) : fl[k].ln.kind = "own"
    /\ SelectSeq(fl, LAMBDA x : x.id # 0) = orig
NothingReported(fl, c) == ImplRun(AsCase(fl, c)) = << >>

(***************************************************************************)
(* Known deviations of the implementation (see known_findings.jsonl).      *)
(* They are precise predicates on the ORIGINAL file, so that any other     *)
(* failure of the same property is still reported.                         *)
(***************************************************************************)
\* (a) two enabled diagnostics on one line that no existing comment suppresses: each inserted
\*     own-line comment displaces the previous one, the loop alternates forever
\*     (an existing own-line comment directly above the line is displaced as well, so only
\*     trailing and file-level comments count as lasting suppressors)
LastingSuppressor(c, k, d) ==
    RefApplies(c, k, d.code, d.line) /\ ~(c.lines[k].kind = "own" /\ k + 1 = d.line /\ ~RefLeading(c, k))
NeedOwnLine(c, L) == {d \in RefEnabledRaw(c) : d.line = L /\ ~\E k \in 1..Len(c.lines) : LastingSuppressor(c, k, d)}
Dev_TwoCodesOneLine(c) == \E L \in 1..Len(c.lines) : Cardinality(NeedOwnLine(c, L)) >= 2

\* (b) a diagnostic on a line that is only preceded by comment lines: the inserted
\*     `ignore[code]` lands in the leading comment block and acts as a file-level ignore
Dev_InsertIntoLeadingBlock(c) ==
    \E d \in RefReported(c) : \A j \in 1..(d.line - 1) : c.lines[j].kind \in {"own", "comment"}

\* (c) the meta codes are never suppressible by an own-line comment (show_error is called with
\*     obey_ignore=False for them), so once a run reports unused_ignore / bare_ignore first, the
\*     loop inserts a comment for it forever
Dev_MetaStuck(fl_, c) ==
    LET out == ImplRun(AsCase(fl_, c))
    IN out # << >> /\ out[1].code \in {"unused_ignore", "bare_ignore"}

(***************************************************************************)
(* The loop as a state machine (generator stages of Suppression reused)    *)
(***************************************************************************)
CONSTANTS MaxIter, MetaChoices

VARIABLES fl, iter, orig
fvars == <<case, pc, i, ms, fl, iter, orig>>

FInit == Init /\ fl = << >> /\ iter = 0 /\ orig = << >>

FAddLine == AddLine /\ UNCHANGED <<fl, iter, orig>>

FChoose ==
    /\ pc = "lines" /\ Len(case.lines) >= 1
    /\ \E dis \in SUBSET Codes, u \in MetaChoices, b \in MetaChoices :
         case' = [case EXCEPT !.disabled = dis, !.unused_on = u, !.bare_on = b]
    /\ fl' = [k \in 1..Len(case.lines) |-> Track(case.lines[k], k)]
    /\ orig' = fl'
    /\ pc' = "loop" /\ iter' = 0 /\ UNCHANGED <<i, ms>>

Iterate ==
    /\ pc = "loop" /\ iter < MaxIter
    /\ ~NothingReported(fl, case)
    /\ fl' = ImplFixStep(fl, case)
    /\ iter' = iter + 1
    /\ UNCHANGED <<case, pc, i, ms, orig>>

Fixpoint ==
    /\ pc = "loop" /\ NothingReported(fl, case)
    /\ pc' = "fixed" /\ UNCHANGED <<case, i, ms, fl, iter, orig>>

GiveUp ==
    /\ pc = "loop" /\ iter = MaxIter /\ ~NothingReported(fl, case)
    /\ pc' = "diverged" /\ UNCHANGED <<case, i, ms, fl, iter, orig>>

FNext == FAddLine \/ FChoose \/ Iterate \/ Fixpoint \/ GiveUp

(***************************************************************************)
(* Properties (each holds outside the known deviations)                    *)
(***************************************************************************)
Converges == pc = "diverged" => (Dev_TwoCodesOneLine(case) \/ Dev_MetaStuck(fl, case))
TargetsOne == pc = "fixed" => (EachIgnoreTargetsOne(fl, case) \/ Dev_InsertIntoLeadingBlock(case))
TreeUnchanged == pc \in {"loop", "fixed", "diverged"} => OnlyCommentsInserted(fl, orig)
\* strict versions, expected to be violated (sensitivity / documentation of the findings)
ConvergesStrict == pc # "diverged"
TargetsOneStrict == pc = "fixed" => EachIgnoreTargetsOne(fl, case)
=============================================================================
