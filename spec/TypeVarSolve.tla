---------------------------- MODULE TypeVarSolve ----------------------------
(***************************************************************************)
(* Type-variable solving (property C15).                                   *)
(*                                                                         *)
(* Two families of cases, selected by the constant Mode:                   *)
(*                                                                         *)
(*  "raw"   a multiset of bounds on ONE type variable (LowerBound,          *)
(*          UpperBound, IsOneOf, OrBound objects of pyanalyze.value) that  *)
(*          pyanalyze.typevar.resolve_bounds_map folds left to right.  The *)
(*          fold is a state machine (bottom, top, options): one action per *)
(*          branch of typevar.solve; TLC's interleavings of the Fold*      *)
(*          actions ARE the permutations of the multiset.                  *)
(*                                                                         *)
(*  "call"  a call of a generic function: a declaration of T (plain,       *)
(*          bound=int, constraints), a multiset of parameters (T, list[T], *)
(*          Callable[[T], None], Callable[[T], U], dict[T, U], U) with one *)
(*          literal argument each, bound in every order.  Impl transcribes *)
(*          Signature.check_call_with_bound_args: pass 1 generates bounds  *)
(*          (value.py can_assign), the solver runs per type variable, pass *)
(*          2 re-checks every argument against the substituted annotation. *)
(*                                                                         *)
(* Impl* operators transcribe pyanalyze (file:line in comments, as of       *)
(* /repo commit 3df1c33).  Ref* operators are the meaning of the           *)
(* property, written over DENOTATIONS:                                     *)
(* a static value denotes a set of runtime atoms, Any is gradual; they     *)
(* never mention bottom/top/fold/can_assign.  Every operator takes the     *)
(* case (or its parts) as a parameter, so that TypeVarSolveTrace.tla       *)
(* applies the same definitions to observations of the real code.          *)
(***************************************************************************)
EXTENDS Naturals, Sequences, FiniteSets, TLC

(***************************************************************************)
(* Catalogues the configurations choose from (CONSTANT X <- Name)          *)
(***************************************************************************)
ValsFull == << <<"Any">>, <<"L1">>, <<"LT">>, <<"La">>, <<"int">>, <<"bool">>, <<"float">>, <<"str">>,
               <<"object">>, <<"int", "str">>, <<"L1", "La">>, << >> >>
ValsSmall == << <<"Any">>, <<"LT">>, <<"int">>, <<"bool">>, <<"str">>, <<"int", "str">> >>
OneOfsFull == << << <<"int">>, <<"str">> >>, << <<"int">>, <<"float">> >>, << <<"bool">>, <<"int">>, <<"object">> >> >>
OneOfsSmall == << << <<"int">>, <<"str">> >> >>
OrsFull == << [k |-> "RL", v |-> << >>, vs |-> << <<"L1">>, <<"La">> >>],
              [k |-> "RU", v |-> << >>, vs |-> << <<"int">>, <<"str">> >>] >>
NoOrs == << >>
P(f, a) == [f |-> f, a |-> a]
ParamsFull == << P("x", "1"), P("x", "T"), P("x", "a"), P("x", "f"),
                 P("lst", "1"), P("lst", "1a"), P("lst", "T1"),
                 P("cb", "int"), P("cb", "str"), P("cb", "bool"), P("cb", "float"), P("cb", "object"),
                 P("cb", "Any"), P("cb", "intstr"),
                 P("map", "int_str"), P("map", "bool_int"), P("map", "Any_int"), P("map", "str_str"),
                 P("map", "object_bool"),
                 P("dct", "1a"), P("dct", "aT"),
                 P("xu", "1"), P("xu", "a") >>
ParamsSmall == << P("x", "1"), P("x", "a"), P("lst", "1a"), P("cb", "int"), P("cb", "str"), P("cb", "Any"),
                  P("map", "int_str"), P("dct", "1a"), P("xu", "a") >>
\* the smallest catalogues on which every action of the machine still fires (quick-tier coverage runs)
ValsCov == << <<"Any">>, <<"LT">>, <<"int">>, <<"str">>, << >> >>
ParamsCov == << P("x", "1"), P("x", "a"), P("lst", "1a"), P("cb", "int"), P("cb", "str"), P("map", "int_str") >>
DeclsFull == <<"plain", "bint", "cis", "cif">>
NoVals == << >>

CONSTANTS
    Mode,        \* "raw" | "call" | "both" (two initial states; used by the coverage runs)
    ValSeq,      \* raw: sequence of static values used in Lower/Upper bounds
    OneOfSeq,    \* raw: sequence of constraint lists (IsOneOf)
    OrSeq,       \* raw: sequence of OrBound records
    MaxBounds,   \* raw: size of the multiset
    ParamSeq,    \* call: sequence of [f, a] parameter kinds
    DeclSeq,     \* call: sequence of declarations of T
    MaxParams,   \* call: number of parameters
    MinSize,     \* smallest multiset that is a case (0 in the exhaustive runs; simulation runs use it to
                 \* reach the large multisets instead of stopping early with probability 1/2 per step)
    Bug          \* "none"; sensitivity self-tests: "skip_final_check", "no_second_pass"

(***************************************************************************)
(* Static values.  A value is a sequence of distinct SIMPLE names; a       *)
(* sequence of length 1 is the simple value itself, a longer one is a      *)
(* union (MultiValuedValue, order = order of .vals), << >> is Never.       *)
(*   "Any"                           AnyValue (any source)                 *)
(*   "L1" "LT" "La" "Lf"             KnownValue(1) / (True) / ("a") / (1.5)*)
(*   "int" "bool" "float" "str" "object"   TypedValue(cls)                 *)
(* Anything else the codec meets is "other:<text>" (equal to nothing).     *)
(***************************************************************************)
AnyV == <<"Any">>
NeverV == << >>
Range(s) == {s[i] : i \in DOMAIN s}
KnownSimples == {"L1", "LT", "La", "Lf"}
ClsOf(s) ==
    CASE s = "L1" -> "int" [] s = "LT" -> "bool" [] s = "La" -> "str" [] s = "Lf" -> "float" [] OTHER -> s

\* bounds: k = "L" LowerBound(T, v) | "U" UpperBound(T, v) | "O" IsOneOf(T, vs)
\*         | "RL" OrBound(((LowerBound(T, vs[1]),), (LowerBound(T, vs[2]),), ...)) | "RU" same with UpperBound
Lb(v) == [k |-> "L", v |-> v, vs |-> << >>]
Ub(v) == [k |-> "U", v |-> v, vs |-> << >>]
Ob(vs) == [k |-> "O", v |-> << >>, vs |-> vs]
OrL(vs) == [k |-> "RL", v |-> << >>, vs |-> vs]
OrU(vs) == [k |-> "RU", v |-> << >>, vs |-> vs]

PermSeq(s, ord) == [j \in 1..Len(ord) |-> s[ord[j]]]

(***************************************************************************)
(* Impl, part 1: assignability and union on the value fragment             *)
(***************************************************************************)
\* type_object.py:78-89 TypeObject.__post_init__: base_classes = MRO plus the artificial bases
\* (int and its subclasses are given float; complex is outside the universe)
ImplBases(c) ==
    CASE c = "int" -> {"int", "float", "object"}
      [] c = "bool" -> {"bool", "int", "float", "object"}
      [] c = "float" -> {"float", "object"}
      [] c = "str" -> {"str", "object"}
      [] c = "object" -> {"object"}
      [] OTHER -> {c}

\* l.can_assign(r) for two non-union values
ImplAssignSimple(l, r) ==
    IF r = "Any" THEN TRUE                       \* value.py:101-103 Value.can_assign (other is AnyValue); :427 AnyValue
    ELSE IF l = "Any" THEN TRUE                  \* value.py:424-427 AnyValue.can_assign: always allowed
    ELSE IF l \in KnownSimples THEN l = r        \* value.py:582-593 KnownValue: same type and equal; :126 self == other
    ELSE ClsOf(l) \in ImplBases(ClsOf(r))        \* value.py:819-834 TypedValue -> type_object.py:135-140 base_classes

\* MultiValuedValue.can_assign(simple r), value.py:2006-2030: Any is accepted, else some member accepts
ImplUnionAcceptsSimple(L, r) == r = "Any" \/ \E j \in DOMAIN L : ImplAssignSimple(L[j], r)

\* L.can_assign(R) for values.  A union (or Never) on the right is accepted iff every member is
\* (value.py:104-116 for a non-union left, :1993-2005 for a union left; Never: :107, :1994).
ImplCanAssign(L, R) ==
    IF Len(L) = 1 THEN \A i \in DOMAIN R : ImplAssignSimple(L[1], R[i])
    ELSE \A i \in DOMAIN R : ImplUnionAcceptsSimple(L, R[i])

\* unite_values(A, B), value.py:2875-2919: flatten, drop repeats keeping the first occurrence
RECURSIVE AppendNew(_, _)
AppendNew(acc, s) ==
    IF s = << >> THEN acc
    ELSE AppendNew(IF \E j \in DOMAIN acc : acc[j] = Head(s) THEN acc ELSE Append(acc, Head(s)), Tail(s))
ImplUnite(A, B) == AppendNew(AppendNew(<< >>, A), B)
\* typevar.py:43 tuple(dict.fromkeys(bounds)): first occurrences, in order
Dedup(seq) == AppendNew(<< >>, seq)

(***************************************************************************)
(* Impl, part 2: typevar.solve (typevar.py:81-160) as a fold machine       *)
(***************************************************************************)
\* bset/tset = FALSE stand for the BOTTOM / TOP markers, oset = FALSE for options = None
St0 == [bset |-> FALSE, bot |-> NeverV, tset |-> FALSE, top |-> NeverV, oset |-> FALSE, opts |-> << >>]

\* which branch of the loop body a bound takes
ImplBranch(st, b) ==
    CASE b.k = "L" ->
            IF b.v = AnyV /\ st.bset THEN "LSkipAny"                                   \* typevar.py:91-92
            ELSE IF ~st.bset \/ ImplCanAssign(b.v, st.bot) THEN "LAdopt"               \* :93-95
            ELSE IF ImplCanAssign(st.bot, b.v) THEN "LKeep"                            \* :96-98
            ELSE "LUnite"                                                               \* :99-102
      [] b.k = "U" ->
            IF ~st.tset \/ ImplCanAssign(st.top, b.v) THEN "UAdopt"                    \* :104-105
            ELSE IF ImplCanAssign(b.v, st.top) THEN "UKeep"                            \* :106-107
            ELSE "UUnite"                                                               \* :108-109
      [] b.k = "O" -> "OneOf"                                                           \* :113-114
      [] OTHER -> "OrSkip"                                                              \* :110-112 (OrBound: continue)

ImplStep(st, b) ==
    LET br == ImplBranch(st, b)
    IN CASE br = "LAdopt" -> [st EXCEPT !.bset = TRUE, !.bot = b.v]
         [] br = "LUnite" -> [st EXCEPT !.bot = ImplUnite(st.bot, b.v)]
         [] br = "UAdopt" -> [st EXCEPT !.tset = TRUE, !.top = b.v]
         [] br = "UUnite" -> [st EXCEPT !.top = ImplUnite(st.top, b.v)]
         [] br = "OneOf"  -> [st EXCEPT !.oset = TRUE, !.opts = b.vs]
         [] OTHER -> st                                       \* LSkipAny, LKeep, UKeep, OrSkip

Ok(v) == [verdict |-> "ok", sol |-> v]
\* resolve_bounds_map (typevar.py:49-51) replaces a CanAssignError by AnyValue(AnySource.error)
Err == [verdict |-> "error", sol |-> AnyV]

\* typevar.py:118-137
ImplFinishBranch(st) ==
    IF ~st.bset THEN (IF ~st.tset THEN "FinNone" ELSE "FinTop")
    ELSE IF ~st.tset THEN "FinBot"
    ELSE IF ~ImplCanAssign(st.top, st.bot) /\ Bug # "skip_final_check" THEN "FinIncompat"
    ELSE "FinBoth"
ImplFinish(st) ==
    LET br == ImplFinishBranch(st)
    IN CASE br = "FinNone" -> Ok(AnyV)          \* :120 AnyValue(AnySource.generic_argument)
         [] br = "FinTop" -> Ok(st.top)         \* :122
         [] br = "FinBot" -> Ok(st.bot)         \* :124
         [] br = "FinIncompat" -> Err           \* :126-136
         [] OTHER -> Ok(st.bot)                 \* :137

\* remove_redundant_solutions (typevar.py:163-180): solution i is dropped when it accepts another
\* not-yet-dropped solution that does not accept it back; the list is updated in place, in order.
RECURSIVE ImplRedundant(_, _, _)
ImplRedundant(sols, i, removed) ==
    IF i > Len(sols) THEN removed
    ELSE LET kill == \E j \in DOMAIN sols :
                        /\ j # i /\ j \notin removed
                        /\ ImplCanAssign(sols[i], sols[j]) /\ ~ImplCanAssign(sols[j], sols[i])
         IN ImplRedundant(sols, i + 1, IF kill THEN removed \cup {i} ELSE removed)
RECURSIVE KeepIdx(_, _, _)
KeepIdx(s, i, drop) ==
    IF i > Len(s) THEN << >> ELSE (IF i \in drop THEN << >> ELSE <<s[i]>>) \o KeepIdx(s, i + 1, drop)
ImplRemoveRedundant(sols) == KeepIdx(sols, 1, ImplRedundant(sols, 1, {}))

\* typevar.py:139-160, r = the result of ImplFinish (an "ok" result)
ImplAvailable(st, sol) == SelectSeq(st.opts, LAMBDA o : ImplCanAssign(o, sol))      \* :140-147
ImplOptBranch(st, r) ==
    IF ~st.oset THEN "OptNone"                                                        \* :160
    ELSE LET av == ImplAvailable(st, r.sol)
         IN IF av = << >> THEN "OptAllFail"                                           \* :141-142
            ELSE IF Len(av) = 1 THEN "OptSingle"                                      \* :149-150
            ELSE IF r.sol = AnyV THEN "OptKeepAny"                                    \* :153-154
            ELSE IF Len(ImplRemoveRedundant(av)) = 1 THEN "OptRedundant"              \* :155-157
            ELSE "OptFallback"                                                        \* :159
ImplOptions(st, r) ==
    LET br == ImplOptBranch(st, r)
        av == ImplAvailable(st, r.sol)
    IN CASE br = "OptNone" -> r
         [] br = "OptAllFail" -> Err
         [] br = "OptSingle" -> Ok(av[1])
         [] br = "OptKeepAny" -> r
         [] br = "OptRedundant" -> Ok(ImplRemoveRedundant(av)[1])
         [] OTHER -> Ok(AnyV)                     \* AnyValue(AnySource.inference)

\* the same algorithm as one operator (used by the trace specification, the call model and the
\* order-independence invariant): resolve_bounds_map first removes repeated bounds
\* (typevar.py:43 dict.fromkeys), then solve folds the rest in order.
RECURSIVE ImplFold(_, _)
ImplFold(st, seq) == IF seq = << >> THEN st ELSE ImplFold(ImplStep(st, Head(seq)), Tail(seq))
ImplSolveSeq(seq) ==
    LET st == ImplFold(St0, Dedup(seq))
        r == ImplFinish(st)
    IN IF r.verdict = "error" THEN r ELSE ImplOptions(st, r)
\* intermediate states as the proposed SolveStep hook reports them: the hook sits at the end of the loop
\* body, which the two `continue` branches (typevar.py:92, :112) do not reach
RECURSIVE ImplFoldStates(_, _)
ImplFoldStates(st, seq) ==
    IF seq = << >> THEN << >>
    ELSE LET s2 == ImplStep(st, Head(seq))
         IN (IF ImplBranch(st, Head(seq)) \in {"LSkipAny", "OrSkip"} THEN << >> ELSE <<s2>>) \o ImplFoldStates(s2, Tail(seq))

(***************************************************************************)
(* Ref: denotational meaning of the bounds                                 *)
(***************************************************************************)
Atoms == {"o1", "o2", "oT", "oF", "f1", "f2", "sa", "sb", "ob"}
DenSimple(s) ==
    CASE s = "L1" -> {"o1"} [] s = "LT" -> {"oT"} [] s = "La" -> {"sa"} [] s = "Lf" -> {"f1"}
      [] s = "bool" -> {"oT", "oF"}
      [] s = "int" -> {"o1", "o2", "oT", "oF"}
      [] s = "float" -> {"o1", "o2", "oT", "oF", "f1", "f2"}      \* typing spec: int is acceptable where float is
      [] s = "str" -> {"sa", "sb"}
      [] s = "object" -> Atoms
      [] OTHER -> {}
Gradual(v) == \E i \in DOMAIN v : v[i] = "Any"
Den(v) == UNION {DenSimple(v[i]) : i \in DOMAIN v}
\* consistent subtyping: Any is compatible in both directions
RefSub(a, b) == Gradual(a) \/ Gradual(b) \/ Den(a) \subseteq Den(b)

\* does the chosen value S satisfy bound b ?
RefSatBound(S, b) ==
    CASE b.k = "L" -> RefSub(b.v, S)                                       \* S accepts the lower bound
      [] b.k = "U" -> RefSub(S, b.v)                                       \* S is accepted by the upper bound
      [] b.k = "O" -> Gradual(S) \/ \E i \in DOMAIN b.vs : Den(S) = Den(b.vs[i])   \* S is one of the constraints
      [] b.k = "RL" -> \E i \in DOMAIN b.vs : RefSub(b.vs[i], S)
      [] b.k = "RU" -> \E i \in DOMAIN b.vs : RefSub(S, b.vs[i])
GradualInput(bounds) ==
    \E i \in DOMAIN bounds : Gradual(bounds[i].v) \/ \E j \in DOMAIN bounds[i].vs : Gradual(bounds[i].vs[j])
RefSat(S, bounds) == \A i \in DOMAIN bounds : RefSatBound(S, bounds[i])

\* is there any set of atoms D (a non-gradual value) that satisfies every non-gradual bound ?
\* Written set-theoretically: the union of the lower bounds must fit below the intersection of the
\* upper bounds, through one of the constraints when there are constraints, for some choice of one
\* alternative per OrBound.
NonGradualVals(bounds, kind) == {bounds[i].v : i \in {j \in DOMAIN bounds : bounds[j].k = kind /\ ~Gradual(bounds[j].v)}}
OrIdx(bounds) == {i \in DOMAIN bounds : bounds[i].k \in {"RL", "RU"}}
RefExists(bounds) ==
    \E choice \in [OrIdx(bounds) -> 1..8] :
        /\ \A i \in OrIdx(bounds) : choice[i] \in DOMAIN bounds[i].vs
        /\ LET picked(kind) == {bounds[i].vs[choice[i]] : i \in {j \in OrIdx(bounds) : bounds[j].k = kind}}
               lows == UNION {Den(v) : v \in NonGradualVals(bounds, "L") \cup {w \in picked("RL") : ~Gradual(w)}}
               upvals == NonGradualVals(bounds, "U") \cup {w \in picked("RU") : ~Gradual(w)}
               fits(D) == lows \subseteq D /\ \A u \in upvals : D \subseteq Den(u)
               oneofs == {i \in DOMAIN bounds : bounds[i].k = "O"}
           IN IF oneofs = {} THEN fits(lows)
              ELSE LET i0 == CHOOSE i \in oneofs : TRUE
                   IN \E j0 \in DOMAIN bounds[i0].vs :
                        LET D == Den(bounds[i0].vs[j0])
                        IN fits(D) /\ \A i \in oneofs : \E j \in DOMAIN bounds[i].vs : D = Den(bounds[i].vs[j])

(***************************************************************************)
(* Known deviations of typevar.solve on the RAW bound API (findings).      *)
(* Each predicate says which violated bound, at position i of the order    *)
(* seq in which the bounds were folded, is explained by the class; any     *)
(* other violated bound is a violation.                                    *)
(***************************************************************************)
Incomparable(a, b) == ~Gradual(a) /\ ~Gradual(b) /\ ~(Den(a) \subseteq Den(b)) /\ ~(Den(b) \subseteq Den(a))

\* (a) typevar.py:108-109: two upper bounds neither of which contains the other are replaced by
\*     their UNION ("TODO shouldn't this use intersection?"), which neither of them accepts
Dev_UpperBoundsUnited(seq, i) ==
    seq[i].k = "U" /\ \E j \in DOMAIN seq : seq[j].k = "U" /\ Incomparable(seq[i].v, seq[j].v)

\* (b) typevar.py:104-105: every value "is assignable" to and from Any, so an upper bound Any
\*     REPLACES the upper bounds folded before it, and is itself replaced by the next one
Dev_AnyUpperBoundResetsTop(seq, i) ==
    seq[i].k = "U" /\ ~Gradual(seq[i].v) /\ \E j \in DOMAIN seq : j > i /\ seq[j] = Ub(AnyV)

\* (c) typevar.py:110-112: an OrBound is skipped ("TODO figure out how to handle this")
Dev_OrBoundIgnored(seq, i) == seq[i].k \in {"RL", "RU"}

\* (d) typevar.py:139-157: the constraint is chosen by "accepts the solution" only; the chosen
\*     constraint S is never compared with the upper bounds
Dev_ConstraintIgnoresUpperBound(seq, i, S) ==
    seq[i].k = "U" /\ \E j \in DOMAIN seq : seq[j].k = "O" /\ \E n \in DOMAIN seq[j].vs : Den(S) = Den(seq[j].vs[n])

\* class key of the deviation that explains why bound i of seq is not satisfied by S ("" = none)
DevClass(seq, i, S) ==
    IF Dev_OrBoundIgnored(seq, i) THEN "orbound-ignored"
    ELSE IF Dev_AnyUpperBoundResetsTop(seq, i) THEN "any-upper-bound-resets-top"
    ELSE IF Dev_UpperBoundsUnited(seq, i) THEN "unrelated-upper-bounds-united"
    ELSE IF Dev_ConstraintIgnoresUpperBound(seq, i, S) THEN "constraint-choice-ignores-upper-bound"
    ELSE ""

\* (d'), same cause: several constraints accept the solution (typevar.py:158-159) or the solution is
\*     Any (:153-154) and Any is returned, although no constraint lies below the upper bounds.  Only
\*     multisets that are satisfiable once their upper bounds are dropped are explained by this.
WithoutUppers(bounds) == SelectSeq(bounds, LAMBDA b : b.k \notin {"U", "RU"})
Dev_AnyDespiteUpperBound(bounds, S) ==
    Gradual(S) /\ (\E j \in DOMAIN bounds : bounds[j].k = "O") /\ RefExists(WithoutUppers(bounds))

\* the verdict can only depend on the order through (b) ...
Dev_OrderAnyUpper(bounds) ==
    \E i, j \in DOMAIN bounds : bounds[i] = Ub(AnyV) /\ bounds[j].k = "U" /\ ~Gradual(bounds[j].v)
\* ... or through (a): a union of unrelated upper bounds accepts, and is accepted by, other values than
\* their intersection, so what a third upper bound does to it depends on when it arrives
Dev_OrderUppersUnited(bounds) == \E i \in DOMAIN bounds : Dev_UpperBoundsUnited(bounds, i)
DevOrderClass(bounds) ==
    IF Dev_OrderAnyUpper(bounds) THEN "any-upper-bound-resets-top"
    ELSE IF Dev_OrderUppersUnited(bounds) THEN "unrelated-upper-bounds-united"
    ELSE ""

(***************************************************************************)
(* Impl, part 3: a call of a generic function                              *)
(*   def f(p1: A1, ..., pn: An) -> tuple[T, U]                             *)
(* A parameter is [f |-> form, a |-> argument]:                            *)
(*   "x"   p: T                   a \in "1" "T" "a" "f"   (1, True, "a", 1.5) *)
(*   "lst" p: list[T]             a \in "1" "1a" "T1"     ([1], [1,"a"], [True,1]) *)
(*   "cb"  p: Callable[[T], None] a = name of the parameter type of the    *)
(*                                function passed ("intstr" = int | str)   *)
(*   "map" p: Callable[[T], U]    a = "<param>_<return>" of the function   *)
(*   "dct" p: dict[T, U]          a \in "1a" "aT"         ({1: "a"}, {"a": True}) *)
(*   "xu"  p: U                   a as for "x"                             *)
(* decl: "plain" | "bint" (bound=int) | "cis" (int, str) | "cif" (int, float) *)
(***************************************************************************)
ObjLit(a) == CASE a = "1" -> <<"L1">> [] a = "T" -> <<"LT">> [] a = "a" -> <<"La">> [] a = "f" -> <<"Lf">>
ListElems(a) == CASE a = "1" -> <<"L1">> [] a = "1a" -> <<"L1", "La">> [] a = "T1" -> <<"LT", "L1">>
TypeNamed(n) == IF n = "intstr" THEN <<"int", "str">> ELSE <<n>>
MapParam(a) == CASE a = "int_str" -> <<"int">> [] a = "bool_int" -> <<"bool">> [] a = "Any_int" -> AnyV
                 [] a = "str_str" -> <<"str">> [] a = "object_bool" -> <<"object">>
MapRet(a) == CASE a = "int_str" -> <<"str">> [] a = "bool_int" -> <<"int">> [] a = "Any_int" -> <<"int">>
               [] a = "str_str" -> <<"str">> [] a = "object_bool" -> <<"bool">>
DictKey(a) == CASE a = "1a" -> <<"L1">> [] a = "aT" -> <<"La">>
DictVal(a) == CASE a = "1a" -> <<"La">> [] a = "aT" -> <<"LT">>

\* TypeVarValue.get_inherent_bounds (value.py:2186-2190); U is always undeclared
ImplInherent(decl, tv) ==
    IF tv # "T" THEN << >>
    ELSE CASE decl = "bint" -> << Ub(<<"int">>) >>
           [] decl = "cis" -> << Ob(<< <<"int">>, <<"str">> >>) >>
           [] decl = "cif" -> << Ob(<< <<"int">>, <<"float">> >>) >>
           [] OTHER -> << >>
\* TypeVarValue.get_fallback_value (value.py:2224-2229)
ImplFallback(decl) ==
    CASE decl = "bint" -> <<"int">>
      [] decl = "cis" -> ImplUnite(<<"int">>, <<"str">>)
      [] decl = "cif" -> ImplUnite(<<"int">>, <<"float">>)
      [] OTHER -> AnyV

\* The type of the callback's own parameter is asked to accept the TypeVarValue:
\*   AnyValue.can_assign -> {} (value.py:424-427): no bound;
\*   MultiValuedValue.can_assign replaces the type variable by its fallback value (value.py:1991-1992): no bound;
\*   TypedValue / KnownValue reach Value.can_assign -> TypeVarValue.can_be_assigned (value.py:117-118, :2206-2213):
\*   UpperBound + inherent bounds.
ImplUpperFrom(decl, ptype) ==
    IF Len(ptype) = 1 /\ ptype # AnyV THEN << Ub(ptype) >> \o ImplInherent(decl, "T") ELSE << >>

\* bounds that matching ONE argument against its parameter annotation yields for type variable tv,
\* in the order the code appends them (pass 1: signature.py:1254-1266 -> _check_param_type_compatibility
\* :627-674 -> annotation.can_assign(argument))
ImplParamBounds(decl, p, tv) ==
    CASE p.f = "x" ->       \* TypeVarValue.can_assign, value.py:2192-2199: [LowerBound, *inherent]
            IF tv = "T" THEN << Lb(ObjLit(p.a)) >> \o ImplInherent(decl, "T") ELSE << >>
      [] p.f = "lst" ->     \* GenericValue.can_assign value.py:1042-1064: the list display's one generic
                            \* argument is the union of its members (SequenceValue.__init__ :1177)
            IF tv = "T" THEN << Lb(ListElems(p.a)) >> \o ImplInherent(decl, "T") ELSE << >>
      [] p.f = "cb" ->      \* CallableValue.can_assign value.py:1763 -> Signature.can_assign signature.py:1507-1520
            IF tv = "T" THEN ImplUpperFrom(decl, TypeNamed(p.a)) ELSE << >>
      [] p.f = "map" ->     \* return annotation first (signature.py:1473-1479), then the parameter
            IF tv = "T" THEN ImplUpperFrom(decl, MapParam(p.a)) ELSE << Lb(MapRet(p.a)) >>
      [] p.f = "dct" ->     \* GenericValue.can_assign, one generic argument per type variable
            IF tv = "T" THEN << Lb(DictKey(p.a)) >> \o ImplInherent(decl, "T") ELSE << Lb(DictVal(p.a)) >>
      [] p.f = "xu" ->
            IF tv = "T" THEN << >> ELSE << Lb(ObjLit(p.a)) >>

\* pass 1 fails for a parameter when TypeVarValue.make_bounds_map (value.py:2215-2222) cannot solve the
\* bounds of that single match, or when a union-typed callback parameter rejects the fallback value
ImplParamTypeOfCallback(p) == IF p.f = "cb" THEN TypeNamed(p.a) ELSE IF p.f = "map" THEN MapParam(p.a) ELSE AnyV
ImplP1Fails(decl, p) ==
    \/ \E tv \in {"T", "U"} :
          ImplParamBounds(decl, p, tv) # << >> /\ ImplSolveSeq(ImplParamBounds(decl, p, tv)).verdict = "error"
    \/ Len(ImplParamTypeOfCallback(p)) > 1 /\ ~ImplCanAssign(ImplParamTypeOfCallback(p), ImplFallback(decl))

\* unify_bounds_maps (value.py:2786-2791): concatenation in parameter order
RECURSIVE ImplCallBounds(_, _, _)
ImplCallBounds(decl, ps, tv) ==
    IF ps = << >> THEN << >> ELSE ImplParamBounds(decl, Head(ps), tv) \o ImplCallBounds(decl, Tail(ps), tv)

\* pass 2 (signature.py:1287-1297): the argument against the annotation with the solutions substituted
ImplParamAccepts(p, sT, sU) ==
    CASE p.f = "x" -> ImplCanAssign(sT, ObjLit(p.a))
      [] p.f = "lst" -> ImplCanAssign(sT, ListElems(p.a))
      [] p.f = "cb" -> ImplCanAssign(TypeNamed(p.a), sT)
      [] p.f = "map" -> ImplCanAssign(sU, MapRet(p.a)) /\ ImplCanAssign(MapParam(p.a), sT)
      [] p.f = "dct" -> ImplCanAssign(sT, DictKey(p.a)) /\ ImplCanAssign(sU, DictVal(p.a))
      [] p.f = "xu" -> ImplCanAssign(sU, ObjLit(p.a))

CallRes(verdict, phase, sT, sU) == [verdict |-> verdict, phase |-> phase, sols |-> <<sT, sU>>]
ImplCall(decl, ps) ==
    IF \E i \in DOMAIN ps : ImplP1Fails(decl, ps[i]) THEN CallRes("diag", "p1", AnyV, AnyV)      \* signature.py:1263-1264
    ELSE LET rT == ImplSolveSeq(ImplCallBounds(decl, ps, "T"))
             rU == ImplSolveSeq(ImplCallBounds(decl, ps, "U"))
         IN IF rT.verdict = "error" \/ rU.verdict = "error"
            THEN CallRes("diag", "solve", AnyV, AnyV)                                              \* :1272-1278
            ELSE IF Bug # "no_second_pass" /\ \E i \in DOMAIN ps : ~ImplParamAccepts(ps[i], rT.sol, rU.sol)
                 THEN CallRes("diag", "p2", rT.sol, rU.sol)                                        \* :1297 had_error
                 ELSE CallRes("ok", "", rT.sol, rU.sol)

(***************************************************************************)
(* Ref for calls: what the arguments demand of the type variables, from    *)
(* the meaning of the annotations: an object passed for T (or inside a     *)
(* list[T] / dict[T, U]) must belong to the value chosen for T; a function *)
(* passed for Callable[[T], U] will be called with members of T, which its *)
(* own parameter type must contain, and what it returns must belong to U.  *)
(***************************************************************************)
RefListReqs(v) == [j \in DOMAIN v |-> Lb(<<v[j]>>)]
RefParamReqs(p, tv) ==
    CASE p.f = "x" -> IF tv = "T" THEN << Lb(ObjLit(p.a)) >> ELSE << >>
      [] p.f = "lst" -> IF tv = "T" THEN RefListReqs(ListElems(p.a)) ELSE << >>
      [] p.f = "cb" -> IF tv = "T" THEN << Ub(TypeNamed(p.a)) >> ELSE << >>
      [] p.f = "map" -> IF tv = "T" THEN << Ub(MapParam(p.a)) >> ELSE << Lb(MapRet(p.a)) >>
      [] p.f = "dct" -> IF tv = "T" THEN << Lb(DictKey(p.a)) >> ELSE << Lb(DictVal(p.a)) >>
      [] p.f = "xu" -> IF tv = "T" THEN << >> ELSE << Lb(ObjLit(p.a)) >>
RefDeclReqs(decl, tv) ==
    IF tv # "T" THEN << >>
    ELSE CASE decl = "bint" -> << Ub(<<"int">>) >>
           [] decl = "cis" -> << Ob(<< <<"int">>, <<"str">> >>) >>
           [] decl = "cif" -> << Ob(<< <<"int">>, <<"float">> >>) >>
           [] OTHER -> << >>
RECURSIVE RefArgReqs(_, _)
RefArgReqs(ps, tv) == IF ps = << >> THEN << >> ELSE RefParamReqs(Head(ps), tv) \o RefArgReqs(Tail(ps), tv)
RefCallReqs(decl, ps, tv) == RefDeclReqs(decl, tv) \o RefArgReqs(ps, tv)
RefCallSat(decl, ps, sols) == RefSat(sols[1], RefCallReqs(decl, ps, "T")) /\ RefSat(sols[2], RefCallReqs(decl, ps, "U"))
RefCallExists(decl, ps) == RefExists(RefCallReqs(decl, ps, "T")) /\ RefExists(RefCallReqs(decl, ps, "U"))

(***************************************************************************)
(* The machine                                                             *)
(***************************************************************************)
BoundCat ==
    [i \in 1..Len(ValSeq) |-> Lb(ValSeq[i])] \o [i \in 1..Len(ValSeq) |-> Ub(ValSeq[i])]
    \o [i \in 1..Len(OneOfSeq) |-> Ob(OneOfSeq[i])] \o OrSeq

VARIABLES
    case,    \* [bounds, decl, ps]: the multiset, in catalogue order
    pc,      \* "gen" "fold" "opts" "done"  |  "decl" "cgen" "cpick" "cdone"
    idx,     \* generator: catalogue indices chosen so far (non-decreasing)
    left,    \* positions of the multiset not consumed yet
    order,   \* positions in the order in which they were consumed
    st,      \* solver state (bottom, top, options)
    res      \* result: [verdict, sol] (raw) / [verdict, phase, sols] (call)
vars == <<case, pc, idx, left, order, st, res>>

Blank == [bounds |-> << >>, decl |-> "plain", ps |-> << >>]
Init ==
    /\ case = Blank /\ pc \in (IF Mode = "raw" THEN {"gen"} ELSE IF Mode = "call" THEN {"decl"} ELSE {"gen", "decl"})
    /\ idx = << >> /\ left = {} /\ order = << >> /\ st = St0 /\ res = Ok(AnyV)

LastIdx == IF idx = << >> THEN 1 ELSE idx[Len(idx)]

\* ---- raw: generator
\* a type variable has one constraint list: at most one IsOneOf bound per multiset
AddBound ==
    /\ pc = "gen" /\ Len(idx) < MaxBounds
    /\ \E k \in LastIdx..Len(BoundCat) :
         /\ (BoundCat[k].k = "O" => \A j \in DOMAIN case.bounds : case.bounds[j].k # "O")
         /\ idx' = Append(idx, k)
         /\ case' = [case EXCEPT !.bounds = Append(@, BoundCat[k])]
    /\ UNCHANGED <<pc, left, order, st, res>>

StartFold ==
    /\ pc = "gen" /\ Len(idx) >= MinSize
    /\ pc' = "fold" /\ left' = DOMAIN case.bounds
    /\ UNCHANGED <<case, idx, order, st, res>>

\* ---- raw: the fold.  resolve_bounds_map drops repeated bounds first (typevar.py:43)
IsDup(i) == \E j \in Range(order) : case.bounds[j] = case.bounds[i]
FoldDup ==
    /\ pc = "fold"
    /\ \E i \in left : IsDup(i) /\ left' = left \ {i} /\ order' = Append(order, i)
    /\ UNCHANGED <<case, pc, idx, st, res>>
\* one action per branch of the loop body (typevar.py:88-116); written out one by one so that TLC's
\* coverage reports each of them
Consume(i) ==
    /\ st' = ImplStep(st, case.bounds[i])
    /\ left' = left \ {i} /\ order' = Append(order, i)
    /\ UNCHANGED <<case, pc, idx, res>>
FoldLSkipAny ==
    pc = "fold" /\ \E i \in left : ~IsDup(i) /\ ImplBranch(st, case.bounds[i]) = "LSkipAny" /\ Consume(i)
FoldLAdopt ==
    pc = "fold" /\ \E i \in left : ~IsDup(i) /\ ImplBranch(st, case.bounds[i]) = "LAdopt" /\ Consume(i)
FoldLKeep ==
    pc = "fold" /\ \E i \in left : ~IsDup(i) /\ ImplBranch(st, case.bounds[i]) = "LKeep" /\ Consume(i)
FoldLUnite ==
    pc = "fold" /\ \E i \in left : ~IsDup(i) /\ ImplBranch(st, case.bounds[i]) = "LUnite" /\ Consume(i)
FoldUAdopt ==
    pc = "fold" /\ \E i \in left : ~IsDup(i) /\ ImplBranch(st, case.bounds[i]) = "UAdopt" /\ Consume(i)
FoldUKeep ==
    pc = "fold" /\ \E i \in left : ~IsDup(i) /\ ImplBranch(st, case.bounds[i]) = "UKeep" /\ Consume(i)
FoldUUnite ==
    pc = "fold" /\ \E i \in left : ~IsDup(i) /\ ImplBranch(st, case.bounds[i]) = "UUnite" /\ Consume(i)
FoldOneOf ==
    pc = "fold" /\ \E i \in left : ~IsDup(i) /\ ImplBranch(st, case.bounds[i]) = "OneOf" /\ Consume(i)
FoldOrSkip ==
    pc = "fold" /\ \E i \in left : ~IsDup(i) /\ ImplBranch(st, case.bounds[i]) = "OrSkip" /\ Consume(i)

\* one action per exit of typevar.py:118-137
Finish(br) ==
    /\ res' = ImplFinish(st)
    /\ pc' = (IF br = "FinIncompat" THEN "done" ELSE "opts")
    /\ UNCHANGED <<case, idx, left, order, st>>
FinNone ==
    pc = "fold" /\ left = {} /\ ImplFinishBranch(st) = "FinNone" /\ Finish("FinNone")
FinTop ==
    pc = "fold" /\ left = {} /\ ImplFinishBranch(st) = "FinTop" /\ Finish("FinTop")
FinBot ==
    pc = "fold" /\ left = {} /\ ImplFinishBranch(st) = "FinBot" /\ Finish("FinBot")
FinIncompat ==
    pc = "fold" /\ left = {} /\ ImplFinishBranch(st) = "FinIncompat" /\ Finish("FinIncompat")
FinBoth ==
    pc = "fold" /\ left = {} /\ ImplFinishBranch(st) = "FinBoth" /\ Finish("FinBoth")

\* one action per exit of typevar.py:139-160
Choose ==
    /\ res' = ImplOptions(st, res)
    /\ pc' = "done"
    /\ UNCHANGED <<case, idx, left, order, st>>
OptNone ==
    pc = "opts" /\ ImplOptBranch(st, res) = "OptNone" /\ Choose
OptAllFail ==
    pc = "opts" /\ ImplOptBranch(st, res) = "OptAllFail" /\ Choose
OptSingle ==
    pc = "opts" /\ ImplOptBranch(st, res) = "OptSingle" /\ Choose
OptKeepAny ==
    pc = "opts" /\ ImplOptBranch(st, res) = "OptKeepAny" /\ Choose
OptRedundant ==
    pc = "opts" /\ ImplOptBranch(st, res) = "OptRedundant" /\ Choose
OptFallback ==
    pc = "opts" /\ ImplOptBranch(st, res) = "OptFallback" /\ Choose

\* ---- call: generator, binding order, outcome
ChooseDecl ==
    /\ pc = "decl"
    /\ \E d \in DOMAIN DeclSeq : case' = [case EXCEPT !.decl = DeclSeq[d]]
    /\ pc' = "cgen" /\ UNCHANGED <<idx, left, order, st, res>>
AddParam ==
    /\ pc = "cgen" /\ Len(idx) < MaxParams
    /\ \E k \in LastIdx..Len(ParamSeq) :
         /\ idx' = Append(idx, k)
         /\ case' = [case EXCEPT !.ps = Append(@, ParamSeq[k])]
    /\ UNCHANGED <<pc, left, order, st, res>>
StartCall ==
    /\ pc = "cgen" /\ Len(idx) >= 1 /\ Len(idx) >= MinSize
    /\ pc' = "cpick" /\ left' = DOMAIN case.ps
    /\ UNCHANGED <<case, idx, order, st, res>>
PickParam ==
    /\ pc = "cpick"
    /\ \E i \in left : left' = left \ {i} /\ order' = Append(order, i)
    /\ UNCHANGED <<case, pc, idx, st, res>>
CallFinish(r) ==
    /\ res' = r
    /\ pc' = "cdone" /\ UNCHANGED <<case, idx, left, order, st>>
CallNow == ImplCall(case.decl, PermSeq(case.ps, order))
CallPass1Diag ==
    pc = "cpick" /\ left = {} /\ CallNow.phase = "p1" /\ CallFinish(CallNow)
CallSolveDiag ==
    pc = "cpick" /\ left = {} /\ CallNow.phase = "solve" /\ CallFinish(CallNow)
CallPass2Diag ==
    pc = "cpick" /\ left = {} /\ CallNow.phase = "p2" /\ CallFinish(CallNow)
CallAccepted ==
    pc = "cpick" /\ left = {} /\ CallNow.verdict = "ok" /\ CallFinish(CallNow)

Next ==
    \/ AddBound \/ StartFold \/ FoldDup
    \/ FoldLSkipAny \/ FoldLAdopt \/ FoldLKeep \/ FoldLUnite \/ FoldUAdopt \/ FoldUKeep \/ FoldUUnite
    \/ FoldOneOf \/ FoldOrSkip
    \/ FinNone \/ FinTop \/ FinBot \/ FinIncompat \/ FinBoth
    \/ OptNone \/ OptAllFail \/ OptSingle \/ OptKeepAny \/ OptRedundant \/ OptFallback
    \/ ChooseDecl \/ AddParam \/ StartCall \/ PickParam
    \/ CallPass1Diag \/ CallSolveDiag \/ CallPass2Diag \/ CallAccepted

(***************************************************************************)
(* Properties                                                              *)
(***************************************************************************)
Folded == Dedup(PermSeq(case.bounds, order))   \* the distinct bounds in the order in which this behaviour folded them

\* raw: an accepted solution satisfies every bound (outside the named deviation classes)
SolutionSatisfiesBounds ==
    (pc = "done" /\ res.verdict = "ok") =>
        \A i \in DOMAIN Folded : RefSatBound(res.sol, Folded[i]) \/ DevClass(Folded, i, res.sol) # ""
\* raw: when no value satisfies the bounds an error is returned -- or the acceptance is explained by a
\* bound that the solution violates through one of the named classes (so "accepted with Any although
\* nothing fits" is never excused)
\* (a multiset in which a bound is itself Any is exempt: there Any is a legitimate answer)
UnsatIsDiagnosed ==
    (pc = "done" /\ ~GradualInput(case.bounds) /\ ~RefExists(case.bounds)) =>
        \/ res.verdict = "error"
        \/ \E i \in DOMAIN Folded : ~RefSatBound(res.sol, Folded[i]) /\ DevClass(Folded, i, res.sol) # ""
        \/ Dev_AnyDespiteUpperBound(case.bounds, res.sol)
\* raw: the verdict is the verdict of the catalogue order, whatever the order
OrderIndependent ==
    pc = "done" => (res.verdict = ImplSolveSeq(case.bounds).verdict \/ DevOrderClass(case.bounds) # "")
\* the action-level machine and the operator ImplSolveSeq are the same function
MachineIsOperator == pc = "done" => res = ImplSolveSeq(Folded)

\* strict versions: expected to be VIOLATED (they document the findings; sensitivity self-tests)
SolutionSatisfiesBoundsStrict == (pc = "done" /\ res.verdict = "ok") => RefSat(res.sol, Folded)
OrderIndependentStrict == pc = "done" => res.verdict = ImplSolveSeq(case.bounds).verdict

\* call: an accepted call's solutions satisfy everything the arguments and the declaration demand
CallSolutionSatisfies ==
    (pc = "cdone" /\ res.verdict = "ok") => RefCallSat(case.decl, PermSeq(case.ps, order), res.sols)
CallUnsatIsDiagnosed ==
    (pc = "cdone" /\ ~RefCallExists(case.decl, case.ps)) => res.verdict = "diag"
CallOrderIndependent ==
    pc = "cdone" => res.verdict = ImplCall(case.decl, case.ps).verdict
=============================================================================
