--------------------------- MODULE TotalityValues ---------------------------
(***************************************************************************)
(* C12, second sentence: "assignability, union and substitution operations *)
(* return a result instead of raising for every well-formed value".        *)
(*                                                                         *)
(* Input side: a staged generator of pairs of Value terms over the wide    *)
(* term space of Values.tla (OddTerms: Callable values with signatures,    *)
(* AnnotatedValue with metadata / extensions, sequences with unpacked      *)
(* members, type variables with bound / constraints, type[T], ParamSpec /  *)
(* TypeVarTuple values, NewType, KnownValue of odd objects) plus a core of *)
(* the ordinary universe (WideCore), and of (object, type) pairs for the   *)
(* runtime API (pyanalyze.runtime.is_assignable / get_assignability_error).*)
(* Output side: every public operation is Returned(result) only: the       *)
(* observation of a pair lists the operations that raised; the oracle is   *)
(* "that list is empty".                                                   *)
(*                                                                         *)
(* Well-formedness (domain): odd objects follow the data model where the   *)
(* checker has to rely on it (__repr__ returns a str, __getattr__ raises   *)
(* AttributeError only); __eq__, __bool__ and __hash__ may raise.          *)
(***************************************************************************)
EXTENDS Values

WideCore == {Typed("int"), Typed("str"), Typed("object"), Typed("type"), Typed("A"), Typed("Sequence"), Known(I1), Known(NONE),
             Known(SA), Known(ClassObj("A")), Known(Cont("list", <<I1>>)), AnyT, AnyU, Never, BigLiteral,
             Generic("list", <<Typed("int")>>), Generic("dict", <<Typed("str"), Typed("int")>>), Generic("tuple", <<Typed("int")>>),
             SeqT("tuple", <<One(Typed("int")), One(Typed("str"))>>), SeqT("tuple", << >>), SubclassT(Typed("A")),
             Union(<<Typed("int"), Known(NONE)>>), NewType("N", "int"),
             TD(<<Ent("a", TRUE, Typed("int")), Ent("b", FALSE, Typed("str"))>>),
             DictInc(<<Pair(Known(SA), Typed("int"), FALSE, TRUE)>>)}
WideTerms == OddTerms \cup WideCore

\* (object, annotatable type) pairs for the runtime API
RtObjects == {OddObj(n) : n \in OddNames} \cup {I1, BT, SA, NONE, F15, RED, OA, ClassObj("A"), ClassObj("int"),
                                                 Cont("list", <<I1>>), Cont("list", <<I1, SA>>), Cont("tuple", <<I1, SA>>),
                                                 Cont("dict", <<KV(SA, I1)>>), Cont("set", <<I1>>), Cont("dict", <<KV(I1, SA)>>)}
RtTypes == {Typed(c) : c \in {"int", "str", "object", "float", "A", "Sequence", "Iterable", "Mapping", "NoneType", "type", "Color"}}
           \cup {Known(I1), Known(SA), Known(NONE), Known(BT), Known(RED), AnyT, Never, NewType("N", "int")}
           \cup {Generic("list", <<Typed("int")>>), Generic("set", <<Typed("int")>>), Generic("Sequence", <<Typed("str")>>),
                 Generic("dict", <<Typed("str"), Typed("int")>>), Generic("Mapping", <<Typed("str"), Typed("object")>>),
                 Generic("tuple", <<Typed("int")>>), SeqT("tuple", <<One(Typed("int")), One(Typed("str"))>>), SeqT("tuple", << >>),
                 SeqT("tuple", <<One(Typed("int")), Many(Typed("str"))>>), SubclassT(Typed("A")), SubclassT(Typed("int")),
                 Union(<<Typed("int"), Known(NONE)>>), Union(<<Typed("str"), Generic("list", <<Typed("int")>>)>>)}
           \cup {t \in TDTerms : Len(t.items) = 2 /\ ~t.items[1].ro}

\* unions with ten or more members take the set-based fast paths of MultiValuedValue: pairs with one are always replayed
IsBigUnion(t) == t.k = "union" /\ Len(t.ms) >= 10

VARIABLES vcase, vstage
vvars == <<vcase, vstage>>
NoTerm == [k |-> "none"]
VInit == vcase = [a |-> NoTerm, b |-> NoTerm] /\ vstage = "a"
VPickA == vstage = "a" /\ \E t \in WideTerms : vcase' = [vcase EXCEPT !.a = t] /\ vstage' = "b"
VPickB == vstage = "b" /\ \E t \in WideTerms : vcase' = [vcase EXCEPT !.b = t] /\ vstage' = "done"
VNext == VPickA \/ VPickB

VARIABLES rcase, rstage
rvars == <<rcase, rstage>>
RInit == rcase = [o |-> NONE, a |-> NoTerm] /\ rstage = "o"
RPickO == rstage = "o" /\ \E o \in RtObjects : rcase' = [rcase EXCEPT !.o = o] /\ rstage' = "a"
RPickA == rstage = "a" /\ \E t \in RtTypes : rcase' = [rcase EXCEPT !.a = t] /\ rstage' = "done"
RNext == RPickO \/ RPickA

(***************************************************************************)
(* The former class known-value-hash-exception-propagates (KnownValue's    *)
(* hash fell back to the identity hash for TypeError only) is repaired by  *)
(* 3093efb: an operation that raises because an object's __hash__ raises   *)
(* is a violation like any other.                                          *)
(***************************************************************************)

(***************************************************************************)
(* The residue of that mechanism in the set-based fast path of             *)
(* MultiValuedValue for unions of ten or more members                      *)
(* (big-union-fast-path-hash-exception-propagates) is repaired by 426a2ab: *)
(* no raising value operation is excused any more.                         *)
(***************************************************************************)
=============================================================================
