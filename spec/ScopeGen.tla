------------------------------ MODULE ScopeGen ------------------------------
(***************************************************************************)
(* Generator of statement skeletons and the C09 invariants.  TLC builds    *)
(* every function body of at most MaxStmts statements (nesting depth at    *)
(* most MaxDepth) with a stack machine: AddSimple / Open / NextPart /      *)
(* Close / Finish.  On every completed body the invariant compares the     *)
(* model of pyanalyze's scope machinery (Scopes.tla) with the independent  *)
(* reaching-definitions oracle (CFG.tla).                                  *)
(***************************************************************************)
EXTENDS Scopes

CONSTANTS MaxStmts, MaxDepth, Kinds,    \* Kinds: which compound statements to generate
          GenVars,                      \* variables used by generated assignments / uses (subset of Vars)
          SimpleKinds,                  \* which simple statements to generate
          Shape                         \* "any", or "loop": the function body is exactly one for/while loop

\* shapes of compound statements: the names of their blocks in order
Shapes ==
    [if |-> {<<"body">>, <<"body", "orelse">>},
     while |-> {<<"body">>, <<"body", "orelse">>},
     whiletrue |-> {<<"body">>, <<"body", "orelse">>},
     for |-> {<<"body">>, <<"body", "orelse">>},
     with |-> {<<"body">>},
     withsupp |-> {<<"body">>},
     \* compound statements that bind a variable (Frame.v): `if (v := cond()):`, `for v in it():`, `with cm() as v:`
     ifw |-> {<<"body">>, <<"body", "orelse">>},
     forv |-> {<<"body">>, <<"body", "orelse">>},
     withas |-> {<<"body">>},
     withsuppas |-> {<<"body">>},
     whilev |-> {<<"body">>, <<"body", "orelse">>},
     \* `match subj():` -- one or two cases; part names: cap / seq / wild, a trailing g = guarded; an unguarded
     \* irrefutable case (cap, wild) must be the last one (SyntaxError otherwise)
     match |-> {<<c>> : c \in {"cap", "capg", "seq", "seqg", "wild"}}
               \cup {<<c, d>> : c \in {"capg", "seq", "seqg"}, d \in {"cap", "capg", "seq", "seqg", "wild"}},
     try |-> {<<"body", "h">>, <<"body", "h", "h">>, <<"body", "h", "orelse">>, <<"body", "final">>,
              <<"body", "h", "final">>, <<"body", "h", "orelse", "final">>}]

VARIABLES stack, nid, done
gvars == <<stack, nid, done>>

Frame(kind, shape, id) == [kind |-> kind, shape |-> shape, id |-> id, parts |-> << >>, cur |-> << >>, v |-> ""]
Root == Frame("root", <<"body">>, 0)
VarKinds == {"ifw", "forv", "withas", "withsuppas", "match"}
TestKinds == {"mlist", "elist", "tuple", "one", "zero"}

GInit == stack = <<Root>> /\ nid = 1 /\ done = FALSE

Top == stack[Len(stack)]
PartName(f) == f.shape[Len(f.parts) + 1]
InLoopBody == \E i \in 1..Len(stack) : stack[i].kind \in {"while", "whiletrue", "for", "forv", "whilev"} /\ Len(stack[i].parts) = 0

Push(s) == stack' = [stack EXCEPT ![Len(stack)].cur = Append(@, s)]
\* no dead code: nothing may follow return / raise / break / continue in the same block (pyanalyze
\* deliberately analyses such statements as if control fell through; they are outside C09's grammar)
AfterJump == Top.cur # << >> /\ Top.cur[Len(Top.cur)].k \in {"return", "raise", "break", "continue"}

\* nested functions defined earlier in the current block or in an enclosing block (their definition dominates here)
VisibleDefs == UNION {{stack[i].cur[j] : j \in {m \in 1..Len(stack[i].cur) : stack[i].cur[m].k \in {"defg", "defn"}}}
                      : i \in 1..Len(stack)}

AddSimple ==
    /\ ~done /\ nid <= MaxStmts /\ ~AfterJump
    /\ (Shape = "loop" => Len(stack) > 1)
    /\ \E s \in ({[k |-> "assign", v |-> w, id |-> nid] : w \in GenVars} \cup {[k |-> "use", v |-> w, id |-> nid] : w \in GenVars}
                 \cup {[k |-> "defg", v |-> w, id |-> nid] : w \in GenVars} \cup {[k |-> "defn", v |-> w, id |-> nid] : w \in GenVars}
                 \cup {[k |-> "callg", t |-> d.id, v |-> d.v, w |-> d.k = "defn", id |-> nid] : d \in VisibleDefs}
                 \cup {[k |-> kk, v |-> w, id |-> nid] : kk \in {"aug", "import", "cuse", "citer", "cbind", "cwal"}, w \in GenVars}
                 \* `except Exception as v:` -- a pseudo-statement that can only open a handler block
                 \cup (IF Len(stack) > 1 /\ Top.cur = << >> /\ PartName(Top) = "h"
                       THEN {[k |-> "exas", v |-> w, id |-> nid] : w \in GenVars} ELSE {})
                 \cup {[k |-> "return", id |-> nid], [k |-> "raise", id |-> nid], [k |-> "call", id |-> nid]}
                 \cup (IF InLoopBody THEN {[k |-> "break", id |-> nid], [k |-> "continue", id |-> nid]} ELSE {})) :
         /\ s.k \in SimpleKinds
         /\ Push(s)
    /\ nid' = nid + 1 /\ UNCHANGED done

Open ==
    /\ ~done /\ nid < MaxStmts /\ Len(stack) <= MaxDepth /\ ~AfterJump     \* a compound statement needs a body statement
    /\ \E kind \in Kinds : \E shape \in Shapes[kind] :
         /\ (Shape = "loop" /\ Len(stack) = 1) => (kind \in {"for", "while", "whiletrue"} /\ Top.cur = << >> /\ shape = <<"body">>)
         /\ (Shape = "loop" /\ Len(stack) > 1) => kind \notin {"for", "while", "whiletrue"}
         /\ \E w \in (IF kind \in VarKinds THEN GenVars ELSE IF kind = "whilev" THEN TestKinds ELSE {""}) :
                stack' = Append(stack, [Frame(kind, shape, nid) EXCEPT !.v = w])
    /\ nid' = nid + 1 /\ UNCHANGED done

\* finish the current block of the top frame and start its next block (blocks other than `orelse`
\* must not be empty)
NextPart ==
    /\ ~done /\ Len(stack) > 1
    /\ Len(Top.parts) + 1 < Len(Top.shape)
    /\ Top.cur # << >>
    /\ stack' = [stack EXCEPT ![Len(stack)] = [@ EXCEPT !.parts = Append(@, Top.cur), !.cur = << >>]]
    /\ UNCHANGED <<nid, done>>

RECURSIVE Blocks(_, _, _)
Blocks(shape, parts, name) ==     \* the blocks of a frame carrying the given part name, in order
    IF shape = << >> THEN << >>
    ELSE (IF Head(shape) = name THEN <<Head(parts)>> ELSE << >>) \o Blocks(Tail(shape), Tail(parts), name)
FirstOr(bs) == IF bs = << >> THEN << >> ELSE bs[1]

MakeStmt(f, parts) ==
    LET body == FirstOr(Blocks(f.shape, parts, "body"))
        orelse == FirstOr(Blocks(f.shape, parts, "orelse"))
    IN CASE f.kind = "if" -> [k |-> "if", id |-> f.id, body |-> body, orelse |-> orelse]
         [] f.kind = "while" -> [k |-> "while", id |-> f.id, true |-> FALSE, body |-> body, orelse |-> orelse]
         [] f.kind = "whiletrue" -> [k |-> "while", id |-> f.id, true |-> TRUE, body |-> body, orelse |-> orelse]
         [] f.kind = "for" -> [k |-> "for", id |-> f.id, body |-> body, orelse |-> orelse]
         [] f.kind = "with" -> [k |-> "with", id |-> f.id, supp |-> FALSE, body |-> body]
         [] f.kind = "withsupp" -> [k |-> "with", id |-> f.id, supp |-> TRUE, body |-> body]
         [] f.kind = "whilev" -> [k |-> "whilev", id |-> f.id, t |-> f.v, body |-> body, orelse |-> orelse]
         [] f.kind = "ifw" -> [k |-> "ifw", id |-> f.id, v |-> f.v, body |-> body, orelse |-> orelse]
         [] f.kind = "forv" -> [k |-> "forv", id |-> f.id, v |-> f.v, body |-> body, orelse |-> orelse]
         [] f.kind = "withas" -> [k |-> "withas", id |-> f.id, v |-> f.v, supp |-> FALSE, body |-> body]
         [] f.kind = "withsuppas" -> [k |-> "withas", id |-> f.id, v |-> f.v, supp |-> TRUE, body |-> body]
         \* (the captures get ids of their own, outside the range of statement ids)
         [] f.kind = "match" -> [k |-> "match", id |-> f.id, v |-> f.v,
                                 cases |-> [i \in 1..Len(f.shape) |->
                                              [pat |-> IF f.shape[i] \in {"cap", "capg"} THEN "cap"
                                                       ELSE IF f.shape[i] \in {"seq", "seqg"} THEN "seq" ELSE "wild",
                                               guard |-> f.shape[i] \in {"capg", "seqg"},
                                               id |-> 100 + 10 * f.id + i, body |-> parts[i]]]]
         [] f.kind = "try" -> [k |-> "try", id |-> f.id, body |-> body, handlers |-> Blocks(f.shape, parts, "h"),
                               orelse |-> orelse, final |-> FirstOr(Blocks(f.shape, parts, "final"))]

Close ==
    /\ ~done /\ Len(stack) > 1
    /\ Len(Top.parts) + 1 = Len(Top.shape)
    /\ (Top.cur # << >> \/ PartName(Top) = "orelse")
    /\ LET st == MakeStmt(Top, Append(Top.parts, Top.cur))
           below == SubSeq(stack, 1, Len(stack) - 1)
       IN stack' = [below EXCEPT ![Len(below)].cur = Append(@, st)]
    /\ UNCHANGED <<nid, done>>

RECURSIVE HasVar(_, _, _)
HasVar(block, kind, v) ==
    \E i \in 1..Len(block) :
        LET s == block[i]
        IN \/ s.k = kind /\ s.v = v
           \/ s.k \in IfKinds \cup LoopKinds /\ (HasVar(s.body, kind, v) \/ HasVar(s.orelse, kind, v))
           \/ s.k \in WithKinds /\ HasVar(s.body, kind, v)
           \/ s.k = "try" /\ (HasVar(s.body, kind, v) \/ HasVar(s.orelse, kind, v) \/ HasVar(s.final, kind, v)
                              \/ \E j \in 1..Len(s.handlers) : HasVar(s.handlers[j], kind, v))
           \/ s.k = "match" /\ \E j \in 1..Len(s.cases) : HasVar(s.cases[j].body, kind, v)

Finish ==
    /\ ~done /\ Len(stack) = 1 /\ Top.cur # << >>
    \* `nonlocal v` is a SyntaxError unless the enclosing function binds v somewhere
    /\ \A v \in GenVars : HasVar(Top.cur, "defn", v) => HasVar(Top.cur, "assign", v)
    /\ done' = TRUE /\ UNCHANGED <<stack, nid>>

GNext == AddSimple \/ Open \/ NextPart \/ Close \/ Finish

Prog == stack[1].cur

(***************************************************************************)
(* C09                                                                     *)
(***************************************************************************)
RECURSIVE UsesOf(_)
UsesOf(block) ==
    IF block = << >> THEN {}
    ELSE LET s == Head(block)
             here == CASE s.k \in {"use", "defg", "aug", "cuse", "citer"} -> {s.id}
                       [] s.k \in IfKinds \cup LoopKinds -> UsesOf(s.body) \cup UsesOf(s.orelse)
                       [] s.k \in WithKinds -> UsesOf(s.body)
                       [] s.k = "try" -> UsesOf(s.body) \cup UsesOf(s.orelse) \cup UsesOf(s.final)
                                         \cup UNION {UsesOf(s.handlers[i]) : i \in 1..Len(s.handlers)}
                       [] s.k = "match" -> UNION {UsesOf(s.cases[i].body) : i \in 1..Len(s.cases)}
                       [] OTHER -> {}
         IN here \cup UsesOf(Tail(block))

\* the property at one use, given what was reported there
At(pairs, u) == {p[2] : p \in {q \in pairs : q[1] = u}}
\* (rs / rl: Reaching(prog, "strict" / "liberal"), computed once per program)
UseOK2(rs, rl, u, reported) ==
    LET strict == At(rs, u)
        liberal == At(rl, u)
    IN liberal # {} => (strict \subseteq reported /\ reported \subseteq liberal)     \* dead uses are not judged
UseOK(prog, u, reported) == UseOK2(Reaching(prog, "strict"), Reaching(prog, "liberal"), u, reported)

\* Known deviations of the implementation (see known_findings.jsonl); each is a predicate on the program
\* and on the shape of the failure, so that any other failure is still reported.
\* a try statement or a suppressing `with` placed where the visitor visits twice (a finally clause, a loop body)
RECURSIVE SuppressRevisited(_, _)
SuppressRevisited(block, twice) ==
    \E i \in 1..Len(block) :
        LET s == block[i]
        IN \/ twice /\ (s.k = "try" \/ (s.k \in WithKinds /\ s.supp))
           \/ s.k \in IfKinds /\ (SuppressRevisited(s.body, twice) \/ SuppressRevisited(s.orelse, twice))
           \/ s.k \in LoopKinds /\ (SuppressRevisited(s.body, TRUE) \/ SuppressRevisited(s.orelse, twice))
           \/ s.k \in WithKinds /\ SuppressRevisited(s.body, twice)
           \/ s.k = "try" /\ (SuppressRevisited(s.body, twice) \/ SuppressRevisited(s.orelse, twice)
                              \/ SuppressRevisited(s.final, TRUE)
                              \/ \E j \in 1..Len(s.handlers) : SuppressRevisited(s.handlers[j], twice))
           \/ s.k = "match" /\ \E j \in 1..Len(s.cases) : SuppressRevisited(s.cases[j].body, twice)

\* bindings whose definition node is a Name in Store context (the only ones the unused-variable check can report)
NameDefKinds == {"assign", "aug", "ifw", "withas", "forv", "cwal"}
RECURSIVE IdsOfKind(_, _)
IdsOfKind(block, kinds) ==
    UNION {LET s == block[i]
           IN (IF s.k \in kinds THEN {s.id} ELSE {}) \cup
              (CASE s.k \in IfKinds \cup LoopKinds -> IdsOfKind(s.body, kinds) \cup IdsOfKind(s.orelse, kinds)
                 [] s.k \in WithKinds -> IdsOfKind(s.body, kinds)
                 [] s.k = "try" -> IdsOfKind(s.body, kinds) \cup IdsOfKind(s.orelse, kinds) \cup IdsOfKind(s.final, kinds)
                                   \cup UNION {IdsOfKind(s.handlers[j], kinds) : j \in 1..Len(s.handlers)}
                 [] s.k = "match" -> UNION {IdsOfKind(s.cases[j].body, kinds) : j \in 1..Len(s.cases)}
                 [] OTHER -> {})
           : i \in 1..Len(block)}

\* bindings made inside a handler that names its exception (`except E as v:` and everything its block binds): what a
\* use of v after the try statement may wrongly still see, v being deleted when the handler is left
AllBindKinds == NameDefKinds \cup {"import", "exas"}
RECURSIVE ExasDefs(_)
ExasDefs(block) ==
    UNION {LET s == block[i]
           IN CASE s.k \in IfKinds \cup LoopKinds -> ExasDefs(s.body) \cup ExasDefs(s.orelse)
                [] s.k \in WithKinds -> ExasDefs(s.body)
                [] s.k = "match" -> UNION {ExasDefs(s.cases[j].body) : j \in 1..Len(s.cases)}
                [] s.k = "try" -> ExasDefs(s.body) \cup ExasDefs(s.orelse) \cup ExasDefs(s.final)
                                  \cup UNION {LET h == s.handlers[j]
                                              IN IF h # << >> /\ h[1].k = "exas" THEN IdsOfKind(h, AllBindKinds) ELSE ExasDefs(h)
                                              : j \in 1..Len(s.handlers)}
                [] OTHER -> {}
           : i \in 1..Len(block)}

\* Dead tails.  pyanalyze deliberately analyses a statement that follows return / raise / break / continue as if control
\* fell through; the generator never places a statement there (AfterJump).  The same holds after a COMPOUND statement that
\* cannot complete normally (`try: return` / `finally: ...`, an if whose branches both leave, `while True:` without break):
\* the slices added later leave such programs out (invariant InvAllLive, emission filters).
RECURSIVE CannotComplete(_), BlockCannotComplete(_), HasOwnBreak(_)
HasOwnBreak(block) ==       \* a break that leaves the loop whose body `block` is
    \E i \in 1..Len(block) :
        LET s == block[i]
        IN \/ s.k = "break"
           \/ s.k \in IfKinds /\ (HasOwnBreak(s.body) \/ HasOwnBreak(s.orelse))
           \/ s.k \in LoopKinds /\ HasOwnBreak(s.orelse)
           \/ s.k \in WithKinds /\ HasOwnBreak(s.body)
           \/ s.k = "match" /\ \E j \in 1..Len(s.cases) : HasOwnBreak(s.cases[j].body)
           \/ s.k = "try" /\ (HasOwnBreak(s.body) \/ HasOwnBreak(s.orelse) \/ HasOwnBreak(s.final)
                              \/ \E j \in 1..Len(s.handlers) : HasOwnBreak(s.handlers[j]))
BlockCannotComplete(block) == \E i \in 1..Len(block) : CannotComplete(block[i])
CannotComplete(s) ==
    CASE s.k \in {"return", "raise", "break", "continue"} -> TRUE
      [] s.k \in IfKinds -> BlockCannotComplete(s.body) /\ BlockCannotComplete(s.orelse)
      [] s.k \in WithKinds -> ~s.supp /\ BlockCannotComplete(s.body)
      [] s.k = "while" -> s.true /\ ~HasOwnBreak(s.body)
      [] s.k = "whilev" -> s.t \in AlwaysTrueTests /\ ~HasOwnBreak(s.body)
      [] s.k = "try" -> \/ BlockCannotComplete(s.final)
                        \/ /\ BlockCannotComplete(s.body) \/ BlockCannotComplete(s.orelse)
                           /\ \A j \in 1..Len(s.handlers) : BlockCannotComplete(s.handlers[j])
      [] s.k = "match" -> /\ \E j \in 1..Len(s.cases) : s.cases[j].pat \in {"cap", "wild"} /\ ~s.cases[j].guard
                          /\ \A j \in 1..Len(s.cases) : BlockCannotComplete(s.cases[j].body)
      [] OTHER -> FALSE
RECURSIVE DeadTail(_)
DeadTail(block) ==
    \E i \in 1..Len(block) :
        LET s == block[i]
        IN \/ i < Len(block) /\ CannotComplete(s)
           \* the else clause of a try statement whose body cannot complete, of a `while True:` loop
           \/ s.k = "try" /\ s.orelse # << >> /\ BlockCannotComplete(s.body)
           \/ s.k = "while" /\ s.true /\ s.orelse # << >>
           \/ s.k = "whilev" /\ s.t \in AlwaysTrueTests /\ s.orelse # << >>
           \/ s.k \in IfKinds \cup LoopKinds /\ (DeadTail(s.body) \/ DeadTail(s.orelse))
           \/ s.k \in WithKinds /\ DeadTail(s.body)
           \/ s.k = "match" /\ \E j \in 1..Len(s.cases) : DeadTail(s.cases[j].body)
           \/ s.k = "try" /\ (DeadTail(s.body) \/ DeadTail(s.orelse) \/ DeadTail(s.final)
                              \/ \E j \in 1..Len(s.handlers) : DeadTail(s.handlers[j]))

RECURSIVE GuardedCapture(_)
GuardedCapture(block) ==
    \E i \in 1..Len(block) :
        LET s == block[i]
        IN \/ s.k = "match" /\ \E j \in 1..Len(s.cases) : (s.cases[j].guard /\ s.cases[j].pat \in {"cap", "seq"})
                                                             \/ GuardedCapture(s.cases[j].body)
           \/ s.k \in IfKinds \cup LoopKinds /\ (GuardedCapture(s.body) \/ GuardedCapture(s.orelse))
           \/ s.k \in WithKinds /\ GuardedCapture(s.body)
           \/ s.k = "try" /\ (GuardedCapture(s.body) \/ GuardedCapture(s.orelse) \/ GuardedCapture(s.final)
                              \/ \E j \in 1..Len(s.handlers) : GuardedCapture(s.handlers[j]))

\* a break / continue that leaves a try statement whose finally clause binds a variable or leaves itself
RECURSIVE JumpThroughFinally(_, _)
JumpThroughFinally(block, under) ==
    \E i \in 1..Len(block) :
        LET s == block[i]
        IN \/ under /\ s.k \in {"break", "continue"}
           \/ s.k \in IfKinds /\ (JumpThroughFinally(s.body, under) \/ JumpThroughFinally(s.orelse, under))
           \* (a break inside a nested loop leaves that loop only)
           \/ s.k \in LoopKinds /\ (JumpThroughFinally(s.body, FALSE) \/ JumpThroughFinally(s.orelse, under))
           \/ s.k \in WithKinds /\ JumpThroughFinally(s.body, under)
           \/ s.k = "match" /\ \E j \in 1..Len(s.cases) : JumpThroughFinally(s.cases[j].body, under)
           \/ s.k = "try" /\ LET u == under \/ HasKind(s.final, NameDefKinds \cup {"import", "return", "raise", "break", "continue"})
                              IN \/ JumpThroughFinally(s.body, u) \/ JumpThroughFinally(s.orelse, u)
                                 \/ \E j \in 1..Len(s.handlers) : JumpThroughFinally(s.handlers[j], u)
                                 \/ JumpThroughFinally(s.final, under)

RECURSIVE AnyStmt(_, _)
AnyStmt(block, kind) ==       \* does the program contain a statement with the given feature?
    \E i \in 1..Len(block) :
        LET s == block[i]
            here == CASE kind = "loopelse" -> s.k \in LoopKinds /\ s.orelse # << >>
                      [] kind = "whiletrue" -> (s.k = "while" /\ s.true) \/ (s.k = "whilev" /\ s.t \in AlwaysTrueTests)
                      [] kind = "bodyleaves" -> s.k \in LoopKinds /\ s.body # << >>
                                                /\ s.body[Len(s.body)].k \in {"break", "return", "raise"}
                      [] kind = "break" -> s.k = "break"
        IN \/ here
           \/ s.k \in IfKinds \cup LoopKinds /\ (AnyStmt(s.body, kind) \/ AnyStmt(s.orelse, kind))
           \/ s.k \in WithKinds /\ AnyStmt(s.body, kind)
           \/ s.k = "try" /\ (AnyStmt(s.body, kind) \/ AnyStmt(s.orelse, kind) \/ AnyStmt(s.final, kind)
                              \/ \E j \in 1..Len(s.handlers) : AnyStmt(s.handlers[j], kind))
           \/ s.k = "match" /\ \E j \in 1..Len(s.cases) : AnyStmt(s.cases[j].body, kind)

\* verdict at one use: "ok", a known deviation class, or "viol"
UseVerdict2(prog, rs, rl, u, reported) ==
    LET strict == At(rs, u)
        liberal == At(rl, u)
        missing == strict \ reported
        \* assignments in dead code (e.g. the else clause of a try whose body always returns) are analysed as if control
        \* fell through, by design; they are not counted against the property
        extra == (reported \ liberal) \cap (LiveDefs(rl) \cup {0})
    IN IF liberal = {} \/ (missing = {} /\ extra = {}) THEN "ok"
       \* (a) the else clause of a loop is analysed from the state before the loop only, and the second
       \*     visit of the loop body sees the assignments of the else clause
       ELSE IF AnyStmt(prog, "loopelse") THEN "dev:loop-else"
       \* (b) in a loop that is always entered (`while True`) a use before the first assignment of the body is
       \*     not reported although the first iteration executes it with the name unbound
       \*     (in excess only what (c) / (c') explain: the body is visited again although it always leaves / breaks)
       ELSE IF AnyStmt(prog, "whiletrue") /\ missing = {0} /\ (extra = {} \/ AnyStmt(prog, "bodyleaves") \/ AnyStmt(prog, "break"))
            THEN "dev:always-entered-loop-first-iteration"
       \* (c) the loop body is visited a second time even when its first pass always leaves the loop
       ELSE IF AnyStmt(prog, "bodyleaves") /\ missing = {} THEN "dev:loop-body-revisited-after-unconditional-exit"
       \* (c') the second visit of a loop body starts from the state AFTER the loop, which includes the states at the
       \*      break statements: an assignment that is always followed by a break is considered able to reach the body
       ELSE IF AnyStmt(prog, "break") /\ missing = {} THEN "dev:loop-second-visit-starts-from-break-state"
       \* (j) break / continue inside a try statement with a finally clause: the scope recorded for the loop exit is the
       \*     state AT the break: what the finally clause does on the way out (bindings, return / raise) is not applied
       ELSE IF JumpThroughFinally(prog, FALSE) THEN "dev:loop-exit-through-finally-ignores-finally-clause"
       \* (d) suppressing_subscope finds the assignments of its block by comparing name_to_all_definition_nodes before
       \*     and after; when the block is visited a second time (finally clause, loop body) the nodes are already
       \*     there, so the assignments made inside a try body / suppressing with are dropped after the block
       ELSE IF SuppressRevisited(prog, FALSE) /\ extra = {} THEN "dev:suppressing-block-revisited-loses-assignments"
       \* (e) an assignment through `nonlocal` in a nested function is recorded where the nested function is DEFINED (and
       \*     leaks into the module scope when the enclosing function has not assigned the name yet), not where it is called
       ELSE IF HasKind(prog, {"defn"}) THEN "dev:nonlocal-assignment-recorded-at-definition"
       \* (f) a use inside a nested function sees the definitions current where the nested function is DEFINED (plus
       \*     whatever was current there at the end of the collecting phase), not those current at its calls
       ELSE IF HasKind(prog, {"defg"}) THEN "dev:closure-use-sees-definition-site-state"
       \* (k) a capture made by a case whose guard then fails is set in that case's subscope only: the later cases and the
       \*     code after the match statement do not see it (and the guarded case is taken to leave the name unbound)
       ELSE IF GuardedCapture(prog) THEN "dev:match-capture-dropped-when-guard-fails"
       \* (g) `except E as v:` binds v with the handler as definition node and never unbinds it: after the try statement
       \*     the handler's binding is considered live although CPython has deleted the name on every way out
       ELSE IF HasKind(prog, {"exas"}) /\ missing \subseteq {0} /\ extra \subseteq ExasDefs(prog)
            THEN "dev:except-name-outlives-handler"
       \* (h) a walrus inside a comprehension is recorded as an unconditional assignment of the enclosing function,
       \*     although the comprehension may iterate zero times
       \*     (in excess only what (i) explains, when the program also reads from an inner scope)
       ELSE IF HasKind(prog, {"cwal"}) /\ (extra = {} \/ HasKind(prog, {"cuse"})) THEN "dev:comprehension-walrus-assumed-executed"
       \* (i) a read from a comprehension / lambda / class body is looked up in the enclosing FunctionScope once more
       \*     while the function is CHECKED, when name_to_current_definition_nodes still holds what the end of the
       \*     collecting visit left there: assignments that only follow the read are considered able to reach it
       ELSE IF HasKind(prog, {"cuse"}) /\ missing \subseteq {0} THEN "dev:inner-scope-read-sees-end-of-collection-state"
       ELSE "viol"

UseVerdict(prog, u, reported) == UseVerdict2(prog, Reaching(prog, "strict"), Reaching(prog, "liberal"), u, reported)

ReportedFrom(usage, u) == IF usage[u].present /\ usage[u].nodes # << >> THEN ToSet(usage[u].nodes) ELSE {0}
C09_Holds(prog) ==
    LET rs == Reaching(prog, "strict")
        rl == Reaching(prog, "liberal")
        us == ImplUsage(prog)
    IN \A u \in UsesOf(prog) : UseVerdict2(prog, rs, rl, u, ReportedFrom(us, u)) # "viol"
C09_HoldsStrict(prog) ==
    LET rs == Reaching(prog, "strict")
        rl == Reaching(prog, "liberal")
        us == ImplUsage(prog)
    IN \A u \in UsesOf(prog) : UseOK2(rs, rl, u, ReportedFrom(us, u))
(***************************************************************************)
(* Second observable on usage_to_definition_nodes: unused_variable /       *)
(* unused_assignment (_check_function_unused_vars).  A binding that        *)
(* reaches a use along some STRICT path must not be reported (the message  *)
(* tells the user to delete a live assignment); a binding that reaches no  *)
(* use in the LIBERAL graph may be reported (not reporting it is recorded  *)
(* as information only).                                                   *)
(***************************************************************************)
\* bindings whose definition node is a Name in Store context (the only ones the check can report): <<id, variable>>
RECURSIVE NameDefs(_)
NameDefs(block) ==
    UNION {LET s == block[i]
           IN (IF s.k \in NameDefKinds THEN {<<s.id, s.v>>} ELSE {}) \cup
              (CASE s.k \in IfKinds \cup LoopKinds -> NameDefs(s.body) \cup NameDefs(s.orelse)
                 [] s.k \in WithKinds -> NameDefs(s.body)
                 [] s.k = "try" -> NameDefs(s.body) \cup NameDefs(s.orelse) \cup NameDefs(s.final)
                                   \cup UNION {NameDefs(s.handlers[j]) : j \in 1..Len(s.handlers)}
                 [] s.k = "match" -> UNION {NameDefs(s.cases[j].body) : j \in 1..Len(s.cases)}
                 [] OTHER -> {})
           : i \in 1..Len(block)}
UsedIn(pairs, d) == \E p \in pairs : p[1] > 0 /\ p[2] = d
\* verdict for one binding, given whether it was reported as unused
DefVerdict2(prog, rs, rl, d, reportedUnused) ==
    IF ~reportedUnused
    THEN (IF UsedIn(rl, d) \/ d \notin LiveDefs(rl) THEN "ok" ELSE "info")
    ELSE IF ~UsedIn(rs, d) THEN "ok"
    \* a live binding reported as unused: the known deviations that LOSE definitions at uses have this consequence
    ELSE IF AnyStmt(prog, "loopelse") THEN "dev:loop-else"
    ELSE IF JumpThroughFinally(prog, FALSE) THEN "dev:loop-exit-through-finally-ignores-finally-clause"
    ELSE IF SuppressRevisited(prog, FALSE) THEN "dev:suppressing-block-revisited-loses-assignments"
    ELSE IF HasKind(prog, {"defn"}) THEN "dev:nonlocal-assignment-recorded-at-definition"
    ELSE IF HasKind(prog, {"defg"}) THEN "dev:closure-use-sees-definition-site-state"
    ELSE IF HasKind(prog, {"cwal"}) THEN "dev:comprehension-walrus-assumed-executed"
    ELSE "viol"
Unused_Holds(prog) ==
    LET rs == Reaching(prog, "strict")
        rl == Reaching(prog, "liberal")
        F == ImplFinal(prog)
    IN \A dv \in NameDefs(prog) : DefVerdict2(prog, rs, rl, dv[1], ImplReportedUnused(prog, F, dv[1], dv[2])) # "viol"
Unused_HoldsStrict(prog) ==
    LET rs == Reaching(prog, "strict")
        F == ImplFinal(prog)
    IN \A dv \in NameDefs(prog) : ~(ImplReportedUnused(prog, F, dv[1], dv[2]) /\ UsedIn(rs, dv[1]))
\* both observables with the oracle and the model computed once
All_Holds(prog) ==
    LET rs == Reaching(prog, "strict")
        rl == Reaching(prog, "liberal")
        F == ImplFinal(prog)
    IN /\ \A u \in UsesOf(prog) : UseVerdict2(prog, rs, rl, u, ReportedFrom(F.usage, u)) # "viol"
       /\ \A dv \in NameDefs(prog) : DefVerdict2(prog, rs, rl, dv[1], ImplReportedUnused(prog, F, dv[1], dv[2])) # "viol"
InvAll == done => All_Holds(Prog)
InvAllLive == (done /\ ~DeadTail(Prog)) => All_Holds(Prog)
InvUnused == done => Unused_Holds(Prog)
InvUnusedStrict == done => Unused_HoldsStrict(Prog)
InvC09 == done => C09_Holds(Prog)
InvC09Strict == done => C09_HoldsStrict(Prog)
=============================================================================
