------------------------------ MODULE ScopeGen ------------------------------
(***************************************************************************)
(* Generator of statement skeletons and the C09 invariants.  TLC builds    *)
(* every function body of at most MaxStmts statements (nesting depth at    *)
(* most MaxDepth) with a stack machine: AddSimple / Open / NextPart /      *)
(* Close / Finish.  On every completed body the invariant compares the     *)
(* model of pyanalyze's scope machinery (Scopes.tla) with the independent  *)
(* reaching-definitions oracle (CFG.tla).                                  *)
(***************************************************************************)
EXTENDS Scopes

CONSTANTS MaxStmts, MaxDepth, Kinds,    \* Kinds: which compound statements to generate
          GenVars,                      \* variables used by generated assignments / uses (subset of Vars)
          SimpleKinds,                  \* which simple statements to generate
          Shape                         \* "any", or "loop": the function body is exactly one for/while loop

\* shapes of compound statements: the names of their blocks in order
Shapes ==
    [if |-> {<<"body">>, <<"body", "orelse">>},
     while |-> {<<"body">>, <<"body", "orelse">>},
     whiletrue |-> {<<"body">>, <<"body", "orelse">>},
     for |-> {<<"body">>, <<"body", "orelse">>},
     with |-> {<<"body">>},
     withsupp |-> {<<"body">>},
     try |-> {<<"body", "h">>, <<"body", "h", "h">>, <<"body", "h", "orelse">>, <<"body", "final">>,
              <<"body", "h", "final">>, <<"body", "h", "orelse", "final">>}]

VARIABLES stack, nid, done
gvars == <<stack, nid, done>>

Frame(kind, shape, id) == [kind |-> kind, shape |-> shape, id |-> id, parts |-> << >>, cur |-> << >>]
Root == Frame("root", <<"body">>, 0)

GInit == stack = <<Root>> /\ nid = 1 /\ done = FALSE

Top == stack[Len(stack)]
PartName(f) == f.shape[Len(f.parts) + 1]
InLoopBody == \E i \in 1..Len(stack) : stack[i].kind \in {"while", "whiletrue", "for"} /\ Len(stack[i].parts) = 0

Push(s) == stack' = [stack EXCEPT ![Len(stack)].cur = Append(@, s)]
\* no dead code: nothing may follow return / raise / break / continue in the same block (pyanalyze
\* deliberately analyses such statements as if control fell through; they are outside C09's grammar)
AfterJump == Top.cur # << >> /\ Top.cur[Len(Top.cur)].k \in {"return", "raise", "break", "continue"}

\* nested functions defined earlier in the current block or in an enclosing block (their definition dominates here)
VisibleDefs == UNION {{stack[i].cur[j] : j \in {m \in 1..Len(stack[i].cur) : stack[i].cur[m].k \in {"defg", "defn"}}}
                      : i \in 1..Len(stack)}

AddSimple ==
    /\ ~done /\ nid <= MaxStmts /\ ~AfterJump
    /\ (Shape = "loop" => Len(stack) > 1)
    /\ \E s \in ({[k |-> "assign", v |-> w, id |-> nid] : w \in GenVars} \cup {[k |-> "use", v |-> w, id |-> nid] : w \in GenVars}
                 \cup {[k |-> "defg", v |-> w, id |-> nid] : w \in GenVars} \cup {[k |-> "defn", v |-> w, id |-> nid] : w \in GenVars}
                 \cup {[k |-> "callg", t |-> d.id, v |-> d.v, w |-> d.k = "defn", id |-> nid] : d \in VisibleDefs}
                 \cup {[k |-> "return", id |-> nid], [k |-> "raise", id |-> nid], [k |-> "call", id |-> nid]}
                 \cup (IF InLoopBody THEN {[k |-> "break", id |-> nid], [k |-> "continue", id |-> nid]} ELSE {})) :
         /\ s.k \in SimpleKinds
         /\ Push(s)
    /\ nid' = nid + 1 /\ UNCHANGED done

Open ==
    /\ ~done /\ nid < MaxStmts /\ Len(stack) <= MaxDepth /\ ~AfterJump     \* a compound statement needs a body statement
    /\ \E kind \in Kinds : \E shape \in Shapes[kind] :
         /\ (Shape = "loop" /\ Len(stack) = 1) => (kind \in {"for", "while", "whiletrue"} /\ Top.cur = << >> /\ shape = <<"body">>)
         /\ (Shape = "loop" /\ Len(stack) > 1) => kind \notin {"for", "while", "whiletrue"}
         /\ stack' = Append(stack, Frame(kind, shape, nid))
    /\ nid' = nid + 1 /\ UNCHANGED done

\* finish the current block of the top frame and start its next block (blocks other than `orelse`
\* must not be empty)
NextPart ==
    /\ ~done /\ Len(stack) > 1
    /\ Len(Top.parts) + 1 < Len(Top.shape)
    /\ Top.cur # << >>
    /\ stack' = [stack EXCEPT ![Len(stack)] = [@ EXCEPT !.parts = Append(@, Top.cur), !.cur = << >>]]
    /\ UNCHANGED <<nid, done>>

RECURSIVE Blocks(_, _, _)
Blocks(shape, parts, name) ==     \* the blocks of a frame carrying the given part name, in order
    IF shape = << >> THEN << >>
    ELSE (IF Head(shape) = name THEN <<Head(parts)>> ELSE << >>) \o Blocks(Tail(shape), Tail(parts), name)
FirstOr(bs) == IF bs = << >> THEN << >> ELSE bs[1]

MakeStmt(f, parts) ==
    LET body == FirstOr(Blocks(f.shape, parts, "body"))
        orelse == FirstOr(Blocks(f.shape, parts, "orelse"))
    IN CASE f.kind = "if" -> [k |-> "if", id |-> f.id, body |-> body, orelse |-> orelse]
         [] f.kind = "while" -> [k |-> "while", id |-> f.id, true |-> FALSE, body |-> body, orelse |-> orelse]
         [] f.kind = "whiletrue" -> [k |-> "while", id |-> f.id, true |-> TRUE, body |-> body, orelse |-> orelse]
         [] f.kind = "for" -> [k |-> "for", id |-> f.id, body |-> body, orelse |-> orelse]
         [] f.kind = "with" -> [k |-> "with", id |-> f.id, supp |-> FALSE, body |-> body]
         [] f.kind = "withsupp" -> [k |-> "with", id |-> f.id, supp |-> TRUE, body |-> body]
         [] f.kind = "try" -> [k |-> "try", id |-> f.id, body |-> body, handlers |-> Blocks(f.shape, parts, "h"),
                               orelse |-> orelse, final |-> FirstOr(Blocks(f.shape, parts, "final"))]

Close ==
    /\ ~done /\ Len(stack) > 1
    /\ Len(Top.parts) + 1 = Len(Top.shape)
    /\ (Top.cur # << >> \/ PartName(Top) = "orelse")
    /\ LET st == MakeStmt(Top, Append(Top.parts, Top.cur))
           below == SubSeq(stack, 1, Len(stack) - 1)
       IN stack' = [below EXCEPT ![Len(below)].cur = Append(@, st)]
    /\ UNCHANGED <<nid, done>>

RECURSIVE HasVar(_, _, _)
HasVar(block, kind, v) ==
    \E i \in 1..Len(block) :
        LET s == block[i]
        IN \/ s.k = kind /\ s.v = v
           \/ s.k \in {"if", "while", "for"} /\ (HasVar(s.body, kind, v) \/ HasVar(s.orelse, kind, v))
           \/ s.k = "with" /\ HasVar(s.body, kind, v)
           \/ s.k = "try" /\ (HasVar(s.body, kind, v) \/ HasVar(s.orelse, kind, v) \/ HasVar(s.final, kind, v)
                              \/ \E j \in 1..Len(s.handlers) : HasVar(s.handlers[j], kind, v))

Finish ==
    /\ ~done /\ Len(stack) = 1 /\ Top.cur # << >>
    \* `nonlocal v` is a SyntaxError unless the enclosing function binds v somewhere
    /\ \A v \in GenVars : HasVar(Top.cur, "defn", v) => HasVar(Top.cur, "assign", v)
    /\ done' = TRUE /\ UNCHANGED <<stack, nid>>

GNext == AddSimple \/ Open \/ NextPart \/ Close \/ Finish

Prog == stack[1].cur

(***************************************************************************)
(* C09                                                                     *)
(***************************************************************************)
RECURSIVE UsesOf(_)
UsesOf(block) ==
    IF block = << >> THEN {}
    ELSE LET s == Head(block)
             here == CASE s.k \in {"use", "defg"} -> {s.id}
                       [] s.k \in {"if", "for"} -> UsesOf(s.body) \cup UsesOf(s.orelse)
                       [] s.k = "while" -> UsesOf(s.body) \cup UsesOf(s.orelse)
                       [] s.k = "with" -> UsesOf(s.body)
                       [] s.k = "try" -> UsesOf(s.body) \cup UsesOf(s.orelse) \cup UsesOf(s.final)
                                         \cup UNION {UsesOf(s.handlers[i]) : i \in 1..Len(s.handlers)}
                       [] OTHER -> {}
         IN here \cup UsesOf(Tail(block))

\* the property at one use, given what was reported there
At(pairs, u) == {p[2] : p \in {q \in pairs : q[1] = u}}
\* (rs / rl: Reaching(prog, "strict" / "liberal"), computed once per program)
UseOK2(rs, rl, u, reported) ==
    LET strict == At(rs, u)
        liberal == At(rl, u)
    IN liberal # {} => (strict \subseteq reported /\ reported \subseteq liberal)     \* dead uses are not judged
UseOK(prog, u, reported) == UseOK2(Reaching(prog, "strict"), Reaching(prog, "liberal"), u, reported)

\* Known deviations of the implementation (see known_findings.jsonl); each is a predicate on the program
\* and on the shape of the failure, so that any other failure is still reported.
\* a try statement or a suppressing `with` placed where the visitor visits twice (a finally clause, a loop body)
RECURSIVE SuppressRevisited(_, _)
SuppressRevisited(block, twice) ==
    \E i \in 1..Len(block) :
        LET s == block[i]
        IN \/ twice /\ (s.k = "try" \/ (s.k = "with" /\ s.supp))
           \/ s.k = "if" /\ (SuppressRevisited(s.body, twice) \/ SuppressRevisited(s.orelse, twice))
           \/ s.k \in {"while", "for"} /\ (SuppressRevisited(s.body, TRUE) \/ SuppressRevisited(s.orelse, twice))
           \/ s.k = "with" /\ SuppressRevisited(s.body, twice)
           \/ s.k = "try" /\ (SuppressRevisited(s.body, twice) \/ SuppressRevisited(s.orelse, twice)
                              \/ SuppressRevisited(s.final, TRUE)
                              \/ \E j \in 1..Len(s.handlers) : SuppressRevisited(s.handlers[j], twice))

RECURSIVE AnyStmt(_, _)
AnyStmt(block, kind) ==       \* does the program contain a statement with the given feature?
    \E i \in 1..Len(block) :
        LET s == block[i]
            here == CASE kind = "loopelse" -> s.k \in {"while", "for"} /\ s.orelse # << >>
                      [] kind = "whiletrue" -> s.k = "while" /\ s.true
                      [] kind = "bodyleaves" -> s.k \in {"while", "for"} /\ s.body # << >>
                                                /\ s.body[Len(s.body)].k \in {"break", "return", "raise"}
                      [] kind = "break" -> s.k = "break"
        IN \/ here
           \/ s.k \in {"if", "while", "for"} /\ (AnyStmt(s.body, kind) \/ AnyStmt(s.orelse, kind))
           \/ s.k = "with" /\ AnyStmt(s.body, kind)
           \/ s.k = "try" /\ (AnyStmt(s.body, kind) \/ AnyStmt(s.orelse, kind) \/ AnyStmt(s.final, kind)
                              \/ \E j \in 1..Len(s.handlers) : AnyStmt(s.handlers[j], kind))

\* verdict at one use: "ok", a known deviation class, or "viol"
UseVerdict2(prog, rs, rl, u, reported) ==
    LET strict == At(rs, u)
        liberal == At(rl, u)
        missing == strict \ reported
        \* assignments in dead code (e.g. the else clause of a try whose body always returns) are analysed as if control
        \* fell through, by design; they are not counted against the property
        extra == (reported \ liberal) \cap (LiveDefs(rl) \cup {0})
    IN IF liberal = {} \/ (missing = {} /\ extra = {}) THEN "ok"
       \* (a) the else clause of a loop is analysed from the state before the loop only, and the second
       \*     visit of the loop body sees the assignments of the else clause
       ELSE IF AnyStmt(prog, "loopelse") THEN "dev:loop-else"
       \* (b) in a loop that is always entered (`while True`) a use before the first assignment of the body is
       \*     not reported although the first iteration executes it with the name unbound
       ELSE IF AnyStmt(prog, "whiletrue") /\ missing = {0} /\ (extra = {} \/ AnyStmt(prog, "bodyleaves"))
            THEN "dev:always-entered-loop-first-iteration"
       \* (c) the loop body is visited a second time even when its first pass always leaves the loop
       ELSE IF AnyStmt(prog, "bodyleaves") /\ missing = {} THEN "dev:loop-body-revisited-after-unconditional-exit"
       \* (c') the second visit of a loop body starts from the state AFTER the loop, which includes the states at the
       \*      break statements: an assignment that is always followed by a break is considered able to reach the body
       ELSE IF AnyStmt(prog, "break") /\ missing = {} THEN "dev:loop-second-visit-starts-from-break-state"
       \* (d) suppressing_subscope finds the assignments of its block by comparing name_to_all_definition_nodes before
       \*     and after; when the block is visited a second time (finally clause, loop body) the nodes are already
       \*     there, so the assignments made inside a try body / suppressing with are dropped after the block
       ELSE IF SuppressRevisited(prog, FALSE) /\ extra = {} THEN "dev:suppressing-block-revisited-loses-assignments"
       \* (e) an assignment through `nonlocal` in a nested function is recorded where the nested function is DEFINED (and
       \*     leaks into the module scope when the enclosing function has not assigned the name yet), not where it is called
       ELSE IF HasKind(prog, {"defn"}) THEN "dev:nonlocal-assignment-recorded-at-definition"
       \* (f) a use inside a nested function sees the definitions current where the nested function is DEFINED (plus
       \*     whatever was current there at the end of the collecting phase), not those current at its calls
       ELSE IF HasKind(prog, {"defg"}) THEN "dev:closure-use-sees-definition-site-state"
       ELSE "viol"

UseVerdict(prog, u, reported) == UseVerdict2(prog, Reaching(prog, "strict"), Reaching(prog, "liberal"), u, reported)

ReportedFrom(usage, u) == IF usage[u].present /\ usage[u].nodes # << >> THEN ToSet(usage[u].nodes) ELSE {0}
C09_Holds(prog) ==
    LET rs == Reaching(prog, "strict")
        rl == Reaching(prog, "liberal")
        us == ImplUsage(prog)
    IN \A u \in UsesOf(prog) : UseVerdict2(prog, rs, rl, u, ReportedFrom(us, u)) # "viol"
C09_HoldsStrict(prog) ==
    LET rs == Reaching(prog, "strict")
        rl == Reaching(prog, "liberal")
        us == ImplUsage(prog)
    IN \A u \in UsesOf(prog) : UseOK2(rs, rl, u, ReportedFrom(us, u))
InvC09 == done => C09_Holds(Prog)
InvC09Strict == done => C09_HoldsStrict(Prog)
=============================================================================
