----------------------------- MODULE MatchCases -----------------------------
(***************************************************************************)
(* Property C02 for `match` statements with several cases and guards: the  *)
(* per-case constraint bookkeeping of NameCheckVisitor.visit_Match         *)
(* (name_check_visitor.py:5690).                                           *)
(*                                                                         *)
(* A case of this module is                                                *)
(*     [subj |-> declared type of the parameter x,                         *)
(*      cases |-> << [p |-> pattern (a condition of Narrowing.tla),        *)
(*                    g |-> guard name] .. >>]                             *)
(* standing for                                                            *)
(*     def f(x: <subj>, y: Optional[int] = None):                          *)
(*         match x:                                                        *)
(*             case <p1> if <g1>:  U(12, x)                                 *)
(*             case <p2> if <g2>:  U(22, x)   ...                           *)
(*         U(99, x)                                                        *)
(* Guards: "none" (no guard), "flag" `flag()` (opaque, no constraint),     *)
(* "guse" `G(<10i+1>, x)` (records x, then opaque), "xnn" `x is not None`, *)
(* "xint" `isinstance(x, int)` (constraints on the subject), "ynone"       *)
(* `y is None` (constraint on another variable).                           *)
(* Patterns: value / singleton / class / or / sequence patterns of         *)
(* Narrowing.tla, the wildcard `_`, a capture `z`, the mapping pattern {}. *)
(*                                                                         *)
(* Impl*  visit_Match: every case is visited in a subscope to which the    *)
(*   inverted constraints of all earlier cases are added, then the pattern *)
(*   constraint, then the guard constraint; the constraint carried to the  *)
(*   later cases is AndConstraint.make([pattern, guard]).invert(); after   *)
(*   the match the case scopes and the implicit else (all inverted         *)
(*   constraints; dropped when the subject is exhausted) are combined.     *)
(* Ref    concrete execution of the match statement for an object and the  *)
(*   outcomes of the opaque guards: which reads happen, with which object. *)
(*   MHolds (CPython's pattern semantics) / Member only.                   *)
(***************************************************************************)
EXTENDS Narrowing

CONSTANTS MSubjects,   \* names of the subject types
          MPatterns,   \* names of the patterns
          MGuards,     \* guard names
          MMaxCases,   \* 2 or 3
          MBug         \* sensitivity: "none" | "drop_null_guard" | "guard_not_carried"

CMatchWild == Cnd("m_wild", << >>, << >>, Never, "", 0, FALSE, << >>)
CMatchCapture == Cnd("m_capture", << >>, << >>, Never, "", 0, FALSE, << >>)
CMatchMap == Cnd("m_map", << >>, << >>, Never, "", 0, FALSE, << >>)
Irrefutable(c) == c.kind \in {"m_wild", "m_capture"}

MSubjectOf(name) ==
    CASE name = "oi" -> Union(<<Typed("int"), Known(NONE)>>)
      [] name = "isn" -> Union(<<Typed("int"), Typed("str"), Known(NONE)>>)
      [] name = "b" -> Typed("bool")
      [] name = "col" -> Typed("Color")
      [] name = "lit" -> Union(<<Known(I1), Known(SA), Known(NONE)>>)
      [] name = "tup" -> Union(<<SeqT("tuple", <<One(Typed("int"))>>), SeqT("tuple", <<One(Typed("int")), One(Typed("str"))>>), Known(NONE)>>)
      [] name = "dm" -> Union(<<Generic("dict", <<Typed("str"), Typed("int")>>), Typed("int")>>)
MPatternOf(name) ==
    CASE name = "None" -> CMatchSingleton(NONE)
      [] name = "True" -> CMatchSingleton(BT)
      [] name = "1" -> CMatchValue(I1)
      [] name = "a" -> CMatchValue(SA)
      [] name = "RED" -> CMatchValue(RED)
      [] name = "int()" -> CMatchClass("int")
      [] name = "str()" -> CMatchClass("str")
      [] name = "tuple()" -> CMatchClass("tuple")
      [] name = "1|None" -> CMatchOr(CMatchValue(I1), CMatchSingleton(NONE))
      [] name = "[a]" -> CMatchSeq(1, "")
      [] name = "[a,*r]" -> CMatchSeq(1, "1")
      [] name = "{}" -> CMatchMap
      [] name = "_" -> CMatchWild
      [] name = "z" -> CMatchCapture

OpaqueGuards == {"flag", "guse"}
GuardCond(g) == IF g = "xnn" THEN CIs(NONE, TRUE) ELSE CIsinstance(<<"int">>)

(***************************************************************************)
(* Ref: CPython                                                            *)
(***************************************************************************)
\* does the pattern match the object (1 / 0)
MHolds(c, o) == CASE Irrefutable(c) -> 1
                  [] c.kind = "m_map" -> B2C(o.c = "dict")
                  [] OTHER -> HoldsCode(c, o)
MTested(c) == IF c.kind = "m_map" THEN Typed("Mapping") ELSE Tested(c)

GuardRead(i) == 10 * i + 1
BodyRead(i) == 10 * i + 2
AfterRead == 99
MEv(u, o) == [u |-> u, o |-> o]

\* all executions of the match for the object o and the value y: one per outcome of the opaque guards
RECURSIVE RefMatch(_, _, _, _, _)
RefMatch(case, o, y, i, ev) ==
    IF i > Len(case.cases) THEN {Append(ev, MEv(AfterRead, o))}
    ELSE LET cs == case.cases[i]
             taken(e) == {e \o <<MEv(BodyRead(i), o), MEv(AfterRead, o)>>}
             skipped(e) == RefMatch(case, o, y, i + 1, e)
         IN IF MHolds(cs.p, o) # 1 THEN skipped(ev)
            ELSE CASE cs.g = "none" -> taken(ev)
                   [] cs.g = "flag" -> taken(ev) \cup skipped(ev)
                   [] cs.g = "guse" -> LET e == Append(ev, MEv(GuardRead(i), o)) IN taken(e) \cup skipped(e)
                   [] cs.g \in {"xnn", "xint"} -> IF HoldsCode(GuardCond(cs.g), o) = 1 THEN taken(ev) ELSE skipped(ev)
                   [] cs.g = "ynone" -> IF y = NONE THEN taken(ev) ELSE skipped(ev)

\* the objects the functions are called with (members of the subject type or not: the execution model is compared on all)
MObjPool == {I0, I1, BT, BF, FLT1, SA, SE, NONE, RED, GREEN, OA, Cont("tuple", << >>), Cont("tuple", <<I1>>), Cont("tuple", <<I1, SA>>),
             Cont("list", <<I1>>), Cont("dict", << >>), Cont("dict", <<KV(SA, I1)>>)}
MYVals(case) == IF \E i \in 1..Len(case.cases) : case.cases[i].g = "ynone" THEN {NONE, I1} ELSE {NONE}
MRuns(case) == UNION {{[arg |-> o, y |-> y, evs |-> r] : r \in RefMatch(case, o, y, 1, << >>)} : <<o, y>> \in MObjPool \X MYVals(case)}

\* the quantifier of the property: objects of the subject type whose equality with the literals of value patterns is type-respecting
MInDomain(case, o) == Member(o, case.subj) /\ \A i \in 1..Len(case.cases) : EqDomain(case.cases[i].p, o)
MSeenAt(case, runs, u) == {r.arg : r \in {r \in runs : MInDomain(case, r.arg) /\ \E k \in 1..Len(r.evs) : r.evs[k].u = u}}
MLost(case, runs, u, R) == {o \in MSeenAt(case, runs, u) : ~Member(o, R)}
\* N2: nothing outside the subject type and the tested types
MNoWiden(case, R) ==
    \A o \in NObjects : Member(o, R) =>
        \/ Member(o, case.subj)
        \/ \E i \in 1..Len(case.cases) : Member(o, MTested(case.cases[i].p))
                                         \/ (case.cases[i].g \in {"xnn", "xint"} /\ Member(o, Tested(GuardCond(case.cases[i].g))))

(***************************************************************************)
(* Impl: visit_Match                                                       *)
(***************************************************************************)
MImplOfPattern(c) ==
    CASE Irrefutable(c) -> ACon(ConPredicate(TRUE, PAlways))                              \* patma.py:372 visit_MatchAs (no sub-pattern): AlwaysMatching
      \* patma.py:245 visit_MatchMapping without keys: IsAssignablePredicate(Mapping[K, V], positive_only=False); the type variables
      \* are outside the term algebra: the bare class stands for it (subjects never contain object / Any, so the pattern type
      \* itself is never the result)
      [] c.kind = "m_map" -> ACon(ConPredicate(TRUE, PAssignable(Typed("Mapping"), FALSE)))
      [] OTHER -> ImplOfCond(c)
\* constraint_from_condition(case.guard) (:5711)
MImplOfGuard(g) ==
    CASE g \in OpaqueGuards -> ANull                                                        \* a call: no constraint
      [] g \in {"xnn", "xint"} -> ImplOfCond(GuardCond(g))
      [] g = "ynone" -> ACon(ConV("y", "predicate", TRUE, PEquals(NONE, TRUE), "", NONE, Never, << >>))
\* the constraints of one case: [pattern] or [pattern, guard]   (:5708 / :5715)
MCaseCons(cs) ==
    IF cs.g = "none" \/ (MBug = "drop_null_guard" /\ cs.g \in OpaqueGuards) THEN <<MImplOfPattern(cs.p)>>
    ELSE <<MImplOfPattern(cs.p), MImplOfGuard(cs.g)>>
\* :5717 constraints_to_apply.append(AndConstraint.make(constraints).invert())
MCarried(cs) == IF MBug = "guard_not_carried" THEN ImplInvert(MImplOfPattern(cs.p)) ELSE ImplInvert(AndMake(MCaseCons(cs)))
\* FunctionScope.add_constraint: the concrete constraints on x (constraints without a variable / on y do not touch x)
XCons(ac) == SelectSeq(ImplApply(ac), LAMBDA k : k.var = "x")
\* :5698 the inverted constraints of the cases before case i, added to its scope one by one
MPrefix(case, i) == Concat([j \in 1..(i - 1) |-> XCons(MCarried(case.cases[j]))])
\* x where the guard of case i is evaluated (after :5709 add_constraint(case.pattern, pattern_constraint))
MImplAtGuard(case, i) == ImplConstrain(case.subj, MPrefix(case, i) \o XCons(MImplOfPattern(case.cases[i].p)))
\* x in the body of case i (after :5714 add_constraint(case.guard, guard_constraint))
MImplAtBody(case, i) ==
    LET cs == case.cases[i]
    IN ImplConstrain(case.subj, MPrefix(case, i) \o XCons(MImplOfPattern(cs.p)) \o (IF cs.g = "none" THEN << >> ELSE XCons(MImplOfGuard(cs.g))))
\* :5725 the subject after all cases: constrain_value(subject, AndConstraint.make(constraints_to_apply)) -- every concrete constraint
MSubjectAfter(case) == ImplConstrain(case.subj, Concat([j \in 1..Len(case.cases) |-> ImplApply(MCarried(case.cases[j]))]))
\* :5732-5741 x after the match: the case scopes, and the implicit else unless the subject is exhausted (NO_RETURN_VALUE)
MImplAfter(case) ==
    LET n == Len(case.cases)
        bodies == [i \in 1..n |-> MImplAtBody(case, i)]
        els == IF MSubjectAfter(case) = Never THEN << >> ELSE <<ImplConstrain(case.subj, MPrefix(case, n + 1))>>
    IN ImplUnite(bodies \o els)

MReads(case) == {BodyRead(i) : i \in 1..Len(case.cases)} \cup {GuardRead(i) : i \in {j \in 1..Len(case.cases) : case.cases[j].g = "guse"}} \cup {AfterRead}
MImplAt(case, u) == IF u = AfterRead THEN MImplAfter(case)
                    ELSE IF u % 10 = 1 THEN MImplAtGuard(case, u \div 10) ELSE MImplAtBody(case, u \div 10)

\* the known deviation classes of Narrowing.tla, stated on the lost object and a pattern / guard of the function
MDevClass(case, o) ==
    LET hits == {i \in 1..Len(case.cases) : DevClassOfLost(case.subj, case.cases[i].p, o) # ""}
    IN IF hits = {} THEN "" ELSE DevClassOfLost(case.subj, case.cases[CHOOSE i \in hits : TRUE].p, o)
MN1Verdict(case, runs, u, R) ==
    LET lost == MLost(case, runs, u, R)
    IN IF lost = {} THEN "ok"
       ELSE IF \A o \in lost : MDevClass(case, o) # "" THEN "dev:" \o MDevClass(case, CHOOSE o \in lost : TRUE)
       ELSE "viol"

MImplOK(case) ==
    LET runs == MRuns(case)
    IN \A u \in MReads(case) : MN1Verdict(case, runs, u, MImplAt(case, u)) # "viol" /\ MNoWiden(case, MImplAt(case, u))

(***************************************************************************)
(* Staged generator                                                        *)
(***************************************************************************)
VARIABLES msubj, mcases, mstage
mvars == <<msubj, mcases, mstage>>
MInit == /\ mstage = "subj" /\ msubj = Never /\ mcases = << >>
         /\ stage = "match" /\ ta = Never /\ tb = Never /\ ob = NONE /\ cnd = CTruthy
MChooseSubject == mstage = "subj" /\ \E s \in MSubjects : msubj' = MSubjectOf(s) /\ mstage' = "cases" /\ UNCHANGED mcases /\ UNCHANGED nvars
\* a case after an irrefutable unguarded case is a SyntaxError
MLastCatchesAll == mcases # << >> /\ Irrefutable(mcases[Len(mcases)].p) /\ mcases[Len(mcases)].g = "none"
MAddCase == /\ mstage = "cases" /\ Len(mcases) < MMaxCases /\ ~MLastCatchesAll
            /\ \E p \in MPatterns, g \in MGuards : mcases' = Append(mcases, [p |-> MPatternOf(p), g |-> g])
            /\ UNCHANGED <<msubj, mstage>> /\ UNCHANGED nvars
MFinish == mstage = "cases" /\ Len(mcases) >= 2 /\ mstage' = "done" /\ UNCHANGED <<msubj, mcases>> /\ UNCHANGED nvars
MNext == MChooseSubject \/ MAddCase \/ MFinish

MCase == [subj |-> msubj, cases |-> mcases]
MDone == mstage = "done"
InvMatch == MDone => MImplOK(MCase)
=============================================================================
