------------------------------ MODULE Overloads ------------------------------
(***************************************************************************)
(* Overload resolution (property C08).                                     *)
(*                                                                         *)
(* A case is an overload set (2-4 signatures over a small type vocabulary, *)
(* parameters of differing number / name / kind / default) and one call    *)
(* (positional and keyword arguments, each of a declared type: a plain     *)
(* class, a literal, a list[...] generic, Any, or a union whose members    *)
(* are any of these -- including Any and list[Any] members, the inputs of  *)
(* the "Any-used" bookkeeping of union decomposition).                     *)
(*                                                                         *)
(*   Impl*  transcribes pyanalyze/signature.py (file:line in comments):    *)
(*          the two-pass loop of OverloadedSignature.check_call with its   *)
(*          any_rets / union_rets / union_and_any_rets bookkeeping,        *)
(*          _unite_rets, Signature.bind_arguments (restricted to the       *)
(*          modelled parameter kinds), check_call_with_bound_args,         *)
(*          _check_param_type_compatibility and decompose_union.  It is a  *)
(*          state machine (variable m) whose step function MStep is also   *)
(*          iterated by the operator ImplResolve, so that the trace        *)
(*          specification can run the same machine on recorded cases.      *)
(*   Ref*   is the property: "first accepting overload" on ground          *)
(*          argument types, a union argument = every member (each member's *)
(*          own call judged by the same rule), an Any-bearing member (Any, *)
(*          list[Any]) = some unknown ground type; a member call whose     *)
(*          unknown part can select overloads of different return types is *)
(*          Any.  It knows nothing of loops, Any-flags or decomposition.   *)
(*                                                                         *)
(* Every operator takes the case as a parameter so that the same           *)
(* definitions judge TLC-enumerated states and observations of the real    *)
(* code (OverloadsTrace.tla).                                              *)
(***************************************************************************)
EXTENDS Naturals, Sequences, FiniteSets, TLC

Range(s) == {s[i] : i \in 1..Len(s)}
Min(S) == CHOOSE x \in S : \A y \in S : x <= y

(***************************************************************************)
(* Type vocabulary.  A type NAME is what cases carry ("int", "int|str",    *)
(* "any"); Members(name) is the ordered sequence of its union members.     *)
(* The harness renders a name by splitting at "|" (int bool str float      *)
(* object -> the builtin class, none -> None, any -> typing.Any, several   *)
(* members -> typing.Union[...] in that order).                            *)
(***************************************************************************)
AllAtoms == {"int", "bool", "str", "none", "float", "object"}

\* further single (non-union) type names:
\*   list[int] list[str] list[any]   typing.List[...]   (element types without subclass relation,
\*                                   so that the variance of list is not a question here)
\*   L1 L2 La                        Literal[1] Literal[2] Literal["a"]
\*   E, EA EB                        an enum class E(enum.Enum) with members A, B; Literal[E.A], Literal[E.B]
Members(t) ==
    CASE t = "int" -> <<"int">>       [] t = "bool" -> <<"bool">>   [] t = "str" -> <<"str">>
      [] t = "none" -> <<"none">>     [] t = "float" -> <<"float">> [] t = "object" -> <<"object">>
      [] t = "any" -> <<"any">>
      [] t = "int|str" -> <<"int", "str">>
      [] t = "str|int" -> <<"str", "int">>
      [] t = "int|none" -> <<"int", "none">>
      [] t = "str|none" -> <<"str", "none">>
      [] t = "bool|str" -> <<"bool", "str">>
      [] t = "int|bool" -> <<"int", "bool">>
      [] t = "float|str" -> <<"float", "str">>
      [] t = "int|str|none" -> <<"int", "str", "none">>
      [] t = "str|none|float" -> <<"str", "none", "float">>
      \* generic, literal and enum members
      [] t = "list[int]" -> <<"list[int]">>   [] t = "list[str]" -> <<"list[str]">>
      [] t = "list[any]" -> <<"list[any]">>
      [] t = "L1" -> <<"L1">>   [] t = "L2" -> <<"L2">>   [] t = "La" -> <<"La">>
      [] t = "E" -> <<"E">>     [] t = "EA" -> <<"EA">>   [] t = "EB" -> <<"EB">>
      \* unions with an Any-bearing member (either position)
      [] t = "any|str" -> <<"any", "str">>
      [] t = "str|any" -> <<"str", "any">>
      [] t = "any|int" -> <<"any", "int">>
      [] t = "any|none" -> <<"any", "none">>
      [] t = "int|str|any" -> <<"int", "str", "any">>
      [] t = "any|str|none" -> <<"any", "str", "none">>
      [] t = "list[any]|str" -> <<"list[any]", "str">>
      [] t = "str|list[any]" -> <<"str", "list[any]">>
      [] t = "list[any]|list[str]" -> <<"list[any]", "list[str]">>
      [] t = "any|list[int]" -> <<"any", "list[int]">>
      \* unions of generic / literal / enum members
      [] t = "list[int]|str" -> <<"list[int]", "str">>
      [] t = "list[int]|list[str]" -> <<"list[int]", "list[str]">>
      [] t = "L1|La" -> <<"L1", "La">>
      [] t = "L1|L2" -> <<"L1", "L2">>
      [] t = "L1|str" -> <<"L1", "str">>
      [] t = "EA|EB" -> <<"EA", "EB">>
      [] t = "EA|int" -> <<"EA", "int">>

IsAnyName(t) == t = "any"
IsUnionName(t) == Len(Members(t)) > 1
\* a single type name in which Any occurs: the argument is (partly) unknown
AnyBearing(mem) == mem \in {"any", "list[any]"}

NameOrd(n) == CASE n = "x" -> 1 [] n = "y" -> 2 [] n = "z" -> 3

(***************************************************************************)
(* Cases.                                                                  *)
(*   param  = [name, kind \in {"pk","ko"}, ty (type name), dflt]           *)
(*            pk = positional-or-keyword, ko = keyword-only                *)
(*   sig    = [params : Seq(param), ret : 1..4]   declared `-> Literal[ret]`*)
(*   arg    = [kw : "" (positional) or the keyword, ty : type name]        *)
(*   case   = [sigs : Seq(sig), call : Seq(arg)]                           *)
(*   result = [st : "ok" | "err"  (a diagnostic on the call or not),       *)
(*             ty : Seq(1..4) the members of the revealed Literal[...],    *)
(*             anyk : "" or the source of a revealed Any[...],             *)
(*             code : "" or the diagnostic's error code]                   *)
(***************************************************************************)
Result(st, ty, anyk, code) == [st |-> st, ty |-> ty, anyk |-> anyk, code |-> code]

KwOf(call) == {call[i].kw : i \in 1..Len(call)} \ {""}
NPos(call) == Cardinality({i \in 1..Len(call) : call[i].kw = ""})
KwIndex(call, name) == IF \E i \in 1..Len(call) : call[i].kw = name
                       THEN CHOOSE i \in 1..Len(call) : call[i].kw = name ELSE 0

(***************************************************************************)
(***************************************************************************)
(* Ref: what the property demands.                                         *)
(***************************************************************************)
(***************************************************************************)

\* Ground types: what one concrete argument value can be known as.  A class, a literal value
\* (L1, L2: the ints 1, 2; La: the str "a"; EA, EB: the members of the enum class E) or a list of
\* known element type (list[none] stands for "a list of anything else").
Ground == AllAtoms \cup {"L1", "L2", "La", "E", "EA", "EB", "list[int]", "list[str]", "list[none]"}
GroundLists == {"list[int]", "list[str]", "list[none]"}

\* assignability of a ground type to one declared (non-union) type (typing spec: nominal subtyping,
\* everything is an object, int is acceptable where float is expected, a literal is a value of its
\* class, list[Any] is every list; only the identical list type otherwise)
RefAtomSub(a, p) ==
    \/ a = p
    \/ p = "object"
    \/ p = "any"
    \/ a = "bool" /\ p \in {"int", "float"}
    \/ a = "int" /\ p = "float"
    \/ a \in {"L1", "L2"} /\ p \in {"int", "float"}
    \/ a = "La" /\ p = "str"
    \/ a \in {"EA", "EB"} /\ p = "E"
    \/ a \in GroundLists /\ p = "list[any]"

RefTypeAccepts(pty, a) == \E q \in Range(Members(pty)) : RefAtomSub(a, q)

\* CPython's argument binding for positional-or-keyword / keyword-only parameters and a call with
\* positional and keyword arguments.  RefArgFor(sig, call, j) = index of the argument that fills
\* parameter j (0 = none).  The real CPython outcome of every binding accompanies every observation
\* and is compared with RefBinds first (verdict "oracle:binder").
RefPkIndices(sig) == {j \in 1..Len(sig.params) : sig.params[j].kind = "pk"}
RefPkRank(sig, j) == Cardinality({i \in RefPkIndices(sig) : i <= j})     \* j is the n-th pk parameter

RefArgFor(sig, call, j) ==
    LET p == sig.params[j]
    IN IF p.kind = "pk" /\ RefPkRank(sig, j) <= NPos(call) THEN RefPkRank(sig, j)
       ELSE KwIndex(call, p.name)

RefBinds(sig, call) ==
    /\ NPos(call) <= Cardinality(RefPkIndices(sig))                            \* too many positionals
    /\ \A n \in KwOf(call) :                                                   \* every keyword names a
         \E j \in 1..Len(sig.params) :                                         \* parameter not already
            /\ sig.params[j].name = n                                          \* filled positionally
            /\ ~(sig.params[j].kind = "pk" /\ RefPkRank(sig, j) <= NPos(call))
    /\ \A j \in 1..Len(sig.params) : RefArgFor(sig, call, j) # 0 \/ sig.params[j].dflt

\* conc = the concrete class of every argument (a sequence parallel to call)
RefAccepts(sig, call, conc) ==
    /\ RefBinds(sig, call)
    /\ \A j \in 1..Len(sig.params) :
         LET a == RefArgFor(sig, call, j) IN a = 0 \/ RefTypeAccepts(sig.params[j].ty, conc[a])

\* clause 1: the first overload whose parameters accept the arguments (0 = none)
RefFirst(sigs, call, conc) ==
    LET S == {i \in 1..Len(sigs) : RefAccepts(sigs[i], call, conc)} IN IF S = {} THEN 0 ELSE Min(S)

\* A union argument stands for each of its members (the call must be fine for every one of them);
\* an Any-bearing member (Any, list[Any]) stands for some unknown ground type (the call is fine if it
\* is for one of them).
\*   RefMemberChoices  one member per argument (the "member's own call")
\*   RefInstances      the ground instances of one member call
UnionPos(call) == {i \in 1..Len(call) : IsUnionName(call[i].ty)}
RefHasAny(call) == \E i \in 1..Len(call) : \E mem \in Range(Members(call[i].ty)) : AnyBearing(mem)

RECURSIVE SeqProduct(_)
SeqProduct(ss) == IF ss = << >> THEN {<< >>}
                  ELSE {Append(p, x) : p \in SeqProduct(SubSeq(ss, 1, Len(ss) - 1)), x \in ss[Len(ss)]}

RefInstOf(mem) == CASE mem = "any" -> Ground [] mem = "list[any]" -> GroundLists [] OTHER -> {mem}
RefMemberChoices(call) == SeqProduct([i \in 1..Len(call) |-> Range(Members(call[i].ty))])
RefInstances(mc) == SeqProduct([i \in 1..Len(mc) |-> RefInstOf(mc[i])])

\* the return labels a member call can have: one per overload that is the first match (clause 1) of
\* some instance.  (Whether the arguments bind does not depend on the instance: evaluated once.)
RefMemberRets(c, mc) ==
    LET B == {i \in 1..Len(c.sigs) : RefBinds(c.sigs[i], c.call)}
        typesOK(i, g) == \A j \in 1..Len(c.sigs[i].params) :
                            LET a == RefArgFor(c.sigs[i], c.call, j)
                            IN a = 0 \/ RefTypeAccepts(c.sigs[i].params[j].ty, g[a])
        first(g) == LET S == {i \in B : typesOK(i, g)} IN IF S = {} THEN 0 ELSE Min(S)
    IN {c.sigs[i].ret : i \in {first(g) : g \in RefInstances(mc)} \ {0}}

\* (the same thing said with clause 1 itself; checked as invariant RefFirstIsClause1)
RefMemberRetsByClause1(c, mc) ==
    {c.sigs[i].ret : i \in {RefFirst(c.sigs, c.call, g) : g \in RefInstances(mc)} \ {0}}

\* [member choice |-> its return labels], built once per case
RefRetsMap(c) == [mc \in RefMemberChoices(c.call) |-> RefMemberRets(c, mc)]

RefAccepted(c) == \A mc \in RefMemberChoices(c.call) : RefMemberRets(c, mc) # {}

\* the return labels of every overload that is the first match of some instance of the call
RefRets(c) == UNION {RefMemberRets(c, mc) : mc \in RefMemberChoices(c.call)}

\* some member's own call is Any: the unknown part of that member can select overloads of different
\* return types ("a member call that matches several overloads only through Any yields Any")
RefMemberIsAny(c) == \E mc \in RefMemberChoices(c.call) : Cardinality(RefMemberRets(c, mc)) > 1

\* The property as a predicate on a result r (modelled or observed); "ok" or the violated clause.
\*   Raised              (observations only) the checker raised instead of giving a verdict
\*   Verdict             diagnosed exactly when not accepted
\*   FirstMatch          no Any, no union: the type is the first accepting overload's return type
\*   UnionContains       one union argument: the type contains the result type of each member's own
\*                       call; when a member's own call is Any (see RefMemberIsAny) only Any contains it
\*   AnyNeverSelectsOne  an Any-bearing argument: the type is Any, or contains the return type of
\*                       every overload the unknown part could select
RefClause(c, r) ==
    LET rm == RefRetsMap(c)
        acc == \A mc \in DOMAIN rm : rm[mc] # {}                      \* = RefAccepted(c)
        rets == UNION {rm[mc] : mc \in DOMAIN rm}                     \* = RefRets(c)
        memberIsAny == \E mc \in DOMAIN rm : Cardinality(rm[mc]) > 1  \* = RefMemberIsAny(c)
        hasAny == RefHasAny(c.call)
        hasUnion == UnionPos(c.call) # {}
    IN IF r.st \notin {"ok", "err"} THEN "Raised"          \* the checker raised an exception instead of giving a verdict
       ELSE IF (r.st = "ok") # acc THEN "Verdict"
       ELSE IF ~acc THEN "ok"
       ELSE IF hasAny THEN (IF r.anyk # "" THEN "ok"
                            ELSE IF ~(rets \subseteq Range(r.ty)) THEN "AnyNeverSelectsOne"
                            ELSE IF hasUnion /\ memberIsAny THEN "UnionContains"
                            ELSE "ok")
       ELSE IF hasUnion THEN (IF r.anyk = "" /\ rets \subseteq Range(r.ty) THEN "ok" ELSE "UnionContains")
       ELSE (IF r.anyk = "" /\ Len(r.ty) = 1 /\ Range(r.ty) = rets THEN "ok" ELSE "FirstMatch")

RefOK(c, r) == RefClause(c, r) = "ok"

(***************************************************************************)
(***************************************************************************)
(* Impl: transcription of pyanalyze/signature.py                           *)
(***************************************************************************)
(***************************************************************************)
CONSTANT Bug      \* "none"; other values switch on a plausible bug (sensitivity self-tests)

\* The actual arguments as the code holds them: members of the declared type of every argument
\* (MultiValuedValue.vals for a union); union decomposition replaces the members of one argument.
Actual(call) == [i \in 1..Len(call) |-> [kw |-> call[i].kw, mem |-> Members(call[i].ty)]]

\* --- Signature.bind_arguments (signature.py:802-1136), branches for POSITIONAL_OR_KEYWORD (:867)
\* and KEYWORD_ONLY (:951) parameters, a call without *args / **kwargs.  pos[j] = index of the
\* argument bound to parameter j, 0 = DEFAULT.
BindFail == [ok |-> FALSE, pos |-> << >>]

RECURSIVE ImplBindFrom(_, _, _, _, _, _)
ImplBindFrom(ps, args, j, pidx, pos, used) ==
    IF j > Len(ps)
    THEN IF pidx # NPos(args) THEN BindFail                                  \* :1107 too many positionals
         ELSE IF KwOf(args) \ used # {} THEN BindFail                        \* :1114 unexpected keyword
         ELSE [ok |-> TRUE, pos |-> pos]
    ELSE LET p == ps[j]
             kwi == KwIndex(args, p.name)
         IN IF p.kind = "pk"
            THEN IF pidx < NPos(args)                                         \* :868
                 THEN IF kwi # 0 THEN BindFail                                \* :889 positional and keyword
                      ELSE ImplBindFrom(ps, args, j + 1, pidx + 1, Append(pos, pidx + 1), used)
                 ELSE IF kwi # 0                                              \* :918
                 THEN ImplBindFrom(ps, args, j + 1, pidx, Append(pos, kwi), used \cup {p.name})
                 ELSE IF p.dflt                                               \* :942
                 THEN ImplBindFrom(ps, args, j + 1, pidx, Append(pos, 0), used)
                 ELSE BindFail                                                \* :946 missing argument
            ELSE IF kwi # 0                                                   \* :952
                 THEN ImplBindFrom(ps, args, j + 1, pidx, Append(pos, kwi), used \cup {p.name})
                 ELSE IF p.dflt                                               \* :984
                 THEN ImplBindFrom(ps, args, j + 1, pidx, Append(pos, 0), used)
                 ELSE BindFail                                                \* :989

ImplBind(sig, args) == ImplBindFrom(sig.params, args, 1, 0, << >>, {})

\* --- Value.can_assign on the vocabulary: TypedValue -> TypeObject (mro plus the artificial bases of
\* type_object.py:78-87: int and its subclasses also have the base float), KnownValue(None).
\* A literal (KnownValue) on the right is accepted by its own class and that class's bases
\* (TypedValue.can_assign value.py:819-828) and by the equal literal of the same type
\* (KnownValue.can_assign value.py:582-593); a class on the right is never accepted by a literal.
ImplMro(a) ==
    CASE a = "bool" -> {"bool", "int", "float", "object"}
      [] a = "int" -> {"int", "float", "object"}
      [] a = "str" -> {"str", "object"}
      [] a = "none" -> {"none", "object"}
      [] a = "float" -> {"float", "object"}
      [] a = "object" -> {"object"}
      [] a = "L1" -> {"L1", "int", "float", "object"}
      [] a = "L2" -> {"L2", "int", "float", "object"}
      [] a = "La" -> {"La", "str", "object"}
      [] a = "E" -> {"E", "object"}
      [] a = "EA" -> {"EA", "E", "object"}
      [] a = "EB" -> {"EB", "E", "object"}

ImplIsList(t) == t \in {"list[int]", "list[str]", "list[any]"}
ImplElem(t) == CASE t = "list[int]" -> "int" [] t = "list[str]" -> "str" [] t = "list[any]" -> "any"

\* one member of the parameter type against one member of the argument: [ok, any]
\*   AnyValue.can_assign (value.py:424) accepts everything and does not record;
\*   Value.can_assign (value.py:102) records "Any used" when the right-hand side is Any;
\*   GenericValue.can_assign (value.py:1042-1062) compares the type arguments with can_assign, so
\*   list[int] <- list[Any] succeeds and records, list[Any] <- list[int] succeeds and does not.
ImplMemAssign(p, a) ==
    IF p = "any" THEN [ok |-> TRUE, any |-> FALSE]
    ELSE IF a = "any" THEN [ok |-> TRUE, any |-> TRUE]
    ELSE IF ImplIsList(p)
    THEN IF ~ImplIsList(a) THEN [ok |-> FALSE, any |-> FALSE]
         ELSE IF ImplElem(p) = "any" THEN [ok |-> TRUE, any |-> FALSE]
         ELSE IF ImplElem(a) = "any" THEN [ok |-> TRUE, any |-> TRUE]
         ELSE [ok |-> ImplElem(p) \in ImplMro(ImplElem(a)), any |-> FALSE]
    ELSE IF ImplIsList(a) THEN [ok |-> p = "object", any |-> FALSE]
    ELSE [ok |-> p \in ImplMro(a), any |-> FALSE]

\* can_assign_and_used_any (value.py:3371): [ok, any]; pm = members of the parameter type,
\* am = members of the argument.  A union on the right is checked member by member
\* (value.py:105, :2001), a union on the left tries every member and accepts what one of them
\* accepts (:2030-2040); the "Any used" flag is one bit of the context that stays set.
ImplMemOK(pm, a) == \E p \in Range(pm) : ImplMemAssign(p, a).ok
ImplMemAny(pm, a) == \E p \in Range(pm) : ImplMemAssign(p, a).ok /\ ImplMemAssign(p, a).any
ImplCanAssign(pm, am) ==
    IF \A a \in Range(am) : ImplMemOK(pm, a)
    THEN [ok |-> TRUE, any |-> \E a \in Range(am) : ImplMemAny(pm, a)]
    ELSE [ok |-> FALSE, any |-> FALSE]

\* decompose_union (signature.py:2782): only for a MultiValuedValue; the members the parameter
\* accepts are removed, the rest is the remaining value; None when no member is accepted.
\* any = union_used_any: some accepted member was accepted thanks to Any (:2795-2802).
ImplDecompose(pm, am) ==
    IF Len(am) > 1 /\ \E a \in Range(am) : ImplMemOK(pm, a)
    THEN [some |-> TRUE, rem |-> SelectSeq(am, LAMBDA a : ~ImplMemOK(pm, a)),
          any |-> \E a \in Range(am) : ImplMemAny(pm, a)]
    ELSE [some |-> FALSE, rem |-> am, any |-> FALSE]

\* --- Signature.check_call_with_bound_args (signature.py:1239): the loop over the bound
\* parameters (:1285-1317).  acc = [err, any, has, args, ov]:  had_error, used_any, whether
\* remaining_arguments was set, the (possibly narrowed) arguments, is_overload still TRUE.
RECURSIVE ImplCheckFrom(_, _, _, _, _)
ImplCheckFrom(ps, pos, orig, j, acc) ==
    IF j > Len(ps) THEN acc
    ELSE IF pos[j] = 0
    THEN ImplCheckFrom(ps, pos, orig, j + 1, acc)        \* :653-657 the default itself: never an error, never Any
    ELSE LET pm == Members(ps[j].ty)
             am == orig[pos[j]].mem
             r == ImplCanAssign(pm, am)                                       \* :650
             d == ImplDecompose(pm, am)
         IN IF r.ok
            THEN ImplCheckFrom(ps, pos, orig, j + 1, [acc EXCEPT !.any = @ \/ r.any])        \* :674, :1299
            ELSE IF acc.ov /\ d.some                                          \* :659-665 the triple of decompose_union
            THEN ImplCheckFrom(ps, pos, orig, j + 1,
                     \* three independent statements per parameter (:1314-1334): tv_map is None /
                     \* param_used_any / remaining_value.  A decomposed parameter can carry BOTH
                     \* "matched a strict subset of the union" and "used Any to match".
                     \* (Bug = "elif_chain": the three tests as one if/elif chain -- the Any flag of
                     \* the decomposed parameter is dropped; sensitivity self-test.)
                     [acc EXCEPT !.any = IF Bug = "elif_chain" THEN @ ELSE @ \/ d.any,   \* :1316
                                 !.has = TRUE,                                \* :1318-1332
                                 !.args = [orig EXCEPT ![pos[j]].mem = d.rem],
                                 !.ov = FALSE])                               \* :1334 once per call
            ELSE ImplCheckFrom(ps, pos, orig, j + 1, [acc EXCEPT !.err = TRUE])             \* :666-674, :1314

\* Signature.check_call_preprocessed (signature.py:1219) -> CallReturn, classified as in the loop
\* of OverloadedSignature.check_call (:2393-2417)
ImplTry(sig, args, isOverload) ==
    LET b == ImplBind(sig, args)
        acc == ImplCheckFrom(sig.params, b.pos, args, 1,
                             [err |-> FALSE, any |-> FALSE, has |-> FALSE, args |-> args, ov |-> isOverload])
        cls == IF ~b.ok \/ acc.err THEN "error"                               \* :1229, :2393
               ELSE IF acc.has THEN (IF acc.any THEN "union_any" ELSE "union")    \* :2395-2405
               ELSE IF acc.any THEN "any"                                     \* :2406
               ELSE "clean"                                                   \* :2408
    IN [cls |-> cls, args |-> IF b.ok THEN acc.args ELSE args]

\* --- OverloadedSignature._unite_rets (signature.py:2440); unite_values keeps first occurrences
RECURSIVE Dedup(_)
Dedup(s) == IF s = << >> THEN << >>
            ELSE LET d == Dedup(SubSeq(s, 1, Len(s) - 1))
                 IN IF s[Len(s)] \in Range(d) THEN d ELSE Append(d, s[Len(s)])

ImplUnite(anyR, uaR, unR, clean) ==
    IF anyR # << >> \/ uaR # << >>                                            \* :2450
    THEN IF Cardinality(Range(anyR)) = 1 /\ unR = << >> /\ uaR = << >> /\ clean = << >>     \* :2451-2457
         THEN Result("ok", Dedup(anyR), "", "")
         ELSE Result("ok", << >>, "multiple_overload_matches", "")            \* :2460
    ELSE IF unR # << >> THEN Result("ok", Dedup(unR \o clean), "", "")        \* :2461-2465
    ELSE Result("ok", Dedup(clean), "", "")                                   \* :2467

\* --- the machine: OverloadedSignature.check_call (signature.py:2289)
\*   pc    "bind" (first pass, :2353) | "loop" (second pass, :2379) | "fin"
\*   sel   indices of the overloads whose arguments bound (:2373)
\*   k     position in sel of the overload tried next
\*   args  actual_args (narrowed by union decomposition, :2405)
\*   anyR, unR, uaR   return labels in any_rets, union_rets, union_and_any_rets
\*   steps one [i, c] per overload tried in the second pass (c = its classification)
M0(c) == [pc |-> "bind", sel |-> << >>, k |-> 1, args |-> Actual(c.call), anyR |-> << >>, unR |-> << >>,
          uaR |-> << >>, steps |-> << >>, res |-> Result("", << >>, "", "")]

ImplSel(c) == SelectSeq([i \in 1..Len(c.sigs) |-> i], LAMBDA i : ImplBind(c.sigs[i], Actual(c.call)).ok)

\* is_overload for the k-th selected overload: FALSE for the last one (:2390)
\* (Bug = "fix_any_last" models the repair proposed in /verif/proposed/C08-fix-1.diff: decomposition stays
\* allowed on the last overload once an earlier overload has fully matched thanks to Any.)
ImplIsOverload(m) ==
    IF Bug = "fix_any_last" THEN m.k # Len(m.sel) \/ m.anyR # << >>
    ELSE m.k # Len(m.sel)

StepKind(c, m) ==
    IF m.pc = "bind" THEN (IF ImplSel(c) = << >> THEN "BindFilter_None" ELSE "BindFilter_Some")
    ELSE IF m.pc = "loop" THEN
        IF m.k > Len(m.sel) THEN (IF m.anyR # << >> THEN "Finish_AnyRets" ELSE "Finish_NoMatch")
        ELSE LET t == ImplTry(c.sigs[m.sel[m.k]], m.args, ImplIsOverload(m))
             IN CASE t.cls = "error" -> "Try_Error" [] t.cls = "clean" -> "Try_Clean" [] t.cls = "any" -> "Try_Any"
                  [] t.cls = "union" -> "Try_Union" [] t.cls = "union_any" -> "Try_UnionAny"
    ELSE "none"

MStepK(c, m, kind) ==
    CASE kind = "BindFilter_None" ->                                          \* :2359-2367
            [m EXCEPT !.pc = "fin", !.res = Result("err", << >>, "error", "incompatible_call")]
      [] kind = "BindFilter_Some" -> [m EXCEPT !.pc = "loop", !.sel = ImplSel(c), !.k = 1]
      [] kind = "Finish_AnyRets" ->                                           \* :2419-2425
            [m EXCEPT !.pc = "fin", !.res = ImplUnite(m.anyR, m.uaR, m.unR, << >>)]
      [] kind = "Finish_NoMatch" ->                                           \* :2427-2438
            [m EXCEPT !.pc = "fin",
                      !.res = Result("err", << >>, "error",
                                     IF \E s \in Range(m.steps) : s.c = "error"      \* :2429 one distinct code
                                     THEN "incompatible_argument" ELSE "incompatible_call")]
      [] OTHER ->
            LET i == m.sel[m.k]
                t == ImplTry(c.sigs[i], m.args, ImplIsOverload(m))
                ret == c.sigs[i].ret
                m1 == [m EXCEPT !.k = @ + 1, !.steps = Append(@, [i |-> i, c |-> t.cls])]
            IN CASE kind = "Try_Error" -> m1                                  \* :2393
                 [] kind = "Try_Union" ->                                     \* :2404, :2405
                      [m1 EXCEPT !.unR = Append(@, ret), !.args = IF Bug = "no_narrow" THEN m.args ELSE t.args]
                 [] kind = "Try_UnionAny" -> [m1 EXCEPT !.uaR = Append(@, ret), !.args = t.args]  \* :2402
                 [] kind = "Try_Any" ->                                       \* :2407
                      IF Bug = "first_any_wins"
                      THEN [m1 EXCEPT !.pc = "fin", !.res = Result("ok", <<ret>>, "", "")]
                      ELSE [m1 EXCEPT !.anyR = Append(@, ret)]
                 [] kind = "Try_Clean" ->                                     \* :2410
                      [m1 EXCEPT !.pc = "fin", !.res = ImplUnite(m.anyR, m.uaR, m.unR, <<ret>>)]

RECURSIVE ImplRunFrom(_, _)
MStep(c, m) == MStepK(c, m, StepKind(c, m))
ImplRunFrom(c, m) == IF m.pc = "fin" THEN m ELSE ImplRunFrom(c, MStep(c, m))
ImplResolve(c) == ImplRunFrom(c, M0(c))       \* .res = the result, .steps = the second-pass steps

(***************************************************************************)
(* Known deviations of the implementation from the property (see           *)
(* known_findings.jsonl).  Precise predicates on the case, so that any     *)
(* other failure of the property is still reported.                        *)
(***************************************************************************)
\* (a) An earlier overload matched the whole call only thanks to an Any argument (any_rets is not
\*     empty) and the LAST overload whose arguments bind accepts some but not all members of the
\*     union argument.  Union decomposition is switched off for the last overload
\*     (signature.py:2390), so it counts as a plain error and the Any match alone decides the type:
\*     the call is typed with one overload's return type although the unknown argument could
\*     select the last overload for some members of the union.
\*     e.g. (x: int, y: Any) -> 1, (x: str, y: int) -> 2; f(Any, int) is Any, f(Any, int|str) is 1.
Dev_AnyThenPartialLast(c) ==
    LET r == ImplResolve(c)
        n == Len(r.steps)
    IN /\ r.res.st = "ok" /\ r.res.anyk = "" /\ r.anyR # << >>
       /\ n > 0 /\ r.steps[n].i = r.sel[Len(r.sel)] /\ r.steps[n].c = "error"
       /\ ImplTry(c.sigs[r.steps[n].i], r.args, TRUE).cls \in {"union", "union_any"}

DevClass(c) == IF Dev_AnyThenPartialLast(c) THEN "any-match-then-partial-last-overload" ELSE ""

(***************************************************************************)
(* Bounded case space: a staged generator followed by the machine.         *)
(***************************************************************************)
CONSTANTS
    MinOv, MaxOv,       \* number of overloads in a set
    MaxParams,          \* parameters per overload: 0..MaxParams
    MinParams,          \* (lower bound, to slice the space)
    ParamTypes,         \* type names usable as parameter annotations
    ArgTypes,           \* type names usable as argument types
    Names,              \* parameter names, subset of {"x","y","z"}
    Kinds,              \* subset of {"pk","ko"}
    Defaults,           \* subset of BOOLEAN: may a parameter have a default
    MaxArgs,            \* arguments per call: 0..MaxArgs
    KwCalls,            \* BOOLEAN: arguments may be passed by keyword
    MaxRet,             \* return labels 1..MaxRet (restricted growth: ret[i] <= 1 + max of the earlier)
    DistinctRets,       \* TRUE: overload i returns Literal[i] (no two overloads share a return type)
    MaxUnionArgs        \* union arguments per call (the property speaks about <= 1)

VARIABLES case, stage, cur, m, nk     \* nk = StepKind(case, m) while the machine runs (computed once per state)
vars == <<case, stage, cur, m, nk>>

Blank == [sigs |-> << >>, call |-> << >>]
Init == case = Blank /\ stage = "sig" /\ cur = << >> /\ m = M0(Blank) /\ nk = "none"

ParamOK(ps, p) ==
    /\ \A j \in 1..Len(ps) : ps[j].name # p.name
    /\ (ps # << >> /\ ps[Len(ps)].kind = "ko") => p.kind = "ko"              \* keyword-only parameters last
    /\ (p.kind = "pk" /\ ~p.dflt) => \A j \in 1..Len(ps) : ~ps[j].dflt        \* no non-default after a default

AddParam ==
    /\ stage = "sig" /\ Len(cur) < MaxParams /\ Len(case.sigs) < MaxOv
    /\ \E n \in Names, k \in Kinds, t \in ParamTypes, d \in Defaults :
         LET p == [name |-> n, kind |-> k, ty |-> t, dflt |-> d]
         IN ParamOK(cur, p) /\ cur' = Append(cur, p)
    /\ UNCHANGED <<case, stage, m, nk>>

MaxRetSoFar(sigs) == IF sigs = << >> THEN 0 ELSE CHOOSE r \in {sigs[i].ret : i \in 1..Len(sigs)} :
                                                    \A i \in 1..Len(sigs) : sigs[i].ret <= r

CloseSig ==
    /\ stage = "sig" /\ Len(case.sigs) < MaxOv /\ Len(cur) >= MinParams
    /\ \E r \in 1..MaxRet :
         /\ r <= MaxRetSoFar(case.sigs) + 1
         /\ DistinctRets => r = Len(case.sigs) + 1
         /\ case' = [case EXCEPT !.sigs = Append(@, [params |-> cur, ret |-> r])]
    /\ cur' = << >> /\ UNCHANGED <<stage, m, nk>>

StartCall ==
    /\ stage = "sig" /\ cur = << >> /\ Len(case.sigs) >= MinOv
    /\ stage' = "call" /\ UNCHANGED <<case, cur, m, nk>>

ArgOK(call, a) ==
    /\ a.kw = "" => KwOf(call) = {}                                          \* positionals first
    /\ a.kw # "" => \A n \in KwOf(call) : NameOrd(n) < NameOrd(a.kw)          \* keywords in canonical order
    /\ Cardinality(UnionPos(Append(call, a))) <= MaxUnionArgs

AddArg ==
    /\ stage = "call" /\ Len(case.call) < MaxArgs
    /\ \E kw \in {""} \cup (IF KwCalls THEN Names ELSE {}), t \in ArgTypes :
         LET a == [kw |-> kw, ty |-> t]
         IN ArgOK(case.call, a) /\ case' = [case EXCEPT !.call = Append(@, a)]
    /\ UNCHANGED <<stage, cur, m, nk>>

StartRun == stage = "call" /\ stage' = "run" /\ m' = M0(case) /\ nk' = StepKind(case, m') /\ UNCHANGED <<case, cur>>

\* one named action per branch of the real loop
RunStep ==
    /\ m' = MStepK(case, m, nk)
    /\ stage' = IF m'.pc = "fin" THEN "done" ELSE "run"
    /\ nk' = StepKind(case, m')
    /\ UNCHANGED <<case, cur>>

BindFilter_None == stage = "run" /\ nk = "BindFilter_None" /\ RunStep
BindFilter_Some == stage = "run" /\ nk = "BindFilter_Some" /\ RunStep
Try_Error == stage = "run" /\ nk = "Try_Error" /\ RunStep
Try_Clean == stage = "run" /\ nk = "Try_Clean" /\ RunStep
Try_Any == stage = "run" /\ nk = "Try_Any" /\ RunStep
Try_Union == stage = "run" /\ nk = "Try_Union" /\ RunStep
Try_UnionAny == stage = "run" /\ nk = "Try_UnionAny" /\ RunStep
Finish_AnyRets == stage = "run" /\ nk = "Finish_AnyRets" /\ RunStep
Finish_NoMatch == stage = "run" /\ nk = "Finish_NoMatch" /\ RunStep

Next == \/ AddParam \/ CloseSig \/ StartCall \/ AddArg \/ StartRun
        \/ BindFilter_None \/ BindFilter_Some \/ Try_Error \/ Try_Clean \/ Try_Any \/ Try_Union
        \/ Try_UnionAny \/ Finish_AnyRets \/ Finish_NoMatch

(***************************************************************************)
(* Properties on the model                                                 *)
(***************************************************************************)
InProperty(c) == Cardinality(UnionPos(c.call)) <= 1       \* the property speaks about at most one union argument

\* the named deviation only excuses the clause it is about
Excused(c, clause) == clause = "AnyNeverSelectsOne" /\ DevClass(c) # ""
PropertyHolds == stage = "done" =>
    (InProperty(case) => LET clause == RefClause(case, m.res) IN clause = "ok" \/ Excused(case, clause))
PropertyHoldsStrict == stage = "done" => (InProperty(case) => RefOK(case, m.res))

\* the machine and its operator form agree (the trace specification uses the operator)
MachineIsOperator == stage = "done" => m = ImplResolve(case)

\* the pre-bound form of the oracle equals clause 1 applied to every instance
RefFirstIsClause1 == stage = "done" =>
    \A mc \in RefMemberChoices(case.call) : RefMemberRets(case, mc) = RefMemberRetsByClause1(case, mc)

\* the binder model and the CPython reference agree on the modelled parameter kinds
BinderAgrees == stage = "done" =>
    \A i \in 1..Len(case.sigs) : ImplBind(case.sigs[i], Actual(case.call)).ok = RefBinds(case.sigs[i], case.call)
=============================================================================
