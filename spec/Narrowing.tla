------------------------------ MODULE Narrowing ------------------------------
(***************************************************************************)
(* Narrowing of a variable's type by a condition (property C02).           *)
(*                                                                         *)
(* A case is (V, c): a type term V of Values.tla and a condition c on the  *)
(* variable x.  Both polarities are judged on every case.                  *)
(*                                                                         *)
(* Impl*  transcription of pyanalyze, structured like the code:            *)
(*   ImplOfCond    condition -> abstract constraint                        *)
(*                 (name_check_visitor.py visit_Compare / visit_UnaryOp /  *)
(*                  visit_BoolOp / _visit_possible_constraint,             *)
(*                  implementation.py _isinstance_impl / _issubclass_impl /*)
(*                  _len_impl / _bool_impl, signature.py TypeIs/TypeGuard) *)
(*   ImplInvert / ImplApply    AbstractConstraint.invert / .apply          *)
(*                 (stacked_scopes.py Constraint, AndConstraint,           *)
(*                  OrConstraint, EquivalentConstraint)                    *)
(*   ImplApplyCon  Constraint.apply_to_value  (stacked_scopes.py:321)      *)
(*   Impl*Pred     predicates.py IsAssignablePredicate / EqualsPredicate / *)
(*                 InPredicate and the len predicate                       *)
(*                 (name_check_visitor.py:3656)                            *)
(*   ImplConstrain _constrain_value (stacked_scopes.py:1573)               *)
(*   can_assign / unite_values / get_boolability come from Assign.tla,     *)
(*   ValueAlgebra.tla and Boolability.tla.                                 *)
(*                                                                         *)
(* Ref    HoldsCode(c, o): what CPython evaluates the condition to on the  *)
(*   object o (0 false, 1 true, 2 raises) -- validated against the real    *)
(*   evaluation on the real object in every observation; Member (Values)   *)
(*   is the meaning of a type.  N1 / N2 are stated with these two only.    *)
(***************************************************************************)
EXTENDS Boolability

(***************************************************************************)
(* Conditions (uniform records so that they travel through JSON)           *)
(*   kind: isinstance issubclass typeis typeguard is eq in truthy boolcall *)
(*         len c_isinstance c_isvalue not and or                           *)
(*         cmp   x < lit, x <= lit, x > lit, x >= lit  (op, lits[1])        *)
(*         lenr  n op len(x)  (the literal on the left)                     *)
(*         m_value m_singleton m_class m_or m_seq (patterns of `match x:`) *)
(*   m_seq: a sequence pattern of capture sub-patterns; n = number of      *)
(*         non-star elements, op = "" (no star) or the index of the star   *)
(*         element ("0", "1", "2"):  [a, *r, b] is n = 2, op = "1"         *)
(*   neg : the operator is the negated one (is not, !=, not in)            *)
(***************************************************************************)
Cnd(kind, cls, lits, t, op, n, neg, subs) ==
    [kind |-> kind, cls |-> cls, lits |-> lits, t |-> t, op |-> op, n |-> n, neg |-> neg, subs |-> subs]
CIsinstance(cs) == Cnd("isinstance", cs, << >>, Never, "", 0, FALSE, << >>)
CIssubclass(cs) == Cnd("issubclass", cs, << >>, Never, "", 0, FALSE, << >>)
CTypeIs(t) == Cnd("typeis", << >>, << >>, t, "", 0, FALSE, << >>)
CTypeGuard(t) == Cnd("typeguard", << >>, << >>, t, "", 0, FALSE, << >>)
CIs(lit, neg) == Cnd("is", << >>, <<lit>>, Never, "", 0, neg, << >>)
CEq(lit, neg) == Cnd("eq", << >>, <<lit>>, Never, "", 0, neg, << >>)
CIn(lits, neg) == Cnd("in", << >>, lits, Never, "", 0, neg, << >>)
CTruthy == Cnd("truthy", << >>, << >>, Never, "", 0, FALSE, << >>)
CBoolCall == Cnd("boolcall", << >>, << >>, Never, "", 0, FALSE, << >>)
CLen(op, n) == Cnd("len", << >>, << >>, Never, op, n, FALSE, << >>)
CCmp(op, lit) == Cnd("cmp", << >>, <<lit>>, Never, op, 0, FALSE, << >>)
CLenR(op, n) == Cnd("lenr", << >>, << >>, Never, op, n, FALSE, << >>)
CLegacyIsinstance(c) == Cnd("c_isinstance", <<c>>, << >>, Never, "", 0, FALSE, << >>)
CLegacyIsvalue(lit) == Cnd("c_isvalue", << >>, <<lit>>, Never, "", 0, FALSE, << >>)
\* match x: case <pattern>: ... case _: ...   (value, singleton, class pattern without sub-patterns, or-pattern)
CMatchValue(lit) == Cnd("m_value", << >>, <<lit>>, Never, "", 0, FALSE, << >>)
CMatchSingleton(lit) == Cnd("m_singleton", << >>, <<lit>>, Never, "", 0, FALSE, << >>)
CMatchClass(c) == Cnd("m_class", <<c>>, << >>, Never, "", 0, FALSE, << >>)
CMatchSeq(n, star) == Cnd("m_seq", << >>, << >>, Never, star, n, FALSE, << >>)
CMatchOr(a, b) == Cnd("m_or", << >>, << >>, Never, "", 0, FALSE, <<a, b>>)
CNot(a) == Cnd("not", << >>, << >>, Never, "", 0, FALSE, <<a>>)
CAnd(a, b) == Cnd("and", << >>, << >>, Never, "", 0, FALSE, <<a, b>>)
COr(a, b) == Cnd("or", << >>, << >>, Never, "", 0, FALSE, <<a, b>>)

(***************************************************************************)
(* Ref: CPython semantics of the conditions on the object universe         *)
(***************************************************************************)
IsNumeric(o) == o.c \in {"int", "bool", "float"}
NumKey(o) == CASE o.c = "bool" -> (IF o.v = "True" THEN "1" ELSE "0")
               [] o.c = "float" -> (IF o.v = "0.0" THEN "0" ELSE IF o.v = "1.0" THEN "1" ELSE o.v)
               [] OTHER -> o.v
\* a == b where b is a scalar literal (numbers compare by value across int / bool / float)
PyEq(a, b) == IF IsNumeric(a) /\ IsNumeric(b) THEN NumKey(a) = NumKey(b) ELSE a = b
\* a is b where b is a singleton (None, True, False, an enum member, a class object)
PyIs(a, b) == a = b

HasLen(o) == o.c \in {"str", "list", "tuple", "set", "dict"}
PyLen(o) == IF o.c = "str" THEN (CASE o.v = "" -> 0 [] o.v = "a" -> 1 [] o.v = "ab" -> 2 [] OTHER -> 3) ELSE Len(o.items)

Cmp(a, op, b) ==
    CASE op = "==" -> a = b  [] op = "!=" -> a # b  [] op = "<" -> a < b
      [] op = "<=" -> a <= b [] op = ">" -> a > b   [] op = ">=" -> a >= b
B2C(b) == IF b THEN 1 ELSE 0
\* twice the numeric value of an int / bool / float object of the universe (ordering comparisons across the numeric types)
Num2(o) == CASE o.c = "bool" -> (IF o.v = "True" THEN 2 ELSE 0)
             [] o.v \in {"0", "0.0"} -> 0 [] o.v \in {"1", "1.0"} -> 2 [] o.v = "1.5" -> 3 [] o.v = "2" -> 4

RECURSIVE HoldsCode(_, _)
HoldsCode(c, o) ==
    CASE c.kind \in {"isinstance", "c_isinstance", "m_class"} -> B2C(\E i \in 1..Len(c.cls) : IsInstance(o, c.cls[i]))
      [] c.kind = "m_value" -> B2C(PyEq(o, c.lits[1]))              \* value pattern: subject == value
      [] c.kind = "m_singleton" -> B2C(PyIs(o, c.lits[1]))          \* None / True / False: subject is value
      [] c.kind = "m_or" -> B2C(\E i \in 1..Len(c.subs) : HoldsCode(c.subs[i], o) = 1)
      \* sequence pattern: the subject is a Sequence other than str / bytes / bytearray whose length is n (>= n with a star)
      [] c.kind = "m_seq" -> B2C(o.c \in {"list", "tuple"} /\ (IF c.op = "" THEN Len(o.items) = c.n ELSE Len(o.items) >= c.n))
      [] c.kind = "issubclass" -> IF o.c # "type" THEN 2 ELSE B2C(\E i \in 1..Len(c.cls) : IsSubclass(o.v, c.cls[i]))
      [] c.kind \in {"typeis", "typeguard"} -> B2C(Member(o, c.t))     \* the guard functions are written to test exactly their type
      [] c.kind \in {"is", "c_isvalue"} -> B2C(PyIs(o, c.lits[1]) # c.neg)
      [] c.kind = "eq" -> B2C(PyEq(o, c.lits[1]) # c.neg)
      [] c.kind = "in" -> B2C((\E i \in 1..Len(c.lits) : PyEq(o, c.lits[i])) # c.neg)
      [] c.kind \in {"truthy", "boolcall"} -> B2C(Truthy(o))
      [] c.kind = "len" -> IF ~HasLen(o) THEN 2 ELSE B2C(Cmp(PyLen(o), c.op, c.n))
      [] c.kind = "lenr" -> IF ~HasLen(o) THEN 2 ELSE B2C(Cmp(c.n, c.op, PyLen(o)))         \* n op len(x)
      \* x < 1: TypeError unless x is a number (no object of the universe defines an ordering against int)
      [] c.kind = "cmp" -> IF ~IsNumeric(o) THEN 2 ELSE B2C(Cmp(Num2(o), c.op, Num2(c.lits[1])))
      [] c.kind = "not" -> LET h == HoldsCode(c.subs[1], o) IN IF h = 2 THEN 2 ELSE 1 - h
      [] c.kind = "and" -> LET h == HoldsCode(c.subs[1], o) IN IF h # 1 THEN h ELSE HoldsCode(c.subs[2], o)
      [] c.kind = "or" -> LET h == HoldsCode(c.subs[1], o) IN IF h # 0 THEN h ELSE HoldsCode(c.subs[2], o)

\* the tested type of a condition (clause N2)
RECURSIVE Tested(_)
Tested(c) ==
    CASE c.kind \in {"isinstance", "c_isinstance", "m_class"} -> Union([i \in 1..Len(c.cls) |-> Typed(c.cls[i])])
      [] c.kind = "issubclass" -> Union([i \in 1..Len(c.cls) |-> SubclassT(Typed(c.cls[i]))])
      [] c.kind \in {"typeis", "typeguard"} -> c.t
      [] c.kind = "m_seq" -> Typed("Sequence")      \* capture sub-patterns test only the shape: the class test is Sequence
      [] c.kind \in {"is", "eq", "in", "c_isvalue", "m_value", "m_singleton"} -> Union([i \in 1..Len(c.lits) |-> Known(c.lits[i])])
      [] c.kind \in {"not", "and", "or", "m_or"} -> Union([i \in 1..Len(c.subs) |-> Tested(c.subs[i])])
      [] OTHER -> Never

\* == / != / in: the property ranges over objects whose equality with the tested literals is type-respecting
\* (no bool/int/float cross-type equality, no user-defined __eq__: classes A and B define one)
RECURSIVE EqDomain(_, _)
EqDomain(c, o) ==
    CASE c.kind \in {"eq", "in", "m_value"} -> o.c \notin {"A", "B"} /\ \A i \in 1..Len(c.lits) : PyEq(o, c.lits[i]) => o.c = c.lits[i].c
      [] c.kind \in {"not", "and", "or", "m_or"} -> \A i \in 1..Len(c.subs) : EqDomain(c.subs[i], o)
      [] OTHER -> TRUE

\* N1: an object of V for which the condition evaluates to the branch's polarity is still in the narrowed type R
RefKeeps(V, c, pol, R) ==
    \A o \in NObjects : (Member(o, V) /\ EqDomain(c, o) /\ HoldsCode(c, o) = B2C(pol)) => Member(o, R)
\* N2: the narrowed type has nothing outside the original type and the tested type
RefNoWiden(V, c, R) ==
    LET T == Tested(c) IN \A o \in NObjects : Member(o, R) => (Member(o, V) \/ Member(o, T))

(***************************************************************************)
(* Impl: predicates, constraints                                           *)
(***************************************************************************)
CONSTANT NBug     \* sensitivity self-test: "none", or the name of a plausible bug switched on in the model

Pred(p, pat, ponly, lits, useis, op, n, ptype, rt) ==
    [p |-> p, pat |-> pat, ponly |-> ponly, lits |-> lits, useis |-> useis, op |-> op, n |-> n, ptype |-> ptype, rt |-> rt]
NoPred == Pred("none", Never, FALSE, << >>, FALSE, "", 0, "", FALSE)
PAssignable(pat, ponly) == Pred("assignable", pat, ponly, << >>, FALSE, "", 0, "", FALSE)
\* isinstance(): with C02-fix-1 the predicate is told that the test is made on the run-time class (runtime_classes=True)
PAssignableRt(pat) == Pred("assignable", pat, FALSE, << >>, FALSE, "", 0, "", "isinstance_runtime" \in NFixed)
PEquals(lit, useis) == Pred("equals", Never, FALSE, <<lit>>, useis, "", 0, "", FALSE)
\* pattern_type of an `in` test (name_check_visitor.py:3621): the common exact type of the tested values, else object
PatternType(lits) == IF lits # << >> /\ \A i \in 1..Len(lits) : lits[i].c = lits[1].c THEN lits[1].c ELSE "object"
PIn(lits) == Pred("in", Never, FALSE, lits, FALSE, "", 0, PatternType(lits), FALSE)
PLen(op, n) == Pred("len", Never, FALSE, << >>, FALSE, op, n, "", FALSE)
\* predicate_func of _constraint_from_compare_op for <, <=, >, >= against a literal on the right (name_check_visitor.py:3634)
MirrorOp(op) == CASE op = "<" -> ">" [] op = "<=" -> ">=" [] op = ">" -> "<" [] op = ">=" -> "<=" [] OTHER -> op
PCmp(op, lit) == Pred("cmp", Never, FALSE, <<lit>>, FALSE, op, 0, "", FALSE)
\* patma.py: IsAssignablePredicate(MatchableSequence, ...) -- MatchableSequence (patma.py:127) is Sequence annotated with
\* Exclude[str | bytes | bytearray]; the marker ptype = "matchseq" stands for that annotation
PMatchSeq(ponly) == Pred("assignable", Typed("Sequence"), ponly, << >>, FALSE, "", 0, "matchseq", FALSE)
\* patma.LenPredicate(expected_length = n, has_star = useis)
PSeqLen(n, star) == Pred("seqlen", Never, FALSE, << >>, star, "", n, "", FALSE)
PAlways == Pred("always", Never, FALSE, << >>, FALSE, "", 0, "", FALSE)            \* patma.AlwaysMatching

\* concrete constraint (stacked_scopes.py:278 Constraint): ct = constraint_type
\* var = the constrained variable: "x", or "none" for Constraint(varname=None, ...) (the constraints of the capture
\* sub-patterns of a sequence pattern, made while match_subject is an unnamed element: patma.py:240 / :402)
ConV(var, ct, pos, pred, cls, lit, t, subs) ==
    [var |-> var, ct |-> ct, pos |-> pos, pred |-> pred, cls |-> cls, lit |-> lit, t |-> t, subs |-> subs]
Con(ct, pos, pred, cls, lit, t, subs) == ConV("x", ct, pos, pred, cls, lit, t, subs)
ConNoVar(pos, pred) == ConV("none", "predicate", pos, pred, "", NONE, Never, << >>)
ConPredicate(pos, pred) == Con("predicate", pos, pred, "", NONE, Never, << >>)
ConTruthy(pos) == Con("is_truthy", pos, NoPred, "", NONE, Never, << >>)
ConIsInstance(pos, cls) == Con("is_instance", pos, NoPred, cls, NONE, Never, << >>)
ConIsValue(pos, lit) == Con("is_value", pos, NoPred, "", lit, Never, << >>)
ConValueObject(pos, t) == Con("is_value_object", pos, NoPred, "", NONE, t, << >>)
ConOneOf(var, subs) == ConV(var, "one_of", TRUE, NoPred, "", NONE, Never, subs)
ConAllOf(var, subs) == ConV(var, "all_of", TRUE, NoPred, "", NONE, Never, subs)

\* abstract constraints
NullCon == ConTruthy(TRUE)      \* placeholder in the con field of non-leaf abstract constraints
ANull == [ak |-> "null", con |-> NullCon, cs |-> << >>]
AProvider(pred) == [ak |-> "provider", con |-> ConPredicate(TRUE, pred), cs |-> << >>]
ACon(con) == [ak |-> "c", con |-> con, cs |-> << >>]
AAnd(cs) == [ak |-> "and", con |-> NullCon, cs |-> cs]
AOr(cs) == [ak |-> "or", con |-> NullCon, cs |-> cs]
AEquiv(cs) == [ak |-> "equiv", con |-> NullCon, cs |-> cs]

RECURSIVE Concat(_)
Concat(ss) == IF ss = << >> THEN << >> ELSE Head(ss) \o Concat(Tail(ss))

\* AndConstraint.make / OrConstraint.make (stacked_scopes.py:567 / :636): nested constraints of the same class
\* are spliced in; the identity-based absorption rules never fire here because every operand is a distinct object
AndMake(cs) ==
    LET flat == Concat([i \in 1..Len(cs) |-> IF cs[i].ak = "and" THEN cs[i].cs ELSE <<cs[i]>>])
    IN IF flat = << >> THEN ANull ELSE IF Len(flat) = 1 THEN flat[1] ELSE AAnd(flat)
OrMake(cs) ==
    LET flat == Concat([i \in 1..Len(cs) |-> IF cs[i].ak = "or" THEN cs[i].cs ELSE <<cs[i]>>])
    IN IF flat = << >> THEN ANull ELSE IF Len(flat) = 1 THEN flat[1] ELSE AOr(flat)
\* EquivalentConstraint.make (stacked_scopes.py:529)
EquivMake(cs) ==
    LET flat == Concat([i \in 1..Len(cs) |-> IF cs[i].ak = "equiv" THEN cs[i].cs ELSE <<cs[i]>>])
    IN IF Len(flat) = 1 THEN flat[1] ELSE AEquiv(flat)

\* AbstractConstraint.invert
RECURSIVE ImplInvert(_)
ImplInvert(ac) ==
    CASE ac.ak = "null" -> ANull                                                    \* :494
      [] ac.ak = "provider" -> ANull                                                \* :517 "inverting is meaningless"
      [] ac.ak = "c" -> ACon([ac.con EXCEPT !.pos = ~ac.con.pos])                    \* :308
      [] ac.ak = "and" -> AOr([i \in 1..Len(ac.cs) |-> ImplInvert(ac.cs[i])])        \* :562
      [] ac.ak = "or" -> AAnd([i \in 1..Len(ac.cs) |-> ImplInvert(ac.cs[i])])        \* :631
      [] ac.ak = "equiv" -> AEquiv([i \in 1..Len(ac.cs) |-> ImplInvert(ac.cs[i])])   \* :525

\* AbstractConstraint.apply: the concrete constraints that become active
RECURSIVE ImplApply(_)
ImplApply(ac) ==
    CASE ac.ak \in {"null", "provider"} -> << >>
      [] ac.ak = "c" -> <<ac.con>>
      [] ac.ak \in {"and", "equiv"} -> Concat([i \in 1..Len(ac.cs) |-> ImplApply(ac.cs[i])])
      [] ac.ak = "or" ->                                                            \* OrConstraint.apply (:600)
           \* the constraints of every alternative are grouped by variable; a variable constrained in the first
           \* alternative and in all others gets a one_of constraint (alternatives with several constraints: all_of)
           LET groups == [i \in 1..Len(ac.cs) |-> ImplApply(ac.cs[i])]
               Of(g, var) == SelectSeq(g, LAMBDA k : k.var = var)
               leftvars == SelectSeq(<<"x", "none">>, LAMBDA var : Of(groups[1], var) # << >>)
               shared == SelectSeq(leftvars, LAMBDA var : \A i \in 2..Len(groups) : Of(groups[i], var) # << >>)
           IN [j \in 1..Len(shared) |->
                 ConOneOf(shared[j], [i \in 1..Len(groups) |->
                     LET g == Of(groups[i], shared[j]) IN IF Len(g) = 1 THEN g[1] ELSE ConAllOf(shared[j], g)])]

(***************************************************************************)
(* Impl: condition -> abstract constraint                                  *)
(***************************************************************************)
RECURSIVE ImplOfCond(_)
ImplOfCond(c) ==
    CASE c.kind = "isinstance" ->        \* implementation.py:137 _isinstance_impl
           ACon(ConPredicate(TRUE, PAssignableRt(ImplUnite([i \in 1..Len(c.cls) |-> Typed(c.cls[i])]))))
      [] c.kind = "issubclass" ->        \* implementation.py:113 _issubclass_impl
           ACon(ConPredicate(TRUE, PAssignable(ImplUnite([i \in 1..Len(c.cls) |-> SubclassT(Typed(c.cls[i]))]), FALSE)))
      [] c.kind = "typeis" -> ACon(ConPredicate(TRUE, PAssignable(c.t, FALSE)))             \* signature.py:732
      [] c.kind = "typeguard" -> ACon(ConValueObject(TRUE, c.t))                            \* signature.py:720
      [] c.kind = "is" -> ACon(ConPredicate(~c.neg, PEquals(c.lits[1], TRUE)))              \* name_check_visitor.py:3612
      [] c.kind = "eq" -> ACon(ConPredicate(~c.neg, PEquals(c.lits[1], FALSE)))             \* :3616
      [] c.kind = "in" -> ACon(ConPredicate(~c.neg, PIn(c.lits)))                           \* :3620
      [] c.kind = "truthy" -> EquivMake(<<ACon(ConTruthy(TRUE)), ANull>>)                   \* :4184 _visit_possible_constraint
      [] c.kind = "boolcall" -> ACon(ConTruthy(TRUE))                                       \* implementation.py:1597 _bool_impl
      [] c.kind = "len" -> ACon(ConPredicate(TRUE, PLen(c.op, c.n)))                        \* :3656 _constraint_from_predicate_provider
      \* :3575 the PredicateProvider on the right: _constraint_from_predicate_provider(rhs_constraint, lhs.val, op) -- the operator
      \* is passed on as written, i.e. `3 < len(x)` is read as `len(x) < 3` (proposed/C02-fix-6.diff mirrors it)
      [] c.kind = "lenr" -> ACon(ConPredicate(TRUE, PLen(IF "len_reversed_mirrored" \in NFixed THEN MirrorOp(c.op) ELSE c.op, c.n)))
      [] c.kind = "cmp" -> ACon(ConPredicate(TRUE, PCmp(c.op, c.lits[1])))                 \* :3634 _constraint_from_compare_op (always positive=True)
      [] c.kind = "c_isinstance" -> ACon(ConIsInstance(TRUE, c.cls[1]))                     \* implementation.py:186 (assert_is_instance)
      [] c.kind = "c_isvalue" -> ACon(ConIsValue(TRUE, c.lits[1]))                          \* implementation.py:1540 (assert_is)
      [] c.kind = "m_value" -> ACon(ConPredicate(TRUE, PEquals(c.lits[1], FALSE)))          \* patma.py:188 visit_MatchValue
      [] c.kind = "m_singleton" -> ACon(ConPredicate(TRUE, PEquals(c.lits[1], TRUE)))       \* patma.py:181 visit_MatchSingleton
      [] c.kind = "m_class" -> ACon(ConPredicate(TRUE, PAssignable(Typed(c.cls[1]), TRUE))) \* patma.py:300 visit_MatchClass (no sub-patterns: positive_only)
      [] c.kind = "m_seq" ->                                                                \* patma.py:204 visit_MatchSequence
           LET star == c.op # ""
               total == c.n + (IF star THEN 1 ELSE 0)                                        \* len(node.patterns)
           IN AndMake(<< ACon(ConPredicate(TRUE, PMatchSeq(total > 1 \/ ~star))),            \* :218 positive_only
                         ACon(ConPredicate(TRUE, PSeqLen(c.n, star))) >>                     \* :225 LenPredicate
                      \o [i \in 1..total |-> ACon(ConNoVar(TRUE, PAlways))])                 \* :243 capture / star sub-patterns
      [] c.kind = "m_or" -> OrMake([i \in 1..Len(c.subs) |-> ImplOfCond(c.subs[i])])        \* patma.py:391 visit_MatchOr
      [] c.kind = "not" -> ImplInvert(ImplOfCond(c.subs[1]))                                \* :3678 visit_UnaryOp
      [] c.kind = "and" -> AndMake(<<ImplOfCond(c.subs[2]), ImplOfCond(c.subs[1])>>)        \* :3463 (reversed(out_constraints))
      [] c.kind = "or" -> OrMake(<<ImplOfCond(c.subs[1]), ImplOfCond(c.subs[2])>>)          \* :3465 + extract_constraints (:1607)

(***************************************************************************)
(* Impl: predicates.py                                                     *)
(***************************************************************************)
\* value._deliteral (value.py:3371)
ImplDeliteral(v) == CASE v.k = "known" -> Typed(v.o.c) [] v.k = "seq" -> Typed(v.c) [] OTHER -> v
\* value.is_overlapping (value.py:3381)
RECURSIVE ImplOverlapping(_, _)
ImplOverlapping(l, r) ==
    LET L == ImplDeliteral(l)
        R == ImplDeliteral(r)
    IN IF L.k = "union" /\ L.ms # << >> THEN \E i \in 1..Len(L.ms) : ImplOverlapping(R, L.ms[i])
       ELSE ImplCA(L, R, FALSE) \/ ImplCA(R, L, FALSE)
\* predicates.is_universally_assignable (predicates.py:31)
RECURSIVE ImplUniversal(_, _)
ImplUniversal(v, target) ==
    CASE v.k = "any" -> TRUE
      [] v.k = "union" -> \A i \in 1..Len(v.ms) : ImplUniversal(v.ms[i], target)     \* Never included
      [] v.k = "typed" /\ v.c = "type" ->
            \/ target.k = "subclass"
            \/ /\ "issubclass_tuple" \in NFixed /\ target.k = "union" /\ target.ms # << >>       \* C02-fix-2
               /\ \A i \in 1..Len(target.ms) : target.ms[i].k = "subclass"
      [] OTHER -> FALSE

None == << >>
Some(v) == <<v>>

\* C02-fix-1, _remainder_after_runtime_check: what is left of v when isinstance(obj, pat) is false at run time
PromotedTypes(c) == CASE c = "float" -> <<"int">> [] c = "complex" -> <<"float", "int">> [] OTHER -> << >>
ImplRemainder(v, pat) ==
    LET pats == IF pat.k = "union" THEN pat.ms ELSE <<pat>>
        classes == {pats[i].c : i \in {j \in 1..Len(pats) : pats[j].k \in TypedFamily}}
    IN CASE v.k = "known" -> IF \E c \in classes : IsInstance(v.o, c) THEN None ELSE Some(v)
         [] v.k \in TypedFamily ->
              IF ~\E c \in classes : IsSubclass(v.c, c) THEN Some(v)
              ELSE LET rem == SelectSeq(PromotedTypes(v.c), LAMBDA t : ~\E c \in classes : IsSubclass(t, c))
                   IN IF rem # << >> THEN Some(ImplUnite([i \in 1..Len(rem) |-> Typed(rem[i])])) ELSE None
         [] OTHER -> None

\* IsAssignablePredicate.__call__ (predicates.py:59)
\* patma.Exclude.can_assign (patma.py:110): some non-Any member of the value is a str (bytes / bytearray are not in the universe)
ImplExcludedStr(v) ==
    LET ms == IF v.k = "union" THEN v.ms ELSE <<v>>
    IN \E i \in 1..Len(ms) : ms[i].k # "any" /\ ImplCA(Typed("str"), ms[i], FALSE)
ImplAssignablePred(pos, pat, ponly, rt, excl, v) ==
    LET compatible == ImplOverlapping(pat, v)
        asg == ImplCA(pat, v, FALSE) /\ (excl => ~ImplExcludedStr(v))     \* AnnotatedValue.can_assign (value.py:2599)
        univ == ImplUniversal(v, pat)
    IN IF pos
       THEN IF ~compatible THEN None
            ELSE IF asg THEN (IF univ THEN Some(pat) ELSE Some(v))
            ELSE Some(pat)
       ELSE IF ~ponly /\ asg /\ ~univ THEN (IF rt THEN ImplRemainder(v, pat) ELSE None)
            ELSE Some(v)

EnumMembers(c) == IF c = "Color" THEN <<RED, GREEN>> ELSE << >>
IsEnumClass(c) == c = "Color"
OtherBool(o) == IF o = BT THEN BF ELSE BT

\* EqualsPredicate.__call__ (predicates.py:95)
ImplEqualsPred(pos, lit, useis, v) ==
    IF v.k = "known"
    THEN LET res == IF useis THEN PyIs(v.o, lit) = pos ELSE PyEq(v.o, lit) = pos         \* _OPERATOR table (:79)
         IN IF res THEN Some(v) ELSE None
    ELSE IF pos
    THEN IF ImplCA(v, Known(lit), FALSE) THEN Some(Known(lit)) ELSE None                  \* :106
    ELSE IF lit.c = "bool"                                                                \* :113
         THEN (IF (v.k \in TypedFamily /\ v.c = "bool") \/ (NBug = "eq_bool_no_typecheck" /\ v.k \in TypedFamily)
               THEN Some(Known(OtherBool(lit))) ELSE Some(v))
    ELSE IF IsEnumClass(lit.c)                                                            \* :117
         THEN (IF v.k \in TypedFamily /\ v.c = lit.c
               THEN Some(ImplUnite(SelectSeq([i \in 1..Len(EnumMembers(lit.c)) |-> Known(EnumMembers(lit.c)[i])],
                                             LAMBDA m : m.o # lit)))
               ELSE Some(v))
    ELSE Some(v)

\* InPredicate.__call__ (predicates.py:141)
ImplInPred(pos, lits, ptype, v) ==
    IF v.k = "known"
    THEN IF (\E i \in 1..Len(lits) : PyEq(v.o, lits[i])) = pos THEN Some(v) ELSE None
    ELSE IF pos
    THEN LET acc == SelectSeq([i \in 1..Len(lits) |-> Known(lits[i])], LAMBDA m : ImplCA(v, m, FALSE))
         IN IF acc # << >> THEN Some(ImplUnite(acc)) ELSE None
    ELSE IF IsEnumClass(ptype) /\ v.k \in TypedFamily /\ v.c = ptype
         THEN Some(ImplUnite(SelectSeq([i \in 1..Len(EnumMembers(v.c)) |-> Known(EnumMembers(v.c)[i])],
                                       LAMBDA m : ~\E j \in 1..Len(lits) : lits[j] = m.o)))
    ELSE Some(v)

\* implementation.len_of_value (implementation.py:1545): [known, n]
ImplLenOfValue(v) ==
    IF v.k = "seq" /\ v.c = "tuple" /\ \A i \in 1..Len(v.ms) : ~v.ms[i].many THEN [known |-> TRUE, n |-> Len(v.ms)]
    ELSE IF v.k = "known" /\ v.o.c \notin {"list", "set", "dict"} /\ HasLen(v.o) THEN [known |-> TRUE, n |-> PyLen(v.o)]
    ELSE [known |-> FALSE, n |-> 0]
NegOp(op) == CASE op = "==" -> "!=" [] op = "!=" -> "==" [] op = "<" -> ">=" [] op = ">=" -> "<" [] op = "<=" -> ">" [] op = ">" -> "<="
\* predicate_func of _constraint_from_predicate_provider (name_check_visitor.py:3661); the CustomCheck
\* annotation that len_transformer adds is not part of the term algebra
ImplLenPred(pos, op, n, v) ==
    LET lv == ImplLenOfValue(v)
    IN IF lv.known /\ ~Cmp(lv.n, IF pos THEN op ELSE NegOp(op), n) THEN None ELSE Some(v)

\* predicate_func of _constraint_from_compare_op (name_check_visitor.py:3636): a literal is kept iff the comparison is true
\* (or raises); any other value is kept (positive: annotated with a CustomCheck extension, which is outside the term algebra)
ImplCmpPred(pos, op, lit, v) ==
    IF v.k = "known" /\ IsNumeric(v.o) /\ ~Cmp(Num2(v.o), IF pos \/ NBug = "cmp_neg_not_negated" THEN op ELSE NegOp(op), Num2(lit)) THEN None ELSE Some(v)

\* patma.LenPredicate.__call__ (patma.py:141)
ImplSeqLenPred(pos, n, star, v) ==
    LET lv == ImplLenOfValue(v)
    IN IF lv.known
       THEN (IF (IF star THEN lv.n >= n ELSE lv.n = n) = pos THEN Some(v) ELSE None)
       ELSE IF ~star /\ v.k \in TypedFamily /\ v.c = "tuple"           \* :158 "Narrow Tuple[...] to a known length" (either polarity)
       THEN Some(SeqT("tuple", [i \in 1..n |-> One(ImplOwnArgs(v)[1])]))
       ELSE Some(v)

ImplPred(pred, pos, v) ==
    CASE pred.p = "assignable" -> ImplAssignablePred(pos, pred.pat, pred.ponly, pred.rt, pred.ptype = "matchseq", v)
      [] pred.p = "seqlen" -> ImplSeqLenPred(pos, pred.n, pred.useis, v)
      [] pred.p = "always" -> IF pos THEN Some(v) ELSE None                        \* patma.py:172 AlwaysMatching
      [] pred.p = "equals" -> ImplEqualsPred(pos, pred.lits[1], pred.useis, v)
      [] pred.p = "in" -> ImplInPred(pos, pred.lits, pred.ptype, v)
      [] pred.p = "len" -> ImplLenPred(pos, pred.op, pred.n, v)
      [] pred.p = "cmp" -> ImplCmpPred(pos, pred.op, pred.lits[1], v)

(***************************************************************************)
(* Impl: Constraint.apply_to_value (stacked_scopes.py:321)                 *)
(***************************************************************************)
ImplIsInstanceCon(pos, cls, v) ==                                                \* :334
    CASE v.k = "any" -> IF pos THEN Some(Typed(cls)) ELSE Some(v)
      [] v.k = "known" -> IF IsInstance(v.o, cls) = pos THEN Some(v) ELSE None
      [] v.k \in TypedFamily ->
           IF pos THEN (IF IsSubclass(v.c, cls) THEN Some(v) ELSE IF IsSubclass(cls, v.c) THEN Some(Typed(cls)) ELSE None)
           ELSE IF ~IsSubclass(v.c, cls) THEN Some(v) ELSE None
      [] v.k = "subclass" ->
           IF v.t.k \notin TypedFamily THEN Some(v)
           ELSE IF IsInstance(ClassObj(v.t.c), cls) = pos THEN Some(v) ELSE None
      [] OTHER -> None

ImplIsValueCon(pos, lit, v) ==                                                   \* :375
    IF pos
    THEN CASE v.k = "any" -> Some(Known(lit))
           [] v.k = "known" -> IF PyIs(v.o, lit) THEN Some(v) ELSE None
           [] v.k \in TypedFamily -> IF IsInstance(lit, v.c) THEN Some(Known(lit)) ELSE None
           [] v.k = "subclass" ->
                IF v.t.k \in TypedFamily /\ lit.c = "type" /\ IsSubclass(lit.v, v.t.c) THEN Some(Known(lit)) ELSE None
           [] OTHER -> None
    ELSE IF v.k = "known" /\ PyIs(v.o, lit) THEN None ELSE Some(v)

ImplTruthyCon(pos, v) ==                                                         \* :414
    LET b == ImplBoolability(v)
    IN IF pos THEN (IF ~ImplSafelyFalse(b) THEN Some(v) ELSE None)
       ELSE (IF ~ImplSafelyTrue(b) THEN Some(v) ELSE None)

RECURSIVE ImplApplyCon(_, _), ImplApplyConSeq(_, _), ImplApplyAll(_, _), ImplApplyOneOf(_, _)
\* Constraint.apply_to_values (:317)
ImplApplyConSeq(con, vals) == IF vals = << >> THEN << >> ELSE ImplApplyCon(con, Head(vals)) \o ImplApplyConSeq(con, Tail(vals))
\* the loop of all_of (:443) and of _constrain_value (:1587)
ImplApplyAll(cons, vals) == IF cons = << >> THEN vals ELSE ImplApplyAll(Tail(cons), ImplApplyConSeq(Head(cons), vals))
ImplApplyOneOf(cons, v) == IF cons = << >> THEN << >> ELSE ImplApplyCon(Head(cons), v) \o ImplApplyOneOf(Tail(cons), v)
ImplApplyCon(con, v) ==
    CASE con.ct = "is_instance" -> ImplIsInstanceCon(con.pos, con.cls, v)
      [] con.ct = "is_value" -> ImplIsValueCon(con.pos, con.lit, v)
      [] con.ct = "is_value_object" -> IF con.pos THEN Some(con.t) ELSE Some(v)     \* :405
      [] con.ct = "is_truthy" -> ImplTruthyCon(con.pos, v)
      [] con.ct = "predicate" -> ImplPred(con.pred, con.pos, v)                     \* :424
      [] con.ct = "one_of" -> ImplApplyOneOf(con.subs, v)                           \* :437
      [] con.ct = "all_of" -> ImplApplyAll(con.subs, <<v>>)                         \* :441

\* _constrain_value (stacked_scopes.py:1573)
ImplConstrain(V, cons) ==
    LET vals == ImplApplyAll(cons, IF V.k = "union" THEN V.ms ELSE <<V>>)
    IN IF vals = << >> THEN Never ELSE ImplUnite(vals)

ImplNarrowAC(V, ac, pol) == ImplConstrain(V, ImplApply(IF pol THEN ac ELSE ImplInvert(ac)))
ImplNarrow(V, c, pol) == ImplNarrowAC(V, ImplOfCond(c), pol)
\* through the visitor the scope drops constraints without a variable (_add_single_constraint, stacked_scopes.py:1059)
ImplNarrowVisitor(V, c, pol) ==
    LET ac == ImplOfCond(c)
    IN ImplConstrain(V, SelectSeq(ImplApply(IF pol THEN ac ELSE ImplInvert(ac)), LAMBDA k : k.var = "x"))

(***************************************************************************)
(* Known deviations of the current code (see known_findings.jsonl,         *)
(* proposed/C02-findings.jsonl): class keys printed as "dev:<key>"         *)
(***************************************************************************)
RECURSIVE CondMentions(_, _), CondHasKind(_, _), CondTestsParametrised(_), CondHasLenR(_, _)
CondHasLenR(c, op) == (c.kind = "lenr" /\ c.op = op) \/ \E i \in 1..Len(c.subs) : CondHasLenR(c.subs[i], op)
\* the condition is a TypeIs test against a parametrised generic / tuple shape
CondTestsParametrised(c) ==
    \/ c.kind = "typeis" /\ c.t.k \in {"generic", "seq"}
    \/ \E i \in 1..Len(c.subs) : CondTestsParametrised(c.subs[i])
CondHasKind(c, kinds) == c.kind \in kinds \/ \E i \in 1..Len(c.subs) : CondHasKind(c.subs[i], kinds)
\* the condition tests against class cls (isinstance / issubclass / TypeIs / class constraint)
CondMentions(c, cls) ==
    \/ c.kind \in {"isinstance", "issubclass", "c_isinstance", "m_class"} /\ \E i \in 1..Len(c.cls) : c.cls[i] = cls
    \/ c.kind = "typeis" /\ Mentions(c.t, cls)
    \/ \E i \in 1..Len(c.subs) : CondMentions(c.subs[i], cls)

\* The counterexamples of RefKeeps: objects clause N1 says must be kept but which are not in the narrowed type R
Lost(V, c, pol, R) ==
    {o \in NObjects : Member(o, V) /\ EqDomain(c, o) /\ HoldsCode(c, o) = B2C(pol) /\ ~Member(o, R)}

\* Each deviation class is stated on the LOST OBJECT, so that any other loss on the same (V, c) is still reported.
\* 1. numeric promotion: can_assign lets int pass for float / complex (and float for complex), the run-time isinstance()
\*    does not; a test involving float / complex therefore drops int-like objects from the branch they really take
Dev_NumericPromotion(V, c, o) ==
    \E cls \in {"float", "complex"} : Promotes(o.c, cls) /\ (Mentions(V, cls) \/ CondMentions(c, cls))
\* 2. Iterable has neither __bool__ nor __len__ and is classified "always true": the falsy branch of a truthiness
\*    test loses the empty iterables
Dev_AbcTruthiness(V, c, o) ==
    Dev_AbcAlwaysTrue(V) /\ CondHasKind(c, {"truthy", "boolcall"}) /\ IsInstance(o, "Iterable") /\ ~Truthy(o)
\* 3. an Enum instance type is accepted where Iterable is expected (the metaclass' __iter__, see C04): the negative
\*    branch of isinstance(x, Iterable) loses the enum members
Dev_EnumIterable(V, c, o) == IsEnumClass(o.c) /\ Mentions(V, o.c) /\ CondMentions(c, "Iterable")
\* 4. a fixed-shape tuple type accepts a variadic tuple[T, ...] (can_assign leniency): the negative branch of a TypeIs
\*    test against a fixed shape loses every tuple of another length
RECURSIVE CondTestsSeq(_)
CondTestsSeq(c) == (c.kind = "typeis" /\ HasSeq(c.t)) \/ \E i \in 1..Len(c.subs) : CondTestsSeq(c.subs[i])
Dev_VariadicTuple(V, c, o) == o.c = "tuple" /\ HasVariadic(V) /\ CondTestsSeq(c)

\* 5. issubclass(x, (C1, C2)) on a plain `type`: the special case that keeps `type` (= type[Any]) in the negative branch
\*    of issubclass(x, C) (predicates.py:34) does not recognise a union of type[...] patterns
RECURSIVE CondTestsSubclassTuple(_)
CondTestsSubclassTuple(c) == (c.kind = "issubclass" /\ Len(c.cls) > 1) \/ \E i \in 1..Len(c.subs) : CondTestsSubclassTuple(c.subs[i])
Dev_BareTypeIssubclassTuple(V, c, o) == o.c = "type" /\ Mentions(V, "type") /\ CondTestsSubclassTuple(c)

\* 6. is_overlapping (value.py:3381) is mutual assignability: a covariant Sequence[bool] / Iterable[Literal[1]] and the
\*    invariant list[int] are assignable in neither direction and therefore judged disjoint, although a list of bools
\*    inhabits both: the positive branch of the TypeIs test is emptied
Dev_InvariantOverlap(V, c, o) ==
    /\ o.c \in {"list", "set", "dict"} /\ o.items # << >> /\ CondTestsParametrised(c)
    /\ \E g \in {"Sequence", "Iterable", "Mapping"} : Mentions(V, g) /\ IsInstance(o, g)

\* 7. a length comparison with the literal on the left (`3 < len(x)`) keeps its operator although the operands are swapped
\*    (name_check_visitor.py:3575): it narrows as `len(x) < 3`, so both branches lose the sequences they really get
\*    REPAIRED in /repo by b856ea6: every real cfg has "len_reversed_mirrored" in NFixed, the class is empty; the old behaviour
\*    is kept by Narrowing.sens_lenr.cfg (NFixed without it), which TLC must reject
Dev_ReversedLenComparison(V, c, o) ==
    /\ "len_reversed_mirrored" \notin NFixed /\ HasLen(o)
    /\ \E op \in {"<", "<=", ">", ">="} : CondHasLenR(c, op)
DevClassOfLost(V, c, o) ==
    IF Dev_ReversedLenComparison(V, c, o) THEN "reversed-len-comparison-not-mirrored"
    ELSE IF Dev_NumericPromotion(V, c, o) THEN "numeric-promotion-lost-by-isinstance"
    ELSE IF Dev_AbcTruthiness(V, c, o) THEN "abc-without-bool-always-true"
    ELSE IF Dev_EnumIterable(V, c, o) THEN "enum-instance-narrowed-as-iterable"
    ELSE IF Dev_VariadicTuple(V, c, o) THEN "variadic-tuple-removed-by-fixed-shape-typeis"
    ELSE IF Dev_BareTypeIssubclassTuple(V, c, o) THEN "plain-type-removed-by-issubclass-tuple"
    ELSE IF Dev_InvariantOverlap(V, c, o) THEN "covariant-and-invariant-container-judged-disjoint"
    ELSE ""

\* Gradual typing, not a defect: a bare generic class (list = list[Any], tuple = tuple[Any, ...]) is consistent with
\* every parametrisation, so a TypeIs test against a parametrised type removes it from the negative branch
\* (the same leniency is excluded from C04's soundness clause)
RECURSIVE BareGenericClasses(_)
BareGenericClasses(T) ==
    CASE T.k = "typed" -> IF NParams(T.c) > 0 THEN {T.c} ELSE {}
      [] T.k = "union" -> UNION {BareGenericClasses(T.ms[i]) : i \in 1..Len(T.ms)}
      [] OTHER -> {}
\* ... and an empty container belongs to every parametrisation of its class, while different parametrisations of
\* an (invariant) container are treated as disjoint types: N1 does not ask a TypeIs test against a parametrised type
\* to keep the empty container
IsEmptyContainer(o) == o.c \in {"list", "tuple", "set", "dict"} /\ o.items = << >>
NLenient(V, c, o) == CondTestsParametrised(c) /\ (IsEmptyContainer(o) \/ \E g \in BareGenericClasses(V) : IsInstance(o, g))

\* verdict of clause N1 for one polarity given the narrowed type R: "ok", "dev:<class>" or "viol"
N1Verdict(V, c, pol, R) ==
    LET lost == {o \in Lost(V, c, pol, R) : ~NLenient(V, c, o)}
    IN IF lost = {} THEN "ok"
       ELSE IF \A o \in lost : DevClassOfLost(V, c, o) # "" THEN "dev:" \o DevClassOfLost(V, c, CHOOSE o \in lost : TRUE)
       ELSE "viol"

N1(V, c) == \A pol \in BOOLEAN : N1Verdict(V, c, pol, ImplNarrow(V, c, pol)) # "viol"
N1Strict(V, c) == \A pol \in BOOLEAN : N1Verdict(V, c, pol, ImplNarrow(V, c, pol)) = "ok"
N2(V, c) == \A pol \in BOOLEAN : RefNoWiden(V, c, ImplNarrow(V, c, pol))

(***************************************************************************)
(* Staged generator: V, then one condition                                  *)
(***************************************************************************)
CONSTANTS NVSpace,     \* "tiny" | "small" | "d1" | "d2": the set V ranges over
          NKinds,      \* condition kinds to generate
          NCompoundV   \* V space for compound conditions (not / and / or): "none" | "tiny" | "small" | "d1"

VARIABLE cnd
nvars == <<stage, ta, tb, ob, cnd>>

OptionalEtc == {Union(<<Typed("int"), Known(NONE)>>), Union(<<Known(RED), Known(GREEN)>>), Union(<<Typed("Color"), Known(NONE)>>),
                Union(<<Typed("int"), Typed("float")>>), Union(<<Known(BT), Known(BF)>>), Union(<<Typed("int"), Typed("str"), Known(NONE)>>),
                Union(<<SeqT("tuple", <<One(Typed("int"))>>), SeqT("tuple", <<One(Typed("str")), One(Typed("int"))>>)>>),
                Union(<<Typed("list"), Typed("tuple")>>), Union(<<SubclassT(Typed("int")), SubclassT(Typed("str"))>>),
                Union(<<Generic("list", <<Typed("int")>>), Known(NONE)>>), Typed("complex"), Generic("Iterable", <<Typed("int")>>),
                Known(F00), Known(I0), Known(BF), Known(SE),
                \* subjects of sequence patterns
                SeqT("tuple", <<One(Typed("int")), One(Typed("int")), One(Typed("int"))>>),
                Union(<<SeqT("tuple", <<One(Typed("int"))>>), SeqT("tuple", <<One(Typed("int")), One(Typed("int")), One(Typed("int"))>>)>>),
                Union(<<Generic("tuple", <<Typed("int")>>), SeqT("tuple", <<One(Typed("int")), One(Typed("str"))>>)>>),
                Union(<<SeqT("tuple", <<One(Typed("int")), One(Typed("str"))>>), Generic("list", <<Typed("int")>>)>>),
                Union(<<Generic("tuple", <<Typed("int")>>), Typed("str")>>), Generic("Sequence", <<Typed("int")>>), Typed("tuple"), Typed("list")}
TinySpace == {Typed("int"), Typed("float"), Typed("bool"), Typed("object"), Typed("Color"), Typed("Iterable"), Known(NONE), Known(I1),
              Known(SA), AnyT, Never, SeqT("tuple", <<One(Typed("int")), One(Typed("str"))>>), Generic("list", <<Typed("int")>>),
              SubclassT(Typed("A")), Union(<<Typed("int"), Known(NONE)>>), Union(<<Typed("int"), Typed("str")>>),
              Union(<<Known(RED), Known(GREEN)>>), Typed("A")}
SmallSpace == TinySpace \cup Small \cup OptionalEtc \cup SubclassTerms
              \cup {SeqT("tuple", << >>), SeqT("list", << >>), Generic("tuple", <<Typed("int")>>), SeqT("tuple", <<Many(Typed("int"))>>),
                    SeqT("tuple", <<One(Typed("int")), Many(Typed("str"))>>), NewType("N", "int"), Typed("Sequence"), Typed("str"),
                    Typed("type"), Generic("Sequence", <<Typed("bool")>>)}
\* MultiValuedValue flattens nested unions on construction and Union[X, X] is X: only flat unions of distinct members
FlatUnion(t) == t.k = "union" => /\ \A i \in 1..Len(t.ms) : t.ms[i].k # "union"
                                 /\ \A i, j \in 1..Len(t.ms) : i # j => t.ms[i] # t.ms[j]
VSpaceOf(name) ==
    CASE name = "none" -> {}
      [] name = "tiny" -> TinySpace
      [] name = "small" -> SmallSpace
      [] name = "d1" -> D1 \cup OptionalEtc
      [] name = "d2" -> D1 \cup OptionalEtc \cup {t \in D2Static : FlatUnion(t)}

IsinstPairs == {<<"int", "str">>, <<"str", "NoneType">>, <<"A", "int">>, <<"list", "tuple">>, <<"float", "int">>}
SubclsClasses == {"int", "bool", "str", "A", "B", "object"}
GuardTypes == {Typed("int"), Typed("str"), Typed("B"), Known(NONE), Union(<<Typed("int"), Typed("str")>>), Generic("list", <<Typed("int")>>),
               SeqT("tuple", <<One(Typed("int")), One(Typed("str"))>>), SubclassT(Typed("A"))}
IsLits == {NONE, RED, GREEN, BT, BF, ClassObj("int"), ClassObj("A")}
EqLits == {I0, I1, BT, BF, SA, SE, NONE, RED, F15}
InLits == {<<I0, I1>>, <<SA, SE>>, <<RED>>, <<RED, GREEN>>, <<I1, SA>>, <<NONE, I1>>, <<BT>>, << >>}
LenOps == {"==", "!=", "<", "<=", ">", ">="}
LegacyClasses == {"int", "bool", "float", "str", "A", "B", "object", "tuple", "list", "type"}
LegacyLits == {NONE, RED, BT, ClassObj("int"), ClassObj("B")}
\* operands of the compound conditions
CompoundAtoms == {CIsinstance(<<"int">>), CIsinstance(<<"str">>), CIsinstance(<<"tuple">>), CIsinstance(<<"float">>), CIs(NONE, FALSE),
                  CIs(RED, FALSE), CEq(I1, FALSE), CEq(SA, TRUE), CIn(<<I0, I1>>, FALSE), CBoolCall}
\* (len tests are not operands of and / or: len_transformer wraps the value in a MinLen / MaxLen annotation that the
\*  following predicates see through can_assign, and annotations are outside the term algebra)

NInit == stage = "v" /\ ta = Never /\ tb = Never /\ ob = NONE /\ cnd = CTruthy
Pick(c) == cnd' = c /\ stage' = "done" /\ UNCHANGED <<ta, tb, ob>>
AtomStage == TRUE
ChooseV == stage = "v" /\ \E t \in VSpaceOf(NVSpace) : ta' = t /\ stage' = "c" /\ UNCHANGED <<tb, ob, cnd>>
ChooseVCompound == stage = "v" /\ \E t \in VSpaceOf(NCompoundV) : ta' = t /\ stage' = "cc" /\ UNCHANGED <<tb, ob, cnd>>
InAtomSpace == stage = "c"
ChooseIsinstance == AtomStage /\ InAtomSpace /\ "isinstance" \in NKinds
                    /\ \E cs \in {<<c>> : c \in Classes} \cup IsinstPairs : Pick(CIsinstance(cs))
ChooseIssubclass == AtomStage /\ InAtomSpace /\ "issubclass" \in NKinds
                    /\ \E cs \in {<<c>> : c \in SubclsClasses} \cup {<<"int", "str">>} : Pick(CIssubclass(cs))
ChooseTypeIs == AtomStage /\ InAtomSpace /\ "typeis" \in NKinds /\ \E t \in GuardTypes : Pick(CTypeIs(t))
ChooseTypeGuard == AtomStage /\ InAtomSpace /\ "typeguard" \in NKinds
                   /\ \E t \in {Typed("int"), Union(<<Typed("int"), Typed("str")>>), Generic("list", <<Typed("int")>>)} : Pick(CTypeGuard(t))
ChooseIs == AtomStage /\ InAtomSpace /\ "is" \in NKinds /\ \E lit \in IsLits, neg \in BOOLEAN : Pick(CIs(lit, neg))
ChooseEq == AtomStage /\ InAtomSpace /\ "eq" \in NKinds /\ \E lit \in EqLits, neg \in BOOLEAN : Pick(CEq(lit, neg))
ChooseIn == AtomStage /\ InAtomSpace /\ "in" \in NKinds /\ \E lits \in InLits, neg \in BOOLEAN : Pick(CIn(lits, neg))
ChooseTruthy == AtomStage /\ InAtomSpace /\ "truthy" \in NKinds /\ \E c \in {CTruthy, CBoolCall} : Pick(c)
ChooseLen == AtomStage /\ InAtomSpace /\ "len" \in NKinds /\ \E op \in LenOps, n \in 0..2 : Pick(CLen(op, n))
ChooseLenR == AtomStage /\ InAtomSpace /\ "lenr" \in NKinds /\ \E op \in LenOps, n \in 0..2 : Pick(CLenR(op, n))
ChooseCmp == AtomStage /\ InAtomSpace /\ "cmp" \in NKinds /\ \E op \in {"<", "<=", ">", ">="}, lit \in {I0, I1} : Pick(CCmp(op, lit))
ChooseLegacyIsinstance == AtomStage /\ InAtomSpace /\ "c_isinstance" \in NKinds /\ \E c \in LegacyClasses : Pick(CLegacyIsinstance(c))
ChooseLegacyIsvalue == AtomStage /\ InAtomSpace /\ "c_isvalue" \in NKinds /\ \E lit \in LegacyLits : Pick(CLegacyIsvalue(lit))
InCompoundSpace == stage = "cc"
ChooseNot == AtomStage /\ InCompoundSpace /\ "not" \in NKinds /\ \E a \in CompoundAtoms \cup {CLen("==", 1), CLen("<", 2), CTruthy}
                                                                         \cup (IF "cmp" \in NKinds THEN {CCmp("<", I1), CCmp(">=", I1)} ELSE {}) : Pick(CNot(a))
ChooseAnd == AtomStage /\ InCompoundSpace /\ "and" \in NKinds /\ \E a \in CompoundAtoms, b \in CompoundAtoms : a # b /\ Pick(CAnd(a, b))
ChooseOr == AtomStage /\ InCompoundSpace /\ "or" \in NKinds /\ \E a \in CompoundAtoms, b \in CompoundAtoms : a # b /\ Pick(COr(a, b))
\* one level deeper: not (a and b), not (a or b), (a and b) or c  -- exercises invert / one_of / all_of
ChooseDeep == AtomStage /\ InCompoundSpace /\ "deep" \in NKinds
              /\ \E a \in CompoundAtoms, b \in CompoundAtoms : a # b
                    /\ \E c \in {CNot(CAnd(a, b)), CNot(COr(a, b)), COr(CAnd(a, b), CIs(NONE, FALSE)), CAnd(COr(a, b), CNot(CIs(NONE, FALSE)))} : Pick(c)

\* match statements: the subject is x, first case the pattern, second case `_` (the negative branch)
MatchAtoms == {CMatchValue(l) : l \in {I0, I1, SA, RED, F15}} \cup {CMatchSingleton(l) : l \in {NONE, BT, BF}}
              \cup {CMatchClass(c) : c \in {"int", "str", "bool", "float", "A", "B", "tuple", "list", "Color", "object"}}
MatchOrAtoms == {CMatchValue(I1), CMatchValue(SA), CMatchValue(RED), CMatchSingleton(NONE), CMatchSingleton(BT), CMatchClass("int"),
                 CMatchClass("str"), CMatchClass("tuple")}
ChooseMatch == AtomStage /\ InAtomSpace /\ "match" \in NKinds /\ \E c \in MatchAtoms : Pick(c)
SeqPatterns == {CMatchSeq(0, ""), CMatchSeq(1, ""), CMatchSeq(2, ""), CMatchSeq(3, ""), CMatchSeq(0, "0"), CMatchSeq(1, "0"),
                CMatchSeq(1, "1"), CMatchSeq(2, "1"), CMatchSeq(2, "0"), CMatchSeq(2, "2")}
ChooseMatchSeq == AtomStage /\ InAtomSpace /\ "matchseq" \in NKinds /\ \E c \in SeqPatterns : Pick(c)
ChooseMatchOr == AtomStage /\ InCompoundSpace /\ "match" \in NKinds /\ \E a \in MatchOrAtoms, b \in MatchOrAtoms : a # b /\ Pick(CMatchOr(a, b))

NNext == ChooseMatch \/ ChooseMatchSeq \/ ChooseMatchOr \/ ChooseV \/ ChooseVCompound \/ ChooseIsinstance \/ ChooseIssubclass \/ ChooseTypeIs \/ ChooseTypeGuard \/ ChooseIs \/ ChooseEq \/ ChooseIn
         \/ ChooseTruthy \/ ChooseLen \/ ChooseCmp \/ ChooseLenR \/ ChooseLegacyIsinstance \/ ChooseLegacyIsvalue \/ ChooseNot \/ ChooseAnd \/ ChooseOr \/ ChooseDeep

NDone == stage = "done"
InvN1 == NDone => N1(ta, cnd)
InvN2 == NDone => N2(ta, cnd)
InvN3 == stage = "c" => N3(ta)
\* strict versions: expected to be violated on the current code (documentation of the findings / self-test)
InvN1Strict == NDone => N1Strict(ta, cnd)
InvN3Strict == stage = "c" => N3Strict(ta)
\* the model is total: every narrowing produces a term of the algebra
InvNarrowTotal == NDone => \A pol \in BOOLEAN : ImplNarrow(ta, cnd, pol).k \in {"any", "known", "typed", "newtype", "generic", "seq", "subclass", "union"}
=============================================================================
